(* C28 — Stream decoding does not depend on how the reader delivers bytes.
   Only theorem statements here; each is closed by a lemma from
   Proofs/ReaderSplitProofs.v.  Model: Model/ReaderSplit.v (a reader is a script
   of responses (bytes, io.EOF-or-nil); [delivers sc d]: the script is a
   reader — io.EOF on its last response at most — whose bytes are d).
   The statements are about the reader of /repo afaa1e5 (e4074d6 normalising Read,
   8884bbf buffer growth, 40e3af2 validateTime with Model/CbeTime.v); the
   witnesses of the former defects are pinned in harness/cmd/vh/c28.go. *)
From CE Require Import Model.ReaderSplit Proofs.ReaderSplitProofs.
Open Scope N_scope.

(* The CBE entry points (NewCBEDecoder().Decode, UnmarshalCBE): whatever the
   script — any split, zero-length reads anywhere, the last data together with
   io.EOF — the decoder delivers the events and the error-or-not it delivers
   from memory; all documents, valid or not; every size limit. *)
Theorem C28_cbe_stream_eq_memory :
  forall maxdoc sc d, delivers sc d -> decode_stream maxdoc sc = decode_mem maxdoc d.
Proof. exact stream_eq_memory. Qed.
Print Assumptions C28_cbe_stream_eq_memory.

(* The CTE entry points (NewCTEDecoder().Decode, UnmarshalCTE): every reader
   hands the parser the same text as the in-memory entry point. *)
Theorem C28_cte_stream_eq_memory :
  forall (R : Type) (cte_parse : bytes -> outcome R) sc d,
    delivers sc d -> cte_stream cte_parse sc = cte_mem cte_parse d.
Proof. exact cte_stream_eq_memory. Qed.
Print Assumptions C28_cte_stream_eq_memory.

(* The full property for the universal entry points (NewCEDecoder().Decode,
   UnmarshalCE: bufio.Reader + Peek(1) + dispatch) ... *)
Definition C28_ce_full : Prop :=
  forall (R : Type) maxdoc (cte_parse : bytes -> outcome R) (cbe_build : result -> outcome R) sc d,
    delivers sc d ->
    ce_stream maxdoc cte_parse cbe_build sc = ce_mem maxdoc cte_parse cbe_build d.

(* ... holds for every reader with fewer than 100 zero-length reads, for CBE
   and CTE documents and for documents of neither format ... *)
Theorem C28_ce_stream_eq_memory_partial :
  forall (R : Type) maxdoc (cte_parse : bytes -> outcome R) (cbe_build : result -> outcome R) sc d,
    delivers sc d -> (script_zeros sc < 100)%nat ->
    ce_stream maxdoc cte_parse cbe_build sc = ce_mem maxdoc cte_parse cbe_build d.
Proof. exact ce_stream_eq_memory_partial. Qed.
Print Assumptions C28_ce_stream_eq_memory_partial.

(* ... and the bound is exact: bufio.Reader gives up (io.ErrNoProgress) after
   100 consecutive empty reads, so a reader that starts with 100 of them makes
   UnmarshalCE fail on a document that UnmarshalFromCEDocument decodes.  This is
   the standard library's documented limit, not a defect of /repo. *)
Theorem C28_ce_hundred_empty_reads_refuted :
  exists sc d, delivers sc d /\ (script_zeros sc = 100)%nat /\
    ce_stream 5368709120 (fun _ => Err) (fun r : result => Ok r) sc
    <> ce_mem 5368709120 (fun _ => Err) (fun r : result => Ok r) d.
Proof. exact ce_stream_zero_reads_refuted. Qed.
Print Assumptions C28_ce_hundred_empty_reads_refuted.

Theorem C28_ce_full_refuted : ~ C28_ce_full.
Proof. exact ce_full_refuted. Qed.
Print Assumptions C28_ce_full_refuted.

(* The model's fuel is never exhausted: SHang is not an outcome of any script
   (the loops of the reader and of the decoder terminate on every finite script). *)
Theorem C28_model_never_hangs :
  forall maxdoc sc, snd (decode_stream maxdoc sc) <> SHang.
Proof. exact stream_never_hangs. Qed.
Print Assumptions C28_model_never_hangs.

(* Non-vacuity: a document with a list, a 2-byte integer and a chunked string,
   delivered with zero-length reads in front, inside the integer and inside the
   chunk header, and the last bytes together with io.EOF: a reader of it with
   both awkward response kinds, decoded like from memory (11 events, no error). *)
Example C28_example :
  let d := [129; 0; 154; 106; 52; 18; 144; 5; 97; 98; 2; 99; 155] in
  let sc := [([], false); ([129], false); ([0; 154; 106], false); ([52], false); ([], false); ([], false);
             ([18; 144], false); ([], false); ([5; 97], false); ([98; 2; 99; 155], true)] in
  delivers sc d /\ has_zero_read sc = true /\ has_data_eof sc = true /\
  decode_stream 5368709120 sc = decode_mem 5368709120 d /\
  snd (decode_mem 5368709120 d) = SOk /\ length (fst (decode_mem 5368709120 d)) = 11%nat.
Proof. vm_compute. repeat split. Qed.

(* The witnesses of the repaired defects now agree with memory. *)
Example C28_former_witnesses :
  decode_stream 5368709120 [([129; 0; 1], true)] = decode_mem 5368709120 [129; 0; 1] /\
  decode_stream 5368709120 [([129; 0], false); ([], false); ([1], false)] = decode_mem 5368709120 [129; 0; 1] /\
  decode_stream 5368709120 [([], false); ([129], false); ([], false); ([0; 1], true)] = decode_mem 5368709120 [129; 0; 1] /\
  decode_stream 5368709120 [([129; 128], false); ([], false); ([128; 0; 154; 155], false)]
    = decode_mem 5368709120 [129; 128; 128; 0; 154; 155].
Proof. vm_compute. repeat split. Qed.

(* Times: 23:00:00 with zone E/Paris is delivered (area name expanded), hour 24 is
   rejected by validateTime, both alike from memory and from a reader that
   delivers one byte per call with an empty read in between and io.EOF with the last byte. *)
Example C28_example_time :
  let ok := [129; 0; 123; 1; 128; 251; 14; 69; 47; 80; 97; 114; 105; 115] in
  let bad := [129; 0; 123; 0; 0; 252] in
  let split := fix split (d : bytes) : script :=
    match d with [] => [] | [x] => [([x], true)] | x :: r => ([x], false) :: ([], false) :: split r end in
  snd (decode_mem 5368709120 ok) = SOk /\ length (fst (decode_mem 5368709120 ok)) = 4%nat /\
  decode_stream 5368709120 (split ok) = decode_mem 5368709120 ok /\
  snd (decode_mem 5368709120 bad) = SErr /\
  decode_stream 5368709120 (split bad) = decode_mem 5368709120 bad.
Proof. vm_compute. repeat split. Qed.

(* Non-vacuity of the CTE statement: a reader with a zero-length read and data+EOF. *)
Example C28_example_cte :
  delivers [([99; 48], false); ([], false); ([32; 49], true)] [99; 48; 32; 49] /\
  cte_stream (fun d => Ok d) [([99; 48], false); ([], false); ([32; 49], true)] = Ok [99; 48; 32; 49].
Proof. vm_compute. repeat split. Qed.
