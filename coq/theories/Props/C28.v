(* C28 — Stream decoding does not depend on how the reader delivers bytes.
   Only theorem statements here; each is closed by a lemma from
   Proofs/ReaderSplitProofs.v.  Model: Model/ReaderSplit.v (a reader is a script
   of responses (bytes, io.EOF-or-nil); [delivers sc d]: the script is a
   reader — io.EOF on its last response at most — whose bytes are d). *)
From CE Require Import Model.ReaderSplit Proofs.ReaderSplitProofs.
Open Scope N_scope.

(* The property for the CBE entry points (NewCBEDecoder().Decode, UnmarshalCBE):
   whatever the script, the decoder delivers the events and the error-or-not
   it delivers from memory. *)
Definition C28_full : Prop :=
  forall maxdoc sc d, delivers sc d -> decode_stream maxdoc sc = decode_mem maxdoc d.

(* The code violates it: [81 00 01] delivered in one response together with
   io.EOF loses the object (ReadTypeOrEOF takes any error for the end) ... *)
Theorem C28_full_refuted : ~ C28_full.
Proof. exact stream_eq_memory_refuted. Qed.
Print Assumptions C28_full_refuted.

(* ... defect class 1: a response carrying data together with io.EOF (no zero-length read involved) *)
Theorem C28_data_with_eof_refuted :
  exists maxdoc sc d, delivers sc d /\ has_zero_read sc = false /\
    decode_stream maxdoc sc <> decode_mem maxdoc d.
Proof. exact stream_eq_memory_refuted_data_eof. Qed.
Print Assumptions C28_data_with_eof_refuted.

(* ... defect class 2: a (0, nil) response (no data+EOF involved): a stale byte is decoded *)
Theorem C28_zero_length_read_refuted :
  exists maxdoc sc d, delivers sc d /\ has_data_eof sc = false /\
    decode_stream maxdoc sc <> decode_mem maxdoc d.
Proof. exact stream_eq_memory_refuted_zero_read. Qed.
Print Assumptions C28_zero_length_read_refuted.

(* The property holds on the scripts that exclude exactly these two classes:
   responses of k>0 bytes without error, optionally one final (0, io.EOF) —
   every split of the document, one byte per call included; all documents,
   valid or not; every size limit. *)
Theorem C28_cbe_stream_eq_memory_partial :
  forall maxdoc sc d, delivers sc d -> good_script sc = true ->
    decode_stream maxdoc sc = decode_mem maxdoc d.
Proof. exact stream_eq_memory_partial. Qed.
Print Assumptions C28_cbe_stream_eq_memory_partial.

(* What [good_script] leaves out is nothing but the two defect classes. *)
Theorem C28_good_script_excludes :
  forall sc, good_script sc = true -> has_zero_read sc = false /\ has_data_eof sc = false.
Proof. exact good_excludes. Qed.
Print Assumptions C28_good_script_excludes.

(* The CTE entry points (NewCTEDecoder().Decode, UnmarshalCTE) satisfy the
   property in full: every reader, zero-length reads and data+EOF included,
   hands the parser the same text as the in-memory entry point. *)
Theorem C28_cte_stream_eq_memory :
  forall (R : Type) (cte_parse : bytes -> outcome R) sc d,
    delivers sc d -> cte_stream cte_parse sc = cte_mem cte_parse d.
Proof. exact cte_stream_eq_memory. Qed.
Print Assumptions C28_cte_stream_eq_memory.

(* The universal entry points (NewCEDecoder().Decode, UnmarshalCE: bufio +
   Peek + dispatch) on the same script class, for CBE and CTE documents and
   for documents of neither format. *)
Theorem C28_ce_stream_eq_memory_partial :
  forall (R : Type) maxdoc (cte_parse : bytes -> outcome R) (cbe_build : result -> outcome R) sc d,
    delivers sc d -> good_script sc = true ->
    ce_stream maxdoc cte_parse cbe_build sc = ce_mem maxdoc cte_parse cbe_build d.
Proof. exact ce_stream_eq_memory_partial. Qed.
Print Assumptions C28_ce_stream_eq_memory_partial.

(* The model's fuel is never exhausted: SHang is not an outcome of any script
   (the loops of the reader and of the decoder terminate on every finite script). *)
Theorem C28_model_never_hangs :
  forall maxdoc sc, snd (decode_stream maxdoc sc) <> SHang.
Proof. exact stream_never_hangs. Qed.
Print Assumptions C28_model_never_hangs.

(* Non-vacuity: a document with a list, a 2-byte integer and a chunked string,
   split into five responses and a final (0, io.EOF), is a good reader of it,
   and the decoder delivers 11 events without error. *)
Example C28_example_good :
  let d := [129; 0; 154; 106; 52; 18; 144; 5; 97; 98; 2; 99; 155] in
  let sc := [([129], false); ([0; 154; 106], false); ([52], false); ([18; 144; 5; 97], false);
             ([98; 2; 99; 155], false); ([], true)] in
  delivers sc d /\ good_script sc = true /\
  decode_stream 5368709120 sc = decode_mem 5368709120 d /\
  snd (decode_mem 5368709120 d) = SOk /\ length (fst (decode_mem 5368709120 d)) = 11%nat.
Proof. vm_compute. repeat split. Qed.

(* Non-vacuity of the CTE statement: a reader with a zero-length read and data+EOF. *)
Example C28_example_cte :
  delivers [([99; 48], false); ([], false); ([32; 49], true)] [99; 48; 32; 49] /\
  cte_stream (fun d => Ok d) [([99; 48], false); ([], false); ([32; 49], true)] = Ok [99; 48; 32; 49].
Proof. vm_compute. repeat split. Qed.
