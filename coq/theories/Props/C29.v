(* C29 — I/O failures are always reported.
   Only theorem statements here; each is closed by a lemma from Proofs/IoFailProofs.v.

   Vocabulary (Model/IoFail.v).  The destination writer and the source reader are
   ARBITRARY state machines (W, wstep) / (S, step); an encoder is any list of
   events, each a list of writes; the CBE decoder above the reader primitives is
   any deterministic program (D, dnext, dfeed, dfinal); the CTE parser is any
   predicate.  [sh] is the error handling at the I/O call sites as extracted from
   the sources by the harness; [all_checked_but_uleb sh] is what the extraction
   of the current sources satisfies (a ShapeCase of every run compares it with
   [current_shape]).  A run returns the trace of the calls that reached the
   destination / source; "the writer / reader failed at some point" is
   [Exists wfailed trace] / [Exists hard trace].  Outcome [Hang] only arises when
   the model's fuel runs out (or a reader answers (0, nil) for ever). *)
From CE Require Import Model.IoFail Proofs.IoFailProofs.
Open Scope N_scope.

(* ------------------------------------------------------------------------- *)
(* Write side: holds in full. *)

(* Marshaler.Marshal / MarshalCBE / MarshalCTE: the destination failed at some
   call  ->  the error is returned (never success, never an escaping panic);
   and without a failed call the marshal succeeds. *)
Theorem C29_write_failure_reported :
  forall (W : Type) (wstep : W -> wcall -> W * bool) (sh : shape) (f : wfmt) (sw : bool) (w0 : W)
         (evs : list (list lwrite)) st' o,
    all_checked_but_uleb sh = true ->
    marshal W wstep sh f sw false {| ws_w := w0; ws_tr := [] |} evs = (st', o) ->
    (Exists wfailed (ws_tr st') -> o = Err) /\ (Forall wclean (ws_tr st') -> o = Ok tt).
Proof. exact write_marshal_reported. Qed.
Print Assumptions C29_write_failure_reported.

(* Encoder event API (no error results, no recover): the failed write makes the
   panic leave an event call; the stream is never accepted to its end. *)
Theorem C29_encoder_failure_reported :
  forall (W : Type) (wstep : W -> wcall -> W * bool) (sh : shape) (f : wfmt) (sw : bool) (w0 : W)
         (evs : list (list lwrite)) st' o,
    all_checked_but_uleb sh = true ->
    feed_events W wstep sh f sw {| ws_w := w0; ws_tr := [] |} evs 0 = (st', o) ->
    (Exists wfailed (ws_tr st') -> exists i, o = EncPanicAt i /\ i < N.of_nat (length evs)) /\
    (Forall wclean (ws_tr st') -> o = EncDone).
Proof. exact write_encoder_reported. Qed.
Print Assumptions C29_encoder_failure_reported.

(* The schedule form of the design note: a destination that fails its k-th call,
   for every k below the number of writes the encoder issues. *)
Theorem C29_write_failure_at_every_index :
  forall (sh : shape) (f : wfmt) (sw : bool) (sc : wsched) (k : N) (evs : list (list lwrite)),
    all_checked_but_uleb sh = true ->
    mem_N k (wsc_calls sc) = true -> k < total_writes evs ->
    snd (marshal wdest (sched_wstep sc) sh f sw false {| ws_w := wdest0; ws_tr := [] |} evs) = Err.
Proof. exact write_failure_schedule_reported. Qed.
Print Assumptions C29_write_failure_at_every_index.

(* ------------------------------------------------------------------------- *)
(* Read side. *)

(* UnmarshalCBE / cbe Unmarshaler.Unmarshal / cbe Decoder.Decode on the caller's
   reader: EVERY reader (data together with the error, transient or not).  All
   reads go through Reader.Read, which remembers an error that arrives with data
   and reports it at the next call (fix e4074d6); the decoder only stops at EOF.
   ([Hang]: the model's fuel ran out before the next Read.) *)
Theorem C29_read_cbe_failure_reported :
  forall (S : Type) (step : S -> N -> S * rres) (sh : shape) (D : Type) (dnext : D -> action)
         (dfeed : D -> bytes -> D) (dfinal : D -> bool) (unm : bool) (fuel : nat) (s0 : S) (d : D) u' o,
    all_checked_but_uleb sh = true ->
    cbe_entry S step sh D dnext dfeed dfinal unm false fuel (rd0 s0) d = (u', o) ->
    Exists hard (rs_tr u') -> o <> Ok tt /\ o <> Panic.
Proof. exact read_cbe_full. Qed.
Print Assumptions C29_read_cbe_failure_reported.

(* UnmarshalCTE / cte Unmarshaler.Unmarshal / cte Decoder.Decode on the caller's reader (io.Copy): every reader. *)
Theorem C29_read_cte_failure_reported :
  forall (S : Type) (step : S -> N -> S * rres) (sh : shape) (parse : bytes -> bool)
         (unm : bool) (fuel : nat) (s0 : S) st' o,
    all_checked_but_uleb sh = true ->
    (if unm then cte_unmarshal S step sh parse false fuel (rd0 s0)
     else cte_decode S step sh parse false fuel (rd0 s0)) = (st', o) ->
    Exists hard (rs_tr st') -> o = Err.
Proof. exact read_cte_full. Qed.
Print Assumptions C29_read_cte_failure_reported.

(* UnmarshalCE / universal Decode on a CBE document (bufio.Reader.Read below
   Reader.Read): every reader. *)
Theorem C29_read_universal_cbe_failure_reported :
  forall (S : Type) (step : S -> N -> S * rres) (sh : shape) (D : Type) (dnext : D -> action)
         (dfeed : D -> bytes -> D) (dfinal : D -> bool) (parse : bytes -> bool)
         (unm : bool) (fuel : nat) (s0 : S) (d : D) (x : N) u' o,
    all_checked_but_uleb sh = true ->
    first_byte S step s0 = Some x -> choose x = UCbe ->
    universal S step sh D dnext dfeed dfinal parse unm false fuel (rd0 s0) d = (u', o) ->
    Exists hard (rs_tr u') -> o <> Ok tt /\ o <> Panic.
Proof. exact read_universal_cbe. Qed.
Print Assumptions C29_read_universal_cbe_failure_reported.

(* ------------------------------------------------------------------------- *)
(* The one place where the full property fails for the current sources:
   UnmarshalCE / universal Decode on a CTE document. *)

Definition C29_full : Prop := read_universal_full_stmt.

(* Defect (bufio.Reader.WriteTo under io.Copy in cte Decode, reached only from
   UnmarshalCE / universal Decode): fill() is called with an error pending and a
   later io.EOF overwrites it.  Witness: document "c0 1", first Read returns
   (4, err): UnmarshalCE returns success. *)
Theorem C29_read_universal_full_refuted : ~ C29_full.
Proof. exact read_universal_full_refuted. Qed.
Print Assumptions C29_read_universal_full_refuted.

(* What holds there: readers that never return data together with a non-EOF
   error ([clean_source]); CBE documents need no such assumption (above). *)
Theorem C29_read_universal_partial :
  forall (S : Type) (step : S -> N -> S * rres) (sh : shape) (D : Type) (dnext : D -> action)
         (dfeed : D -> bytes -> D) (dfinal : D -> bool) (parse : bytes -> bool)
         (unm : bool) (fuel : nat) (s0 : S) (d : D) u' o,
    all_checked_but_uleb sh = true ->
    clean_source S step ->
    universal S step sh D dnext dfeed dfinal parse unm false fuel (rd0 s0) d = (u', o) ->
    Exists hard (rs_tr u') -> o <> Ok tt /\ o <> Panic.
Proof. exact read_universal_clean. Qed.
Print Assumptions C29_read_universal_partial.

(* ------------------------------------------------------------------------- *)
(* Non-vacuity, and the pinned witnesses of the two repaired defects *)

(* the hypothesis on the shape is what the current sources give *)
Example C29_shape_hypothesis_holds : all_checked_but_uleb current_shape = true.
Proof. vm_compute. reflexivity. Qed.

(* and it is needed: with one unchecked write site a failure is swallowed *)
Example C29_unchecked_site_swallows :
  snd (marshal wdest (sched_wstep {| wsc_calls := [0]; wsc_limit := None; wsc_sticky := false |}) bad_shape WFcbe false false
         {| ws_w := wdest0; ws_tr := [] |} [[{| lw_site := LBytes; lw_len := 1 |}]]) = Ok tt.
Proof. exact unchecked_site_witness. Qed.

(* a marshal with three events, failing at its third call; the same without failure; the encoder API after 6 bytes *)
Example C29_write_example :
  let evs := [[{| lw_site := LBytes; lw_len := 1 |}]; [{| lw_site := LBytes; lw_len := 1 |}];
              [{| lw_site := LStringNotLF; lw_len := 5 |}; {| lw_site := LBytes; lw_len := 2 |}]] in
  wmodel WMarshal WFcbe true false evs {| wsc_calls := [2]; wsc_limit := None; wsc_sticky := false |}
  = ([{| we_call := {| wc_kind := KWrite; wc_len := 1 |}; we_site := WCbeBytes; we_failed := false |};
      {| we_call := {| wc_kind := KWrite; wc_len := 1 |}; we_site := WCbeBytes; we_failed := false |};
      {| we_call := {| wc_kind := KWriteString; wc_len := 5 |}; we_site := WCbeString; we_failed := true |}], OErr)
  /\ snd (wmodel WMarshal WFcbe true false evs no_wsched) = OOk
  /\ snd (wmodel WEncoder WFcbe false false evs {| wsc_calls := []; wsc_limit := Some 6; wsc_sticky := false |}) = OPanicAt 2.
Proof. vm_compute. repeat split. Qed.

(* a 40-byte string that reaches a plain io.Writer in two pieces (a scratch buffer of 32 bytes): a transient failure of
   the first piece is reported and the second piece is never written; and what the correspondence run compares: a
   destination call issued from a place that is none of the write sites of the shape never agrees with the model *)
Example C29_string_in_pieces :
  let evs := [[{| lw_site := LBytes; lw_len := 2 |}; {| lw_site := LStringNotLF; lw_len := 32 |}; {| lw_site := LStringNotLF; lw_len := 8 |}]] in
  let fail1 := {| wsc_calls := [1]; wsc_limit := None; wsc_sticky := false |} in
  let call k n := {| wc_kind := k; wc_len := n |} in
  snd (wmodel WMarshal WFcbe false false evs fail1) = OErr
  /\ length (fst (wmodel WMarshal WFcbe false false evs fail1)) = 2%nat
  /\ iofail_case_ok (WriteCase WMarshal WFcbe false false evs
                       [(WCbeBytes, call KWrite 2); (WCbeBytes, call KWrite 32); (WCbeBytes, call KWrite 8)]
                       [(fail1, {| o_out := OErr; o_calls := 2 |})]) = true
  /\ iofail_case_ok (WriteCase WMarshal WFcbe false false evs
                       [(WCbeBytes, call KWrite 2); (SUnknown, call KWrite 32); (SUnknown, call KWrite 8)]
                       [(fail1, {| o_out := OErr; o_calls := 2 |})]) = false
  /\ iofail_case_ok (WriteCase WMarshal WFcbe false false evs
                       [(WCbeBytes, call KWrite 2); (WCbeBytes, call KWrite 32); (WCbeBytes, call KWrite 8)]
                       [(fail1, {| o_out := OOk; o_calls := 3 |})]) = false.
Proof. vm_compute. repeat split. Qed.

(* formerly C29/read/cbe/swallowed/RUlebCont/data-with-error-transient: document 81 80 80 00 01, the third Read
   returns (1, err) and later Reads would succeed — now reported, after exactly three calls on the reader *)
Example C29_pinned_uleb_data_with_error :
  forall unm : bool,
  rmodel (if unm then RECbeUnmarshal else RECbeDecode) false wit_cbe_doc wit_cbe_script true (wit_sched 2)
  = ([{| re_site := RCbeRead; re_len := 1; re_res := {| rr_data := [129]; rr_err := ENone |} |};
      {| re_site := RCbeRead; re_len := 1; re_res := {| rr_data := [128]; rr_err := ENone |} |};
      {| re_site := RCbeRead; re_len := 1; re_res := {| rr_data := [128]; rr_err := EFail |} |}], OErr).
Proof. exact cbe_data_with_error_witness. Qed.

(* formerly C29/read/cbe/hang-after-failure/artificial-termination: document 81 00 97 01 02 03 failing at call 3 *)
Example C29_pinned_edge_failure_returns :
  snd (rmodel RECbeUnmarshal false wit_edge_doc wit_edge_script true
         {| rsc_chunk := 0; rsc_faults := [{| f_call := 3; f_dirty := false |}]; rsc_sticky := false |}) = OErr.
Proof. exact cbe_edge_witness. Qed.

(* the scheduled reader without data-with-error faults is a clean source *)
Example C29_clean_source_exists :
  clean_source rsrc (sched_rstep {| rsc_chunk := 1; rsc_faults := [{| f_call := 3; f_dirty := false |}]; rsc_sticky := true |}).
Proof.
  intros s n s' r H He. unfold sched_rstep in H. cbn [rsc_sticky rsc_faults rsc_chunk] in H.
  destruct (true && r_failed s); [inversion H; subst; reflexivity|].
  cbn [find_fault f_call] in H. destruct (3 =? r_calls s).
  - cbn [f_dirty] in H. inversion H; subst. reflexivity.
  - destruct (r_data s); [inversion H; subst; discriminate|].
    destruct (take_n _ _). inversion H; subst. discriminate.
Qed.

(* PassThroughPanics (a debugging switch) lets the panic out on purpose: the theorems are for pass = false *)
Example C29_pass_through_panics :
  snd (rmodel RECbeDecode true wit_cbe_doc wit_cbe_script true
         {| rsc_chunk := 0; rsc_faults := [{| f_call := 1; f_dirty := false |}]; rsc_sticky := false |}) = OPanic.
Proof. exact pass_through_witness. Qed.
