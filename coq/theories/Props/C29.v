(* C29 — I/O failures are always reported.
   Only theorem statements here; each is closed by a lemma from Proofs/IoFailProofs.v.

   Vocabulary (Model/IoFail.v).  The destination writer and the source reader are
   ARBITRARY state machines (W, wstep) / (S, step); an encoder is any list of
   events, each a list of writes; the CBE decoder above the reader primitives is
   any deterministic program (D, dnext, dfeed, dfinal); the CTE parser is any
   predicate.  [sh] is the error handling at the I/O call sites as extracted from
   the sources by the harness; [all_checked_but_uleb sh] is what the extraction
   of the current sources satisfies (a ShapeCase of every run compares it with
   [current_shape]).  A run returns the trace of the calls that reached the
   destination / source; "the writer / reader failed at some point" is
   [Exists wfailed trace] / [Exists hard trace].  Outcome [Hang] only arises when
   the model's fuel runs out, or from the Unmarshal epilogue (see below). *)
From CE Require Import Model.IoFail Proofs.IoFailProofs.
Open Scope N_scope.

(* ------------------------------------------------------------------------- *)
(* Write side: holds in full. *)

(* Marshaler.Marshal / MarshalCBE / MarshalCTE: the destination failed at some
   call  ->  the error is returned (never success, never an escaping panic);
   and without a failed call the marshal succeeds. *)
Theorem C29_write_failure_reported :
  forall (W : Type) (wstep : W -> wcall -> W * bool) (sh : shape) (f : wfmt) (sw : bool) (w0 : W)
         (evs : list (list lwrite)) st' o,
    all_checked_but_uleb sh = true ->
    marshal W wstep sh f sw false {| ws_w := w0; ws_tr := [] |} evs = (st', o) ->
    (Exists wfailed (ws_tr st') -> o = Err) /\ (Forall wclean (ws_tr st') -> o = Ok tt).
Proof. exact write_marshal_reported. Qed.
Print Assumptions C29_write_failure_reported.

(* Encoder event API (no error results, no recover): the failed write makes the
   panic leave an event call; the stream is never accepted to its end. *)
Theorem C29_encoder_failure_reported :
  forall (W : Type) (wstep : W -> wcall -> W * bool) (sh : shape) (f : wfmt) (sw : bool) (w0 : W)
         (evs : list (list lwrite)) st' o,
    all_checked_but_uleb sh = true ->
    feed_events W wstep sh f sw {| ws_w := w0; ws_tr := [] |} evs 0 = (st', o) ->
    (Exists wfailed (ws_tr st') -> exists i, o = EncPanicAt i /\ i < N.of_nat (length evs)) /\
    (Forall wclean (ws_tr st') -> o = EncDone).
Proof. exact write_encoder_reported. Qed.
Print Assumptions C29_encoder_failure_reported.

(* The schedule form of the design note: a destination that fails its k-th call,
   for every k below the number of writes the encoder issues. *)
Theorem C29_write_failure_at_every_index :
  forall (sh : shape) (f : wfmt) (sw : bool) (sc : wsched) (k : N) (evs : list (list lwrite)),
    all_checked_but_uleb sh = true ->
    mem_N k (wsc_calls sc) = true -> k < total_writes evs ->
    snd (marshal wdest (sched_wstep sc) sh f sw false {| ws_w := wdest0; ws_tr := [] |} evs) = Err.
Proof. exact write_failure_schedule_reported. Qed.
Print Assumptions C29_write_failure_at_every_index.

(* ------------------------------------------------------------------------- *)
(* Read side, parts that hold in full. *)

(* UnmarshalCTE / cte Decoder.Decode on the caller's reader (io.Copy). *)
Theorem C29_read_cte_failure_reported :
  forall (S : Type) (step : S -> N -> S * rres) (sh : shape) (parse : bytes -> bool)
         (unm : bool) (fuel : nat) (s0 : S) st' o,
    all_checked_but_uleb sh = true ->
    (if unm then cte_unmarshal S step sh parse true false fuel (rd0 s0)
     else cte_decode S step sh parse false fuel (rd0 s0)) = (st', o) ->
    Exists hard (rs_tr st') -> o = Err.
Proof. exact read_cte_full. Qed.
Print Assumptions C29_read_cte_failure_reported.

(* UnmarshalCE / universal Decode on a CBE document (the decoder reads through
   bufio.Reader.Read, which never hands data and error over together): every
   reader.  ([Hang]: the model's fuel ran out before the buffered bytes were
   consumed.) *)
Theorem C29_read_universal_cbe_failure_reported :
  forall (S : Type) (step : S -> N -> S * rres) (sh : shape) (D : Type) (dnext : D -> action)
         (dfeed : D -> bytes -> D) (dfinal : D -> bool) (parse : bytes -> bool)
         (unm : bool) (fuel : nat) (s0 : S) (d : D) (x : N) u' o,
    all_checked_but_uleb sh = true ->
    first_byte S step s0 = Some x -> choose x = UCbe ->
    universal S step sh D dnext dfeed dfinal parse unm true false fuel (rd0 s0) d = (u', o) ->
    Exists hard (rs_tr u') -> o <> Ok tt /\ o <> Panic.
Proof. exact read_universal_cbe. Qed.
Print Assumptions C29_read_universal_cbe_failure_reported.

(* The design note's theorem: if EVERY site is Checked (which the extraction of
   the current sources does not give: the ULEB128 continuation read is Weak),
   the CBE entry points report every failure of every reader. *)
Theorem C29_read_cbe_failure_reported_if_all_checked :
  forall (S : Type) (step : S -> N -> S * rres) (sh : shape) (D : Type) (dnext : D -> action)
         (dfeed : D -> bytes -> D) (dfinal : D -> bool) (unm : bool) (fuel : nat) (s0 : S) (d : D) st' o,
    all_checked sh = true ->
    (if unm then cbe_unmarshal S step sh D dnext dfeed dfinal true false fuel (rd0 s0) d
     else cbe_decode S step sh D dnext dfeed dfinal false fuel (rd0 s0) d) = (st', o) ->
    Exists hard (rs_tr st') -> o = Err.
Proof. exact read_cbe_full_if_checked. Qed.
Print Assumptions C29_read_cbe_failure_reported_if_all_checked.

(* ------------------------------------------------------------------------- *)
(* The full property on the read side for the current sources, and where it fails. *)

Definition C29_full : Prop :=
  (* UnmarshalCBE / cbe Decode on the caller's reader *)
  read_cbe_full_stmt /\
  (* UnmarshalCE / universal Decode, any document *)
  read_universal_full_stmt /\
  (* Unmarshal returns the error whatever state the builder is in *)
  unmarshal_returns_stmt.

(* Defect 1 (go-uleb128 DecodeWithByteBuffer): a Read that returns a ULEB128
   continuation byte TOGETHER WITH an error, followed by a successful Read, has
   its error overwritten.  Witness: document 81 80 80 00 01, third Read returns
   (1, err): cbe Decode returns success. *)
Theorem C29_read_cbe_full_refuted : ~ read_cbe_full_stmt.
Proof. exact read_cbe_full_refuted. Qed.
Print Assumptions C29_read_cbe_full_refuted.

(* Defect 2 (bufio.Reader.WriteTo under io.Copy in cte Decode, reached from
   UnmarshalCE / universal Decode): fill() is called with an error pending and a
   later io.EOF overwrites it.  Witness: document "c0 1", first Read returns
   (4, err): UnmarshalCE returns success. *)
Theorem C29_read_universal_full_refuted : ~ read_universal_full_stmt.
Proof. exact read_universal_full_refuted. Qed.
Print Assumptions C29_read_universal_full_refuted.

(* Defect 3 (builder ArtificiallyTerminate, run by Unmarshal before it returns
   the decoder's error): when that epilogue does not return, neither does the
   error. *)
Theorem C29_unmarshal_returns_refuted : ~ unmarshal_returns_stmt.
Proof. exact unmarshal_returns_refuted. Qed.
Print Assumptions C29_unmarshal_returns_refuted.

Theorem C29_full_refuted : ~ C29_full.
Proof. exact full_refuted. Qed.
Print Assumptions C29_full_refuted.

(* What holds for the current sources.  Excluded are exactly: (1) [fatal] leaves
   out a failure that arrives together with data at the ULEB128 continuation
   read; (2) [clean_source]: readers that never return data together with a
   non-EOF error (for CTE documents through the universal entry points; CBE
   documents need no such assumption, see above); (3) onerr = true: the
   Unmarshal epilogue returns. *)
Theorem C29_read_cbe_partial :
  forall (S : Type) (step : S -> N -> S * rres) (sh : shape) (D : Type) (dnext : D -> action)
         (dfeed : D -> bytes -> D) (dfinal : D -> bool) (unm : bool) (fuel : nat) (s0 : S) (d : D) st' o,
    all_checked_but_uleb sh = true ->
    (if unm then cbe_unmarshal S step sh D dnext dfeed dfinal true false fuel (rd0 s0) d
     else cbe_decode S step sh D dnext dfeed dfinal false fuel (rd0 s0) d) = (st', o) ->
    Exists fatal (rs_tr st') -> o = Err.
Proof. exact read_cbe_partial. Qed.
Print Assumptions C29_read_cbe_partial.

Theorem C29_read_universal_partial :
  forall (S : Type) (step : S -> N -> S * rres) (sh : shape) (D : Type) (dnext : D -> action)
         (dfeed : D -> bytes -> D) (dfinal : D -> bool) (parse : bytes -> bool)
         (unm : bool) (fuel : nat) (s0 : S) (d : D) u' o,
    all_checked_but_uleb sh = true ->
    clean_source S step ->
    universal S step sh D dnext dfeed dfinal parse unm true false fuel (rd0 s0) d = (u', o) ->
    Exists hard (rs_tr u') -> o <> Ok tt /\ o <> Panic.
Proof. exact read_universal_clean. Qed.
Print Assumptions C29_read_universal_partial.

(* ------------------------------------------------------------------------- *)
(* Non-vacuity *)

(* the hypothesis on the shape is what the current sources give *)
Example C29_shape_hypothesis_holds : all_checked_but_uleb current_shape = true /\ all_checked current_shape = false.
Proof. vm_compute. split; reflexivity. Qed.

(* and it is needed: with one unchecked write site a failure is swallowed *)
Example C29_unchecked_site_swallows :
  snd (marshal wdest (sched_wstep {| wsc_calls := [0]; wsc_limit := None; wsc_sticky := false |}) bad_shape WFcbe false false
         {| ws_w := wdest0; ws_tr := [] |} [[{| lw_site := LBytes; lw_len := 1 |}]]) = Ok tt.
Proof. exact unchecked_site_witness. Qed.

(* a marshal with three events, failing at its third call; the same without failure *)
Example C29_write_example :
  let evs := [[{| lw_site := LBytes; lw_len := 1 |}]; [{| lw_site := LBytes; lw_len := 1 |}];
              [{| lw_site := LStringNotLF; lw_len := 5 |}; {| lw_site := LBytes; lw_len := 2 |}]] in
  wmodel WMarshal WFcbe true false evs {| wsc_calls := [2]; wsc_limit := None; wsc_sticky := false |}
  = ([{| we_call := {| wc_kind := KWrite; wc_len := 1 |}; we_site := WCbeBytes; we_failed := false |};
      {| we_call := {| wc_kind := KWrite; wc_len := 1 |}; we_site := WCbeBytes; we_failed := false |};
      {| we_call := {| wc_kind := KWriteString; wc_len := 5 |}; we_site := WCbeString; we_failed := true |}], OErr)
  /\ snd (wmodel WMarshal WFcbe true false evs no_wsched) = OOk
  /\ snd (wmodel WEncoder WFcbe false false evs {| wsc_calls := []; wsc_limit := Some 6; wsc_sticky := false |}) = OPanicAt 2.
Proof. vm_compute. repeat split. Qed.

(* a CBE decode (document 81 00 01) failing cleanly at its second Read: reported; the trace has the fatal event *)
Example C29_read_example :
  let '(st, o) := cbe_decode rsrc (sched_rstep {| rsc_chunk := 0; rsc_faults := [{| f_call := 1; f_dirty := false |}]; rsc_sticky := false |})
                    current_shape (list prim) script_next script_feed (fun _ => true) false 100
                    (rd0 (rsrc0 [129; 0; 1])) [PUint8; PUleb; PTypeOrEOF; PTypeOrEOF] in
  o = Err /\ Exists fatal (rs_tr st).
Proof. vm_compute. split; [reflexivity|]. left. split; [reflexivity|]. intros [H _]. discriminate. Qed.

(* the scheduled reader without dirty faults is a clean source *)
Example C29_clean_source_exists :
  clean_source rsrc (sched_rstep {| rsc_chunk := 1; rsc_faults := [{| f_call := 3; f_dirty := false |}]; rsc_sticky := true |}).
Proof.
  intros s n s' r H He. unfold sched_rstep in H. cbn [rsc_sticky rsc_faults rsc_chunk] in H.
  destruct (true && r_failed s); [inversion H; subst; reflexivity|].
  cbn [find_fault f_call] in H. destruct (3 =? r_calls s).
  - cbn [f_dirty] in H. inversion H; subst. reflexivity.
  - destruct (r_data s); [inversion H; subst; discriminate|].
    destruct (take_n _ _). inversion H; subst. discriminate.
Qed.

(* PassThroughPanics (a debugging switch) lets the panic out on purpose: the theorems are for pass = false *)
Example C29_pass_through_panics :
  snd (cbe_decode rsrc (sched_rstep {| rsc_chunk := 0; rsc_faults := [{| f_call := 1; f_dirty := false |}]; rsc_sticky := false |})
         current_shape (list prim) script_next script_feed (fun _ => true) true 100
         (rd0 (rsrc0 wit_cbe_doc)) wit_cbe_script) = Panic.
Proof. exact pass_through_witness. Qed.
