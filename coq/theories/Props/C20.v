(* C20 — Shared and cyclic pointers survive a round trip with recursion support.
   Only theorem statements here; each is closed by a lemma from Proofs/GraphProofs.v.

   Vocabulary (Model/Graph.v): a heap maps addresses to struct / slice / map nodes of the Go type
   N{V int; A,B,C *N; S []*N; M map[int]*N}; [dups] is the set of addresses that
   duplicates.FindDuplicatePointers reports; [gtrav] is the iterator, [graph_roundtrip rules omit_never]
   is iterator -> validator (when EnforceRules) -> builder stack for a *N, [iso] (Proofs/GraphProofs.v)
   says that a map phi sends the objects reachable from the root one-to-one onto objects of the
   result of the same kind and payload whose references are, label by label, the images of the
   original references (so shared and cyclic positions are shared and cyclic in the same places,
   and nothing else is shared).

   WHICH SHAPES THE THEOREMS COVER.  The isomorphism theorem (C20_graph_roundtrip_iso_partial) and the
   termination theorems are about the Go type N above: pointers to structs, slices of pointers and
   maps (int keys) of pointers, with any sharing and any cycles among them — slices and maps of any
   length, references that are unresolved when the builder reads them included — marshaled from a
   root of type *N, or from a root handed over BY VALUE (a N: the heap then has the copy that the
   interface holds as its root node, see Model/Graph.v "Root by value"; nothing else changes).
   They do NOT cover, because the library's iterator and builders for other Go types are not
   modelled: pointers to scalars and strings (markers on values that are not containers), structs
   nested by value, arrays, slices and maps whose elements are structs, pointers to slices and maps,
   roots that are arrays, slices or maps.  For those the section "Extended shapes" of Model/Graph.v
   gives the heap language [xheap], the isomorphism relation [xiso_both] and the fragment
   [x_supported]; the harness runs the library on random and directed values of such types and the
   case checker (shape_case_ok) recomputes every isomorphism verdict and checks that inside the
   fragment every round trip came back isomorphic.  C20_theorem_shapes_are_supported below says
   that the theorem's own shapes lie inside that fragment, and on every type-N case the checker
   confirms that [xiso_both] on the embedded heaps is the relation [giso_check] decides.
   Outside the fragment are exactly the shapes with one of these (open findings, observed by the
   harness on the unchanged library; the witnesses are pinned as Examples at the end):
     - a reference held in a by-value container (struct nested in a struct, array, struct element of
       a slice, struct value of a map) that can be a back-edge to an object still being built: it
       comes back nil (keys C20/back-edge-in-by-value-struct, -in-array, -in-slice-of-structs,
       -in-map-of-structs);
     - a pointer to a slice or to a map: Unmarshal refuses the document (C20/pointer-to-slice,
       C20/pointer-to-map). *)
From CE Require Import Model.Graph Proofs.GraphProofs.
Open Scope N_scope.

(* Marshaling terminates: on every heap without dangling addresses in which every cycle passes
   through an object that FindDuplicatePointers reported (cover_ok: a rank drops along every edge
   into an unreported object), the iterator comes back within the model's fixed recursion budget. *)
Theorem C20_graph_marshal_terminates :
  forall h dups omit_never root,
    closed h root = true -> cover_ok h dups = true ->
    exists t s, gtrav h dups omit_never (graph_fuel h dups) root ist0 = Some (t, s).
Proof. exact graph_marshal_terminates. Qed.
Print Assumptions C20_graph_marshal_terminates.

(* ... and a larger budget never changes the answer. *)
Theorem C20_graph_marshal_fuel_independent :
  forall h dups omit_never fuel fuel' r s x,
    (fuel <= fuel')%nat ->
    gtrav h dups omit_never fuel r s = Some x -> gtrav h dups omit_never fuel' r s = Some x.
Proof. exact gtrav_mono. Qed.
Print Assumptions C20_graph_marshal_fuel_independent.

(* The builder stack, run on the events of any call tree of the iterator, performs the tree's
   denotation: markers register the finished container, references are set at once or by a
   deferred setter (eff_val b_ref b_mark). *)
Theorem C20_builder_runs_denotation :
  forall t f s f' s' stk rest,
    eff_val b_ref b_mark t f s = Some (f', s') ->
    brun (f :: stk, s) (flatten t ++ rest) = brun (f' :: stk, s') rest.
Proof. exact brun_eff. Qed.
Print Assumptions C20_builder_runs_denotation.

(* The validator's marker bookkeeping accepts the document of every tree whose marker ids are
   distinct and whose references name markers of the tree (markers inside marked objects included). *)
Theorem C20_validator_accepts :
  forall t,
    is_omit t = false -> NoDup (tm_bids t) -> (forall b, In b (tm_rids t) -> In b (tm_bids t)) ->
    vmark (doc_events t) = true.
Proof. exact vmark_doc. Qed.
Print Assumptions C20_validator_accepts.

(* The property, in full: every typed heap without dangling addresses, marshaled with the marked
   set FindDuplicatePointers computes and unmarshaled into a *N, comes back isomorphic — for every
   omit behaviour and with the validator on or off.  (Under the default omit behaviour an empty
   slice or map is left out and comes back nil; that difference is not counted: such heaps are
   excluded for omit_never = false, as the harness's oracle identifies nil and empty.) *)
Definition C20_full : Prop :=
  forall rules omit_never h root,
    typed h root = true -> closed h root = true ->
    (omit_never = false -> no_empty_containers h = true) ->
    exists h' root' phi,
      graph_roundtrip rules omit_never h (gdups_of h root) root = RtOk h' root' /\ iso phi h root h' root'.

(* It does not hold.  Witness 1 (key C20/nil-map-written-as-null-rejected): with
   DefaultFieldOmitBehavior = OmitFieldNever a nil map field is written as null, and the map
   builder hands that null to its key builder, which refuses it. *)
(* w_nilmap = one struct node, all fields nil (Proofs/GraphProofs.v) *)
Theorem C20_nil_map_refuted :
  typed w_nilmap (Some 1) = true /\ closed w_nilmap (Some 1) = true /\
  graph_roundtrip true true w_nilmap (gdups_of w_nilmap (Some 1)) (Some 1) = RtBuildError.
Proof. exact nil_map_refuted. Qed.
Print Assumptions C20_nil_map_refuted.

(* Witness 2 (key C20/empty-map-sharing-lost): FindDuplicatePointers does not register maps of
   length 0, so two fields holding the same empty map come back holding two different maps. *)
(* w_emptymap = two struct nodes whose M fields hold the same empty map *)
Theorem C20_empty_map_refuted :
  typed w_emptymap (Some 1) = true /\ closed w_emptymap (Some 1) = true /\
  exists h' root',
    graph_roundtrip true true w_emptymap (gdups_of w_emptymap (Some 1)) (Some 1) = RtOk h' root' /\
    forall phi, ~ iso phi w_emptymap (Some 1) h' root'.
Proof. exact empty_map_not_iso. Qed.
Print Assumptions C20_empty_map_refuted.

Theorem C20_full_refuted : ~ C20_full.
Proof. exact graph_full_refuted. Qed.
Print Assumptions C20_full_refuted.

(* What holds (partial): default omit behaviour, validator on or off, every typed heap without
   dangling addresses and without empty containers, and every marked set that (cover_ok) meets
   every cycle and (indeg_ok) contains every object referenced more than once — what
   FindDuplicatePointers is specified to return; the harness checks both on the library's own
   answer for every generated graph.  Excluded: exactly the configuration OmitFieldNever (witnesses
   1 and 2), and marked sets violating the two conditions. *)
Theorem C20_graph_roundtrip_iso_partial :
  forall rules h dups root,
    typed h root = true -> closed h root = true -> no_empty_containers h = true ->
    cover_ok h dups = true -> indeg_ok h root dups = true -> N.of_nat (length dups) < 4294967296 ->
    exists h' root' phi, graph_roundtrip rules false h dups root = RtOk h' root' /\ iso phi h root h' root'.
Proof. exact graph_roundtrip_iso. Qed.
Print Assumptions C20_graph_roundtrip_iso_partial.

(* Non-vacuity: a heap with a cycle through a struct, a slice and a map, a shared leaf and a shared
   object inside a shared object; the marked set is the one the model of FindDuplicatePointers
   computes; every hypothesis of the partial theorem holds. *)
Definition ex_heap : heap :=
  [(1, sn 1 (Some 2) (Some 2) None (Some 4) (Some 5));
   (2, sn 2 (Some 3) (Some 3) None None None);
   (3, sn (-3) None None None None None);
   (4, mkNode KSlice [(LI 0, Some 1); (LI 1, None); (LI 2, Some 3)]);
   (5, mkNode KMap [(LK 7%Z, Some 2); (LK (-1)%Z, None)])].
Example C20_hypotheses_satisfiable :
  let d := gdups_of ex_heap (Some 1) in
  typed ex_heap (Some 1) = true /\ closed ex_heap (Some 1) = true /\ no_empty_containers ex_heap = true /\
  cover_ok ex_heap d = true /\ indeg_ok ex_heap (Some 1) d = true /\ N.of_nat (length d) < 4294967296 /\
  (forall x, In x d <-> x = 1 \/ x = 2 \/ x = 3).
Proof. vm_compute. repeat split; try reflexivity; intuition congruence. Qed.

(* The old witness of the validator defect (a marker inside a marked object: fixed in /repo by
   192c5da) now comes back. *)
Definition w_nested : heap :=
  [(1, sn 12 (Some 2) (Some 2) None None None); (2, sn 11 (Some 3) (Some 3) None None None);
   (3, sn 10 None None None None None)].
Example C20_nested_marker_pinned :
  match graph_roundtrip true false w_nested (gdups_of w_nested (Some 1)) (Some 1) with
  | RtOk h' r' => giso_check w_nested (Some 1) h' r' && giso_check h' r' w_nested (Some 1)
  | _ => false
  end = true.
Proof. vm_compute. reflexivity. Qed.

(* The shapes of the theorems above, written in the extended heap language, lie inside the fragment
   on which the harness asserts an isomorphic round trip for values of any Go type. *)
Theorem C20_theorem_shapes_are_supported : forall h, x_supported (xembed h) = true.
Proof. exact xembed_supported. Qed.
Print Assumptions C20_theorem_shapes_are_supported.

(* ... and on them the two isomorphism checks agree (here: the non-vacuity heap against itself and
   against the nested-marker heap). *)
Example C20_embedded_iso_agrees :
  xiso_both (xembed ex_heap) (XRef 1) (xembed ex_heap) (XRef 1) = giso_check ex_heap (Some 1) ex_heap (Some 1) /\
  xiso_both (xembed ex_heap) (XRef 1) (xembed w_nested) (XRef 1) = giso_check ex_heap (Some 1) w_nested (Some 1) /\
  xclosed (xembed ex_heap) (XRef 1) = true.
Proof. vm_compute. repeat split; reflexivity. Qed.

(* Shapes outside the type N.  Inside the fragment: one pointer to an int and one pointer to a struct
   shared between a field, a struct nested by value, an array, a slice of structs and a map whose
   values are pointers to scalars (no reference leads back to its holder). *)
Definition x_forward : xheap :=
  [(1, XCObj (XStruct [XInt 1; XRef 2; XRef 3; XStruct [XInt 3; XRef 2; XRef 3]; XArr [XRef 2; XRef 2]; XRef 4; XRef 5; XRef 3]));
   (2, XCObj (XStruct [XInt 9; XNil; XNil; XStruct [XInt 0; XNil; XNil]; XArr [XNil; XNil]; XNil; XNil; XNil]));
   (3, XCObj (XInt 7));
   (4, XCSlice [XStruct [XInt 4; XRef 2; XNil]; XStruct [XInt 5; XNil; XRef 3]]);
   (5, XCMap [(XStr [108; 111], XRef 3); (XStr [104; 105], XRef 6)]);
   (6, XCObj (XInt 8))].
Example C20_forward_sharing_in_fragment :
  xclosed x_forward (XRef 1) = true /\ x_supported x_forward = true /\
  xiso_both x_forward (XRef 1) x_forward (XRef 1) = true.
Proof. vm_compute. repeat split; reflexivity. Qed.

(* Outside the fragment: the witnesses of the open findings (type Outer struct{V int; ...} with the
   container named).  For the back-edge classes the second heap is what the harness saw come back
   from the unchanged library (the reference is nil): not isomorphic. *)
Definition x_back_struct : xheap := [(1, XCObj (XStruct [XInt 1; XStruct [XInt 3; XRef 1]]))].        (* o.In.Q = o *)
Definition x_back_struct_result : xheap := [(1, XCObj (XStruct [XInt 1; XStruct [XInt 3; XNil]]))].
Definition x_back_array : xheap :=                                                                     (* o.Ar = [2]*Outer{o, p} *)
  [(1, XCObj (XStruct [XInt 1; XArr [XRef 1; XRef 2]])); (2, XCObj (XStruct [XInt 4; XArr [XNil; XNil]]))].
Definition x_back_array_result : xheap :=
  [(1, XCObj (XStruct [XInt 1; XArr [XNil; XRef 2]])); (2, XCObj (XStruct [XInt 4; XArr [XNil; XNil]]))].
Definition x_back_slice : xheap :=                                                                     (* o.Sv = []Inner{{5, o}, {6, nil}} *)
  [(1, XCObj (XStruct [XInt 1; XRef 2])); (2, XCSlice [XStruct [XInt 5; XRef 1]; XStruct [XInt 6; XNil]])].
Definition x_back_slice_result : xheap :=
  [(1, XCObj (XStruct [XInt 1; XRef 2])); (2, XCSlice [XStruct [XInt 5; XNil]; XStruct [XInt 6; XNil]])].
Definition x_back_map : xheap :=                                                                       (* o.Mv = map[string]Inner{"a": {8, o}} *)
  [(1, XCObj (XStruct [XInt 1; XRef 2])); (2, XCMap [(XStr [97], XStruct [XInt 8; XRef 1])])].
Definition x_back_map_result : xheap :=
  [(1, XCObj (XStruct [XInt 1; XRef 2])); (2, XCMap [(XStr [97], XStruct [XInt 8; XNil])])].
Definition x_ptr_slice : xheap :=                                                                      (* o.Ps = &[]*Outer{p} *)
  [(1, XCObj (XStruct [XInt 1; XRef 2])); (2, XCObj (XRef 3)); (3, XCSlice [XRef 4]); (4, XCObj (XStruct [XInt 3; XNil]))].
Definition x_ptr_map : xheap :=                                                                        (* o.Pm = &map[string]*Outer{"a": p} *)
  [(1, XCObj (XStruct [XInt 1; XRef 2])); (2, XCObj (XRef 3)); (3, XCMap [(XStr [97], XRef 4)]); (4, XCObj (XStruct [XInt 3; XNil]))].
Example C20_findings_outside_fragment :
  x_supported x_back_struct = false /\ x_supported x_back_array = false /\ x_supported x_back_slice = false /\
  x_supported x_back_map = false /\ x_supported x_ptr_slice = false /\ x_supported x_ptr_map = false /\
  xiso_both x_back_struct (XRef 1) x_back_struct_result (XRef 1) = false /\
  xiso_both x_back_array (XRef 1) x_back_array_result (XRef 1) = false /\
  xiso_both x_back_slice (XRef 1) x_back_slice_result (XRef 1) = false /\
  xiso_both x_back_map (XRef 1) x_back_map_result (XRef 1) = false.
Proof. vm_compute. repeat split; reflexivity. Qed.
