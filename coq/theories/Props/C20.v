(* C20 — Shared and cyclic pointers survive a round trip with recursion support.
   Only theorem statements here; each is closed by a lemma from Proofs/GraphProofs.v. *)
From CE Require Import Model.Graph Proofs.GraphProofs.
Open Scope N_scope.

(* Marshaling terminates: on every heap without dangling addresses in which every cycle passes
   through an object that FindDuplicatePointers reported (cover_ok: a rank drops along every edge
   into an unreported object), the iterator comes back within the model's fixed recursion budget. *)
Theorem C20_graph_marshal_terminates :
  forall h dups omit_never root,
    closed h root = true -> cover_ok h dups = true ->
    exists t s, gtrav h dups omit_never (graph_fuel h dups) root ist0 = Some (t, s).
Proof. exact graph_marshal_terminates. Qed.
Print Assumptions C20_graph_marshal_terminates.
