(* C15 — The validator passes accepted events through unchanged. *)
From CE Require Import Model.Rules Proofs.RulesPassthrough.
Open Scope N_scope.

(* For every event list and every configuration: if every event is accepted, the next receiver
   got exactly [map nn es] — each event once, in order, with its arguments; [nn] rewrites only nil big
   numbers (to null) and NaN-valued float / decimal / big-decimal events (to a NaN event of the
   same kind) and is the identity on every other event. *)
Theorem C15_passthrough_accepted :
  forall cfg es c out, run cfg es = (c, out, None) -> out = map nn es.
Proof. exact passthrough_accepted. Qed.
Print Assumptions C15_passthrough_accepted.

(* ... and when event number i is the first rejected one, exactly the i accepted events before it were
   delivered, nothing else. *)
Theorem C15_passthrough_rejected :
  forall cfg es c out i, run cfg es = (c, out, Some i) ->
    (N.to_nat i < length es)%nat /\ out = map nn (firstn (N.to_nat i) es).
Proof. exact passthrough_rejected. Qed.
Print Assumptions C15_passthrough_rejected.

Example C15_example :
  forwarded default_rcfg [EBeginDoc; EVersion 0; EList; EBigInt None; EFloat 9221120237041090561; EPosInt 7; EEnd; EEndDoc]
  = [EBeginDoc; EVersion 0; EList; ENull; ENan false; EPosInt 7; EEnd; EEndDoc].
Proof. vm_compute. reflexivity. Qed.
