(* C27 — Format detection and version headers are handled consistently.
   Only theorem statements here; each is closed by a lemma from Proofs/. *)
From CE Require Import Model.Api Proofs.ApiProofs.
Open Scope N_scope.

(* The universal decode entry points (NewCEDecoder: Decode/DecodeDocument) run,
   on every non-empty document, exactly the format-specific entry point of the
   detected format ('c'/'C' -> CTE, 0x81 -> CBE, anything else -> error),
   whatever those entry points do. *)
Theorem C27_universal_decode_eq_specific :
  forall (R : Type) (cte_entry cbe_entry : bytes -> outcome R) (on_empty : outcome R) b rest,
    b < 256 ->
    universal cte_entry cbe_entry decoder_table on_empty (b :: rest)
    = specific cte_entry cbe_entry (detect_spec b) (b :: rest).
Proof. exact @universal_decode_eq_specific. Qed.
Print Assumptions C27_universal_decode_eq_specific.

(* Same for UnmarshalCE / UnmarshalFromCEDocument. *)
Theorem C27_universal_unmarshal_eq_specific :
  forall (R : Type) (cte_entry cbe_entry : bytes -> outcome R) (on_empty : outcome R) b rest,
    b < 256 ->
    universal cte_entry cbe_entry unmarshaler_table on_empty (b :: rest)
    = specific cte_entry cbe_entry (detect_spec b) (b :: rest).
Proof. exact @universal_unmarshal_eq_specific. Qed.
Print Assumptions C27_universal_unmarshal_eq_specific.

(* Both formats accept exactly the version numbers 0 and 1. *)
Theorem C27_versions_accepted :
  forall f v, f <> FNone -> (version_accepted f v = true <-> v = 0 \/ v = 1).
Proof. exact version_accepted_iff. Qed.
Print Assumptions C27_versions_accepted.

(* Every marshaler announces version 0. *)
Theorem C27_encoders_write_zero : written_version = 0.
Proof. exact written_version_zero. Qed.
Print Assumptions C27_encoders_write_zero.

(* Non-vacuity: a concrete dispatch with distinguishable entry points. *)
Example C27_example :
  universal (fun _ => Ok 1) (fun _ => Ok 2) decoder_table Err [67; 48] = Ok 1 /\
  universal (fun _ => Ok 1) (fun _ => Ok 2) decoder_table Err [129; 0] = Ok 2 /\
  universal (fun _ => Ok 1) (fun _ => Ok 2) decoder_table Err [66; 0] = Err.
Proof. vm_compute. repeat split. Qed.
