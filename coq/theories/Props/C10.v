(* C10 — The validator accepts exactly the structurally well-formed documents (rules validator; the part proved). *)
From CE Require Import Model.Rules Model.RulesSpec Proofs.RulesInvariants Proofs.RulesStructure Proofs.RulesLimits
  Proofs.RulesMarkers Proofs.RulesDocument Proofs.RulesComplete Proofs.RulesSound.
Open Scope N_scope.

(* (a) A rejection is permanent and is reported at the first event that cannot be accepted. *)
Theorem C10_rejection_permanent :
  forall cfg es tl i, rejected_at cfg es = Some i -> rejected_at cfg (es ++ tl) = Some i.
Proof. exact rejected_at_app. Qed.
Print Assumptions C10_rejection_permanent.

Theorem C10_rejected_at_first_invalid :
  forall cfg es i, rejected_at cfg es = Some i ->
    (N.to_nat i < length es)%nat /\
    accepts cfg (firstn (N.to_nat i) es) = true /\
    accepts cfg (firstn (S (N.to_nat i)) es) = false.
Proof. exact rejected_at_first. Qed.
Print Assumptions C10_rejected_at_first_invalid.

Theorem C10_prefix_closed : forall cfg es tl, accepts cfg (es ++ tl) = true -> accepts cfg es = true.
Proof. exact accepts_app. Qed.
Print Assumptions C10_prefix_closed.

(* (b) The frame of an accepted complete document: begin, the expected version, ..., end. *)
Theorem C10_document_frame :
  forall cfg es, accepts_document cfg es = true ->
    exists body, es = EBeginDoc :: EVersion (expected_version cfg) :: body ++ [EEndDoc].
Proof. exact document_frame. Qed.
Print Assumptions C10_document_frame.

(* nothing is accepted after the end of the document *)
Theorem C10_nothing_after_end :
  forall cfg es e, accepts_document cfg es = true -> accepts cfg (es ++ [e]) = false.
Proof. exact nothing_after_end. Qed.
Print Assumptions C10_nothing_after_end.

(* container begin events and end events are balanced: the running depth ([depth_after]: +1 for list, map,
   edge, node, record, record type; -1 for end) is never negative on a prefix, and zero at the end *)
Theorem C10_depth_balanced :
  forall cfg es, accepts cfg es = true ->
    (forall p q, es = p ++ q -> (0 <= depth_after p)%Z) /\
    (accepts_document cfg es = true -> depth_after es = 0%Z).
Proof. exact depth_balanced. Qed.
Print Assumptions C10_depth_balanced.

Theorem C10_depth_counter_spec :
  forall cfg es d, container_depth cfg es = Some d -> Z.of_N d = depth_after es.
Proof. exact container_depth_spec. Qed.
Print Assumptions C10_depth_counter_spec.

(* once the top-level object is complete (the rule in force is the end-of-document rule) the only event
   accepted is the end of the document: there is exactly one top-level object *)
Theorem C10_after_top_level_object :
  forall cfg p e, rule_in_force cfg p = Some REndDocument -> accepts cfg (p ++ [e]) = true -> e = EEndDoc.
Proof. exact after_top_level_object. Qed.
Print Assumptions C10_after_top_level_object.

(* the structural invariant of the rule stack behind these facts, on every reachable state *)
Theorem C10_stack_structure : forall cfg es c, state_after cfg es = Some c -> WF c.
Proof. exact state_WF. Qed.
Print Assumptions C10_stack_structure.

(* (c) Completeness on the tree grammar of Model/RulesSpec.v ([doc], [wf_doc], [flatten_doc]).  Every well-formed
   document tree - record types first; one top-level value (not a reference); maps with keyable pairwise-distinct
   keys; edges with three components and non-null source and destination; nodes with a value; records of the
   declared arity; media and custom arrays delivered in one event (valid media type / custom type code); arrays
   delivered in chunks ([VChunked]: the chunks' data events deliver exactly the announced bytes, string-like
   contents are valid UTF-8 chunk by chunk, the running size stays within the limit, only the last chunk is
   final, comments between the chunks of the arrays that are not string-like); markers (padding allowed after
   them) on scalars, markable arrays and containers, nested markers included, with pairwise distinct ids; backward
   and forward references in value position, each naming a marker of the document; padding and comments wherever
   a value, a key or a container end may come - is accepted, provided it is within the object, depth and marker
   limits.  Keys are single events: no markers, references or chunked arrays in key position. *)
Theorem C10_wf_documents_accepted :
  forall cfg d, wf_doc cfg d = true ->
    object_usage (flatten_doc cfg d) <= max_object_count cfg -> doc_height d <= max_container_depth cfg ->
    marker_usage (flatten_doc cfg d) <= max_local_reference_count cfg ->
    accepts_document cfg (flatten_doc cfg d) = true.
Proof. exact wf_doc_accepted. Qed.
Print Assumptions C10_wf_documents_accepted.

(* (d) Soundness, for every event list whose keys are plain ([plain_keys_only]: where the validator expects a map
   key or a field name of a record type there is no marker, no reference and no begin of an array in chunks): a
   complete document the validator accepts is the flattening of a well-formed document tree, whose height is
   within the depth limit. *)
Theorem C10_accepted_documents_wf :
  forall cfg es, plain_keys_only cfg es -> accepts_document cfg es = true ->
    exists d, wf_doc cfg d = true /\ flatten_doc cfg d = es /\ doc_height d <= max_container_depth cfg.
Proof. exact accepted_is_wf_grammar. Qed.
Print Assumptions C10_accepted_documents_wf.

(* (c) + (d): on these event lists the validator accepts exactly the well-formed documents within the limits. *)
Theorem C10_grammar_exact :
  forall cfg es, plain_keys_only cfg es ->
    (accepts_document cfg es = true <->
     exists d, wf_doc cfg d = true /\ flatten_doc cfg d = es /\
               object_usage es <= max_object_count cfg /\ doc_height d <= max_container_depth cfg /\
               marker_usage es <= max_local_reference_count cfg).
Proof. exact grammar_exact. Qed.
Print Assumptions C10_grammar_exact.

(* the same without markers, references and arrays in chunks ([in_fragment]), where no side condition is left *)
Theorem C10_fragment_exact :
  forall cfg es, in_fragment es = true ->
    (accepts_document cfg es = true <->
     exists d, wf_doc cfg d = true /\ flatten_doc cfg d = es /\
               object_usage es <= max_object_count cfg /\ doc_height d <= max_container_depth cfg /\
               marker_usage es <= max_local_reference_count cfg).
Proof. exact fragment_exact. Qed.
Print Assumptions C10_fragment_exact.

(* What is outside, kept for reference: the statement without the hypothesis.  It is NOT a theorem of this
   development and does not hold for the grammar as it stands: markers, references and arrays in chunks in key
   position (map keys, field names of record types) are accepted by the validator but have no tree in [doc]; the
   grammar would have to be extended to them first. *)
Definition C10_fragment_exact_full : Prop :=
  forall cfg es,
    (accepts_document cfg es = true <->
     exists d, wf_doc cfg d = true /\ flatten_doc cfg d = es /\
               object_usage es <= max_object_count cfg /\ doc_height d <= max_container_depth cfg /\
               marker_usage es <= max_local_reference_count cfg).

Definition C10_tree : doc :=
  {| d_pre := [TopTrivia TPad; TopRecType [114] [([], EStringArray AT_String [120]); ([TPad], EPosInt 2)] [TPad]];
     d_top := VT (TComment false [104;105])
                (VMarked [97] 1
                  (VMap [([TPad], EPosInt 1, VRecord [114] [VLeaf ENull; VT TPad (VMarked [98] 0 (VLeaf (EFloat 0)))] []);
                         ([], ETrue, VEdge (VRef [99]) (VLeaf ENull) (VMarked [99] 2 (VList [VRef [97]; VRef [98]] [TPad])) []);
                         ([], EStringArray AT_String [107],
                          VNode (VLeaf ENull) [VMarked [100] 0 (VLeaf (EStringArray AT_String [1;2])); VList [VLeaf EFalse; VRef [100]] []] [])]
                        [TPad])) |}.
Example C10_tree_wf : wf_doc default_rcfg C10_tree = true.
Proof. vm_compute. reflexivity. Qed.
Example C10_tree_accepted : accepts_document default_rcfg (flatten_doc default_rcfg C10_tree) = true.
Proof. vm_compute. reflexivity. Qed.
(* the side condition of (d) can be decided along the run; the example tree satisfies it *)
Theorem C10_plain_keys_decidable :
  forall cfg es, plain_keys_onlyb cfg es = true -> plain_keys_only cfg es.
Proof. exact plain_keys_onlyb_sound. Qed.
Print Assumptions C10_plain_keys_decidable.
Example C10_tree_plain_keys :
  plain_keys_onlyb default_rcfg (flatten_doc default_rcfg C10_tree) = true.
Proof. vm_compute. reflexivity. Qed.
(* media and custom arrays as leaves (also marked); a marker where a map key is expected is outside *)
Example C10_media_custom :
  let d := {| d_pre := []; d_top := VList [VLeaf (EMedia [97;47;98] [1;2]); VMarked [109] 0 (VLeaf (ECustomBin 7 [1]));
                                           VLeaf (ECustomText 7 [104;105])] [] |} in
  wf_doc default_rcfg d = true /\ accepts_document default_rcfg (flatten_doc default_rcfg d) = true /\
  plain_keys_onlyb default_rcfg (flatten_doc default_rcfg d) = true /\
  wf_doc default_rcfg {| d_pre := []; d_top := VLeaf (EMedia [97] [1]) |} = false /\
  accepts_document default_rcfg (flatten_doc default_rcfg {| d_pre := []; d_top := VLeaf (EMedia [97] [1]) |}) = false /\
  plain_keys_onlyb default_rcfg [EBeginDoc; EVersion 0; EMap; EMarker [97]; ETrue; ENull; EEnd; EEndDoc] = false /\
  accepts_document default_rcfg [EBeginDoc; EVersion 0; EMap; EMarker [97]; ETrue; ENull; EEnd; EEndDoc] = true.
Proof. vm_compute. repeat split; reflexivity. Qed.

(* arrays delivered in chunks: a string cut inside its characters by the data events but not by the chunks, with an
   empty chunk; a marked array of 16-bit elements with a comment between its chunks; an empty media array.  Not
   well-formed and not accepted: a chunk boundary inside a character; a comment between the chunks of a string.
   Accepted but outside [plain_keys_only]: a string in chunks as a map key. *)
Example C10_chunked :
  let d := {| d_pre := []; d_top := VList
      [VChunked (EArrayBegin AT_String) [([], 3, true, [[65;195];[169]]); ([], 0, true, []); ([], 3, false, [[226];[130];[172]])];
       VMarked [109] 0 (VChunked (EArrayBegin AT_Uint16) [([], 1, true, [[1];[2]]); ([(false,[104])], 2, false, [[3;4;5;6]])]);
       VChunked (EMediaBegin [97;47;98]) [([], 0, false, [])]] [] |} in
  let bad1 := {| d_pre := []; d_top := VChunked (EArrayBegin AT_String) [([], 1, true, [[195]]); ([], 1, false, [[169]])] |} in
  let bad2 := {| d_pre := []; d_top := VChunked (EArrayBegin AT_String) [([], 1, true, [[65]]); ([(false,[104])], 1, false, [[66]])] |} in
  let key := [EBeginDoc; EVersion 0; EMap; EArrayBegin AT_String; EArrayChunk 1 false; EArrayData [65]; ENull; EEnd; EEndDoc] in
  wf_doc default_rcfg d = true /\ accepts_document default_rcfg (flatten_doc default_rcfg d) = true /\
  plain_keys_onlyb default_rcfg (flatten_doc default_rcfg d) = true /\
  wf_doc default_rcfg bad1 = false /\ accepts_document default_rcfg (flatten_doc default_rcfg bad1) = false /\
  wf_doc default_rcfg bad2 = false /\ accepts_document default_rcfg (flatten_doc default_rcfg bad2) = false /\
  accepts_document default_rcfg key = true /\ plain_keys_onlyb default_rcfg key = false.
Proof. vm_compute. repeat split; reflexivity. Qed.

(* a time value the time library does not accept (tagged token) is neither well-formed nor accepted, as a value or as a key *)
Example C10_invalid_time :
  wf_doc default_rcfg {| d_pre := []; d_top := VLeaf (ETime [0; 49]) |} = false /\
  accepts_document default_rcfg (flatten_doc default_rcfg {| d_pre := []; d_top := VLeaf (ETime [0; 49]) |}) = false /\
  wf_doc default_rcfg {| d_pre := []; d_top := VMap [([], ETime [0; 49], VLeaf ENull)] [] |} = false /\
  accepts_document default_rcfg (flatten_doc default_rcfg {| d_pre := []; d_top := VMap [([], ETime [0; 49], VLeaf ENull)] [] |}) = false /\
  wf_doc default_rcfg {| d_pre := []; d_top := VMap [([], ETime [49], VLeaf (ETime [50]))] [] |} = true /\
  accepts_document default_rcfg (flatten_doc default_rcfg {| d_pre := []; d_top := VMap [([], ETime [49], VLeaf (ETime [50]))] [] |}) = true.
Proof. vm_compute. repeat split; reflexivity. Qed.

Example C10_tree_bad :
  wf_doc default_rcfg {| d_pre := []; d_top := VEdge (VLeaf ENull) (VLeaf ENull) (VLeaf ETrue) [] |} = false /\
  accepts_document default_rcfg (flatten_doc default_rcfg {| d_pre := []; d_top := VEdge (VLeaf ENull) (VLeaf ENull) (VLeaf ETrue) [] |}) = false /\
  (* a reference without a marker, and a marker id used twice *)
  wf_doc default_rcfg {| d_pre := []; d_top := VList [VRef [97]] [] |} = false /\
  accepts_document default_rcfg (flatten_doc default_rcfg {| d_pre := []; d_top := VList [VRef [97]] [] |}) = false /\
  wf_doc default_rcfg {| d_pre := []; d_top := VList [VMarked [97] 0 (VLeaf ENull); VMarked [97] 0 (VLeaf ETrue)] [] |} = false /\
  accepts_document default_rcfg (flatten_doc default_rcfg {| d_pre := []; d_top := VList [VMarked [97] 0 (VLeaf ENull); VMarked [97] 0 (VLeaf ETrue)] [] |}) = false.
Proof. vm_compute. repeat split; reflexivity. Qed.

Example C10_example_document :
  accepts_document default_rcfg
    [EBeginDoc; EVersion 0; ERecordType [114]; EStringArray AT_String [120]; EEnd; EPadding;
     EMap; EPosInt 1; ERecord [114]; ENull; EEnd; ETrue; EEdge; EPosInt 1; ENull; EPosInt 2; EEnd;
     EStringArray AT_String [107]; ENode; ENull; EList; EEnd; EEnd; EEnd; EEndDoc] = true.
Proof. vm_compute. reflexivity. Qed.
Example C10_example_second_object :
  rejected_at default_rcfg [EBeginDoc; EVersion 0; EPosInt 1; EPosInt 2; EEndDoc] = Some 3.
Proof. vm_compute. reflexivity. Qed.
Example C10_example_unbalanced :
  rejected_at default_rcfg [EBeginDoc; EVersion 0; EList; EEnd; EEnd] = Some 4.
Proof. vm_compute. reflexivity. Qed.
