(* C06 — Any valid document unmarshals into an untyped value.
   Only statements here; each theorem is closed by a lemma of Proofs/BuildProofs.v.

   Vocabulary (Model/Build.v):
   - [build_untyped uc tc es]: what a fresh builder.BuilderEventReceiver with a nil template
     makes of the events [es] (Ok value / Err / Hang), [uc] and [tc] standing for net/url
     Parse+String and compact_time AsGoTime+AsCompactTime;
   - a document is a tree [t : dt] (leaves are value events, arrays possibly in chunks) with
     record types [rts]; [doc_events rts t] are its events, [strip] removes comments and padding;
   - [sem t]: the data of the tree; [erase_doc]: records -> maps, references -> their targets,
     markers dropped; [to_dv v]: the data of a built value, i.e. what the iterator emits for it
     (checked against the real iterator on every correspondence case);
   - [supported6 uc tc rts t]: the fragment the builder handles.

   The code violates the full property (C06_full) on many constructs; the witnesses are the
   C06_*_refuted theorems.  The partial theorems exclude exactly: edges; a marked scalar as node
   value; references in key position; forward references (references to markers that are not
   complete yet: they work in list / map-value / node-child positions according to the
   correspondence run, and are lost in node-value position, but they are outside [erase_doc]);
   bit, UID and float16 arrays, float32 arrays holding a signalling NaN; remote references; custom
   types; resource identifiers that net/url does not give back verbatim; times that do not come
   back as the same time (dates, times of day, UTC offsets); media with an empty media type; map
   keys of pointer type (big integers beyond 64 bits, resource identifiers); record types with keys
   other than booleans, 64-bit integers, UIDs and strings.
   Repaired in /repo while the check was built, and now inside the fragment: records (7dbd995),
   the integer -0 (2e3a258), arrays of wide elements in chunks (c328897), negative integers below
   -2^63 (f77250c). *)
From CE Require Import Model.Build Proofs.BuildProofs.
Require CE.Model.Rules.
Open Scope N_scope.

(* ---- the fragment ---- *)

(* Every document of the fragment (record types rts, value t) is built without error
   (comments and padding anywhere). *)
Theorem C06_untyped_total_partial :
  forall (uc : bytes -> option bytes) (tc : bytes -> option (bytes * bytes)) es rts t d rd,
    strip es = doc_events rts t -> supported6 uc tc rts t = true ->
    sem t = Some d -> rts_data rts = Some rd ->
    exists v, build_untyped uc tc es = Ok v.
Proof. exact fragment_total. Qed.
Print Assumptions C06_untyped_total_partial.

(* ... and the data of the value built are the data of the document with records turned into
   maps, references replaced by their targets and markers dropped. *)
Theorem C06_untyped_faithful_partial :
  forall (uc : bytes -> option bytes) (tc : bytes -> option (bytes * bytes)) es rts t d rd,
    strip es = doc_events rts t -> supported6 uc tc rts t = true ->
    sem t = Some d -> rts_data rts = Some rd ->
    exists v d', build_untyped uc tc es = Ok v /\ erase_doc rd d = Some d' /\ to_dv v = d'.
Proof. exact fragment_builds. Qed.
Print Assumptions C06_untyped_faithful_partial.

(* ... and marshaling that value again gives a document with those data: the iterator's events are
   the events of a tree t' (without record types) whose data are the erased data of the original.
   [dv_plain d']: the erased data hold no edge and no empty media type and only numeric arrays,
   which is the case in the fragment (checked on every generated document of the fragment,
   frag_case_ok). *)
Theorem C06_untyped_remarshal_partial :
  forall (uc : bytes -> option bytes) (tc : bytes -> option (bytes * bytes)) es rts t d rd d',
    strip es = doc_events rts t -> supported6 uc tc rts t = true ->
    sem t = Some d -> rts_data rts = Some rd ->
    erase_doc rd d = Some d' -> dv_plain d' = true ->
    exists v t', build_untyped uc tc es = Ok v /\
                 iterate_doc v = Some (doc_events [] t') /\ sem t' = Some d'.
Proof. exact fragment_remarshals. Qed.
Print Assumptions C06_untyped_remarshal_partial.

(* The hypotheses are satisfiable: a document with markers, backward references in list, map-value
   and node positions, a marked key, a chunked string, a numeric array and a marked container; the
   validator accepts it and the model builds the expected value. *)
Example C06_fragment_example_supported :
  supported6 (fun b => Some b) (fun b => Some (b, b)) [] frag_example = true.
Proof. exact frag_example_supported. Qed.
Example C06_fragment_example_plain :
  option_map dv_plain (match sem frag_example with Some d => erase_doc [] d | None => None end) = Some true.
Proof. vm_compute. reflexivity. Qed.
Example C06_fragment_example_accepted :
  Rules.accepts_document Rules.default_rcfg (doc_events [] frag_example) = true.
Proof. exact frag_example_accepted. Qed.
Example C06_fragment_example_builds :
  build_untyped (fun b => Some b) (fun b => Some (b, b)) (doc_events [] frag_example) =
  Ok (UList [UUint 5;
             UMap 5 [(UStr [107], UUint 5); (UInt (-3), UNode UNil [UInt (-3); UTyped AT_Uint16 [1; 2]])];
             UStr [104; 105];
             UList [UFloat 4609434218613702656; UInt (-7)];
             UList [UFloat 4609434218613702656; UInt (-7)]]).
Proof. exact frag_example_builds. Qed.
(* ... and one with two record types, a marked value inside a record, the integer -0 and a uint16
   array in chunks (all three repaired in /repo while this check was built). *)
Example C06_record_example_supported :
  supported6 (fun b => Some b) (fun b => Some (b, b)) rec_example_rts rec_example = true.
Proof. exact rec_example_supported. Qed.
Example C06_record_example_accepted :
  Rules.accepts_document Rules.default_rcfg (doc_events rec_example_rts rec_example) = true.
Proof. exact rec_example_accepted. Qed.
Example C06_record_example_data :
  option_map to_dv (match build_untyped (fun b => Some b) (fun b => Some (b, b)) (doc_events rec_example_rts rec_example)
                    with Ok v => Some v | _ => None end) =
  Some (DList [DMap [(DStr [97], DInt 5); (DInt 2, DList [DNull])];
               DMap [(DBool true, DList [DNull])];
               DNegZero;
               DArr AT_Uint16 [1; 0; 2; 0]]).
Proof. exact rec_example_data. Qed.
(* ... and, outside the fragment of the theorems but inside the model (and the correspondence run, which
   sweeps this shape over list / node-children / map / record containers growing by 0..65 elements):
   a forward reference in a list that keeps growing until its marker completes, [$a 1 2 3 4 &a:"x" $a].
   The validator accepts it and the model fills the slot of the reference wherever the list has got to. *)
Example C06_forward_reference_in_growing_list_accepted :
  Rules.accepts_document Rules.default_rcfg
    [EBeginDoc; EVersion 0; EList; ERefLocal [97]; EPosInt 1; EPosInt 2; EPosInt 3; EPosInt 4;
     EMarker [97]; EStringArray 1 [120]; ERefLocal [97]; EEnd; EEndDoc] = true.
Proof. vm_compute. reflexivity. Qed.
Example C06_forward_reference_in_growing_list_builds :
  build_untyped (fun b => Some b) (fun b => Some (b, b))
    [EBeginDoc; EVersion 0; EList; ERefLocal [97]; EPosInt 1; EPosInt 2; EPosInt 3; EPosInt 4;
     EMarker [97]; EStringArray 1 [120]; ERefLocal [97]; EEnd; EEndDoc] =
  Ok (UList [UStr [120]; UUint 1; UUint 2; UUint 3; UUint 4; UStr [120]; UStr [120]]).
Proof. vm_compute. reflexivity. Qed.

(* ---- the full property, and its refutation ---- *)

(* Every document the validator accepts is built, and the value has the erased data of the document. *)
Definition C06_full : Prop :=
  forall (uc : bytes -> option bytes) (tc : bytes -> option (bytes * bytes)) rts t d rd d',
    Rules.accepts_document Rules.default_rcfg (doc_events rts t) = true ->
    sem t = Some d -> rts_data rts = Some rd -> erase_doc rd d = Some d' ->
    exists v, build_untyped uc tc (doc_events rts t) = Ok v /\ dv_eqb (to_dv v) d' = true.

Theorem C06_full_refuted : ~ C06_full.
Proof. exact C06_full_false. Qed.
Print Assumptions C06_full_refuted.

(* The witnesses, one per defect class: each is accepted by the validator, has data, and either
   is not built or is built into a value with other data ([refutes], whatever uc and tc are). *)
Theorem C06_edge_refuted : refutes [] w_edge.
Proof. exact edge_refuted. Qed.
Print Assumptions C06_edge_refuted.

Theorem C06_edge_in_list_refuted : refutes [] w_edge_in_list.
Proof. exact edge_in_list_refuted. Qed.
Print Assumptions C06_edge_in_list_refuted.

Theorem C06_reference_as_key_refuted : refutes [] w_refkey.
Proof. exact reference_as_key_refuted. Qed.
Print Assumptions C06_reference_as_key_refuted.

Theorem C06_reference_as_first_key_refuted : refutes [] w_refkey_first.
Proof. exact reference_as_first_key_refuted. Qed.
Print Assumptions C06_reference_as_first_key_refuted.

Theorem C06_marker_on_node_value_refuted : refutes [] w_marked_node_value.
Proof. exact marker_on_node_value_refuted. Qed.
Print Assumptions C06_marker_on_node_value_refuted.

Theorem C06_bit_array_refuted : refutes [] w_bit_array.
Proof. exact bit_array_refuted. Qed.
Print Assumptions C06_bit_array_refuted.

Theorem C06_uid_array_refuted : refutes [] w_uid_array.
Proof. exact uid_array_refuted. Qed.
Print Assumptions C06_uid_array_refuted.

Theorem C06_custom_type_refuted : refutes [] w_custom.
Proof. exact custom_type_refuted. Qed.
Print Assumptions C06_custom_type_refuted.

Theorem C06_float16_array_refuted : refutes [] w_f16.
Proof. exact float16_array_refuted. Qed.
Print Assumptions C06_float16_array_refuted.

Theorem C06_float32_snan_refuted : refutes [] w_f32_snan.
Proof. exact float32_snan_refuted. Qed.
Print Assumptions C06_float32_snan_refuted.
