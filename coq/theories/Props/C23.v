(* C23 — CTE output depends only on the data.
   Only theorem statements here; each is closed by a lemma from Proofs/CteEncProofs.v.

   Vocabulary (Model/CteEnc.v): [cte_encode c es] is the text a fresh
   cte.EncoderEventReceiver writes for the event stream [es] ([None]: a call
   panics); [delivery h d g]: the events [g] deliver the array with header [h]
   and contents [d] -- as one whole-array event, or as a begin event followed by
   chunks whose data events may split the bytes anywhere (inside elements,
   inside UTF-8 characters, with empty data events -- also inside media /
   custom-binary arrays since fix bf83d88 --, with zero-length chunks);
   [chunk_equiv a b]: [a] and [b] are the same stream up to how each array is
   delivered.

   [col_clean c es] is still a hypothesis of the general statement: WriteHexBytes
   does not advance Writer.Column while the separator written between two
   non-empty data events does, so Column after a media / custom-binary array
   still depends on how the data was split; [col_clean] says IsAtOrigin was never
   evaluated while Column was in that state.  It holds by itself for streams
   without media / custom binary ([C23_cte_text_chunk_invariant_no_media]), and
   the correspondence run checks it in Coq on every rules-valid stream (the
   validator never lets a value that is written on the same line follow such an
   array before the next line feed). *)
From CE Require Import Model.CteEnc Proofs.CteEncProofs.
Open Scope N_scope.

(* The property as stated: any two deliveries of the same arrays give the same
   text, and decoding the text and encoding the result gives the text again.
   The second half needs a model of the CTE reader ([read]) and of the
   validator ([valid]); they are parameters here.  That half is evaluated on the
   implementation by the search oracle only, where three finding classes remain
   open (C23/reencode/decode-error/multiline-comment-ending-in-slash,
   C23/reencode/text-differs/big-float, C23/reencode/text-differs/big-decimal). *)
Definition C23_full (valid : list event -> Prop) (read : bytes -> option (list event)) : Prop :=
  chunk_invariance /\
  (forall c es t, valid es -> cte_encode c es = Some t ->
                  exists es', read t = Some es' /\ cte_encode c es' = Some t).

(* The chunk-invariance half, for every configuration of the array element
   formats, every array type, every chunking and every split of the data into
   data events, empty ones included: two streams that differ only in how arrays
   and strings are delivered give byte-identical text (or both make the encoder
   panic). *)
Theorem C23_cte_text_chunk_invariant :
  forall c es1 es2,
    chunk_equiv es1 es2 -> col_clean c es1 = true -> col_clean c es2 = true ->
    cte_encode c es1 = cte_encode c es2.
Proof. exact cte_text_chunk_invariant. Qed.
Print Assumptions C23_cte_text_chunk_invariant.

(* PARTIAL: what is proved of [C23_full] is its first half; the full property
   follows from the decode-and-re-encode half alone. *)
Theorem C23_full_partial :
  forall (valid : list event -> Prop) (read : bytes -> option (list event)),
    (forall c es t, valid es -> cte_encode c es = Some t ->
                    exists es', read t = Some es' /\ cte_encode c es' = Some t) ->
    C23_full valid read.
Proof. exact (fun (valid : list event -> Prop) read H => conj chunk_invariance_holds H). Qed.
Print Assumptions C23_full_partial.

(* For streams without media / custom-binary arrays the Column hypothesis holds by
   itself, so the statement is unconditional: every typed array, bit array, string,
   resource id, remote reference and custom text, in any delivery. *)
Theorem C23_cte_text_chunk_invariant_no_media :
  forall c es1 es2,
    chunk_equiv es1 es2 -> forallb (fun e => negb (sets_dirty e)) es1 = true ->
    cte_encode c es1 = cte_encode c es2.
Proof. exact cte_text_chunk_invariant_no_hex. Qed.
Print Assumptions C23_cte_text_chunk_invariant_no_media.

(* One-sided form: the hypothesis on Column is needed for one of the two streams only. *)
Theorem C23_cte_text_chunk_invariant_dir :
  forall c es1 es2 t,
    chunk_equiv es1 es2 -> col_clean c es1 = true -> cte_encode c es1 = Some t -> cte_encode c es2 = Some t.
Proof. exact encode_dir. Qed.
Print Assumptions C23_cte_text_chunk_invariant_dir.

(* Every delivery of an array, from any encoder state, has the effect of the
   canonical rendering of its contents ([canon]: BeforeValue, header, elements,
   closing bracket / quoted string, AfterValue) up to the engine's scratch
   state and, for media / custom binary, up to Column. *)
Theorem C23_delivery_canonical :
  forall c h d g, delivery h d g -> forall s, oeq (run c s g) (canon c h d s).
Proof. exact delivery_canon. Qed.
Print Assumptions C23_delivery_canonical.

(* The inputs that refuted the property before fix bf83d88 (an empty data event
   inside a media / custom-binary array) are deliveries of the same data, and the
   encoder now writes one text for each pair: "@a/b[42]", "@3[35 20]". *)
Theorem C23_repaired_witnesses :
  chunk_equiv w_hex_1 w_hex_2 /\ chunk_equiv w_cbin_1 w_cbin_2 /\
  cte_encode default_ccfg w_hex_1 = cte_encode default_ccfg w_hex_2 /\
  cte_encode default_ccfg w_cbin_1 = cte_encode default_ccfg w_cbin_2 /\
  cte_encode default_ccfg w_hex_2 = Some [99; 48; 10; 64; 97; 47; 98; 91; 52; 50; 93] /\
  cte_encode default_ccfg w_cbin_2 = Some [99; 48; 10; 64; 51; 91; 51; 53; 32; 50; 48; 93].
Proof.
  exact (let '(conj a (conj b (conj c d))) := w_repaired_texts in
         conj w_hex_equiv (conj w_cbin_equiv (conj (eq_trans a (eq_sym b)) (conj (eq_trans c (eq_sym d)) (conj b d))))).
Qed.
Print Assumptions C23_repaired_witnesses.

(* The array engine's carry-over law (encoder_array.go AddArrayData): one data
   event on an open numeric array writes exactly the elements completed by
   [leftover ++ data] ([grp], which satisfies [grp_app]: splitting the bytes
   anywhere yields the same elements) and keeps the unfinished rest. *)
Theorem C23_add_array_data_carry_over :
  forall c k d s E' L',
    ek (en s) = KNum k -> (length (eleft (en s)) < nk_width k)%nat ->
    grp (nk_width k) (eleft (en s)) d = (E', L') ->
    N.of_nat (length E') <= erem (en s) -> erem (en s) < 2 ^ 64 ->
    (L' <> [] -> N.of_nat (length E') < erem (en s)) ->
    add_data c d s =
    match elems_pieces c k (ehw (en s)) E' with
    | None => None
    | Some ps => finish_if_done (set_en (eng_upd (en s) (erem (en s) - N.of_nat (length E')) (ehw (en s) || nonempty E') L')
                                        (emit_pieces ps s))
    end.
Proof. exact add_data_num. Qed.
Print Assumptions C23_add_array_data_carry_over.

Theorem C23_grouping_is_split_invariant :
  forall w d1 L d2,
    grp w L (d1 ++ d2) = let (e1, l1) := grp w L d1 in let (e2, l2) := grp w l1 d2 in (e1 ++ e2, l2).
Proof. exact grp_app. Qed.
Print Assumptions C23_grouping_is_split_invariant.

(* Bit arrays: one data event renders the first [remaining] bits of its bytes. *)
Theorem C23_bit_array_data :
  forall d r, bool_data r d = (bits_text (firstn (N.to_nat r) (bytes_bits d)), r - N.min r (8 * N.of_nat (length d))).
Proof. exact bool_data_spec. Qed.
Print Assumptions C23_bit_array_data.

(* The correspondence run describes every re-delivered stream segment by
   segment; a description accepted by the boolean [seg_okb] denotes two streams
   that satisfy the hypothesis of the main theorem, so for every such generated
   pair the equality of the two model texts is a consequence of the theorem. *)
Theorem C23_generated_pairs_are_equivalent :
  forall segs, forallb seg_okb segs = true -> chunk_equiv (segs_events true segs) (segs_events false segs).
Proof. exact segs_equiv. Qed.
Print Assumptions C23_generated_pairs_are_equivalent.

(* Non-vacuity: a list holding a u16 array, a string with a two-byte character,
   an 11-bit array and a media object -- delivered whole, and delivered in chunks
   with an element, the character and the bits split between data events, an
   empty data event and a zero-length chunk -- satisfies every hypothesis of the
   main theorem, and the encoder does produce text for it. *)
Example C23_example_hypotheses :
  chunk_equiv ex_whole ex_chunked /\
  col_clean default_ccfg ex_whole = true /\ col_clean default_ccfg ex_chunked = true /\
  cte_encode default_ccfg ex_whole <> None.
Proof. exact (conj ex_equiv (conj (proj1 ex_clean) (conj (proj2 ex_clean) (proj2 ex_text)))). Qed.

Example C23_example_carry_over :
  grp 4 [7] [1; 2; 3; 4; 5; 6; 7; 8; 9] = ([[7; 1; 2; 3]; [4; 5; 6; 7]], [8; 9]).
Proof. reflexivity. Qed.
