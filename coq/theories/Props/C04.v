(* C04 — Marshal then unmarshal returns an equal Go value.
   Only statements here; each theorem is closed by a lemma of Proofs/MarshalRTProofs.v.

   Vocabulary.
   - [gval] (Model/Iterate.v): a Go value as the marshaler sees it; [iterate ic (Some v)]: the events
     the marshaler emits for it (C05; compared with the implementation there and, through the CBE
     link, on every CBE case of this check).
   - [gtype] (Model/MarshalRT.v): a Go type as builder/session.go defaultBuilderGeneratorForType
     classifies it; [has_type t v]: v is a value of type t.
   - [cbe_events]: the events of the marshaler in the form in which they reach the builder after
     the CBE encoder, the CBE decoder and the validator (integers in the decoder's forms, arrays
     longer than 15 elements as begin / chunk / data, NaNs as NaN events, ...); explicit
     normalisation, compared with the implementation on every CBE case.
   - [build_typed uc tc db bb cfg t es]: what a fresh builder.BuilderEventReceiver for a template
     of type t makes of the events es ([TOk v'] = GetBuiltObject, [TErr i] = panic on event i);
     uc / tc / db / bb stand for net/url Parse+String, compact_time AsGoTime+AsCompactTime, and the
     two decimal-to-big.Float conversions.
   - [veq v v']: equality of the property: nil and empty slices / maps alike, NaNs alike, times by
     their compact-time text, big numbers by value, addresses ignored.
   - [sup uc tc cfg ic t v]: the fragment (Proofs/MarshalRTProofs.v, section 3).

   The code violates the full property (C04_full) on many constructs: the witnesses are the
   C04_*_refuted theorems (each evaluated through validator + builder, [unmarshal_events]).
   The partial theorem excludes exactly, by name: []int []uint [n]int [n]uint, []bool [n]bool,
   slices of a named numeric element type, float32 arrays holding a signalling NaN; a nil slice /
   map whose element / key builder does not answer Null; pointers to a value written as Null, to a
   slice, to a map, to a pointer to a container; types.Edge; everything held by an
   interface (types.Node included; covered by the correspondence only); big.Float; struct types
   with embedded fields or order= tags; and it requires that an omitted
   field holds a value [veq] to its zero value, that the emitted name of a kept field is answered
   by that field, map keys of a keyable scalar type, and that the url / time libraries give the
   value back. *)
From CE Require Import Model.MarshalRT Proofs.MarshalRTProofs.
From CE Require Model.Cbe Proofs.CbeProofs Proofs.CbeRoundtrip Proofs.RulesPassthrough.
Open Scope N_scope.

(* ---- the fragment ---- *)

Theorem C04_marshal_unmarshal_partial :
  forall (url_conv time_conv : bytes -> option bytes)
         (dec_bigfloat bigdec_bigfloat : dfloat -> option bigfloat)
         (cfg : bcfg) (ic : icfg),
    c_records ic = [] ->
    forall (t : gtype) (v : gval),
    c_recursion ic = false ->
    has_type t v = true ->
    sup url_conv time_conv cfg ic t v = true ->
    exists v' : gval,
      build_typed url_conv time_conv dec_bigfloat bigdec_bigfloat cfg t
        (cbe_events (iterate ic (Some v))) = TOk v' /\ veq v v' = true.
Proof. exact marshal_unmarshal. Qed.
Print Assumptions C04_marshal_unmarshal_partial.

(* The hypotheses are satisfiable: a struct with an int64 minimum, a 20-byte string and a 17-element
   []uint16 (both delivered in chunks), nested slices with a nil one, a map, pointers, an omitted
   empty slice, a nested struct behind a pointer, a time, a URL, a big integer below -2^64, a NaN,
   a float32 array and an omit_zero field; libraries that give every value back. *)
Example C04_example_typed : has_type ex_type ex_value = true.
Proof. exact ex_typed. Qed.
Example C04_example_supported : sup idlib idlib default_bcfg icfg0 ex_type ex_value = true.
Proof. exact ex_supported. Qed.
Example C04_example_rebuilt :
  exists v', build_typed idlib idlib (fun _ => None) (fun _ => None) default_bcfg ex_type
               (cbe_events (iterate icfg0 (Some ex_value))) = TOk v'
             /\ veq ex_value v' = true /\ (40 < length (cbe_events (iterate icfg0 (Some ex_value))))%nat.
Proof. exact ex_rebuilt. Qed.

(* The same on the codec model itself (Model/Cbe.v): the document the CBE encoder writes for the
   marshaler's events decodes to events [es]; the validator hands on [map nn es] (C15); the builder
   returns an equal value.  [c01_simpleb]: the fragment of events on which Proofs/CbeRoundtrip.v
   proves what the decoder reports (everything the marshaler emits except times); [iter_event]:
   the events for which [cbe_form] is proved to be that report followed by [nn]. *)
Theorem C04_marshal_unmarshal_codec_partial :
  forall (url_conv time_conv : bytes -> option bytes) (dec_bigfloat bigdec_bigfloat : dfloat -> option bigfloat)
         (cfg : bcfg) (ic : icfg) (dc : Cbe.dcfg) (t : gtype) (v : gval) (doc : bytes),
    c_records ic = [] -> c_recursion ic = false ->
    has_type t v = true -> sup url_conv time_conv cfg ic t v = true ->
    forallb CbeRoundtrip.c01_simpleb (plain ic v) = true -> forallb iter_event (plain ic v) = true ->
    Cbe.cbe_encode (iterate ic (Some v)) = Some doc -> Cbe.len doc <= Cbe.max_doc_size dc ->
    exists es v',
      Cbe.cbe_decode dc doc = (es, Cbe.DOk) /\
      build_typed url_conv time_conv dec_bigfloat bigdec_bigfloat cfg t (map RulesPassthrough.nn es) = TOk v' /\ veq v v' = true.
Proof. exact marshal_unmarshal_codec. Qed.
Print Assumptions C04_marshal_unmarshal_codec_partial.

(* ... whose hypotheses hold for the example without its time field. *)
Example C04_example_codec :
  has_type ex_type2 ex_value2 = true /\ sup idlib idlib default_bcfg icfg0 ex_type2 ex_value2 = true /\
  forallb CbeRoundtrip.c01_simpleb (plain icfg0 ex_value2) = true /\ forallb iter_event (plain icfg0 ex_value2) = true /\
  exists doc, Cbe.cbe_encode (iterate icfg0 (Some ex_value2)) = Some doc /\ Cbe.len doc <= Cbe.max_doc_size Cbe.default_dcfg.
Proof. exact ex2_covered. Qed.

(* ---- the full property, and its refutation ---- *)

(* Every value of every type built from the supported kinds comes back equal (default
   configurations; marshal to CBE, decode, validate, build). *)
Definition C04_full : Prop :=
  forall lt t v, has_type t v = true ->
    exists v', unmarshal_events lt default_bcfg t (cbe_events (iterate icfg0 (Some v))) = TOk v' /\ veq v v' = true.

Theorem C04_full_refuted : ~ C04_full.
Proof. exact roundtrip_full_false. Qed.
Print Assumptions C04_full_refuted.

(* One witness per defect class: a value of the type that does not come back ([fails t v]:
   has_type t v = true and no equal value is returned). *)
Theorem C04_int_slice_refuted : fails (TSlice (TInt W64)) (VNum SSlice AI64 [1; -2]%Z).          (* []int{1, -2} *)
Proof. exact int_slice_fails. Qed.
Print Assumptions C04_int_slice_refuted.
Theorem C04_uint_array_refuted : fails (TArr 2 (TUint W64)) (VNum SArr AU64 [1; 2]%Z).           (* [2]uint{1, 2} *)
Proof. exact uint_array_fails. Qed.
Print Assumptions C04_uint_array_refuted.
Theorem C04_bool_slice_refuted : fails (TSlice TBool) (VBools SSlice [true; false; true]).        (* []bool *)
Proof. exact bool_slice_fails. Qed.
Print Assumptions C04_bool_slice_refuted.
Theorem C04_named_element_slice_refuted : fails (TNumSlice AI64 false) (VNum SSlice AI64 [1; 2]%Z).   (* []time.Duration{1, 2} *)
Proof. exact named_elem_slice_fails. Qed.
Print Assumptions C04_named_element_slice_refuted.
Theorem C04_pointer_to_slice_refuted : fails (TPtr (TSlice TString)) (VPtr 1 (VSlice 2 [VString [120]])).   (* &[]string{"x"} *)
Proof. exact ptr_slice_fails. Qed.
Print Assumptions C04_pointer_to_slice_refuted.
Theorem C04_pointer_to_map_refuted :
  fails (TPtr (TMap TString (TInt W64))) (VPtr 1 (VMap 2 [(VString [97], VInt 1)])).               (* &map[string]int{"a": 1} *)
Proof. exact ptr_map_fails. Qed.
Print Assumptions C04_pointer_to_map_refuted.
(* Repaired by /repo commit bfbf710 (was C04_pointer_to_media_refuted : fails (TPtr TMedia) ...):
   the pointer to Media now comes back, whatever the library tables, and lies in the fragment. *)
Theorem C04_pointer_to_media_roundtrip :
  forall lt,
    has_type (TPtr TMedia) (VPtr 1 (VMedia false [97; 47; 98] [1; 2])) = true /\
    exists v', unmarshal_events lt default_bcfg (TPtr TMedia)
                 (cbe_events (iterate icfg0 (Some (VPtr 1 (VMedia false [97; 47; 98] [1; 2]))))) = TOk v'
               /\ veq (VPtr 1 (VMedia false [97; 47; 98] [1; 2])) v' = true.
Proof. exact ptr_media_roundtrip. Qed.
Print Assumptions C04_pointer_to_media_roundtrip.
Example C04_pointer_to_media_supported :
  has_type (TPtr TMedia) (VPtr 1 (VMedia false [97; 47; 98] [1; 2])) = true /\
  sup idlib idlib default_bcfg icfg0 (TPtr TMedia) (VPtr 1 (VMedia false [97; 47; 98] [1; 2])) = true.
Proof. exact ptr_media_supported. Qed.
Theorem C04_pointer_to_pointer_to_struct_refuted :
  fails (TPtr (TPtr (TStruct 1 []))) (VPtr 1 (VPtr 2 (VStruct 1 []))).                             (* **struct{} *)
Proof. exact ptr_ptr_struct_fails. Qed.
Print Assumptions C04_pointer_to_pointer_to_struct_refuted.
Theorem C04_pointer_to_nil_pointer_refuted : fails (TPtr (TPtr (TInt W64))) (VPtr 1 VNilPtr).      (* comes back as a nil **int *)
Proof. exact ptr_nil_ptr_fails. Qed.
Print Assumptions C04_pointer_to_nil_pointer_refuted.
Theorem C04_pointer_to_nil_slice_refuted : fails (TPtr (TSlice TString)) (VPtr 1 VNilSlice).
Proof. exact ptr_nil_slice_fails. Qed.
Print Assumptions C04_pointer_to_nil_slice_refuted.
Theorem C04_pointer_to_zero_compact_time_refuted : fails (TPtr TCTime) (VOPtr (VTime true zero_ctime_text)).
Proof. exact ptr_zero_ctime_fails. Qed.
Print Assumptions C04_pointer_to_zero_compact_time_refuted.
Theorem C04_edge_refuted :
  fails TEdge (VEdge (VIface (VString [97])) (VIface (VInt 1)) (VIface (VString [98]))).          (* the validator stops the document *)
Proof. exact edge_fails. Qed.
Print Assumptions C04_edge_refuted.
Theorem C04_nil_map_int_key_refuted : fails (TMap (TInt W64) TString) VNilMap.                     (* map[int]string(nil) *)
Proof. exact nil_map_int_key_fails. Qed.
Print Assumptions C04_nil_map_int_key_refuted.
Theorem C04_nil_struct_slice_refuted : fails (TSlice (TStruct 1 [(fA, TInt W64)])) VNilSlice.      (* []struct{A int}(nil) *)
Proof. exact nil_struct_slice_fails. Qed.
Print Assumptions C04_nil_struct_slice_refuted.
Theorem C04_nil_time_slice_refuted : fails (TSlice TTime) VNilSlice.                                (* []time.Time(nil) *)
Proof. exact nil_time_slice_fails. Qed.
Print Assumptions C04_nil_time_slice_refuted.
