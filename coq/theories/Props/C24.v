(* C24 — CTE literals decode to exactly the value written.
   Only statements here; each is closed by a lemma of Proofs/CteLitProofs.v.

   Reading guide.  A literal is a spelling tree of the grammar
   (codegen/cte/CTELexer.g4): [int_lit], [float_lit], [sitem] with [render_*]
   producing the text and [*_value]/[spec_*] its meaning.  [impl_*] is the
   model of what the listener in cte/parser.go computes from the text (tied to
   the code by the correspondence cases of the check).  Outcome [Err] = the
   document is rejected.

   The code violates the property on several classes of spellings (witnesses
   below, [*_refuted]); the [*_partial] theorems prove it for all spellings
   outside exactly those classes:
   - separators in explicit-base arrays, repeated separators in implicit-base
     arrays (except directly behind leading zeros, which are dropped with them);
   - float16 elements (truncation instead of rounding);
   - decimal float elements with an exponent below about -6.4e8 (accepted as zero);
   - decimal floats whose coefficient is 2^64 or more, or whose exponent
     arithmetic leaves the int32 range;
   - verbatim sequences with a sentinel of more than one character or outside
     ASCII, or with empty contents.
   Repaired in /repo since the first version of this file and now proved
   without exclusion: decimal integers with leading zeros (601f9e0, 6b24587; 010
   is ten, 08 is accepted, also in typed arrays, there also 0_10 and 00_8) and \[hex] escapes that are not Unicode
   scalar values (9d7e9c8; rejected instead of becoming U+FFFD). *)
From CE Require Import Model.CteLit Proofs.CteLitProofs.
From CE Require Base.Utf8.
Open Scope N_scope.

(* ---- integers ---- *)

(* Every integer literal (any base, either prefix case, any separators, any
   leading zeros, sign) produces exactly its value: OnInt when it fits int64,
   OnBigInt otherwise, OnNegativeInt(0) for -0. *)
Theorem C24_int_literal_exact :
  forall l : int_lit,
    int_lit_ok l = true ->
    impl_int (render_int l) = Ok (spec_int l).
Proof. exact int_literal_exact_all. Qed.
Print Assumptions C24_int_literal_exact.

(* Elements of @iNN[...] arrays (prefix decides the base; any leading zeros of
   a decimal element; [single_us_elem]: no repeated separators behind the first
   significant digit): the two's complement little-endian bytes of the value if
   it fits NN bits, rejected otherwise. *)
Theorem C24_int_elem_implicit_partial :
  forall (bits : N) (l : int_lit),
    elem_bits bits -> int_lit_ok l = true -> single_us_elem l = true ->
    impl_int_elem 0 bits (render_int l) = spec_int_elem bits l.
Proof. exact int_elem_implicit_exact_all. Qed.
Print Assumptions C24_int_elem_implicit_partial.

(* Elements of @iNNb / @iNNo / @iNNx arrays, written without separators. *)
Theorem C24_int_elem_explicit_partial :
  forall (bits : N) (l : int_lit),
    elem_bits bits -> i_base l <> B10 -> int_lit_ok l = true -> no_us (i_digits l) = true ->
    impl_int_elem (ibase_n (i_base l)) bits (render_int_noprefix l) = spec_int_elem bits l.
Proof. exact int_elem_explicit_exact. Qed.
Print Assumptions C24_int_elem_explicit_partial.

Theorem C24_uint_elem_implicit_partial :
  forall (bits : N) (l : int_lit),
    i_neg l = false -> int_lit_ok l = true -> single_us_elem l = true ->
    impl_uint_elem 0 bits (render_int l) = spec_uint_elem bits l.
Proof. exact uint_elem_implicit_exact_all. Qed.
Print Assumptions C24_uint_elem_implicit_partial.

Theorem C24_uint_elem_explicit_partial :
  forall (bits : N) (l : int_lit),
    i_neg l = false -> i_base l <> B10 -> int_lit_ok l = true -> no_us (i_digits l) = true ->
    impl_uint_elem (ibase_n (i_base l)) bits (render_int_noprefix l) = spec_uint_elem bits l.
Proof. exact uint_elem_explicit_exact. Qed.
Print Assumptions C24_uint_elem_explicit_partial.

(* ---- floats ---- *)

(* Elements of @f32 / @f64 arrays (decimal, 0x-prefixed, or bare hex in an
   x-array; any separators, leading zeros, exponent spelling): whatever the
   library's conversion [round] is, it is applied to exactly the spelled
   mantissa and exponent, the sign is the spelled one (so -0.0 keeps its sign),
   and the element is rejected exactly when the converted value overflows or is
   a non-zero value that became zero.  The decimal-to-binary rounding itself is
   delegated to [round] (strconv.ParseFloat); the correspondence cases compare
   it with the correctly rounding [rne]. *)
Theorem C24_float_elem_partial :
  forall (round : N -> bool -> N -> Z -> N) (b16 : bool) (bits : N) (l : float_lit),
    bits = 32 \/ bits = 64 ->
    float_lit_ok l = true -> ctx_ok b16 l = true ->
    (- 2 ^ 29 <= float_exp l)%Z ->
    impl_float_elem round b16 bits (render_float l) = spec_float_elem round bits l.
Proof. exact float_elem_exact. Qed.
Print Assumptions C24_float_elem_partial.

(* Top-level decimal float whose coefficient fits int64: the compact decimal
   with exactly that value (trailing zeros of the coefficient moved into the
   exponent, see C24_decimal_normal_form), negative zero for -0.0. *)
Theorem C24_decimal_float_small_partial :
  forall l : float_lit,
    float_lit_ok l = true -> f_hex l = false -> f_prefix l = None ->
    float_mant l <= 2 ^ 63 - 1 ->
    (Z.abs (exp_value l) < 2 ^ 29)%Z -> (Z.of_nat (length (frac_chars l)) < 2 ^ 29)%Z ->
    impl_float (render_float l) = Ok (spec_dec_small l).
Proof. exact decimal_float_small_exact. Qed.
Print Assumptions C24_decimal_float_small_partial.

(* the normal form denotes the same number: c = c' * 10^(e' - e) *)
Theorem C24_decimal_normal_form :
  forall (fuel : nat) (c : N) (e : Z),
    let '(c', e') := dec_minimize fuel c e in (e <= e')%Z /\ c = c' * 10 ^ Z.to_N (e' - e).
Proof. exact dec_minimize_value. Qed.
Print Assumptions C24_decimal_normal_form.

(* Top-level decimal float with a coefficient in [2^63, 2^64): the big decimal
   with exactly the spelled coefficient and exponent (apd's limits: exponent
   within +-90000, at most 5000 digits, are sufficient for acceptance). *)
Theorem C24_decimal_float_big_partial :
  forall l : float_lit,
    float_lit_ok l = true -> f_hex l = false -> f_prefix l = None ->
    2 ^ 63 <= float_mant l < 2 ^ 64 ->
    (Z.abs (exp_value l) <= 90000)%Z ->
    (length (dseq_chars (f_int l) ++ frac_chars l) <= 5000)%nat ->
    impl_float (render_float l) = Ok (spec_dec_big l).
Proof. exact decimal_float_big_exact. Qed.
Print Assumptions C24_decimal_float_big_partial.

(* Top-level hex float, any mantissa length: a binary64 when the value is one,
   otherwise a big float with 4 bits per spelled digit; in both cases the event
   denotes exactly mant * 2^exp with the spelled sign (the only requirement is
   that the value lies within big.Float's exponent range). *)
Theorem C24_hex_float_exact :
  forall l : float_lit,
    float_lit_ok l = true -> f_hex l = true -> f_prefix l <> None ->
    hex_exp_in_range l ->
    impl_float (render_float l) = Ok (spec_hex l).
Proof. exact hex_float_exact. Qed.
Print Assumptions C24_hex_float_exact.

Theorem C24_hex_float_value :
  forall l : float_lit,
    float_lit_ok l = true -> f_hex l = true -> f_prefix l <> None ->
    hex_exp_in_range l ->
    exists r M E,
      impl_float (render_float l) = Ok r /\
      result_bin r = Some (f_neg l, M, E) /\
      same_value (float_mant l) (float_exp l) M E.
Proof. exact hex_float_value. Qed.
Print Assumptions C24_hex_float_value.

(* ---- strings ---- *)

(* the named escapes are exactly those of the specification *)
Theorem C24_named_escapes :
  forall c v, escape_char c = Some v <-> In (c, v) escape_table.
Proof. exact named_escapes_exact. Qed.
Print Assumptions C24_named_escapes.

(* \[hex] with any number of digits and leading zeros: the UTF-8 bytes of the
   code point when it is a Unicode scalar value (C24_utf8: those bytes decode
   back to it), rejected otherwise (surrogates, above U+10FFFF, beyond 32 bits) *)
Theorem C24_codepoint_exact :
  forall hx : bytes,
    hx <> [] -> forallb is_hex hx = true ->
    impl_codepoint hx = if valid_scalar (hex_val hx) then Ok (utf8_enc (hex_val hx)) else Err.
Proof. exact codepoint_all. Qed.
Print Assumptions C24_codepoint_exact.

Theorem C24_utf8 :
  forall v rest, valid_scalar v = true ->
    CE.Base.Utf8.decode_rune (utf8_enc v ++ rest) = Some (v, length (utf8_enc v)).
Proof. exact utf8_enc_decode. Qed.
Print Assumptions C24_utf8.

(* A whole string body (plain characters, named escapes, \[hex] of scalar
   values, line continuations, verbatim sequences with a one-character ASCII
   sentinel and non-empty contents, in any order and number) decodes to exactly
   the characters it spells. *)
Theorem C24_string_literal_partial :
  forall items : list sitem,
    items_ok items = true -> forallb simple_verbatim items = true ->
    impl_string (render_body items) = Ok (body_value items).
Proof. exact string_literal_exact. Qed.
Print Assumptions C24_string_literal_partial.

(* ---- the full property and why it does not hold ---- *)

Definition C24_full : Prop :=
  full_int /\ full_int_elem /\ full_int_elem_explicit /\ full_uint_elem /\ full_uint_elem_explicit /\
  full_float_elem /\ full_decimal /\ full_codepoint /\ full_string.

(* repaired parts of the full property *)
Theorem C24_full_int : full_int.
Proof. exact full_int_holds. Qed.
Print Assumptions C24_full_int.
Theorem C24_full_codepoint : full_codepoint.
Proof. exact full_codepoint_holds. Qed.
Print Assumptions C24_full_codepoint.

(* @i8[1__0] *)
Theorem C24_int_elem_refuted_separators :
  exists l, int_lit_ok l = true /\ leading_zero_dec l = false /\
            impl_int_elem 0 8 (render_int l) <> spec_int_elem 8 l.
Proof. exact full_int_elem_refuted_separators. Qed.
Print Assumptions C24_int_elem_refuted_separators.
(* @i16x[f_f] *)
Theorem C24_int_elem_explicit_refuted :
  exists l, i_base l <> B10 /\ int_lit_ok l = true /\
            impl_int_elem (ibase_n (i_base l)) 16 (render_int_noprefix l) <> spec_int_elem 16 l.
Proof. exact full_int_elem_explicit_refuted. Qed.
Print Assumptions C24_int_elem_explicit_refuted.
(* @u8[1__0] is rejected *)
Theorem C24_uint_elem_refuted :
  exists l, i_neg l = false /\ int_lit_ok l = true /\
            impl_uint_elem 0 8 (render_int l) <> spec_uint_elem 8 l.
Proof. exact full_uint_elem_refuted. Qed.
Print Assumptions C24_uint_elem_refuted.
(* @u8x[f_f] *)
Theorem C24_uint_elem_explicit_refuted :
  exists l, i_neg l = false /\ i_base l <> B10 /\ int_lit_ok l = true /\
            impl_uint_elem (ibase_n (i_base l)) 8 (render_int_noprefix l) <> spec_uint_elem 8 l.
Proof. exact full_uint_elem_explicit_refuted. Qed.
Print Assumptions C24_uint_elem_explicit_refuted.
(* @f16[1.015] *)
Theorem C24_float_elem_refuted_f16_truncation :
  exists l, float_lit_ok l = true /\ ctx_ok false l = true /\
            impl_float_elem rne false 16 (render_float l) <> spec_float_elem rne 16 l.
Proof. exact full_float_elem_refuted_f16_truncation. Qed.
Print Assumptions C24_float_elem_refuted_f16_truncation.
(* @f16[1e-45] *)
Theorem C24_float_elem_refuted_f16_zero :
  exists l, float_lit_ok l = true /\ ctx_ok false l = true /\ float_mant l <> 0 /\
            impl_float_elem rne false 16 (render_float l) = Ok [0; 0].
Proof. exact full_float_elem_refuted_f16_zero. Qed.
Print Assumptions C24_float_elem_refuted_f16_zero.
(* @f64[1e-1609298120] *)
Theorem C24_float_elem_refuted_tiny :
  exists l, float_lit_ok l = true /\ ctx_ok false l = true /\ float_mant l <> 0 /\
            impl_float_elem rne false 64 (render_float l) = Ok [0; 0; 0; 0; 0; 0; 0; 0] /\
            spec_float_elem rne 64 l = Err.
Proof. exact full_float_elem_refuted_tiny. Qed.
Print Assumptions C24_float_elem_refuted_tiny.
(* 1844674407370955162.0 -> 0.4 *)
Theorem C24_decimal_refuted_coefficient :
  exists l, float_lit_ok l = true /\ is_decimal l /\
            impl_float (render_float l) = Ok (RDec 4 (-1)) /\ float_mant l = 18446744073709551620.
Proof. exact full_decimal_refuted_coefficient. Qed.
Print Assumptions C24_decimal_refuted_coefficient.
(* 1.55e-2147483647 -> 155e+2147483647 *)
Theorem C24_decimal_refuted_exponent :
  exists l, float_lit_ok l = true /\ is_decimal l /\
            impl_float (render_float l) = Ok (RDec 155 2147483647) /\ float_exp l = (-2147483649)%Z.
Proof. exact full_decimal_refuted_exponent. Qed.
Print Assumptions C24_decimal_refuted_exponent.
(* '\.ab ab' *)
Theorem C24_string_refuted_empty_verbatim :
  exists items, items_ok items = true /\ body_value items = [] /\ impl_string (render_body items) = Ok [98].
Proof. exact full_string_refuted_empty_verbatim. Qed.
Print Assumptions C24_string_refuted_empty_verbatim.
(* '\.a aa' *)
Theorem C24_string_refuted_swallowed :
  exists items, items_ok items = true /\ body_value items = [97] /\ impl_string (render_body items) = Ok [].
Proof. exact full_string_refuted_swallowed. Qed.
Print Assumptions C24_string_refuted_swallowed.
(* '\.ab aab' *)
Theorem C24_string_refuted_prefix :
  exists items, items_ok items = true /\ body_value items = [97] /\ impl_string (render_body items) = Ok [97; 98].
Proof. exact full_string_refuted_prefix. Qed.
Print Assumptions C24_string_refuted_prefix.
(* non-ASCII sentinel; second empty verbatim sequence *)
Theorem C24_string_refuted_nonascii :
  exists items, items_ok items = true /\ impl_string (render_body items) = Err.
Proof. exact full_string_refuted_nonascii. Qed.
Print Assumptions C24_string_refuted_nonascii.

Theorem C24_full_refuted : ~ C24_full.
Proof. exact full_all_refuted. Qed.
Print Assumptions C24_full_refuted.

(* ---- the hypotheses are satisfiable on non-trivial spellings ---- *)

(* the witnesses of the repaired defects: 010 is ten, 08 is eight, @i8[010],
   @u32[0008], @i8[0_10], @i8[00_8], @u8[0_8], @i8[0__1], and \[d800] is rejected *)
Example C24_example_repaired :
  impl_int [48; 49; 48] = Ok (RInt 10) /\ impl_int [48; 56] = Ok (RInt 8) /\
  impl_int [45; 48; 48] = Ok (RNegInt 0) /\
  impl_int_elem 0 8 [48; 49; 48] = Ok [10] /\ impl_uint_elem 0 32 [48; 48; 48; 56] = Ok [8; 0; 0; 0] /\
  impl_int_elem 0 8 [48; 95; 49; 48] = Ok [10] /\ impl_int_elem 0 8 [48; 48; 95; 56] = Ok [8] /\
  impl_uint_elem 0 8 [48; 95; 56] = Ok [8] /\ impl_int_elem 0 8 [48; 95; 95; 49] = Ok [1] /\
  impl_codepoint [100; 56; 48; 48] = Err /\ impl_codepoint [49; 49; 48; 48; 48; 48] = Err.
Proof. vm_compute. repeat split. Qed.

(* -0X1_F *)
Example C24_example_int :
  let l := {| i_neg := true; i_base := B16; i_upper := true;
              i_digits := {| d_first := 49; d_rest := [(1%nat, 70)] |} |} in
  int_lit_ok l = true /\ leading_zero_dec l = false /\
  render_int l = [45; 48; 88; 49; 95; 70] /\ impl_int (render_int l) = Ok (RInt (-31)).
Proof. vm_compute. repeat split. Qed.

(* @f32[-01_0.2_5e0_1] with the correctly rounding conversion: -102.5 *)
Example C24_example_float_elem :
  let l := {| f_neg := true; f_hex := false; f_prefix := None;
              f_int := {| d_first := 48; d_rest := [(0%nat, 49); (1%nat, 48)] |};
              f_frac := Some {| d_first := 50; d_rest := [(1%nat, 53)] |};
              f_exp := Some {| e_upper := false; e_sign := None;
                               e_digits := {| d_first := 48; d_rest := [(1%nat, 49)] |} |} |} in
  float_lit_ok l = true /\ ctx_ok false l = true /\ (- 2 ^ 29 <= float_exp l)%Z /\
  impl_float_elem rne false 32 (render_float l) = Ok [0; 0; 205; 194].
Proof. vm_compute. repeat split; discriminate. Qed.

(* 0x1.8p-1075 is not a binary64: big float 3 * 2^-1076 with 8 bits of precision *)
Example C24_example_hex :
  let l := {| f_neg := false; f_hex := true; f_prefix := Some false;
              f_int := {| d_first := 49; d_rest := [] |};
              f_frac := Some {| d_first := 56; d_rest := [] |};
              f_exp := Some {| e_upper := false; e_sign := Some true;
                               e_digits := ds [49; 48; 55; 53] |} |} in
  float_lit_ok l = true /\ impl_float (render_float l) = Ok (RBigFloat false 3 (-1076) 8).
Proof. vm_compute. repeat split. Qed.

(* 'a\n\[1f600]\<LF>  \.@ x'y@z' *)
Example C24_example_string :
  let items := [SChar 97; SEsc 110; SCode [49; 102; 54; 48; 48]; SCont 10 [32; 32];
                SVerb [64] [32] [120; 34; 121]; SChar 122] in
  items_ok items = true /\ forallb simple_verbatim items = true /\
  impl_string (render_body items) = Ok [97; 10; 240; 159; 152; 128; 120; 34; 121; 122].
Proof. vm_compute. repeat split. Qed.
