(* C21 — Struct fields follow their tags and the naming configuration.
   Only statements here; each is closed by a lemma of Proofs/FieldsProofs.v.
   [ulower] is Go's unicode.ToLower on non-ASCII runes (external table); the
   only thing assumed about it is [lower_idempotent] where stated (the harness
   sweeps every rune for it).

   The code departs from the property in two places, both kept in the model:
   (1) the value of an unknown key is not skipped correctly when it contains
       an edge (the ignore builders pop after the third component and then see
       the edge's end-container event);
   (2) a key that is not a string is not skipped: it is stored, and so is its
       value, in the field matched by the previous entry (or the builder
       panics when there is none).
   [C21_full] is the whole property; it is refuted; [C21_partial] is the
   property on the fragment that excludes exactly these two classes.
   (Formerly a third: an embedded field of a non-struct type made extraction
   panic.  Since the fix it is an ordinary field named after its type;
   [C21_marshal_total] and [C21_embedded_non_struct_is_a_field] state it.) *)
From Coq Require Import Permutation Sorted.
From CE Require Import Model.Fields Proofs.FieldsProofs.
Open Scope N_scope.

(* CamelCaseToSnakeCase (two regexes with Go's leftmost-first, greedy,
   non-overlapping replacement) is: an underscore inside every "XYz", then an
   underscore inside every "aX"/"1X", then lower-casing. *)
Theorem C21_snake_case_is_two_insertion_passes :
  forall ulower s, camel_to_snake ulower s = str_lower ulower (snake2_simple (snake1_simple s)).
Proof. exact camel_to_snake_simple. Qed.
Print Assumptions C21_snake_case_is_two_insertion_passes.

(* extractFields, which re-sorts the accumulated list at the end of every
   nested call, is one stable sort of the declaration-order flattening. *)
Theorem C21_extract_is_stable_sort_of_declaration_order :
  forall ulower snake fs,
    extract_fields ulower snake fs = option_map sort_fields (flat_fields ulower snake fs).
Proof. exact extract_fields_is_sorted_flattening. Qed.
Print Assumptions C21_extract_is_stable_sort_of_declaration_order.

(* Marshaling emits exactly the kept fields (Permutation), each once (NoDup of
   index paths), in order-tag order (StronglySorted), declaration order among
   equal orders (per-order sub-sequences unchanged), each under its emitted
   name ([emit] pairs sf_name = tag or Go name, snake-cased when configured). *)
Theorem C21_marshal_emits_kept_fields :
  forall ulower snake dflt fs val fl,
    flat_fields ulower snake fs = Some fl ->
    exists out,
      iterate_struct ulower snake dflt fs val = Some (map emit out) /\
      Permutation out (filter (kept dflt val) fl) /\
      NoDup (map sf_path out) /\
      StronglySorted le_ord out /\
      (forall k, filter (fun f => (sf_order f =? k)%Z) out
                 = filter (fun f => (sf_order f =? k)%Z) (filter (kept dflt val) fl)).
Proof. exact iterate_emits_kept_fields. Qed.
Print Assumptions C21_marshal_emits_kept_fields.

(* Extraction succeeds whenever the tags parse (embedded fields of non-struct types included). *)
Theorem C21_marshal_total :
  forall ulower snake fs, tags_parse fs = true -> exists fl, flat_fields ulower snake fs = Some fl.
Proof. exact flat_fields_total. Qed.
Print Assumptions C21_marshal_total.

(* An embedded field whose type is not a struct (pointer to struct, named
   scalar, slice, map) is handled exactly like an ordinary field with the same
   name (the name of its type) and tag: by the iterator ... *)
Theorem C21_embedded_non_struct_is_a_field :
  forall ulower snake n e t p acc,
    extract_decl ulower snake (FEmbOther n e t) p acc = extract_decl ulower snake (FLeaf n e t) p acc.
Proof. exact emb_other_is_leaf_extract. Qed.
Print Assumptions C21_embedded_non_struct_is_a_field.

(* ... and by the builder's table. *)
Theorem C21_embedded_non_struct_is_a_builder_field :
  forall n e t p, btable_decl (FEmbOther n e t) p = btable_decl (FLeaf n e t) p.
Proof. exact emb_other_is_leaf_btable. Qed.
Print Assumptions C21_embedded_non_struct_is_a_builder_field.

(* The former counterexample struct { MyInt; C int }: emitted as my_int, c; "my_int" finds the field again. *)
Theorem C21_embedded_non_struct_witness :
  (iterate_struct id_lower true OEmpty wA dummy_valuation
   = Some [([109;121;95;105;110;116], [0]); ([99], [1])]) /\
  (btable wA = Some [([77;121;73;110;116], [0]); ([67], [1])]) /\
  (lookup id_lower [([77;121;73;110;116], [0]); ([67], [1])] true [109;121;95;105;110;116] = Some [0]).
Proof. exact embedded_non_struct_witness. Qed.
Print Assumptions C21_embedded_non_struct_witness.

(* A struct registered as a record type: the record type's keys and every
   record's values are the extracted fields kept by the omit flag and default
   alone, in the same order, whatever the values. *)
Theorem C21_record_fields :
  forall ulower snake dflt fs,
    record_fields ulower snake dflt fs
    = option_map (fun fl => map emit (sort_fields (filter (kept dflt dummy_valuation) fl)))
                 (flat_fields ulower snake fs).
Proof. exact record_fields_spec. Qed.
Print Assumptions C21_record_fields.

(* With case-insensitive matching (the default) every key the struct iterator
   writes, in either name style, is resolved by the struct builder of the same
   type to the field the value came from, unambiguously, provided the fields'
   identifiers (lower-cased, underscores and spaces removed) are pairwise distinct. *)
Theorem C21_emitted_keys_find_their_fields :
  forall ulower snake dflt fs val out tb,
    lower_idempotent ulower ->
    iterate_struct ulower snake dflt fs val = Some out ->
    btable fs = Some tb -> idents_distinct ulower tb ->
    forall k p, In (k, p) out -> lookup ulower tb true k = Some p /\ ambiguous ulower tb true k = false.
Proof. exact emitted_keys_find_their_fields. Qed.
Print Assumptions C21_emitted_keys_find_their_fields.

(* Key lookup ignores case and underscores when case-insensitive matching is on ... *)
Theorem C21_lookup_ignores_case_and_underscores :
  forall ulower tbl snake n p,
    lower_idempotent ulower -> idents_distinct ulower tbl -> In (n, p) tbl ->
    cands ulower tbl (norm_key ulower true (emitted_name ulower snake n)) = [p] /\
    lookup ulower tbl true (emitted_name ulower snake n) = Some p /\
    ambiguous ulower tbl true (emitted_name ulower snake n) = false.
Proof. exact lookup_emitted_name_ci. Qed.
Print Assumptions C21_lookup_ignores_case_and_underscores.

(* ... and finds the exact name when it is off. *)
Theorem C21_lookup_exact_name :
  forall ulower tbl n p,
    NoDup (map fst tbl) -> In (n, p) tbl ->
    cands ulower tbl (norm_key ulower false n) = [p] /\ lookup ulower tbl false n = Some p.
Proof. exact lookup_exact_name. Qed.
Print Assumptions C21_lookup_exact_name.

(* An entry whose key matches no field is skipped (string key, edge-free value of any shape). *)
Theorem C21_unknown_key_skipped_partial :
  forall ulower tbl ci k v tgt below fv rest,
    lookup ulower tbl ci k = None -> edge_free v = true ->
    run ulower tbl ci (FStruct true tgt :: below) fv (BStr k :: flatten v ++ rest)
    = run ulower tbl ci (FStruct true tgt :: below) fv rest.
Proof. exact unknown_key_skipped. Qed.
Print Assumptions C21_unknown_key_skipped_partial.

(* A document of string keys and edge-free values fills exactly the fields its
   keys resolve to (later entries win) and ends normally ... *)
Theorem C21_clean_document_built :
  forall ulower tbl ci es, forallb entry_ok es = true ->
    forall tgt fv rest,
      run ulower tbl ci [FStruct true tgt] fv (flat_map entry_events es ++ BEnd :: rest)
      = BDone (spec_fields ulower tbl ci fv es) rest.
Proof. exact clean_document_built. Qed.
Print Assumptions C21_clean_document_built.

(* ... so an entry with an unknown key leaves every field as the document without it would. *)
Theorem C21_unknown_entry_does_not_disturb :
  forall ulower tbl ci pre k v post rest,
    lookup ulower tbl ci k = None ->
    forallb entry_ok (pre ++ (k, v) :: post) = true ->
    build_struct ulower tbl ci (flat_map entry_events (pre ++ (k, v) :: post) ++ BEnd :: rest)
    = build_struct ulower tbl ci (flat_map entry_events (pre ++ post) ++ BEnd :: rest).
Proof. exact unknown_entry_does_not_disturb. Qed.
Print Assumptions C21_unknown_entry_does_not_disturb.

(* ------------------------------------------------------------------------- *)
(* The whole property, refuted; the fragment, proved.                         *)

Definition C21_full : Prop :=
  (* marshaling never fails on parsable tags *)
  (forall ulower snake fs, tags_parse fs = true -> flat_fields ulower snake fs <> None)
  /\ marshal_emits_kept
  /\ names_round_trip
  (* an unknown key is skipped whatever its value *)
  /\ (forall ulower tbl ci k v tgt below fv rest,
         lookup ulower tbl ci k = None ->
         run ulower tbl ci (FStruct true tgt :: below) fv (BStr k :: flatten v ++ rest)
         = run ulower tbl ci (FStruct true tgt :: below) fv rest)
  (* a key that is not a string matches no field and is skipped with its value *)
  /\ (forall ulower tbl ci id v tgt below fv rest,
         edge_free v = true ->
         run ulower tbl ci (FStruct true tgt :: below) fv (BScalar id :: flatten v ++ rest)
         = run ulower tbl ci (FStruct true tgt :: below) fv rest).

Theorem C21_full_refuted : ~ C21_full.
Proof. exact full_statement_refuted. Qed.
Print Assumptions C21_full_refuted.

(* {"zz" = @(1 2 3), "C" = 5} into struct { A; C }: the struct ends at the edge's end event, C is never set *)
Theorem C21_unknown_key_edge_value_refuted : ~ skips_any_value.
Proof. exact skips_any_value_refuted. Qed.
Print Assumptions C21_unknown_key_edge_value_refuted.

(* {"A" = 1, 7 = 8}: A ends up 8 *)
Theorem C21_non_string_key_refuted : ~ skips_non_string_key.
Proof. exact skips_non_string_key_refuted. Qed.
Print Assumptions C21_non_string_key_refuted.

Theorem C21_partial :
  (forall ulower snake fs, tags_parse fs = true ->
                           exists fl, flat_fields ulower snake fs = Some fl)
  /\ marshal_emits_kept /\ names_round_trip
  /\ (forall ulower tbl ci k v tgt below fv rest,
         lookup ulower tbl ci k = None -> edge_free v = true ->
         run ulower tbl ci (FStruct true tgt :: below) fv (BStr k :: flatten v ++ rest)
         = run ulower tbl ci (FStruct true tgt :: below) fv rest)
  /\ (forall ulower tbl ci pre k v post rest,
         lookup ulower tbl ci k = None ->
         forallb entry_ok (pre ++ (k, v) :: post) = true ->
         build_struct ulower tbl ci (flat_map entry_events (pre ++ (k, v) :: post) ++ BEnd :: rest)
         = build_struct ulower tbl ci (flat_map entry_events (pre ++ post) ++ BEnd :: rest)).
Proof. exact partial_statement_holds. Qed.
Print Assumptions C21_partial.

(* ------------------------------------------------------------------------- *)
(* Non-vacuity                                                                *)

(* struct { Z int `order=5`; Ord{A `order=2`; B `order=1`; C; D `order=1`}; Y `order=0`; HTTPServer string } *)
Definition ex_type : list fdecl :=
  [FLeaf [90] true [111;114;100;101;114;61;53];
   FEmbStruct [79;114;100] true []
     [FLeaf [65] true [111;114;100;101;114;61;50]; FLeaf [66] true [111;114;100;101;114;61;49];
      FLeaf [67] true []; FLeaf [68] true [111;114;100;101;114;61;49]];
   FLeaf [89] true [111;114;100;101;114;61;48];
   FLeaf [72;84;84;80;83;101;114;118;101;114] true []].
Definition ex_val : valuation :=
  fun p => if path_eqb p [3] then mkV KArrStr false true true else mkV KOther false false false.

Example C21_example_hypotheses :
  lower_idempotent id_lower /\
  tags_parse ex_type = true /\
  (exists tb, btable ex_type = Some tb /\ idents_distinct id_lower tb) /\
  (* y b d a z c — the empty HTTPServer string is omitted under the default *)
  iterate_struct id_lower true OEmpty ex_type ex_val
  = Some [([121], [2]); ([98], [1;1]); ([100], [1;3]); ([97], [1;0]); ([122], [0]); ([99], [1;2])] /\
  (* under omit_never it is written as http_server and found again *)
  In ([104;116;116;112;95;115;101;114;118;101;114], [3])
     (match iterate_struct id_lower true ONever ex_type ex_val with Some l => l | None => [] end).
Proof.
  split; [exact id_lower_idempotent|].
  split; [vm_compute; reflexivity|].
  split.
  - eexists. split; [vm_compute; reflexivity|].
    unfold idents_distinct. vm_compute.
    repeat (constructor; [cbn; intro H; repeat (destruct H as [H|H]; [discriminate H|]); exact H|]).
    constructor.
  - split; [vm_compute; reflexivity|]. vm_compute.
    repeat (try (left; reflexivity); right).
Qed.

(* an unknown key with a nested container value, then a known key *)
Example C21_example_skip :
  let tb := [([65], [0]); ([67], [1])] in
  lookup id_lower tb true [122;122] = None /\
  build_struct id_lower tb true
    (flat_map entry_events
       [([122;122], VCont CMap 1 [VStr [65]; VCont CList 2 [VScalar 3; VScalar 4]]); ([99], VScalar 5)] ++ [BEnd])
  = BDone [([1], AScalar 5)] [].
Proof. vm_compute. split; reflexivity. Qed.
