(* C02 — CTE encode/decode preserves every rules-valid event stream.
   Only statements here; each is closed by a lemma of Proofs/CteReadProofs.v.

   Vocabulary.
   [CteEnc.cte_encode c es]   the text a fresh CTE encoder writes for the event stream [es]
                              (Model/CteEnc.v; tied to the code by the cteenc cases of C23 and the
                              CRRound cases of this check).
   [cte_read text]            what cte.Decoder delivers for a document (Model/CteRead.v): [Some events]
                              when DecodeDocument succeeds, [None] when it reports an error.  The
                              implementation is an ANTLR-generated lexer / parser (18k lines) that is NOT
                              modelled line by line: [cte_read] is a hand-written reader of the same
                              grammar, and its agreement with the generated code is established by the
                              correspondence run only (encoder output, grammar-driven documents using every
                              spelling, mutated text; family cteread).  This is the missing piece of every
                              theorem below that mentions [cte_read], [next_tok] or [lex_str].
   [Denote.den], [Denote.no_padding]   the meaning of "an equivalent stream carrying the same data"
                              (Model/Denote.v), as for C01.
   [tree], [wf], [doc_events]  the fragment of the structure theorem (Proofs/CteReadProofs.v).  A document is a list
                              of record types followed by one top-level value.
                              Atoms (one event, one token): null; booleans (OnBoolean and OnTrue / OnFalse);
                              integers of every size and sign in the three scalar event forms; strings, resource
                              ids and remote references with arbitrary Unicode content (OnArray and
                              OnStringlikeArray); local references; media (whole, any media type the validator
                              admits, any payload); custom binary and custom text (whole, type below 2^64);
                              whole integer arrays of all eight element types in the decimal element format
                              (the default), any length below 2^64, any element values; whole UID arrays (any
                              number of 16-byte elements below 2^64; no configuration dependence); UID values; whole bit
                              arrays (any number of bits below 2^64, unused bits of the last byte zero).
                              Containers, nested to any depth: lists, maps, records (any identifier of the
                              lexer's class -- the validator's identifiers are such, C03), edges (exactly three
                              values), nodes (value + children); record types before the top-level value;
                              markers on any value but a node; comments of both kinds between the items of any
                              container and between the pairs of a map.
                              Where a node may stand: item of a list / record / edge / node, map key, top-level
                              value -- not map value, marked value or the value of a node, because there the
                              encoder indents the node's value when Writer.Column happens to equal the node's
                              origin (the mechanism behind finding comment-first-in-node); the text is still
                              readable but is not the layout [pp_doc].
   Not covered by a theorem (correspondence and search only): floats (strconv / math/big; no clean leaf
   lemma: the decimal spelling of compact_float / apd and the hex spelling of strconv 'x' would each need a
   printer model tied to the C24 spelling trees), time values as tokens (the longest-match
   analysis over all candidate rules for a symbolic time text is missing; the time leaf lemmas below are
   about the listener's conversion only), float arrays, bit arrays with non-zero unused bits, integer arrays in the non-default element
   formats, chunked arrays, nodes in the three positions named above, comments at the top level, before the
   value of a node and in value position of a map. *)
From CE Require Import Model.CteRead Proofs.CteReadProofs.
From CE Require Model.CteEnc Model.CteLit Model.Denote Model.Rules Model.Convert Proofs.CteEncProofs.
From CE Require Import Base.LE.
Require Coq.Strings.String.
Import String.StringSyntax.
Delimit Scope string_scope with string.
Open Scope N_scope.

(* ---- 1. leaf round trips, for all values ---- *)

(* The lexer accepts, inside a string, every Unicode scalar value that the encoder's escaping decision
   (WriteQuotedString + chars.IsRuneSafeFor, table regenerated from the code) leaves unescaped, and never
   mistakes it for the closing quote or an escape.  Both tables are generated: the proof is a covering
   computation over their intervals, for all 1,112,064 scalar values. *)
Theorem C02_unescaped_characters_are_lexable :
  forall r, scalar r -> CteEnc.rune_safe r = true -> ch_quoted r = true /\ r <> 34 /\ r <> 92.
Proof. exact safe_is_quoted. Qed.
Print Assumptions C02_unescaped_characters_are_lexable.

(* unescape (escape s) = s: the characters between the quotes as the encoder writes them for the code
   points [rs] (raw when safe, \t \r \n \* \/ \\ or \[hex] otherwise), followed by the closing quote,
   are read back as exactly the UTF-8 text of [rs]; the lexer's verbatim state [idx] is untouched. *)
Theorem C02_string_contents_roundtrip :
  forall rs, Forall scalar rs ->
  forall fuel idx rest acc, (length rs < fuel)%nat ->
    lex_str fuel idx (qbody rs ++ 34 :: rest) acc = Some (acc ++ CteLit.utf8_str rs, rest, idx).
Proof. exact lex_str_qbody. Qed.
Print Assumptions C02_string_contents_roundtrip.

(* Every valid UTF-8 text is the UTF-8 text of a list of scalar values ... *)
Theorem C02_valid_utf8_is_text_of_scalars :
  forall s, utf8_valid s = true -> exists rs, Forall scalar rs /\ s = CteLit.utf8_str rs.
Proof. exact valid_is_utf8_str. Qed.
Print Assumptions C02_valid_utf8_is_text_of_scalars.

(* ... so, for EVERY valid UTF-8 string s and whatever the encoder state: the bytes WriteQuotedString
   writes for s, followed by any text, are lexed as one string token that carries exactly s. *)
Theorem C02_quoted_string_roundtrip :
  forall (s : bytes) (lf : bool) (st : CteEnc.est), utf8_valid s = true ->
  exists txt, emits txt st (CteEnc.write_quoted lf s st) /\
    forall idx tail, next_tok idx (runes (txt ++ tail)) = Some (TVal (EArray AT_String (N.of_nat (length s)) s), runes tail, idx).
Proof. exact quoted_string_roundtrip. Qed.
Print Assumptions C02_quoted_string_roundtrip.

(* Integers: the decimal text of (-)n, for every n, followed by white space or the end of the document,
   is one integer token whose event denotes (-)n: OnInt when it fits int64, OnBigInt otherwise,
   OnNegativeInt(0) for -0.  (The value conversion is C24's theorem about ExitValueInt.) *)
Theorem C02_integer_roundtrip :
  forall (neg : bool) (n : N) rest, wsd rest ->
    word_token ((if neg then [45] else []) ++ CteEnc.dec n ++ rest) = Some (TVal (rd_int neg n), rest).
Proof. exact word_token_dec. Qed.
Print Assumptions C02_integer_roundtrip.

Theorem C02_integer_same_number :
  forall neg n r, Denote.den_go None (rd_int neg n :: r) = Denote.dnum neg n 0 :: Denote.den_go None r.
Proof. exact den_rd_int. Qed.
Print Assumptions C02_integer_same_number.

(* null and the booleans *)
Theorem C02_keywords :
  (forall rest, word_token (CteEnc.t_null ++ rest) = Some (TVal ENull, rest)) /\
  (forall rest, word_token (CteEnc.t_true ++ rest) = Some (TVal (EBool true), rest)) /\
  (forall rest, word_token (CteEnc.t_false ++ rest) = Some (TVal (EBool false), rest)).
Proof. exact (conj word_null (conj word_true word_false)). Qed.
Print Assumptions C02_keywords.

(* Comments: a single-line comment without line feed and without a final carriage return, and a multi-line
   comment in which no "/*" or "*/" occurs and which does not end in '/', are read back with their text. *)
Theorem C02_line_comment_roundtrip :
  forall t rest, line_ok t = true -> line_comment (t ++ 10 :: rest) [] = Some (t, rest).
Proof. exact line_comment_ok. Qed.
Print Assumptions C02_line_comment_roundtrip.

Theorem C02_block_comment_roundtrip :
  forall t p acc rest, blk_plain p t = true ->
    block_comment (t ++ 42 :: 47 :: rest) O p acc = Some (rev acc ++ t, rest).
Proof. exact block_comment_reads. Qed.
Print Assumptions C02_block_comment_roundtrip.

(* Times.  The event carries compact_time's String(); the encoder writes the same text (correspondence);
   [tz_text] / [time_text] are what parseTimezone / parseTime followed by Validate and String() make of it.
   Every latitude / longitude zone written in hundredths is read back with the same hundredths (the code
   rounds since the fix of the truncation defect; the model computes the hundredths exactly, and the
   harness checks the float computation of the code against that on all 222,000 coordinate texts) ... *)
Theorem C02_latlong_zone_roundtrip :
  forall la lo, (-9000 <= la <= 9000)%Z -> (-18000 <= lo <= 18000)%Z ->
    tz_text (tz_latlong la lo) = Some (tz_latlong la lo).
Proof. exact tz_latlong_fixed. Qed.
Print Assumptions C02_latlong_zone_roundtrip.

(* ... every UTC offset (1 .. 1439 minutes, either sign) ... *)
Theorem C02_offset_zone_roundtrip :
  forall neg m, 1 <= m <= 1439 -> tz_text (tz_offset neg m) = Some (tz_offset neg m).
Proof. exact tz_offset_fixed. Qed.
Print Assumptions C02_offset_zone_roundtrip.

(* ... and a time of day hh:mm:ss (no sub-second part) followed by such a zone text (or none) is read back as
   itself.  Dates, timestamps, sub-second parts and area/location zones: correspondence and search only. *)
Theorem C02_time_of_day_roundtrip :
  forall h m s T, h < 24 -> m < 60 -> s <= 60 ->
    (match T with [] => True | c :: _ => c = 47 \/ c = 43 \/ c = 45 end) -> tz_text T = Some T ->
    time_text (hms h m s ++ T) = Some (hms h m s ++ T).
Proof. exact time_text_fixed. Qed.
Print Assumptions C02_time_of_day_roundtrip.

(* Identifiers (markers, references, record and record-type names): what the validator admits is an identifier
   of the fragment -- non-empty, CHAR_IDENTIFIER code points, the UTF-8 of its code points (C03's theorem). *)
Theorem C02_valid_identifiers_are_lexable :
  forall id, Convert.ident_valid id = true -> ident_ok (runes id) /\ str_bytes (runes id) = id.
Proof. exact ident_valid_ok. Qed.
Print Assumptions C02_valid_identifiers_are_lexable.

(* Media and custom binary payloads: the encoder's "hh hh hh" text followed by the closing bracket is read back
   as exactly the bytes, for every payload. *)
Theorem C02_hex_payload_roundtrip :
  forall d rest, data_bytes d -> bytes_body (CteEnc.hexbytes d ++ 93 :: rest) = Some (d, rest).
Proof. exact bytes_body_hex. Qed.
Print Assumptions C02_hex_payload_roundtrip.

(* Custom type numbers: the decimal text of every type below 2^64 is parsed back (parseSmallUint, which is
   ParseUint in base 10 since fix 601f9e0 of /repo; base 0 before). *)
Theorem C02_custom_type_roundtrip :
  forall ct, ct < 2 ^ 64 -> CteLit.go_parse_uint (CteEnc.dec ct) 10 64 = Some ct.
Proof. exact parse_custom_type. Qed.
Print Assumptions C02_custom_type_roundtrip.

(* ... and every run of decimal digits is read as its decimal value, leading zeros or not: @010[..] is custom type
   10 and @08[..] custom type 8 (before the fix: 8, and an error). *)
Theorem C02_custom_type_code_is_decimal :
  forall ds, ds <> [] -> forallb is_dec ds = true ->
  CteLit.go_parse_uint ds 10 64 = if dval ds <? 2 ^ 64 then Some (dval ds) else None.
Proof. exact parse_custom_digits. Qed.
Print Assumptions C02_custom_type_code_is_decimal.

(* Code point escapes (fix 9d7e9c8 of /repo): inside a quoted string the escape written with the hex digits of r
   is read as the UTF-8 text of r when r is a Unicode scalar value and makes the string unreadable otherwise
   (surrogates and values above U+10FFFF were read as U+FFFD before the fix). *)
Theorem C02_codepoint_escape :
  forall r f idx rest acc, r < 2 ^ 32 ->
  lex_str (S f) idx (92 :: 91 :: CteEnc.to_digits 16 r ++ 93 :: rest) acc =
  if CteLit.valid_scalar r then lex_str f idx rest (acc ++ CteLit.utf8_enc r) else None.
Proof. exact hex_escape_lex. Qed.
Print Assumptions C02_codepoint_escape.

Theorem C02_codepoint_escape_not_scalar_rejected :
  forall r f idx rest acc, r < 2 ^ 32 -> ~ scalar r ->
  lex_str (S f) idx (92 :: 91 :: CteEnc.to_digits 16 r ++ 93 :: rest) acc = None.
Proof. exact hex_escape_not_scalar. Qed.
Print Assumptions C02_codepoint_escape_not_scalar_rejected.

(* Integer array elements, all eight element types: the text fmt writes for an element with bit pattern x in
   the decimal format is accepted by the element lexer rule and parsed back to the little-endian bytes of x. *)
Theorem C02_int_array_element_roundtrip :
  forall sg w x, x < 2 ^ wbits w -> int_elem sg 0 (wbits w) (ielem sg w x) = Some (le_encode (wbytes w) x).
Proof. exact int_elem_reads. Qed.
Print Assumptions C02_int_array_element_roundtrip.

(* A whole integer array: header, elements separated by one space, closing bracket -> one array token. *)
Theorem C02_int_array_roundtrip :
  forall sg w xs R, Forall (fun x => x < 2 ^ wbits w) xs ->
  next_tok O (CteEnc.nk_name (ikind sg w) ++ 91 :: join32 (map (ielem sg w) xs) ++ 93 :: R) =
  Some (TVal (EArray (ity sg w) (N.of_nat (length xs)) (idata w xs)), R, O).
Proof. exact tok_intarr. Qed.
Print Assumptions C02_int_array_roundtrip.

(* One UID array element: the 8-4-4-4-12 hex text the encoder writes for 16 bytes matches the reader's UID
   pattern in full and converts back to those bytes. *)
Theorem C02_uid_array_element_roundtrip :
  forall u, length u = 16%nat -> data_bytes u -> uid_elem (CteEnc.uid_text u) = Some u.
Proof. exact uid_elem_reads. Qed.
Print Assumptions C02_uid_array_element_roundtrip.

(* A whole UID array -> one array token with the element count and the concatenated bytes. *)
Theorem C02_uid_array_roundtrip :
  forall us R, Forall (fun u => length u = 16%nat /\ data_bytes u) us ->
  next_tok O (CteEnc.t_uidhdr ++ join32 (map CteEnc.uid_text us) ++ 93 :: R) =
  Some (TVal (EArray AT_UID (N.of_nat (length us)) (concat us)), R, O).
Proof. exact tok_uidarr. Qed.
Print Assumptions C02_uid_array_roundtrip.

(* A whole bit array: the bits are packed low bit first; writing the bits of the packed bytes and reading the
   text gives one array token with the same count and bytes (the unused bits of the last byte are zero on both
   sides: [pack_bits] is the reader's packing, and unpacking it gives the bits back). *)
Theorem C02_bit_array_roundtrip :
  forall l R,
  next_tok O (CteEnc.t_bithdr ++ CteEncProofs.bits_text l ++ 93 :: R) =
    Some (TVal (EArray AT_Bit (N.of_nat (length l)) (pack_bits (length l) l)), R, O) /\
  firstn (length l) (CteEnc.bytes_bits (pack_bits (length l) l)) = l /\
  length (pack_bits (length l) l) = ((length l + 7) / 8)%nat.
Proof. exact (fun l R => conj (tok_bitarr l R) (pack_bits_rt (length l) l (Nat.le_refl _))). Qed.
Print Assumptions C02_bit_array_roundtrip.

(* A UID value: the 36 characters the encoder writes are one value token carrying the same 16 bytes, whatever
   follows.  Of the thirteen candidate rules that can start with a hex digit (keywords, integers with and
   without prefix, decimal and hex floats, dates, times) none matches as far as the UID rule does: each either
   fails or stops at the latest before the second dash ("1234567e-1234-..." is a decimal float up to there). *)
Theorem C02_uid_value_token :
  forall u R, length u = 16%nat -> data_bytes u ->
  next_tok O (CteEnc.uid_text u ++ R) = Some (TVal (EUid u), R, O).
Proof. exact tok_uid. Qed.
Print Assumptions C02_uid_value_token.

(* Every atom of the fragment: its text followed by white space or the end is one value token carrying the event
   [ard a], and the encoder model's event handler writes exactly that text between BeforeValue and AfterValue. *)
Theorem C02_atom_token :
  forall a R, awf a -> wsd R -> next_tok O (arunes a ++ R) = Some (TVal (ard a), R, O).
Proof. exact atom_tok. Qed.
Print Assumptions C02_atom_token.

(* ---- 2. structure ---- *)

(* The encoder model, from a fresh state and for every configuration, lays a document of the fragment
   out as [pp_doc] (one item per line, four more spaces per level, " = " between key and value, closing
   bracket on its own line unless the container is empty).  Proved by induction over the tree with the
   encoder's decorator stack, indentation and ContainerHasObjects flag as invariant. *)
Theorem C02_encoder_layout :
  forall c rts t, Forall wf_rt rts -> wf t -> is_value t = true -> doc_cfgok c rts t ->
    CteEnc.cte_encode c (document (doc_events rts t)) = Some (pp_doc rts t).
Proof. exact encode_pp_doc. Qed.
Print Assumptions C02_encoder_layout.

(* The reader on that layout: code points -> tokens (longest match, with what follows each token taken
   into account) -> parse -> events. *)
Theorem C02_reader_on_layout :
  forall rts t, Forall wf_rt rts -> wf t -> is_value t = true ->
    cte_read (pp_doc rts t) = Some (document (doc_rd rts t)).
Proof. exact read_pp_doc. Qed.
Print Assumptions C02_reader_on_layout.

Theorem C02_same_data :
  forall rts t, Denote.den (document (doc_rd rts t)) = Denote.no_padding (Denote.den (document (doc_events rts t))).
Proof. exact same_data. Qed.
Print Assumptions C02_same_data.

(* ---- 3. the composed statement ---- *)

(* The property as stated, for the two models. *)
Definition C02_full : Prop :=
  forall es, Rules.accepts_document Rules.default_rcfg es = true ->
  exists text out,
    CteEnc.cte_encode CteEnc.default_ccfg es = Some text /\ cte_read text = Some out /\
    Rules.accepts_document Rules.default_rcfg out = true /\
    Denote.den out = Denote.no_padding (Denote.den es).

(* It does not hold for the current code. *)
Theorem C02_full_refuted : ~ C02_full.
Proof. exact c02_full_refuted. Qed.
Print Assumptions C02_full_refuted.

(* Each class of violation with its witness ([unreadable]: rules-valid, encoded, and the text is not a
   CTE document; [changed]: rules-valid, encoded, read back as different data).
   A comment holding a line feed:  //a<LF>b *)
Theorem C02_refuted_comment_line_feed : unreadable w_comment_line_feed.
Proof. exact w_comment_line_feed_unreadable. Qed.
Print Assumptions C02_refuted_comment_line_feed.
(* a multi-line comment holding the closing delimiter:  /*x*/y*/ *)
Theorem C02_refuted_comment_block_close : unreadable w_comment_block_close.
Proof. exact w_comment_block_close_unreadable. Qed.
Print Assumptions C02_refuted_comment_block_close.
(* a multi-line comment ending in a slash:  /*x/*/  reads as a nested, unterminated comment *)
Theorem C02_refuted_comment_block_slash : unreadable w_comment_block_slash.
Proof. exact w_comment_block_slash_unreadable. Qed.
Print Assumptions C02_refuted_comment_block_slash.
(* comment bytes that are not UTF-8 come back as U+FFFD *)
Theorem C02_refuted_comment_invalid_utf8 : changed w_comment_invalid_utf8.
Proof. exact w_comment_invalid_utf8_changed. Qed.
Print Assumptions C02_refuted_comment_invalid_utf8.
(* a single-line comment ending in a carriage return loses it *)
Theorem C02_refuted_comment_trailing_cr : changed w_comment_trailing_cr.
Proof. exact w_comment_trailing_cr_changed. Qed.
Print Assumptions C02_refuted_comment_trailing_cr.
(* a single-line comment first in a node that is itself the value of a node: the encoder's "at origin"
   test (Column = indentation - 4) holds by coincidence and no line feed ends the comment:  ((//    null *)
Theorem C02_refuted_comment_first_in_node : unreadable w_comment_first_in_node.
Proof. exact w_comment_first_in_node_unreadable. Qed.
Print Assumptions C02_refuted_comment_first_in_node.
(* the big float 1 is written 0x1 and read as the integer 1 *)
Theorem C02_refuted_bigfloat_one : changed w_bigfloat_one.
Proof. exact w_bigfloat_one_changed. Qed.
Print Assumptions C02_refuted_bigfloat_one.
(* a big decimal whose coefficient needs more than 64 bits is read through the wrapping uint64 parser (C24) *)
Theorem C02_refuted_bigdecimal_wide : changed w_bigdecimal_wide.
Proof. exact w_bigdecimal_wide_changed. Qed.
Print Assumptions C02_refuted_bigdecimal_wide.
(* a NaN element of a float array other than the two the text form can name loses its payload *)
Theorem C02_refuted_float_array_nan : changed w_float_array_nan.
Proof. exact w_float_array_nan_changed. Qed.
Print Assumptions C02_refuted_float_array_nan.

(* PARTIAL.  For every document of the fragment (see the header): the encoder model writes a text, the reader
   model reads it, and the result denotes the same data (there is no padding in the fragment; comments keep
   their text).  [doc_cfgok c rts t]: the configuration writes the integer arrays of the document in the
   decimal element format -- true of the default configuration for every document, and of every
   configuration for documents without integer arrays (the two corollaries below).
   Missing pieces, named: (a) the ANTLR lexer / parser is represented by [cte_read]; their agreement is
   checked by correspondence only; (b) the events outside the fragment (see the header: floats, UID and time
   values, UID / float / bit arrays, other element formats, chunked arrays, nodes in three positions, comments
   in three positions) are covered by the correspondence and search stages only; (c) that the decoded stream is
   accepted by the validator again is checked by the search oracle only; (d) the violation classes above are
   outside: [wf] excludes the comment texts of the first three and a comment before the value of a node, and the
   fragment has no big floats, big decimals or float arrays. *)
Theorem C02_cte_roundtrip_partial :
  forall c rts t, Forall wf_rt rts -> wf t -> is_value t = true -> doc_cfgok c rts t ->
  exists text out,
    CteEnc.cte_encode c (document (doc_events rts t)) = Some text /\
    cte_read text = Some out /\
    Denote.den out = Denote.no_padding (Denote.den (document (doc_events rts t))).
Proof. exact cte_roundtrip_fragment. Qed.
Print Assumptions C02_cte_roundtrip_partial.

(* the default configuration, every document of the fragment *)
Theorem C02_cte_roundtrip_default_partial :
  forall rts t, Forall wf_rt rts -> wf t -> is_value t = true ->
  exists text out,
    CteEnc.cte_encode CteEnc.default_ccfg (document (doc_events rts t)) = Some text /\
    cte_read text = Some out /\
    Denote.den out = Denote.no_padding (Denote.den (document (doc_events rts t))).
Proof. exact cte_roundtrip_default. Qed.
Print Assumptions C02_cte_roundtrip_default_partial.

(* every configuration, documents without integer arrays (this contains the fragment of the earlier version
   of this theorem: a document without record types is [rts = []]) *)
Theorem C02_cte_roundtrip_any_config_partial :
  forall c rts t, Forall wf_rt rts -> wf t -> is_value t = true -> array_free rts t ->
  exists text out,
    CteEnc.cte_encode c (document (doc_events rts t)) = Some text /\
    cte_read text = Some out /\
    Denote.den out = Denote.no_padding (Denote.den (document (doc_events rts t))).
Proof. exact cte_roundtrip_any_config. Qed.
Print Assumptions C02_cte_roundtrip_any_config_partial.

(* ---- non-vacuity ---- *)

(* one record type with two keys, and a list holding: a comment, a record of that type, a node whose children are
   null and an edge (with a comment and a resource id inside), a marked list of two booleans (both event forms),
   a reference to it, a media value, custom binary, custom text, an int16 array (1 -1 -32768 32767 0), a uint64
   array (2^64-1), an empty int8 array, a UID array of two elements, an empty UID array, a bit array of ten bits, an empty bit array, a UID value, and a map with a string key holding e-acute, a line feed, a quote, the
   euro sign and an emoji (value: a list with null, a remote reference, 2^64, -0, -5, an empty list, an empty
   map), a multi-line comment, and an integer key with a marked empty string: well-formed, a value, and
   accepted by the validator model *)
Example C02_example_hypotheses :
  Forall wf_rt ex_rts /\ wf ex_tree /\ is_value ex_tree = true /\
  Rules.accepts_document Rules.default_rcfg (document (doc_events ex_rts ex_tree)) = true.
Proof. exact (conj (proj1 ex_tree_wf) (conj (proj1 (proj2 ex_tree_wf)) (conj (proj2 (proj2 ex_tree_wf)) ex_tree_accepted))). Qed.

Example C02_example_text :
  CteEnc.cte_encode CteEnc.default_ccfg (document (doc_events ex_rts ex_tree)) = Some (pp_doc ex_rts ex_tree) /\
  (400 < length (pp_doc ex_rts ex_tree))%nat /\
  cte_read (pp_doc ex_rts ex_tree) = Some (document (doc_rd ex_rts ex_tree)).
Proof. vm_compute. repeat split; lia. Qed.

Example C02_example_int16_array :
  abytes (AIntArr true W16 [1; 65535; 32768; 32767; 0]) = CteEnc.s2b "@i16[1 -1 -32768 32767 0]"%string /\
  aevent (AIntArr true W16 [1; 65535; 32768; 32767; 0]) = EArray AT_Int16 5 [1; 0; 255; 255; 0; 128; 255; 127; 0; 0].
Proof. vm_compute. split; reflexivity. Qed.

Example C02_example_uid_array :
  abytes (AUidArr [[0; 17; 34; 51; 68; 85; 102; 119; 136; 153; 170; 187; 204; 221; 238; 255]]) =
    CteEnc.s2b "@uid[00112233-4455-6677-8899-aabbccddeeff]"%string /\
  cte_read (CteEnc.s2b "c1 @uid[00112233-4455-6677-8899-aabbccddeeff]"%string) =
    Some (document [aevent (AUidArr [[0; 17; 34; 51; 68; 85; 102; 119; 136; 153; 170; 187; 204; 221; 238; 255]])]).
Proof. vm_compute. split; reflexivity. Qed.

Example C02_example_uid_values :
  map (fun t => cte_read (CteEnc.s2b "c1 "%string ++ CteEnc.uid_text t)) 
      [[18; 52; 86; 126; 18; 52; 86; 120; 154; 188; 222; 240; 1; 2; 3; 4]; [11; 17; 1; 1; 0; 0; 0; 0; 0; 0; 0; 0; 0; 0; 0; 0]] =
  [Some (document [EUid [18; 52; 86; 126; 18; 52; 86; 120; 154; 188; 222; 240; 1; 2; 3; 4]]);
   Some (document [EUid [11; 17; 1; 1; 0; 0; 0; 0; 0; 0; 0; 0; 0; 0; 0; 0]])] /\
  CteEnc.uid_text [18; 52; 86; 126; 18; 52; 86; 120; 154; 188; 222; 240; 1; 2; 3; 4] = CteEnc.s2b "1234567e-1234-5678-9abc-def001020304"%string /\
  CteEnc.uid_text [11; 17; 1; 1; 0; 0; 0; 0; 0; 0; 0; 0; 0; 0; 0; 0] = CteEnc.s2b "0b110101-0000-0000-0000-000000000000"%string.
Proof. vm_compute. repeat split; reflexivity. Qed.

Example C02_example_bit_array :
  abytes (ABitArr [true; false; true; true; false; false; false; false; true; true]) = CteEnc.s2b "@b[1011000011]"%string /\
  aevent (ABitArr [true; false; true; true; false; false; false; false; true; true]) = EArray AT_Bit 10 [13; 3].
Proof. vm_compute. split; reflexivity. Qed.

(* the reader after fixes 601f9e0, 6b24587 and 9d7e9c8 of /repo: decimal integers with leading zeros (values, implicit-base
   array elements, custom type codes) and code point escapes that are not scalar values *)
Example C02_example_repaired_reader :
  map (fun t => cte_read (CteEnc.s2b t))
      ["c0 010"; "c0 -010"; "c0 08"; "c0 0_8"; "c0 0o10"; "c0 @i8[010]"; "c0 @u32[0008]"; "c0 @u8[0_10]"; "c0 @010[01]"]%string =
  [Some (document [EInt 10]); Some (document [EInt (-10)]); Some (document [EInt 8]); Some (document [EInt 8]);
   Some (document [EInt 8]); Some (document [EArray AT_Int8 1 [10]]); Some (document [EArray AT_Uint32 1 [8; 0; 0; 0]]);
   Some (document [EArray AT_Uint8 1 [10]]); Some (document [ECustomBin 10 [1]])] /\
  cte_read [99; 48; 32; 34; 92; 91; 100; 56; 48; 48; 93; 34] = None /\              (* c0 "\[d800]" *)
  cte_read [99; 48; 32; 34; 92; 91; 49; 49; 48; 48; 48; 48; 93; 34] = None /\      (* c0 "\[110000]" *)
  cte_read [99; 48; 32; 34; 92; 91; 100; 55; 102; 102; 93; 34] = Some (document [EArray AT_String 3 [237; 159; 191]]).  (* c0 "\[d7ff]" *)
Proof. vm_compute. repeat split; reflexivity. Qed.

Example C02_example_string :
  utf8_valid [107; 195; 169; 10; 34; 226; 130; 172] = true /\
  lex_string 0 (runes [107; 195; 169; 10; 92; 34; 226; 130; 172; 34; 32]) = Some ([107; 195; 169; 10; 34; 226; 130; 172], [32], O).
Proof. vm_compute. split; reflexivity. Qed.

Example C02_example_time :
  tz_latlong 29 (-12345) = CteEnc.s2b "/0.29/-123.45"%string /\
  time_text (hms 1 2 3 ++ tz_latlong 29 (-12345)) = Some (CteEnc.s2b "01:02:03/0.29/-123.45"%string) /\
  time_text (CteEnc.s2b "1:02:03.50+0090"%string) = Some (CteEnc.s2b "01:02:03.5+0130"%string).
Proof. vm_compute. repeat split. Qed.

Example C02_example_comments :
  line_ok [97; 32; 47; 42; 98] = true /\ blk_plain PNone [97; 32; 42; 32; 47; 98; 42] = true /\
  line_ok [97; 13] = false /\ blk_plain PNone [120; 47] = false.
Proof. vm_compute. repeat split. Qed.
