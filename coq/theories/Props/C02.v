(* C02 — CTE encode/decode preserves every rules-valid event stream.
   Only statements here; each is closed by a lemma of Proofs/CteReadProofs.v.

   Vocabulary.
   [CteEnc.cte_encode c es]   the text a fresh CTE encoder writes for the event stream [es]
                              (Model/CteEnc.v; tied to the code by the cteenc cases of C23 and the
                              CRRound cases of this check).
   [cte_read text]            what cte.Decoder delivers for a document (Model/CteRead.v): [Some events]
                              when DecodeDocument succeeds, [None] when it reports an error.  The
                              implementation is an ANTLR-generated lexer / parser (18k lines) that is NOT
                              modelled line by line: [cte_read] is a hand-written reader of the same
                              grammar, and its agreement with the generated code is established by the
                              correspondence run only (encoder output, grammar-driven documents using every
                              spelling, mutated text; family cteread).  This is the missing piece of every
                              theorem below that mentions [cte_read], [next_tok] or [lex_str].
   [Denote.den], [Denote.no_padding]   the meaning of "an equivalent stream carrying the same data"
                              (Model/Denote.v), as for C01.
   [tree], [wf], [events_of]  the fragment of the structure theorem (Proofs/CteReadProofs.v): null, booleans
                              (OnBoolean and OnTrue / OnFalse), integers of every size and sign in all three
                              scalar event forms, strings, resource ids and remote references with arbitrary
                              Unicode content (OnArray and OnStringlikeArray), lists and maps nested to any
                              depth, comments of both kinds between the items of a list and between the pairs
                              of a map.
   Not covered by a theorem (correspondence and search only): floats (strconv / math/big), times
   (the model [date_text] / [time_text] mirrors the regular expressions of the listener and
   compact_time's Validate / String), UIDs, typed arrays (also chunked strings), media, custom types,
   records, edges, nodes, markers and references, comments at the top level and in value position of a map. *)
From CE Require Import Model.CteRead Proofs.CteReadProofs.
From CE Require Model.CteEnc Model.CteLit Model.Denote Model.Rules.
Require Coq.Strings.String.
Import String.StringSyntax.
Delimit Scope string_scope with string.
Open Scope N_scope.

(* ---- 1. leaf round trips, for all values ---- *)

(* The lexer accepts, inside a string, every Unicode scalar value that the encoder's escaping decision
   (WriteQuotedString + chars.IsRuneSafeFor, table regenerated from the code) leaves unescaped, and never
   mistakes it for the closing quote or an escape.  Both tables are generated: the proof is a covering
   computation over their intervals, for all 1,112,064 scalar values. *)
Theorem C02_unescaped_characters_are_lexable :
  forall r, scalar r -> CteEnc.rune_safe r = true -> ch_quoted r = true /\ r <> 34 /\ r <> 92.
Proof. exact safe_is_quoted. Qed.
Print Assumptions C02_unescaped_characters_are_lexable.

(* unescape (escape s) = s: the characters between the quotes as the encoder writes them for the code
   points [rs] (raw when safe, \t \r \n \* \/ \\ or \[hex] otherwise), followed by the closing quote,
   are read back as exactly the UTF-8 text of [rs]; the lexer's verbatim state [idx] is untouched. *)
Theorem C02_string_contents_roundtrip :
  forall rs, Forall scalar rs ->
  forall fuel idx rest acc, (length rs < fuel)%nat ->
    lex_str fuel idx (qbody rs ++ 34 :: rest) acc = Some (acc ++ CteLit.utf8_str rs, rest, idx).
Proof. exact lex_str_qbody. Qed.
Print Assumptions C02_string_contents_roundtrip.

(* Every valid UTF-8 text is the UTF-8 text of a list of scalar values ... *)
Theorem C02_valid_utf8_is_text_of_scalars :
  forall s, utf8_valid s = true -> exists rs, Forall scalar rs /\ s = CteLit.utf8_str rs.
Proof. exact valid_is_utf8_str. Qed.
Print Assumptions C02_valid_utf8_is_text_of_scalars.

(* ... so, for EVERY valid UTF-8 string s and whatever the encoder state: the bytes WriteQuotedString
   writes for s, followed by any text, are lexed as one string token that carries exactly s. *)
Theorem C02_quoted_string_roundtrip :
  forall (s : bytes) (lf : bool) (st : CteEnc.est), utf8_valid s = true ->
  exists txt, emits txt st (CteEnc.write_quoted lf s st) /\
    forall idx tail, next_tok idx (runes (txt ++ tail)) = Some (TVal (EArray AT_String (N.of_nat (length s)) s), runes tail, idx).
Proof. exact quoted_string_roundtrip. Qed.
Print Assumptions C02_quoted_string_roundtrip.

(* Integers: the decimal text of (-)n, for every n, followed by white space or the end of the document,
   is one integer token whose event denotes (-)n: OnInt when it fits int64, OnBigInt otherwise,
   OnNegativeInt(0) for -0.  (The value conversion is C24's theorem about ExitValueInt.) *)
Theorem C02_integer_roundtrip :
  forall (neg : bool) (n : N) rest, wsd rest ->
    word_token ((if neg then [45] else []) ++ CteEnc.dec n ++ rest) = Some (TVal (rd_int neg n), rest).
Proof. exact word_token_dec. Qed.
Print Assumptions C02_integer_roundtrip.

Theorem C02_integer_same_number :
  forall neg n r, Denote.den_go None (rd_int neg n :: r) = Denote.dnum neg n 0 :: Denote.den_go None r.
Proof. exact den_rd_int. Qed.
Print Assumptions C02_integer_same_number.

(* null and the booleans *)
Theorem C02_keywords :
  (forall rest, word_token (CteEnc.t_null ++ rest) = Some (TVal ENull, rest)) /\
  (forall rest, word_token (CteEnc.t_true ++ rest) = Some (TVal (EBool true), rest)) /\
  (forall rest, word_token (CteEnc.t_false ++ rest) = Some (TVal (EBool false), rest)).
Proof. exact (conj word_null (conj word_true word_false)). Qed.
Print Assumptions C02_keywords.

(* Comments: a single-line comment without line feed and without a final carriage return, and a multi-line
   comment in which no "/*" or "*/" occurs and which does not end in '/', are read back with their text. *)
Theorem C02_line_comment_roundtrip :
  forall t rest, line_ok t = true -> line_comment (t ++ 10 :: rest) [] = Some (t, rest).
Proof. exact line_comment_ok. Qed.
Print Assumptions C02_line_comment_roundtrip.

Theorem C02_block_comment_roundtrip :
  forall t p acc rest, blk_plain p t = true ->
    block_comment (t ++ 42 :: 47 :: rest) O p acc = Some (rev acc ++ t, rest).
Proof. exact block_comment_reads. Qed.
Print Assumptions C02_block_comment_roundtrip.

(* Times.  The event carries compact_time's String(); the encoder writes the same text (correspondence);
   [tz_text] / [time_text] are what parseTimezone / parseTime followed by Validate and String() make of it.
   Every latitude / longitude zone written in hundredths is read back with the same hundredths (the code
   rounds since the fix of the truncation defect; the model computes the hundredths exactly, and the
   harness checks the float computation of the code against that on all 222,000 coordinate texts) ... *)
Theorem C02_latlong_zone_roundtrip :
  forall la lo, (-9000 <= la <= 9000)%Z -> (-18000 <= lo <= 18000)%Z ->
    tz_text (tz_latlong la lo) = Some (tz_latlong la lo).
Proof. exact tz_latlong_fixed. Qed.
Print Assumptions C02_latlong_zone_roundtrip.

(* ... every UTC offset (1 .. 1439 minutes, either sign) ... *)
Theorem C02_offset_zone_roundtrip :
  forall neg m, 1 <= m <= 1439 -> tz_text (tz_offset neg m) = Some (tz_offset neg m).
Proof. exact tz_offset_fixed. Qed.
Print Assumptions C02_offset_zone_roundtrip.

(* ... and a time of day hh:mm:ss (no sub-second part) followed by such a zone text (or none) is read back as
   itself.  Dates, timestamps, sub-second parts and area/location zones: correspondence and search only. *)
Theorem C02_time_of_day_roundtrip :
  forall h m s T, h < 24 -> m < 60 -> s <= 60 ->
    (match T with [] => True | c :: _ => c = 47 \/ c = 43 \/ c = 45 end) -> tz_text T = Some T ->
    time_text (hms h m s ++ T) = Some (hms h m s ++ T).
Proof. exact time_text_fixed. Qed.
Print Assumptions C02_time_of_day_roundtrip.

(* ---- 2. structure ---- *)

(* The encoder model, from a fresh state and for every configuration, lays a document of the fragment
   out as [pp_doc] (one item per line, four more spaces per level, " = " between key and value, closing
   bracket on its own line unless the container is empty).  Proved by induction over the tree with the
   encoder's decorator stack, indentation and ContainerHasObjects flag as invariant. *)
Theorem C02_encoder_layout :
  forall c t, wf t -> is_value t = true ->
    CteEnc.cte_encode c (document (events_of t)) = Some (pp_doc t).
Proof. exact encode_pp_doc. Qed.
Print Assumptions C02_encoder_layout.

(* The reader on that layout: code points -> tokens (longest match, with what follows each token taken
   into account) -> parse -> events. *)
Theorem C02_reader_on_layout :
  forall t, wf t -> is_value t = true -> cte_read (pp_doc t) = Some (document (rd_events t)).
Proof. exact read_pp_doc. Qed.
Print Assumptions C02_reader_on_layout.

Theorem C02_same_data :
  forall t, Denote.den (document (rd_events t)) = Denote.no_padding (Denote.den (document (events_of t))).
Proof. exact same_data. Qed.
Print Assumptions C02_same_data.

(* ---- 3. the composed statement ---- *)

(* The property as stated, for the two models. *)
Definition C02_full : Prop :=
  forall es, Rules.accepts_document Rules.default_rcfg es = true ->
  exists text out,
    CteEnc.cte_encode CteEnc.default_ccfg es = Some text /\ cte_read text = Some out /\
    Rules.accepts_document Rules.default_rcfg out = true /\
    Denote.den out = Denote.no_padding (Denote.den es).

(* It does not hold for the current code. *)
Theorem C02_full_refuted : ~ C02_full.
Proof. exact c02_full_refuted. Qed.
Print Assumptions C02_full_refuted.

(* Each class of violation with its witness ([unreadable]: rules-valid, encoded, and the text is not a
   CTE document; [changed]: rules-valid, encoded, read back as different data).
   A comment holding a line feed:  //a<LF>b *)
Theorem C02_refuted_comment_line_feed : unreadable w_comment_line_feed.
Proof. exact w_comment_line_feed_unreadable. Qed.
Print Assumptions C02_refuted_comment_line_feed.
(* a multi-line comment holding the closing delimiter:  /*x*/y*/ *)
Theorem C02_refuted_comment_block_close : unreadable w_comment_block_close.
Proof. exact w_comment_block_close_unreadable. Qed.
Print Assumptions C02_refuted_comment_block_close.
(* a multi-line comment ending in a slash:  /*x/*/  reads as a nested, unterminated comment *)
Theorem C02_refuted_comment_block_slash : unreadable w_comment_block_slash.
Proof. exact w_comment_block_slash_unreadable. Qed.
Print Assumptions C02_refuted_comment_block_slash.
(* comment bytes that are not UTF-8 come back as U+FFFD *)
Theorem C02_refuted_comment_invalid_utf8 : changed w_comment_invalid_utf8.
Proof. exact w_comment_invalid_utf8_changed. Qed.
Print Assumptions C02_refuted_comment_invalid_utf8.
(* a single-line comment ending in a carriage return loses it *)
Theorem C02_refuted_comment_trailing_cr : changed w_comment_trailing_cr.
Proof. exact w_comment_trailing_cr_changed. Qed.
Print Assumptions C02_refuted_comment_trailing_cr.
(* a single-line comment first in a node that is itself the value of a node: the encoder's "at origin"
   test (Column = indentation - 4) holds by coincidence and no line feed ends the comment:  ((//    null *)
Theorem C02_refuted_comment_first_in_node : unreadable w_comment_first_in_node.
Proof. exact w_comment_first_in_node_unreadable. Qed.
Print Assumptions C02_refuted_comment_first_in_node.
(* the big float 1 is written 0x1 and read as the integer 1 *)
Theorem C02_refuted_bigfloat_one : changed w_bigfloat_one.
Proof. exact w_bigfloat_one_changed. Qed.
Print Assumptions C02_refuted_bigfloat_one.
(* a big decimal whose coefficient needs more than 64 bits is read through the wrapping uint64 parser (C24) *)
Theorem C02_refuted_bigdecimal_wide : changed w_bigdecimal_wide.
Proof. exact w_bigdecimal_wide_changed. Qed.
Print Assumptions C02_refuted_bigdecimal_wide.
(* a NaN element of a float array other than the two the text form can name loses its payload *)
Theorem C02_refuted_float_array_nan : changed w_float_array_nan.
Proof. exact w_float_array_nan_changed. Qed.
Print Assumptions C02_refuted_float_array_nan.

(* PARTIAL.  For every document of the fragment (see the header) and every encoder configuration: the
   encoder model writes a text, the reader model reads it, and the result denotes the same data (there is
   no padding in the fragment; comments keep their text).
   Missing pieces, named: (a) the ANTLR lexer / parser is represented by [cte_read]; their agreement is
   checked by correspondence only; (b) the events outside the fragment (floats depend on strconv and math/big,
   times on regexp and compact_time; UIDs, arrays, media, custom types, records, edges, nodes, markers) are
   covered by the correspondence and search stages only; (c) that the decoded stream is accepted by the
   validator again is checked by the search oracle only; (d) the violation classes above are outside:
   [wf] excludes the comment texts of the first three, and the fragment has no nodes, big floats, big
   decimals or float arrays. *)
Theorem C02_cte_roundtrip_partial :
  forall c t, wf t -> is_value t = true ->
  exists text out,
    CteEnc.cte_encode c (document (events_of t)) = Some text /\
    cte_read text = Some out /\
    Denote.den out = Denote.no_padding (Denote.den (document (events_of t))).
Proof. exact cte_roundtrip_fragment. Qed.
Print Assumptions C02_cte_roundtrip_partial.

(* ---- non-vacuity ---- *)

(* a map with a comment, a string key holding e-acute, a line feed, a quote, the euro sign and an emoji, a
   list with null, two booleans (both event forms), a resource id, a remote reference, 2^64, -0, -5, a
   multi-line comment, an empty list and an empty map, and an integer key: well-formed, a value, and
   accepted by the validator model *)
Example C02_example_hypotheses :
  wf ex_tree /\ is_value ex_tree = true /\ Rules.accepts_document Rules.default_rcfg (document (events_of ex_tree)) = true.
Proof. exact (conj (proj1 ex_tree_wf) (conj (proj2 ex_tree_wf) ex_tree_accepted)). Qed.

Example C02_example_text :
  CteEnc.cte_encode CteEnc.default_ccfg (document (events_of ex_tree)) = Some (pp_doc ex_tree) /\
  (60 < length (pp_doc ex_tree))%nat /\
  cte_read (pp_doc ex_tree) = Some (document (rd_events ex_tree)).
Proof. vm_compute. repeat split; lia. Qed.

Example C02_example_string :
  utf8_valid [107; 195; 169; 10; 34; 226; 130; 172] = true /\
  lex_string 0 (runes [107; 195; 169; 10; 92; 34; 226; 130; 172; 34; 32]) = Some ([107; 195; 169; 10; 34; 226; 130; 172], [32], O).
Proof. vm_compute. split; reflexivity. Qed.

Example C02_example_time :
  tz_latlong 29 (-12345) = CteEnc.s2b "/0.29/-123.45"%string /\
  time_text (hms 1 2 3 ++ tz_latlong 29 (-12345)) = Some (CteEnc.s2b "01:02:03/0.29/-123.45"%string) /\
  time_text (CteEnc.s2b "1:02:03.50+0090"%string) = Some (CteEnc.s2b "01:02:03.5+0130"%string).
Proof. vm_compute. repeat split. Qed.

Example C02_example_comments :
  line_ok [97; 32; 47; 42; 98] = true /\ blk_plain PNone [97; 32; 42; 32; 47; 98; 42] = true /\
  line_ok [97; 13] = false /\ blk_plain PNone [120; 47] = false.
Proof. vm_compute. repeat split. Qed.
