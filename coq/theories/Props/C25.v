(* C25 — Every CTE array-format setting produces readable CTE.
   Only theorem statements here; each is closed by a lemma from Proofs/.

   Vocabulary (Model/CteArrFmt.v): [roundtrip fmt_g parse_dec k f xs] writes the
   array of kind k with element bit patterns xs under the numeric-format setting
   f (print_elems: header and fmt verb from the regenerated tables, elements as
   the Go code prints them) and reads the text back (read_elems: lexer header
   tokens, element token shapes, strconv parsing as parser.go calls it).
   [canon_elem] is the identity except that a NaN keeps only its kind (quiet /
   signalling), because CTE text has exactly the spellings nan and snan.
   [fmt_g] / [parse_dec] stand for strconv's shortest decimal rendering of a
   float64 and strconv.ParseFloat on decimal text; [strconv_ok_on] says that on
   the finite elements of the array they behave as the check observes on every
   sample (shape of the text, sign, round trip). They only matter for float
   arrays in decimal format; everything else is modelled concretely. *)
From CE Require Import Model.CteArrFmt Proofs.CteArrFmtProofs.
Import String.StringSyntax.
Open Scope N_scope.

(* The property as stated: all eight settings, all eleven kinds. FALSE for the
   current code, see the _refuted theorems. *)
Definition C25_full : Prop :=
  forall (fmt_g : N -> bytes) (parse_dec : N -> bytes -> option N) (k : kind) (f : N) (xs : list N),
    In f all_formats -> elems_wf k xs -> strconv_ok_on fmt_g parse_dec k xs ->
    roundtrip fmt_g parse_dec k f xs = Ok (k, map (canon_elem k) xs).

(* The part that holds: integer kinds x {decimal, binary, octal, hexadecimal,
   and the zero-filled forms of the last three}, float kinds x {decimal,
   hexadecimal}; arrays of any length, any element values.
   Excluded (exactly, see C25_excluded_pairs): Decimal|ZeroFilled for every
   kind, and float kinds x {binary, octal (each also zero-filled), zero-filled
   hexadecimal}. *)
Theorem C25_array_format_roundtrip_partial :
  forall (fmt_g : N -> bytes) (parse_dec : N -> bytes -> option N) (k : kind) (f : N) (xs : list N),
    supported_fmt k f = true -> elems_wf k xs -> strconv_ok_on fmt_g parse_dec k xs ->
    roundtrip fmt_g parse_dec k f xs = Ok (k, map (canon_elem k) xs).
Proof. exact array_format_roundtrip. Qed.
Print Assumptions C25_array_format_roundtrip_partial.

(* No assumption about strconv is needed except for decimal float arrays. *)
Theorem C25_array_format_roundtrip_concrete :
  forall (fmt_g : N -> bytes) (parse_dec : N -> bytes -> option N) (k : kind) (f : N) (xs : list N),
    supported_fmt k f = true -> elems_wf k xs ->
    (kind_class k = CFloat -> f <> cfg_CTEEncodingFormatDecimal) ->
    roundtrip fmt_g parse_dec k f xs = Ok (k, map (canon_elem k) xs).
Proof. exact array_format_roundtrip_concrete. Qed.
Print Assumptions C25_array_format_roundtrip_concrete.

(* The same on the little-endian array data of the OnArray event. *)
Theorem C25_array_bytes_roundtrip :
  forall (fmt_g : N -> bytes) (parse_dec : N -> bytes -> option N) (k : kind) (f : N) (data : bytes),
    supported_fmt k f = true -> bytes_wf data ->
    strconv_ok_on fmt_g parse_dec k (elems_of_bytes k data) ->
    outcome_bind (print_array fmt_g k f data) (read_array parse_dec)
    = Ok (k, bytes_of_elems k (map (canon_elem k) (elems_of_bytes k data))).
Proof. exact array_bytes_roundtrip. Qed.
Print Assumptions C25_array_bytes_roundtrip.

(* What "supported" leaves out of the property's 8 x 11 pairs. *)
Theorem C25_excluded_pairs :
  forall (k : kind) (f : N), In f all_formats -> supported_fmt k f = false ->
    f = cfg_CTEEncodingFormatDecimal + cfg_CTEEncodingFormatFlagZeroFilled \/
    (kind_class k = CFloat /\
     (f = cfg_CTEEncodingFormatBinary \/ f = cfg_CTEEncodingFormatBinaryZeroFilled \/
      f = cfg_CTEEncodingFormatOctal \/ f = cfg_CTEEncodingFormatOctalZeroFilled \/
      f = cfg_CTEEncodingFormatHexadecimalZeroFilled)).
Proof. exact unsupported_pairs. Qed.
Print Assumptions C25_excluded_pairs.

(* Defects of the current code, each with a concrete witness. *)

(* Decimal|ZeroFilled: the table slot is empty, the array loses its header and
   the elements come out as "%!(EXTRA uint8=7)". Witness: uint8 [7]. *)
Theorem C25_decimal_zero_filled_refuted :
  exists k f xs, In f all_formats /\ elems_wf k xs /\ strconv_ok_on no_g no_p k xs /\
                 roundtrip no_g no_p k f xs <> Ok (k, map (canon_elem k) xs).
Proof. exact decimal_zero_filled_refuted. Qed.
Print Assumptions C25_decimal_zero_filled_refuted.

(* Float arrays in binary: "@f64b[" is not a token. Witness: the empty float64 array. *)
Theorem C25_float_binary_refuted :
  exists k f xs, In f all_formats /\ elems_wf k xs /\ strconv_ok_on no_g no_p k xs /\
                 roundtrip no_g no_p k f xs <> Ok (k, map (canon_elem k) xs).
Proof. exact float_binary_refuted. Qed.
Print Assumptions C25_float_binary_refuted.

(* Float arrays in octal. Witness: the empty float32 array, zero-filled octal. *)
Theorem C25_float_octal_refuted :
  exists k f xs, In f all_formats /\ elems_wf k xs /\ strconv_ok_on no_g no_p k xs /\
                 roundtrip no_g no_p k f xs <> Ok (k, map (canon_elem k) xs).
Proof. exact float_octal_refuted. Qed.
Print Assumptions C25_float_octal_refuted.

(* ... and no array at all is readable under these four settings. *)
Theorem C25_float_binary_octal_never_read :
  forall (fmt_g : N -> bytes) (parse_dec : N -> bytes -> option N) (k : kind) (f : N) (xs : list N) r,
    kind_class k = CFloat ->
    In f [cfg_CTEEncodingFormatBinary; cfg_CTEEncodingFormatBinaryZeroFilled;
          cfg_CTEEncodingFormatOctal; cfg_CTEEncodingFormatOctalZeroFilled] ->
    roundtrip fmt_g parse_dec k f xs <> Ok r.
Proof. exact float_binary_octal_never_read. Qed.
Print Assumptions C25_float_binary_octal_never_read.

(* Float arrays in zero-filled hexadecimal: elements are written with %x
   ("0x1p+00") inside an array whose header already says hexadecimal.
   Witness: float64 [1.0]. *)
Theorem C25_float_hex_zero_filled_refuted :
  exists k f xs, In f all_formats /\ elems_wf k xs /\ strconv_ok_on one_g one_p k xs /\
                 roundtrip one_g one_p k f xs <> Ok (k, map (canon_elem k) xs).
Proof. exact float_hex_zero_filled_refuted. Qed.
Print Assumptions C25_float_hex_zero_filled_refuted.

Theorem C25_full_refuted : ~ C25_full.
Proof. exact full_statement_refuted. Qed.
Print Assumptions C25_full_refuted.

(* Reader side of a zero-filled decimal setting (holds since /repo 601f9e0 and
   6b24587, parser.go stripDecimalLeadingZeros; before them "010" and "0_10"
   were read as octal 8 and "08" rejected): the text a %0<width>d verb writes for an integer element of
   any integer kind is read back as that element in an array without base
   letter.  (The encoder still has no such verb: C25_decimal_zero_filled_refuted.) *)
Theorem C25_zero_filled_decimal_elements_read :
  forall (k : kind) (width x : N),
    kind_class k <> CFloat -> x < 2 ^ kind_bits k ->
    let t := go_int_text (is_signed k) (kind_bits k) x 10 true width in
    read_int_elem k MDec t = Some x /\ run_ok t.
Proof. exact zero_filled_decimal_elem_read. Qed.
Print Assumptions C25_zero_filled_decimal_elements_read.

Example C25_example_leading_zeros :
  read_elems no_p (s2b "@i8[010 -0017 08 09 00 -00 0x10 0_10 00_8 0__1]"%string) = Ok (KI8, [10; 239; 8; 9; 0; 0; 16; 10; 8; 1]) /\
  go_int_text true 8 239 10 true 5 = s2b "-0017"%string.
Proof. exact ex_leading_zeros. Qed.

(* Non-vacuity: real strconv output for 1.5 and -0.1 satisfies the hypothesis,
   and the model writes and reads what the implementation does. *)
Example C25_example_hypothesis : strconv_ok_on ex_g ex_p KF64 ex_xs.
Proof. exact ex_strconv_ok. Qed.

Example C25_example_roundtrip :
  roundtrip ex_g ex_p KF64 cfg_CTEEncodingFormatDecimal ex_xs
  = Ok (KF64, [0x3ff8000000000000; 0xbfb999999999999a; 0x7ffc000000000000; 0xfff0000000000000]).
Proof. exact ex_roundtrip. Qed.

Example C25_example_texts :
  print_elems ex_g KF64 cfg_CTEEncodingFormatDecimal ex_xs = Ok (s2b "@f64[1.5 -0.1 nan -inf]"%string) /\
  print_elems ex_g KF64 cfg_CTEEncodingFormatHexadecimal ex_xs = Ok (s2b "@f64x[1.8 -1.999999999999ap-04 nan -inf]"%string) /\
  print_elems no_g KI16 cfg_CTEEncodingFormatHexadecimalZeroFilled [0; 1; 0x7fff; 0x8000; 0xffff]
  = Ok (s2b "@i16x[0000 0001 7fff -8000 -001]"%string).
Proof. exact (conj ex_dec_text (conj ex_hex_text ex_int_text)). Qed.
