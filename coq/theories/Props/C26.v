(* C26 — Array byte-conversion helpers are exact little-endian inverses.
   Only theorem statements here; each is closed by a lemma from Proofs/.

   Model: Model/Arrays.v.  [slice_to_bytes w] / [bytes_to_slice w] are the
   byte-wise fallbacks of internal/arrays/arrays.go, which is what the public
   helpers of package ce run on a little-endian host (the endianness probe of
   arrays_impurego.go is inverted, see C26_little_endian_host_runs_fallback),
   for element widths w = 1, 2, 4, 8 bytes; elements are N bit patterns
   (two's complement for signed ints, IEEE bits for floats, NaN payloads
   included); [bytes_wf b] says every byte is < 256. *)
From CE Require Import Model.Arrays Proofs.ArraysProofs.
Open Scope N_scope.

(* BytesToX(XAsBytes(s)) = s, for every length and every element pattern. *)
Theorem C26_bytes_to_slice_of_slice_to_bytes :
  forall (w : N) (elems : list N),
    0 < w -> Forall (fun e => e < 256 ^ w) elems ->
    bytes_to_slice w (slice_to_bytes w elems) = elems.
Proof. exact bytes_to_slice_of_slice_to_bytes. Qed.
Print Assumptions C26_bytes_to_slice_of_slice_to_bytes.

(* XAsBytes(BytesToX(b)) for EVERY length: b without its last (length b mod w) bytes. *)
Theorem C26_slice_to_bytes_of_bytes_to_slice :
  forall (w : N) (b : bytes),
    0 < w -> bytes_wf b ->
    slice_to_bytes w (bytes_to_slice w b) = firstn (N.to_nat w * (length b / N.to_nat w)) b.
Proof. exact slice_to_bytes_of_bytes_to_slice. Qed.
Print Assumptions C26_slice_to_bytes_of_bytes_to_slice.

(* ... hence exactly b when the length is a multiple of the width. *)
Theorem C26_slice_to_bytes_of_bytes_to_slice_exact :
  forall (w : N) (b : bytes),
    0 < w -> bytes_wf b -> (length b mod N.to_nat w = 0)%nat ->
    slice_to_bytes w (bytes_to_slice w b) = b.
Proof. exact slice_to_bytes_of_bytes_to_slice_exact. Qed.
Print Assumptions C26_slice_to_bytes_of_bytes_to_slice_exact.

(* What happens to trailing bytes: they are dropped, exactly length b mod w of
   them, and they never influence the decoded elements. *)
Theorem C26_trailing_bytes_dropped :
  forall (w : N) (b : bytes),
    0 < w -> bytes_wf b ->
    b = slice_to_bytes w (bytes_to_slice w b) ++ skipn (N.to_nat w * (length b / N.to_nat w)) b
    /\ length (skipn (N.to_nat w * (length b / N.to_nat w)) b) = (length b mod N.to_nat w)%nat.
Proof. exact bytes_to_slice_drops_tail. Qed.
Print Assumptions C26_trailing_bytes_dropped.

Theorem C26_trailing_bytes_ignored :
  forall (w : N) (b t : bytes),
    0 < w -> (length b mod N.to_nat w = 0)%nat -> (length t < N.to_nat w)%nat ->
    bytes_to_slice w (b ++ t) = bytes_to_slice w b.
Proof. exact bytes_to_slice_trailing. Qed.
Print Assumptions C26_trailing_bytes_ignored.

(* Lengths. *)
Theorem C26_slice_to_bytes_length :
  forall (w : N) (elems : list N),
    length (slice_to_bytes w elems) = (N.to_nat w * length elems)%nat.
Proof. exact slice_to_bytes_length. Qed.
Print Assumptions C26_slice_to_bytes_length.

Theorem C26_bytes_to_slice_length :
  forall (w : N) (b : bytes),
    length (bytes_to_slice w b) = (length b / N.to_nat w)%nat.
Proof. exact bytes_to_slice_length. Qed.
Print Assumptions C26_bytes_to_slice_length.

(* Little-endian element order, stated explicitly: byte i of element k is
   (elem / 256^i) mod 256, in both directions. *)
Theorem C26_slice_to_bytes_little_endian :
  forall (w : N) (elems : list N) (k i : nat),
    (i < N.to_nat w)%nat -> (k < length elems)%nat ->
    nth (k * N.to_nat w + i) (slice_to_bytes w elems) 0 = (nth k elems 0 / 256 ^ N.of_nat i) mod 256.
Proof. exact slice_to_bytes_little_endian. Qed.
Print Assumptions C26_slice_to_bytes_little_endian.

Theorem C26_bytes_to_slice_little_endian :
  forall (w : N) (b : bytes) (k i : nat),
    0 < w -> bytes_wf b -> (i < N.to_nat w)%nat -> (k < length b / N.to_nat w)%nat ->
    (nth k (bytes_to_slice w b) 0 / 256 ^ N.of_nat i) mod 256 = nth (k * N.to_nat w + i) b 0.
Proof. exact bytes_to_slice_little_endian. Qed.
Print Assumptions C26_bytes_to_slice_little_endian.

(* Outputs are well formed: bytes < 256, elements < 256^w. *)
Theorem C26_slice_to_bytes_wf :
  forall (w : N) (elems : list N), bytes_wf (slice_to_bytes w elems).
Proof. exact slice_to_bytes_wf. Qed.
Print Assumptions C26_slice_to_bytes_wf.

Theorem C26_bytes_to_slice_range :
  forall (w : N) (b : bytes),
    0 < w -> bytes_wf b -> Forall (fun e => e < 256 ^ w) (bytes_to_slice w b).
Proof. exact bytes_to_slice_range. Qed.
Print Assumptions C26_bytes_to_slice_range.

(* float16 helpers (float32 values in, top 16 bits on the wire): bytes -> slice
   -> bytes is exact; slice -> bytes -> slice clears the low 16 bits of every
   float32 pattern, so it is the identity exactly on the representable ones. *)
Theorem C26_float16_slice_of_bytes :
  forall b : bytes,
    bytes_wf b -> (length b mod 2 = 0)%nat ->
    f16_slice_to_bytes (f16_bytes_to_slice b) = b.
Proof. exact f16_slice_of_bytes_exact. Qed.
Print Assumptions C26_float16_slice_of_bytes.

Theorem C26_float16_bytes_of_slice :
  forall elems : list N,
    Forall (fun f => f < 4294967296) elems ->
    f16_bytes_to_slice (f16_slice_to_bytes elems) = map (fun f => f / 65536 * 65536) elems.
Proof. exact f16_bytes_of_slice. Qed.
Print Assumptions C26_float16_bytes_of_slice.

Theorem C26_float16_bytes_of_slice_exact :
  forall elems : list N,
    Forall (fun f => f < 4294967296 /\ f mod 65536 = 0) elems ->
    f16_bytes_to_slice (f16_slice_to_bytes elems) = elems.
Proof. exact f16_bytes_of_slice_exact. Qed.
Print Assumptions C26_float16_bytes_of_slice_exact.

(* UUID helpers (elements that do not share memory; [spare] = the bytes between
   len and cap of the input slice). *)
Theorem C26_uuid_slice_of_bytes_of_slice :
  forall (us : list bytes) (spare : bytes),
    Forall (fun u => length u = 16%nat) us ->
    bytes_to_uuid_slice (uuid_slice_to_bytes us) spare = Ok us.
Proof. exact uuid_slice_of_bytes_of_slice. Qed.
Print Assumptions C26_uuid_slice_of_bytes_of_slice.

Theorem C26_uuid_bytes_of_slice_of_bytes :
  forall (b spare : bytes),
    (length b mod 16 = 0)%nat ->
    exists us, bytes_to_uuid_slice b spare = Ok us /\ uuid_slice_to_bytes us = b.
Proof. exact uuid_bytes_roundtrip. Qed.
Print Assumptions C26_uuid_bytes_of_slice_of_bytes.

(* A byte count that is not a multiple of 16 is NOT truncated like in the other
   helpers: the call panics, or, when the slice has enough spare capacity,
   returns a last element completed with bytes from beyond the length. *)
Theorem C26_uuid_partial_tail_panics :
  forall (b spare : bytes),
    (length b mod 16 <> 0)%nat -> (length b mod 16 + length spare < 16)%nat ->
    bytes_to_uuid_slice b spare = Panic.
Proof. exact uuid_bytes_to_slice_panics. Qed.
Print Assumptions C26_uuid_partial_tail_panics.

Theorem C26_uuid_partial_tail_reads_beyond_length :
  forall (b spare : bytes) (us : list bytes),
    bytes_to_uuid_slice b spare = Ok us ->
    uuid_slice_to_bytes us = b ++ firstn ((16 - length b mod 16) mod 16) spare
    /\ Forall (fun u => length u = 16%nat) us.
Proof. exact uuid_bytes_to_slice_ok. Qed.
Print Assumptions C26_uuid_partial_tail_reads_beyond_length.

(* Which code runs: the probe answers the opposite of the host's endianness, so
   a little-endian host runs the fallbacks modelled above (on every input) and
   a big-endian host would select the unsafe reinterpretation. *)
Theorem C26_probe_inverted :
  forall host_le : bool, probe_is_little_endian host_le = negb host_le.
Proof. exact probe_inverted. Qed.
Print Assumptions C26_probe_inverted.

Theorem C26_little_endian_host_runs_fallback :
  forall (w : N) (elems : list N),
    runs_fast_path true = false /\ as_bytes_on_host true w elems = Ok (slice_to_bytes w elems).
Proof. exact little_endian_host_runs_fallback. Qed.
Print Assumptions C26_little_endian_host_runs_fallback.

(* Encoder tie.  The iterator does not call the helpers, it has its own loops:
   identical for the integer types and float64; for float32 identical unless an
   element is a signalling NaN — and then always different. *)
Theorem C26_encoder_tie :
  forall (w : N) (elems : list N), iter_to_bytes w false elems = slice_to_bytes w elems.
Proof. exact iter_tie_nonfloat32. Qed.
Print Assumptions C26_encoder_tie.

Theorem C26_encoder_tie_float32 :
  forall elems : list N,
    Forall (fun f => is_snan32 f = false) elems ->
    iter_to_bytes 4 true elems = slice_to_bytes 4 elems.
Proof. exact iter_tie_float32. Qed.
Print Assumptions C26_encoder_tie_float32.

Theorem C26_encoder_tie_float32_fails_on_signalling_nan :
  forall f : N,
    is_snan32 f = true -> f < 4294967296 ->
    iter_to_bytes 4 true [f] <> slice_to_bytes 4 [f].
Proof. exact iter_tie_float32_fails_on_snan. Qed.
Print Assumptions C26_encoder_tie_float32_fails_on_signalling_nan.

(* Decoder tie.  Slice builders, array builders and the interface{} builder
   decode like the helpers, except the float32 ARRAY builder on signalling NaNs. *)
Theorem C26_decoder_tie :
  forall (w : N) (b : bytes), build_from_bytes w false b = bytes_to_slice w b.
Proof. exact build_tie_other. Qed.
Print Assumptions C26_decoder_tie.

Theorem C26_decoder_tie_float32_array :
  forall b : bytes,
    Forall (fun f => is_snan32 f = false) (bytes_to_slice 4 b) ->
    build_from_bytes 4 true b = bytes_to_slice 4 b.
Proof. exact build_tie_float32_array. Qed.
Print Assumptions C26_decoder_tie_float32_array.

(* ------------------------------------------------------------------ *)
(* Non-vacuity                                                          *)
(* ------------------------------------------------------------------ *)

(* uint32 0x12345678, float32 signalling NaN 0x7fa00001, all-ones *)
Example C26_example_encode :
  slice_to_bytes 4 [305419896; 2141192193; 4294967295]
  = [120; 86; 52; 18;  1; 0; 160; 127;  255; 255; 255; 255]
  /\ Forall (fun e => e < 256 ^ 4) [305419896; 2141192193; 4294967295]
  /\ bytes_to_slice 4 (slice_to_bytes 4 [305419896; 2141192193; 4294967295])
     = [305419896; 2141192193; 4294967295].
Proof.
  split; [vm_compute; reflexivity|]. split; [|vm_compute; reflexivity].
  repeat (constructor; [reflexivity|]). constructor.
Qed.

(* seven bytes as uint16: three elements, the 7th byte is dropped *)
Example C26_example_tail :
  bytes_wf [1; 2; 3; 4; 5; 6; 7]
  /\ bytes_to_slice 2 [1; 2; 3; 4; 5; 6; 7] = [513; 1027; 1541]
  /\ slice_to_bytes 2 (bytes_to_slice 2 [1; 2; 3; 4; 5; 6; 7]) = [1; 2; 3; 4; 5; 6]
  /\ (length [1; 2; 3; 4; 5; 6; 7] mod N.to_nat 2 = 1)%nat.
Proof.
  split; [apply bytes_wfb_wf; vm_compute; reflexivity|].
  vm_compute. repeat split.
Qed.

(* float64 NaN with payload 0x7ff4000000000123, width 8 *)
Example C26_example_f64 :
  slice_to_bytes 8 [9219994337134248227] = [35; 1; 0; 0; 0; 0; 244; 127]
  /\ bytes_to_slice 8 [35; 1; 0; 0; 0; 0; 244; 127] = [9219994337134248227].
Proof. vm_compute. split; reflexivity. Qed.

(* float16: 1.0f (0x3f800000) is representable; 0x7f800001 (a NaN) comes back
   as 0x7f800000 (+Inf) *)
Example C26_example_f16 :
  f16_slice_to_bytes [1065353216; 2139095041] = [128; 63; 128; 127]
  /\ f16_bytes_to_slice [128; 63; 128; 127] = [1065353216; 2139095040].
Proof. vm_compute. split; reflexivity. Qed.

Example C26_example_uuid :
  bytes_to_uuid_slice [1] [] = Panic
  /\ bytes_to_uuid_slice [1] [2;2;2;2;2;2;2;2;2;2;2;2;2;2;2;2;2]
     = Ok [[1;2;2;2;2;2;2;2;2;2;2;2;2;2;2;2]].
Proof. vm_compute. split; reflexivity. Qed.

(* a big-endian host would take the unsafe path and emit big-endian bytes *)
Example C26_example_big_endian_host :
  runs_fast_path false = true
  /\ as_bytes_on_host false 2 [1] = Ok [0; 1]
  /\ as_bytes_on_host false 2 [] = Panic
  /\ as_bytes_on_host true 2 [1] = Ok [1; 0].
Proof. vm_compute. repeat split. Qed.

(* the encoder / decoder ties fail on the float32 signalling NaN 0x7fa00001:
   the iterator emits 0x7fe00001, the float32 array builder stores 0x7fe00001 *)
Example C26_example_snan :
  is_snan32 2141192193 = true
  /\ slice_to_bytes 4 [2141192193] = [1; 0; 160; 127]
  /\ iter_to_bytes 4 true [2141192193] = [1; 0; 224; 127]
  /\ bytes_to_slice 4 [1; 0; 160; 127] = [2141192193]
  /\ build_from_bytes 4 true [1; 0; 160; 127] = [2145386497].
Proof. vm_compute. repeat split. Qed.
