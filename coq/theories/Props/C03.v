(* C03 — CBE and CTE are 1:1 convertible.
   Only theorem statements here; each is closed by a lemma from Proofs/ConvertProofs.v.

   Vocabulary (Model/Convert.v): [cbe_side doc] / [cte_side text] = the events the validator forwards for a
   document that decoder + rules accept (None: not accepted); [to_cte] / [to_cbe] = the two encoders;
   Denote.den = "the data"; tied to the implementation stage by stage by the convert_case family of
   `vh run C03` (CvCbe, CvEvents, CvCte) and, for the string classes and the time fields, by CvIdent, CvMedia, CvTime.
   The component models are those of C01 (Model/Cbe.v), C23 (Model/CteEnc.v), C02 (Model/CteRead.v), C10 (Model/Rules.v).

   State after the repairs 40e3af2 (cbe validateTime) and afaa1e5 (rules ValidateMediaType / ValidateCustomType):
   (1) identifiers: everything the validator admits is spellable and is read back (closed, all inputs);
   (2) media types: the validator admits exactly the lexer's MEDIA_TYPE shape, and the encoder's spelling is read
       back as that media type, never as a typed-array header or a custom type (closed, all inputs);
       times: what validateTime lets through is read back as the same time — for every value of the CBE bit
       fields (finite sweeps, bounds stated) and for every area/location string (closed, all inputs);
       custom type codes the validator admits fit the CBE decoder's limit;
   (3) the conversion on the fragment where the CTE round trip (property C02) holds: C03 = C01 after C02;
   (4) the property as stated is still FALSE: a NaN payload in a float array does not survive the text form
       (inherited from C02).  Further open findings outside these models: zero time values are written as null,
       years beyond 32 bits wrap inside go-compact-time, big floats that are not a float64 (C01). *)
From CE Require Import Model.Convert Proofs.ConvertProofs.
From CE Require Model.Cbe Model.CteEnc Model.CteRead Model.Denote Model.Rules Proofs.CbeRoundtrip Gen.RulesConsts.
Require Coq.Strings.String.
Import String.StringSyntax.
Open Scope N_scope.

(* ------------------------------------------------------------------ *)
(* 1. Identifiers (marker ids, reference ids, record-type and record names) *)

(* Every code point chars.IsRuneValidIdentifier admits (Gen/RulesConsts.v identifier_safe_intervals,
   regenerated from the table in /repo) is in the generated lexer's CHAR_IDENTIFIER class
   (Gen/CteReadTables.v cte_ident_intervals, read off the generated lexer). No bound on the code point. *)
Theorem C03_identifier_class_inclusion :
  forall r, Rules.is_identifier_safe_rune r = true -> CteRead.ch_ident r = true.
Proof. exact ident_class_inclusion. Qed.
Print Assumptions C03_identifier_class_inclusion.

(* An identifier the validator admits is the UTF-8 of its code points, all of them CHAR_IDENTIFIER. *)
Theorem C03_identifier_valid_is_lexable :
  forall id, ident_valid id = true ->
    runes id <> [] /\ forallb CteRead.ch_ident (runes id) = true /\ CteRead.u8 (runes id) = id /\ ident_lexable id = true.
Proof. exact ident_valid_spec. Qed.
Print Assumptions C03_identifier_valid_is_lexable.

(* The four spellings cte/encoder.go uses — "&id:", "$id", "@id<", "@id{" — are single tokens carrying
   the same identifier, whatever follows ("$id": anything that is not itself an identifier character;
   "@id{": anything that does not let the MEDIA_TYPE fragment run on to a slash; the encoder continues
   with a line feed or the closing brace, see the Example below). *)
Theorem C03_identifier_tokens_reread :
  forall id idx rest, ident_valid id = true ->
  (CteRead.next_tok idx (38 :: runes id ++ 58 :: rest) = Some (CteRead.TMarker id, rest, idx)) /\
  (stops CteRead.ch_ident rest ->
   CteRead.next_tok idx (36 :: runes id ++ rest) = Some (CteRead.TVal (ERefLocal id), rest, idx)) /\
  (CteRead.next_tok idx (64 :: runes id ++ 60 :: rest) = Some (CteRead.TRecTypeB id, rest, idx)) /\
  (media_stop_ok (123 :: rest) ->
   CteRead.next_tok idx (64 :: runes id ++ 123 :: rest) = Some (CteRead.TRecB id, rest, idx)).
Proof. exact ident_tokens_reread. Qed.
Print Assumptions C03_identifier_tokens_reread.

Example C03_identifier_example :
  ident_valid (str "résumé-1.x_"%string) = true /\
  media_stop_ok (123 :: 10 :: [32; 32]) /\ media_stop_ok (123 :: 125 :: 10 :: []) /\ media_stop_ok [123; 125] /\
  stops CteRead.ch_ident [10] /\ stops CteRead.ch_ident [].
Proof. vm_compute. repeat split; discriminate. Qed.

(* ------------------------------------------------------------------ *)
(* 2. Media types, times, custom types: what the binary side admits, the text side takes back *)

(* rules.ValidateMediaType (Rules.media_type_valid, on bytes) admits exactly the strings of the lexer's
   MEDIA_TYPE shape: letter, token characters, one slash, at least one token character. *)
Theorem C03_media_type_valid_iff_lexable :
  forall mt, Rules.media_type_valid mt = media_lexable_runes mt.
Proof. exact media_type_valid_iff_lexable. Qed.
Print Assumptions C03_media_type_valid_iff_lexable.

Theorem C03_media_type_valid_is_lexable :
  forall mt, media_valid mt = true -> media_lexable mt = true.
Proof. exact media_valid_lexable. Qed.
Print Assumptions C03_media_type_valid_is_lexable.

(* The lexer's MEDIA_TYPE fragment matches the encoder's spelling — the whole media type, then the bracket
   (or the quote of the text form) — if and only if the media type has that shape. *)
Theorem C03_media_type_lexable_iff :
  forall s t rest, t = 91 \/ t = 34 ->
  (CteRead.m_media (s ++ t :: rest) = Some (s, t, rest) <-> media_lexable_runes s = true).
Proof. exact m_media_iff. Qed.
Print Assumptions C03_media_type_lexable_iff.

(* For a media type the validator admits, the token the reader builds from "@mt[" ... / "@mt" quote ... is the
   media token with exactly that media type (cte/encoder_array.go writes "@%v["): it is never taken for a
   typed-array header ("@i8[") or a custom type ("@7["), whatever the payload. *)
Theorem C03_media_type_reread :
  forall mt idx r, media_valid mt = true ->
  CteRead.at_token idx (runes mt ++ 91 :: r) =
    match CteRead.bytes_body r with
    | Some (data, rest) => Some (CteRead.TVal (EMedia mt data), rest, idx)
    | None => None
    end /\
  CteRead.at_token idx (runes mt ++ 34 :: r) =
    match CteRead.lex_string idx r with
    | Some (data, rest, idx') => Some (CteRead.TVal (EMedia mt data), rest, idx')
    | None => None
    end.
Proof. exact media_valid_reread. Qed.
Print Assumptions C03_media_type_reread.

(* Custom type codes the validator admits (ValidateCustomType) fit the CBE decoder's limit and the encoder's uint64. *)
Theorem C03_custom_type_fits :
  forall ct, Rules.custom_type_ok ct = true -> ct <= Cbe.custom_type_max /\ Cbe.is_u64 ct = true.
Proof. exact custom_type_ok_fits. Qed.
Print Assumptions C03_custom_type_fits.

(* Times.  [time_string t] is compact_time's String() of the value built from the CBE fields (what the CTE
   encoder writes), [cbe_time_ok t] is cbe/decoder_reader.go validateTime on it, [time_reread] is what the
   complete reader model makes of the text.  On each family the text side accepts exactly when the binary
   side does, and reads the same time.  EVERY value of the hour (5 bits), minute and second (6 bits) fields: *)
Theorem C03_clock_fields_exact :
  forall h m s, h < 32 -> m < 64 -> s < 64 ->
  time_reread (time_string (clock_time h m s TzUTC)) =
    (if cbe_time_ok (clock_time h m s TzUTC) then Some (time_string (clock_time h m s TzUTC)) else None) /\
  cbe_time_ok (clock_time h m s TzUTC) = (h <=? 23) && (m <=? 59) && (s <=? 60).
Proof. exact clock_fields_exact. Qed.
Print Assumptions C03_clock_fields_exact.

(* every value of the month (4 bits) and day (5 bits) fields, year 2020 *)
Theorem C03_date_fields_exact :
  forall mo d, mo < 16 -> d < 32 ->
  time_reread (time_string (date_time 2020 mo d)) =
    (if cbe_time_ok (date_time 2020 mo d) then Some (time_string (date_time 2020 mo d)) else None) /\
  cbe_time_ok (date_time 2020 mo d) = (1 <=? mo) && (mo <=? 12) && (1 <=? d) && (d <=? CteRead.day_max mo).
Proof. exact date_fields_exact. Qed.
Print Assumptions C03_date_fields_exact.

(* every value of the UTC-offset field (12 bits, signed) *)
Theorem C03_utc_offset_field_exact :
  forall o, (-2048 <= o < 2048)%Z ->
  time_reread (time_string (clock_time 1 2 3 (TzOffset o))) =
    (if cbe_time_ok (clock_time 1 2 3 (TzOffset o)) then Some (time_string (clock_time 1 2 3 (TzOffset o))) else None) /\
  cbe_time_ok (clock_time 1 2 3 (TzOffset o)) = ((-1439 <=? o) && (o <=? 1439))%Z.
Proof. exact offset_field_exact. Qed.
Print Assumptions C03_utc_offset_field_exact.

(* every value of the latitude field (15 bits, signed; longitude 0) and of the longitude field (16 bits, signed; latitude 0) *)
Theorem C03_latitude_field_exact :
  forall la, (-16384 <= la < 16384)%Z ->
  time_reread (time_string (clock_time 1 2 3 (TzLatLong la 0))) =
    (if cbe_time_ok (clock_time 1 2 3 (TzLatLong la 0)) then Some (time_string (clock_time 1 2 3 (TzLatLong la 0))) else None) /\
  cbe_time_ok (clock_time 1 2 3 (TzLatLong la 0)) = ((-9000 <=? la) && (la <=? 9000))%Z.
Proof. exact latitude_field_exact. Qed.
Print Assumptions C03_latitude_field_exact.

Theorem C03_longitude_field_exact :
  forall lo, (-32768 <= lo < 32768)%Z ->
  time_reread (time_string (clock_time 1 2 3 (TzLatLong 0 lo))) =
    (if cbe_time_ok (clock_time 1 2 3 (TzLatLong 0 lo)) then Some (time_string (clock_time 1 2 3 (TzLatLong 0 lo))) else None) /\
  cbe_time_ok (clock_time 1 2 3 (TzLatLong 0 lo)) = ((-18000 <=? lo) && (lo <=? 18000))%Z.
Proof. exact longitude_field_exact. Qed.
Print Assumptions C03_longitude_field_exact.

(* Area/location zones, for EVERY string the area/location field can hold (no bound): when validateTime lets
   the time through, the complete reader reads the CTE encoder's spelling back as the same time — the same
   zone, an alias of UTC or Local being named canonically ([time_canon]). *)
Theorem C03_area_zone_reread :
  forall raw, cbe_time_ok (clock_time 1 2 3 (TzArea raw)) = true ->
  time_reread (time_string (clock_time 1 2 3 (TzArea raw))) = Some (time_string (time_canon (clock_time 1 2 3 (TzArea raw)))).
Proof. exact area_zone_reread. Qed.
Print Assumptions C03_area_zone_reread.

(* the reader on "01:02:03/name" for every lexable name, in its own terms (tz_area_text: aliases, expansion
   of a one-letter area, 127-byte limit) *)
Theorem C03_area_time_reread :
  forall name, area_lexable_runes name = true ->
  time_reread (clock_txt ++ 47 :: name) = option_map (fun tz => clock_txt ++ tz) (CteRead.tz_area_text name).
Proof. exact area_time_reread. Qed.
Print Assumptions C03_area_time_reread.

(* The lexer's TZ_AREALOC fragment consumes the spelling up to [rest] if and only if the name starts with a
   capital ASCII letter and continues with letters, digits, '_' '-' '.' '/' '+' — the test validateTime applies. *)
Theorem C03_area_location_lexable_iff :
  forall s rest, stops CteRead.ch_area_next rest ->
  (CteRead.m_tz_area (47 :: s ++ rest) = Some rest <-> area_lexable_runes s = true).
Proof. exact m_tz_area_iff. Qed.
Print Assumptions C03_area_location_lexable_iff.

Example C03_lexable_examples :
  media_valid (str "application/x-www-form-urlencoded"%string) = true /\ media_valid (str "i8"%string) = false /\
  media_valid [] = false /\ media_valid (str "text/plain; charset=utf-8"%string) = false /\
  area_lexable (str "America/Argentina/Buenos_Aires"%string) = true /\ area_lexable (str "x"%string) = false /\
  cbe_time_ok (clock_time 23 59 60 (TzArea (str "E/Berlin"%string))) = true /\
  time_expected (clock_time 23 59 60 (TzArea (str "E/Berlin"%string))) = Some (str "23:59:60/Europe/Berlin"%string) /\
  cbe_time_ok (clock_time 1 2 3 (TzArea (str "C/UTC"%string))) = true /\
  time_expected (clock_time 1 2 3 (TzArea (str "C/UTC"%string))) = Some (str "01:02:03"%string) /\
  cbe_time_ok (clock_time 24 0 0 TzUTC) = false /\ cbe_time_ok (clock_time 1 2 3 (TzArea (str "x"%string))) = false.
Proof. vm_compute. repeat split. Qed.

(* ------------------------------------------------------------------ *)
(* 3. The conversion where the text round trip holds: C03 = C01 after C02

   [read] is the CTE decoder as a function from documents to events and [P] a set of validated streams on
   which property C02 is assumed for it ([c02_on read P]: the decoder reads the encoder's text, the
   validator accepts what it reads, the data is the input's without its padding).  Excluded therefore:
   exactly the streams outside [P], i.e. the constructs property C02 itself excludes (section 4: NaN payloads
   in float arrays; big-decimal coefficients above 64 bits) — by sections 1 and 2 no longer any identifier,
   media type, time or custom type the binary side accepts.  For a CBE document whose validated stream
   lies in [P]: the text is accepted with the same data, and when the re-read stream lies in the fragment
   of the CBE round-trip theorem (C01, [c01_doc_norm]) the document converted back decodes to the same
   data again. *)
Theorem C03_conversion_partial :
  forall (read : bytes -> option (list event)) (P : list event -> Prop),
  c02_on read P ->
  forall doc es t, cbe_side doc = Some es -> P es -> to_cte es = Some t ->
  exists es1 es2,
    read t = Some es1 /\ rules_forward es1 = Some es2 /\
    Denote.den es2 = Denote.no_padding (Denote.den es) /\
    forall es3 d2,
      CbeRoundtrip.c01_doc_norm es2 = Some es3 -> to_cbe es2 = Some d2 ->
      Cbe.len d2 <= Cbe.max_doc_size Cbe.default_dcfg ->
      Cbe.cbe_decode Cbe.default_dcfg d2 = (es3, Cbe.DOk) /\
      Denote.den es3 = Denote.no_comments (Denote.no_padding (Denote.den es)).
Proof. exact c03_data_half. Qed.
Print Assumptions C03_conversion_partial.

(* Non-vacuity: with the reader model for [read] the hypotheses hold on a 34-byte document (nested
   list and map, marker and reference, string, media "a/b", float, chunked byte array). *)
Example C03_conversion_example :
  (cbe_side c03_example_doc = Some c03_example_events /\ (10 < length c03_example_events)%nat) /\
  c02_on CteRead.cte_read (fun es => es = c03_example_events) /\
  (let es2 := oget (rules_forward (oget (CteRead.cte_read (oget (to_cte c03_example_events))))) in
   exists es3 d2, CbeRoundtrip.c01_doc_norm es2 = Some es3 /\ to_cbe es2 = Some d2 /\
                  Cbe.len d2 <= Cbe.max_doc_size Cbe.default_dcfg).
Proof. exact (conj c03_example_accepted (conj c03_example_c02 c03_example_back)). Qed.

(* ------------------------------------------------------------------ *)
(* 4. The property as stated is still false on the current code; the repaired classes *)

Definition C03_full : Prop := ConvertProofs.C03_full.

Theorem C03_full_refuted : ~ C03_full.
Proof. exact ConvertProofs.C03_full_refuted. Qed.
Print Assumptions C03_full_refuted.

(* open (inherited from C02, key C03/cbe-cte/float-array-nan-payload): the 8-byte document 81 00 7f 91 01 00 c0 7f
   (float32 array with the one element 7fc00001) is accepted, written "@f32x[nan]", accepted again — with the
   element 7fe00000 *)
Theorem C03_refuted_nan_payload :
  cbe_outcome nan_payload_doc = (true, Some (str "c0"%string ++ [10] ++ str "@f32x[nan]"%string), true, false) /\
  option_map r_reread (option_map cbe_report_of (cbe_side nan_payload_doc)) =
    Some (Some [EBeginDoc; EVersion 0; EArray RulesConsts.AT_Float32 1 [0; 0; 224; 127]; EEndDoc]).
Proof. exact nan_payload_outcome. Qed.
Print Assumptions C03_refuted_nan_payload.

Theorem C03_refuted_silently :
  exists doc es t es2, cbe_side doc = Some es /\ to_cte es = Some t /\ cte_side t = Some es2 /\
                       Denote.den es2 <> Denote.no_padding (Denote.den es).
Proof. exact C03_cbe_half_refuted_silently. Qed.
Print Assumptions C03_refuted_silently.

(* repaired: the former witnesses — media types "i8" (read back as an int8 array), "7" (as custom type 7), "a",
   the empty one, "text/plain; charset=utf-8" (not read back at all) — are refused by the binary side; a
   well-formed media type converts with the same data *)
Theorem C03_repaired_media_types :
  cbe_outcome (media_doc (str "i8"%string)) = (false, None, false, false) /\
  cbe_outcome (media_doc (str "7"%string)) = (false, None, false, false) /\
  cbe_outcome (media_doc (str "a"%string)) = (false, None, false, false) /\
  cbe_outcome (media_doc []) = (false, None, false, false) /\
  cbe_outcome (media_doc (str "text/plain; charset=utf-8"%string)) = (false, None, false, false) /\
  cbe_outcome (media_doc (str "a/b"%string)) = (true, Some (str "c0"%string ++ [10] ++ str "@a/b[01 02]"%string), true, true).
Proof. exact media_outcomes. Qed.
Print Assumptions C03_repaired_media_types.

(* repaired: custom type 2^32 is refused by the text side's validator; 2^32-1 converts *)
Theorem C03_repaired_custom_types :
  cte_side custom_big_text = None /\
  cte_converts custom_big_text = true /\ cte_converts (str "c0 @4294967295[01]"%string) = true /\
  cte_side (str "c0 @4294967295[01]"%string) = Some [EBeginDoc; EVersion 0; ECustomBin 4294967295 [1]; EEndDoc].
Proof. exact custom_outcomes. Qed.
Print Assumptions C03_repaired_custom_types.
