(* C03 — CBE and CTE are 1:1 convertible.
   Only theorem statements here; each is closed by a lemma from Proofs/ConvertProofs.v.

   Vocabulary (Model/Convert.v): [cbe_side doc] / [cte_side text] = the events the validator forwards for a
   document that decoder + rules accept (None: not accepted); [to_cte] / [to_cbe] = the two encoders;
   Denote.den = "the data"; tied to the implementation stage by stage by the convert_case family of
   `vh run C03` (CvCbe, CvEvents, CvCte) and, for the string classes and the time fields, by CvIdent, CvMedia, CvTime.
   The component models are those of C01 (Model/Cbe.v), C23 (Model/CteEnc.v), C02 (Model/CteRead.v), C10 (Model/Rules.v).

   Result: the property is FALSE on the current code (section 4); what holds is
   (1) identifiers: everything the validator admits is spellable and is read back (closed, all inputs);
   (2) media types and area/location names: exact characterisation of what the lexer takes back (closed, all inputs);
       time fields: exact characterisation for every value of the CBE bit fields (finite sweeps, bounds stated);
   (3) the conversion on the fragment where the CTE round trip (property C02) holds: C03 = C01 after C02. *)
From CE Require Import Model.Convert Proofs.ConvertProofs.
From CE Require Model.Cbe Model.CteEnc Model.CteRead Model.Denote Model.Rules Proofs.CbeRoundtrip Gen.RulesConsts.
Require Coq.Strings.String.
Import String.StringSyntax.
Open Scope N_scope.

(* ------------------------------------------------------------------ *)
(* 1. Identifiers (marker ids, reference ids, record-type and record names) *)

(* Every code point chars.IsRuneValidIdentifier admits (Gen/RulesConsts.v identifier_safe_intervals,
   regenerated from the table in /repo) is in the generated lexer's CHAR_IDENTIFIER class
   (Gen/CteReadTables.v cte_ident_intervals, read off the generated lexer). No bound on the code point. *)
Theorem C03_identifier_class_inclusion :
  forall r, Rules.is_identifier_safe_rune r = true -> CteRead.ch_ident r = true.
Proof. exact ident_class_inclusion. Qed.
Print Assumptions C03_identifier_class_inclusion.

(* An identifier the validator admits is the UTF-8 of its code points, all of them CHAR_IDENTIFIER. *)
Theorem C03_identifier_valid_is_lexable :
  forall id, ident_valid id = true ->
    runes id <> [] /\ forallb CteRead.ch_ident (runes id) = true /\ CteRead.u8 (runes id) = id /\ ident_lexable id = true.
Proof. exact ident_valid_spec. Qed.
Print Assumptions C03_identifier_valid_is_lexable.

(* The four spellings cte/encoder.go uses — "&id:", "$id", "@id<", "@id{" — are single tokens carrying
   the same identifier, whatever follows ("$id": anything that is not itself an identifier character;
   "@id{": anything that does not let the MEDIA_TYPE fragment run on to a slash; the encoder continues
   with a line feed or the closing brace, see the Example below). *)
Theorem C03_identifier_tokens_reread :
  forall id idx rest, ident_valid id = true ->
  (CteRead.next_tok idx (38 :: runes id ++ 58 :: rest) = Some (CteRead.TMarker id, rest, idx)) /\
  (stops CteRead.ch_ident rest ->
   CteRead.next_tok idx (36 :: runes id ++ rest) = Some (CteRead.TVal (ERefLocal id), rest, idx)) /\
  (CteRead.next_tok idx (64 :: runes id ++ 60 :: rest) = Some (CteRead.TRecTypeB id, rest, idx)) /\
  (media_stop_ok (123 :: rest) ->
   CteRead.next_tok idx (64 :: runes id ++ 123 :: rest) = Some (CteRead.TRecB id, rest, idx)).
Proof. exact ident_tokens_reread. Qed.
Print Assumptions C03_identifier_tokens_reread.

Example C03_identifier_example :
  ident_valid (str "résumé-1.x_"%string) = true /\
  media_stop_ok (123 :: 10 :: [32; 32]) /\ media_stop_ok (123 :: 125 :: 10 :: []) /\ media_stop_ok [123; 125] /\
  stops CteRead.ch_ident [10] /\ stops CteRead.ch_ident [].
Proof. vm_compute. repeat split; discriminate. Qed.

(* ------------------------------------------------------------------ *)
(* 2. Media types, area/location names, time fields: what the text side takes back, exactly *)

(* The validator admits any valid UTF-8 as a media type (media_valid), the CBE decoder passes any bytes
   on, the CTE encoder writes it verbatim between '@' and '['.  The lexer's MEDIA_TYPE fragment matches
   that spelling — the whole media type, then the bracket (or the quote of the text form) — if and only if
   the media type has the shape letter, token characters, one slash, at least one token character. *)
Theorem C03_media_type_lexable_iff :
  forall s t rest, t = 91 \/ t = 34 ->
  (CteRead.m_media (s ++ t :: rest) = Some (s, t, rest) <-> media_lexable_runes s = true).
Proof. exact m_media_iff. Qed.
Print Assumptions C03_media_type_lexable_iff.

(* compact_time's decoder accepts any 1..127 bytes as an area/location name and nothing on the binary
   side validates it; the CTE encoder writes the long name verbatim after a slash.  The lexer's
   TZ_AREALOC fragment consumes that spelling up to [rest] if and only if the name starts with a
   capital ASCII letter and continues with letters, digits, '_' '-' '.' '/' '+'. *)
Theorem C03_area_location_lexable_iff :
  forall s rest, stops CteRead.ch_area_next rest ->
  (CteRead.m_tz_area (47 :: s ++ rest) = Some rest <-> area_lexable_runes s = true).
Proof. exact m_tz_area_iff. Qed.
Print Assumptions C03_area_location_lexable_iff.

(* Time fields.  [time_string t] is compact_time's String() of the value the CBE reader builds (what
   the CTE encoder writes), [time_reread] what the complete reader model makes of it.  For EVERY value
   of the hour (5 bits), minute and second (6 bits each) fields: *)
Theorem C03_clock_fields_exact :
  forall h m s, h < 32 -> m < 64 -> s < 64 ->
  time_reread (time_string (clock_time h m s TzUTC)) =
  if (h <=? 23) && (m <=? 59) && (s <=? 60) then Some (time_string (clock_time h m s TzUTC)) else None.
Proof. exact clock_fields_exact. Qed.
Print Assumptions C03_clock_fields_exact.

(* every value of the month (4 bits) and day (5 bits) fields, year 2020 *)
Theorem C03_date_fields_exact :
  forall mo d, mo < 16 -> d < 32 ->
  time_reread (time_string (date_time 2020 mo d)) =
  if (1 <=? mo) && (mo <=? 12) && (1 <=? d) && (d <=? CteRead.day_max mo) then Some (time_string (date_time 2020 mo d)) else None.
Proof. exact date_fields_exact. Qed.
Print Assumptions C03_date_fields_exact.

(* every value of the UTC-offset field (12 bits, signed) *)
Theorem C03_utc_offset_field_exact :
  forall o, (-2048 <= o < 2048)%Z ->
  time_reread (time_string (clock_time 1 2 3 (TzOffset o))) =
  if ((-1439 <=? o) && (o <=? 1439))%Z then Some (time_string (clock_time 1 2 3 (TzOffset o))) else None.
Proof. exact offset_field_exact. Qed.
Print Assumptions C03_utc_offset_field_exact.

(* every value of the latitude field (15 bits, signed; longitude 0) and of the longitude field (16 bits, signed; latitude 0) *)
Theorem C03_latitude_field_exact :
  forall la, (-16384 <= la < 16384)%Z ->
  time_reread (time_string (clock_time 1 2 3 (TzLatLong la 0))) =
  if ((-9000 <=? la) && (la <=? 9000))%Z then Some (time_string (clock_time 1 2 3 (TzLatLong la 0))) else None.
Proof. exact latitude_field_exact. Qed.
Print Assumptions C03_latitude_field_exact.

Theorem C03_longitude_field_exact :
  forall lo, (-32768 <= lo < 32768)%Z ->
  time_reread (time_string (clock_time 1 2 3 (TzLatLong 0 lo))) =
  if ((-18000 <=? lo) && (lo <=? 18000))%Z then Some (time_string (clock_time 1 2 3 (TzLatLong 0 lo))) else None.
Proof. exact longitude_field_exact. Qed.
Print Assumptions C03_longitude_field_exact.

Example C03_lexable_examples :
  media_lexable (str "application/x-www-form-urlencoded"%string) = true /\ media_lexable (str "i8"%string) = false /\
  media_lexable [] = false /\ media_lexable (str "text/plain; charset=utf-8"%string) = false /\
  area_lexable (str "America/Argentina/Buenos_Aires"%string) = true /\ area_lexable (str "x"%string) = false /\
  time_expected (clock_time 23 59 60 (TzArea (str "E/Berlin"%string))) = Some (str "23:59:60/Europe/Berlin"%string) /\
  time_expected (clock_time 24 0 0 TzUTC) = None.
Proof. vm_compute. repeat split. Qed.

(* ------------------------------------------------------------------ *)
(* 3. The conversion where the text round trip holds: C03 = C01 after C02

   [read] is the CTE decoder as a function from documents to events and [P] a set of validated streams on
   which property C02 is assumed for it ([c02_on read P]: the decoder reads the encoder's text, the
   validator accepts what it reads, the data is the input's without its padding).  Excluded therefore:
   exactly the streams outside [P] — by sections 2 and 4 every stream with a media type that is not
   [media_lexable], a zone name that is not [area_lexable], a time field outside compact_time's Validate
   ranges, plus the constructs property C02 itself excludes.  For a CBE document whose validated stream
   lies in [P]: the text is accepted with the same data, and when the re-read stream lies in the fragment
   of the CBE round-trip theorem (C01, [c01_doc_norm]) the document converted back decodes to the same
   data again. *)
Theorem C03_conversion_partial :
  forall (read : bytes -> option (list event)) (P : list event -> Prop),
  c02_on read P ->
  forall doc es t, cbe_side doc = Some es -> P es -> to_cte es = Some t ->
  exists es1 es2,
    read t = Some es1 /\ rules_forward es1 = Some es2 /\
    Denote.den es2 = Denote.no_padding (Denote.den es) /\
    forall es3 d2,
      CbeRoundtrip.c01_doc_norm es2 = Some es3 -> to_cbe es2 = Some d2 ->
      Cbe.len d2 <= Cbe.max_doc_size Cbe.default_dcfg ->
      Cbe.cbe_decode Cbe.default_dcfg d2 = (es3, Cbe.DOk) /\
      Denote.den es3 = Denote.no_comments (Denote.no_padding (Denote.den es)).
Proof. exact c03_data_half. Qed.
Print Assumptions C03_conversion_partial.

(* Non-vacuity: with the reader model for [read] the hypotheses hold on a 34-byte document (nested
   list and map, marker and reference, string, media "a/b", float, chunked byte array). *)
Example C03_conversion_example :
  (cbe_side c03_example_doc = Some c03_example_events /\ (10 < length c03_example_events)%nat) /\
  c02_on CteRead.cte_read (fun es => es = c03_example_events) /\
  (let es2 := oget (rules_forward (oget (CteRead.cte_read (oget (to_cte c03_example_events))))) in
   exists es3 d2, CbeRoundtrip.c01_doc_norm es2 = Some es3 /\ to_cbe es2 = Some d2 /\
                  Cbe.len d2 <= Cbe.max_doc_size Cbe.default_dcfg).
Proof. exact (conj c03_example_accepted (conj c03_example_c02 c03_example_back)). Qed.

(* ------------------------------------------------------------------ *)
(* 4. The property as stated is false on the current code *)

Definition C03_full : Prop := ConvertProofs.C03_full.

Theorem C03_full_refuted : ~ C03_full.
Proof. exact ConvertProofs.C03_full_refuted. Qed.
Print Assumptions C03_full_refuted.

(* first half, loud: media type "a" (no slash) is accepted by cbe.Decoder + rules, written as "@a[01 02]",
   and that text is rejected by cte.Decoder + rules *)
Theorem C03_refuted_media_type_not_spellable : ~ C03_cbe_half.
Proof. exact C03_cbe_half_refuted. Qed.
Print Assumptions C03_refuted_media_type_not_spellable.

Theorem C03_refuted_media_type_outcomes :
  cbe_outcome (media_doc (str "a"%string)) = (true, Some (str "c0"%string ++ [10] ++ str "@a[01 02]"%string), false, false) /\
  cbe_outcome (media_doc []) = (true, Some (str "c0"%string ++ [10] ++ str "@[01 02]"%string), false, false) /\
  cbe_outcome (media_doc (str "text/plain; charset=utf-8"%string)) =
    (true, Some (str "c0"%string ++ [10] ++ str "@text/plain; charset=utf-8[01 02]"%string), false, false) /\
  cbe_outcome (media_doc (str "a/b"%string)) = (true, Some (str "c0"%string ++ [10] ++ str "@a/b[01 02]"%string), true, true).
Proof. exact media_unspellable_outcomes. Qed.
Print Assumptions C03_refuted_media_type_outcomes.

(* first half, silent: media type "i8" is written as "@i8[01 02]", which both sides accept — as an array
   of two signed bytes, not as media *)
Theorem C03_refuted_media_type_read_as_array :
  cbe_outcome (media_doc (str "i8"%string)) = (true, Some (str "c0"%string ++ [10] ++ str "@i8[01 02]"%string), true, false) /\
  option_map r_reread (option_map cbe_report_of (cbe_side (media_doc (str "i8"%string)))) =
    Some (Some [EBeginDoc; EVersion 0; EArray RulesConsts.AT_Int8 2 [1; 2]; EEndDoc]).
Proof. exact media_i8_outcome. Qed.
Print Assumptions C03_refuted_media_type_read_as_array.

Theorem C03_refuted_silently :
  exists doc es t es2, cbe_side doc = Some es /\ to_cte es = Some t /\ cte_side t = Some es2 /\
                       Denote.den es2 <> Denote.no_padding (Denote.den es).
Proof. exact C03_cbe_half_refuted_silently. Qed.
Print Assumptions C03_refuted_silently.

(* times (event level: Model/Cbe.v does not decode times; that cbe.Decoder + rules deliver exactly these
   values is observed by the harness, keys C03/cbe-cte/area-location-... and C03/cbe-cte/time-...): a zone
   name that does not start with a capital, fields outside compact_time's Validate ranges *)
Theorem C03_refuted_times : ~ C03_text_side.
Proof. exact C03_text_side_refuted. Qed.
Print Assumptions C03_refuted_times.

Theorem C03_refuted_time_outcomes :
  text_outcome (time_stream (str "01:02:03/x"%string)) = (true, Some (str "c0"%string ++ [10] ++ str "01:02:03/x"%string), false) /\
  text_outcome (time_stream (str "01:02:03/europe/berlin"%string)) = (true, Some (str "c0"%string ++ [10] ++ str "01:02:03/europe/berlin"%string), false) /\
  text_outcome (time_stream (str "31:02:03"%string)) = (true, Some (str "c0"%string ++ [10] ++ str "31:02:03"%string), false) /\
  text_outcome (time_stream (str "2000-13-00"%string)) = (true, Some (str "c0"%string ++ [10] ++ str "2000-13-00"%string), false) /\
  text_outcome (time_stream (str "0-01-01"%string)) = (true, Some (str "c0"%string ++ [10] ++ str "0-01-01"%string), false) /\
  text_outcome (time_stream (str "01:02:03+3407"%string)) = (true, Some (str "c0"%string ++ [10] ++ str "01:02:03+3407"%string), false) /\
  text_outcome (time_stream (str "01:02:03/163.83/327.67"%string)) = (true, Some (str "c0"%string ++ [10] ++ str "01:02:03/163.83/327.67"%string), false) /\
  text_outcome (time_stream (str "01:02:03/Europe/Berlin"%string)) = (true, Some (str "c0"%string ++ [10] ++ str "01:02:03/Europe/Berlin"%string), true).
Proof. exact time_outcomes. Qed.
Print Assumptions C03_refuted_time_outcomes.

(* second half: custom type 2^32 is accepted by cte.Decoder + rules, written by the CBE encoder, and
   that document is rejected by the CBE decoder (its limit is 2^32-1) *)
Theorem C03_refuted_custom_type_over_32_bits : ~ C03_cte_half.
Proof. exact C03_cte_half_refuted. Qed.
Print Assumptions C03_refuted_custom_type_over_32_bits.

Theorem C03_refuted_custom_type_outcome :
  cte_side custom_big_text = Some [EBeginDoc; EVersion 0; ECustomBin 4294967296 [1]; EEndDoc] /\
  to_cbe [EBeginDoc; EVersion 0; ECustomBin 4294967296 [1]; EEndDoc] = Some [129; 0; 146; 128; 128; 128; 128; 16; 2; 1] /\
  cbe_side [129; 0; 146; 128; 128; 128; 128; 16; 2; 1] = None /\
  cte_converts custom_big_text = false /\ cte_converts (str "c0 @4294967295[01]"%string) = true.
Proof. exact custom_big_outcome. Qed.
Print Assumptions C03_refuted_custom_type_outcome.
