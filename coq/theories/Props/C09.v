(* C09 - Truncated documents are rejected and partial results are prefixes.
   Only theorem statements here; each is closed by a lemma of Proofs/TruncProofs.v.
   Models: Model/Trunc.v on top of Model/Cbe.v (decoder), Model/Rules.v (validator),
   Model/Build.v (untyped builder).

   Result: PARTIAL.
   - First half (a cut document is never accepted, and the call returns): proved for every
     document of the CBE decoder model and every cut point (C09_truncation_rejected,
     C09_unmarshal_truncated_is_error, C09_unmarshal_never_hangs).
   - Second half (the partial value is a prefix): FALSE for the implementation as modelled
     (C09_full, C09_full_refuted): a cut right behind a marker makes the artificial
     termination insert the unfinished container into itself.  Proved for the documents of
     plain data - lists, maps, scalars, arrays, no markers / references / records / nodes /
     edges - on the plain builder model (C09_partial, C09_partial_is_prefix), which the
     correspondence run compares with the implementation at every cut point.
   Not covered by theorems (search oracle and correspondence only): typed templates, the CTE
   decoder, documents containing times. *)
From CE Require Import Model.Trunc Proofs.TruncProofs.
From CE Require Model.Cbe Model.Rules.
Open Scope N_scope.

(* No proper prefix (any cut point k, 0 included) of a document that Decoder.Decode accepts
   behind the validator - whatever the size limit and the validator's limits - is accepted:
   the decoder fails inside the cut token, or the validator refuses the end of the document. *)
Theorem C09_truncation_rejected :
  forall (dcfg : Cbe.dcfg) (rcfg : Rules.rcfg) (doc : bytes) (k : nat),
    decode_accepts dcfg rcfg doc = true -> (k < length doc)%nat ->
    decode_accepts dcfg rcfg (firstn k doc) = false.
Proof. exact truncation_rejected. Qed.
Print Assumptions C09_truncation_rejected.

(* The mechanism on the validator's side: once the end of the document is acceptable, it is
   the only acceptable continuation (so a proper prefix of an accepted event stream cannot
   be completed by OnEndDocument). *)
Theorem C09_end_document_unique :
  forall (cfg : Rules.rcfg) (pre post : list event),
    Rules.accepts cfg (pre ++ [EEndDoc]) = true -> Rules.accepts cfg (pre ++ post) = true ->
    post = [] \/ post = [EEndDoc].
Proof. exact end_doc_unique_continuation. Qed.
Print Assumptions C09_end_document_unique.

(* The untyped unmarshal entry point (decoder, validator, builder, OnError on failure):
   every proper prefix of a document it accepts makes it return an error with some partial
   value - it neither succeeds nor spins. *)
Theorem C09_unmarshal_truncated_is_error :
  forall (uc : bytes -> option bytes) (tc : bytes -> option (bytes * bytes)) (doc : bytes) (k : nat) (v : uval),
    unmarshal_cbe uc tc doc = TOk v -> (k < length doc)%nat ->
    exists p, unmarshal_cbe uc tc (firstn k doc) = TErr p.
Proof. exact unmarshal_truncated_is_error. Qed.
Print Assumptions C09_unmarshal_truncated_is_error.

(* ArtificiallyTerminate (as repaired by the commit "artificial termination of open containers
   always makes progress") ends on every builder stack: the entry point returns on every input. *)
Theorem C09_unmarshal_never_hangs :
  forall (uc : bytes -> option bytes) (tc : bytes -> option (bytes * bytes)) (doc : bytes),
    unmarshal_cbe uc tc doc <> THang.
Proof. exact unmarshal_never_hangs. Qed.
Print Assumptions C09_unmarshal_never_hangs.

(* The property as stated, for the untyped CBE entry point. *)
Definition C09_full : Prop :=
  forall (uc : bytes -> option bytes) (tc : bytes -> option (bytes * bytes)) (doc : bytes) (k : nat) (v : uval),
    unmarshal_cbe uc tc doc = TOk v -> (k < length doc)%nat ->
    exists p, unmarshal_cbe uc tc (firstn k doc) = TErr p /\ (p = UNil \/ vprefix p v).

(* It does not hold: [ &a:5 $a ] (81 00 9a 7f f0 01 61 05 77 01 61 9b) cut after 7 bytes
   returns [[]] - an element that is not in the document [5 5]. *)
Theorem C09_full_refuted : ~ C09_full.
Proof. exact truncation_property_refuted. Qed.
Print Assumptions C09_full_refuted.

Theorem C09_marker_witness :
  unmarshal_cbe no_url no_time marker_witness = TOk (UList [UInt 5; UInt 5]) /\
  unmarshal_cbe no_url no_time (firstn 7 marker_witness) = TErr (UList [UList []]).
Proof. exact (conj marker_witness_whole marker_witness_cut). Qed.
Print Assumptions C09_marker_witness.

(* What holds: on plain data (the fragment of Trunc.pstep: lists, maps, scalars, whole and
   chunked arrays; a marker, reference, record, node or edge leaves the fragment) a document
   accepted with the value v, cut anywhere, gives an error together with nothing at all or
   a prefix of v: completed elements and entries unchanged, the last one possibly partial,
   nothing else. *)
Theorem C09_partial :
  forall (uc : bytes -> option bytes) (tc : bytes -> option (bytes * bytes)) (doc : bytes) (k : nat) (v : uval),
    punmarshal uc tc doc = POk v -> (k < length doc)%nat ->
    exists p, punmarshal uc tc (firstn k doc) = PErr p /\ ple p (Some v).
Proof. exact punmarshal_truncated. Qed.
Print Assumptions C09_partial.

(* The builder-side core of it, on event lists: what has been built when the events stop is a
   prefix of what any continuation builds. *)
Theorem C09_partial_is_prefix :
  forall (uc : bytes -> option bytes) (tc : bytes -> option (bytes * bytes)) (es1 es2 : list event) (st1 st2 : pstate),
    prun uc tc pinit es1 = Some st1 -> prun uc tc pinit (es1 ++ es2) = Some st2 ->
    ple (pclose st1) (pclose st2).
Proof. exact partial_is_prefix. Qed.
Print Assumptions C09_partial_is_prefix.

(* The prefix order is transitive (it is an order: reflexivity is a constructor). *)
Theorem C09_prefix_order_transitive :
  forall a b c : uval, vprefix a b -> vprefix b c -> vprefix a c.
Proof. exact vprefix_trans. Qed.
Print Assumptions C09_prefix_order_transitive.

(* ---- the hypotheses are satisfiable ---- *)

(* { "a" = 1  "b" = [1 2]  "c" = { "d" = null } } is accepted by the decoder behind the validator *)
Definition C09_doc : bytes := [129; 0; 153; 129; 97; 1; 129; 98; 154; 1; 2; 155; 129; 99; 153; 129; 100; 125; 155; 155].

Example C09_example_accepted :
  decode_accepts Cbe.default_dcfg Rules.default_rcfg C09_doc = true /\
  decode_accepts Cbe.default_dcfg Rules.default_rcfg (firstn 12 C09_doc) = false.
Proof. vm_compute. split; reflexivity. Qed.

Example C09_example_plain :
  punmarshal no_url no_time C09_doc
    = POk (UMap 0 [(UStr [97], UInt 1); (UStr [98], UList [UInt 1; UInt 2]); (UStr [99], UMap 0 [(UStr [100], UNil)])]) /\
  punmarshal no_url no_time (firstn 11 C09_doc)
    = PErr (Some (UMap 0 [(UStr [97], UInt 1); (UStr [98], UList [UInt 1; UInt 2])])) /\
  punmarshal no_url no_time (firstn 10 C09_doc)
    = PErr (Some (UMap 0 [(UStr [97], UInt 1); (UStr [98], UList [UInt 1])])) /\
  punmarshal no_url no_time (firstn 2 C09_doc) = PErr None.
Proof. vm_compute. repeat split; reflexivity. Qed.

Example C09_example_general :
  exists v, unmarshal_cbe no_url no_time C09_doc = TOk v /\
            exists p, unmarshal_cbe no_url no_time (firstn 10 C09_doc) = TErr p /\ vprefix p v.
Proof.
  eexists. split; [vm_compute; reflexivity|]. eexists. split; [vm_compute; reflexivity|].
  apply (VP_map _ [(UStr [97], UInt 1); (UStr [98], UList [UInt 1])]).
  apply MP_cons, MP_last, (VP_list [UInt 1]), LP_last, VP_refl.
Qed.
