(* C19 - Numeric unmarshaling is exact or fails.
   Only theorem statements here; each is closed by a lemma from Proofs/NumConvProofs.v.

   Vocabulary (Model/NumConv.v):
     conv ext_df ext_bdf max2 max10 s t   what the builder does with numeric event s for a
                                          destination of kind t: Stored v, or Failed (= an error)
     ext_df, ext_bdf                      the library's decimal -> binary parse (DFloat.BigFloat,
                                          conversions.BigDecimalFloatToBigFloat), abstract
     src_val / stored_val                 the mathematical values, as n * 2^a * 10^b / infinities
     mval_eq                              equality of those rationals
     in_scope s t                         the pairs C19 names: any numeric event into an integer,
                                          unsigned, big.Int or big.Float destination; integer
                                          events into a float destination
     wf_src s                             what the Go types of the event arguments guarantee *)
From CE Require Import Model.NumConv Proofs.NumConvProofs.
Open Scope Z_scope.

(* The property as stated, for given parse functions. *)
Definition C19_full (ext_df ext_bdf : dec -> option bfl) : Prop :=
  forall max2 max10 s t v,
    wf_src s = true -> in_scope s t = true ->
    conv ext_df ext_bdf max2 max10 s t = Stored v ->
    mval_eq (stored_val v) (src_val s).

(* ---- what holds ---- *)

(* Every integer destination (int8..int64, int), every numeric event form: whatever is stored
   is exactly the value of the event.  No exclusion, no hypothesis on the parse. *)
Theorem C19_int_destinations_exact :
  forall ext_df ext_bdf max2 max10 s w v,
    wf_src s = true ->
    conv ext_df ext_bdf max2 max10 s (TInt w) = Stored v ->
    mval_eq (stored_val v) (src_val s).
Proof. exact conv_exact_int. Qed.
Print Assumptions C19_int_destinations_exact.

(* All in-scope pairs outside the six defect classes named by [excluded]
   (OnNegativeInt >= 2^63; odd OnPositiveInt >= 2^63 into big.Int; negative DFloat into unsigned;
    negative apd.Decimal into unsigned; negative apd.Decimal into big.Int; big integer not
    representable as float32 into float32), provided the decimal -> binary parse returned the
   exact value whenever it was consulted (a decimal float into an unsigned destination through
   the big.Float fallback, or into a big.Float). *)
Theorem C19_partial :
  forall ext_df ext_bdf max2 max10 s t v,
    wf_src s = true -> in_scope s t = true -> excluded s t = false ->
    (forall d, s = SDec d -> ext_exact ext_df d) ->
    (forall d, s = SBigDec d -> ext_exact ext_bdf d) ->
    conv ext_df ext_bdf max2 max10 s t = Stored v ->
    mval_eq (stored_val v) (src_val s).
Proof. exact conv_exact. Qed.
Print Assumptions C19_partial.

(* For events that are not decimal floats the parse is never consulted. *)
Theorem C19_partial_nondecimal :
  forall ext_df ext_bdf max2 max10 s t v,
    wf_src s = true -> in_scope s t = true -> excluded s t = false -> src_is_decimal s = false ->
    conv ext_df ext_bdf max2 max10 s t = Stored v ->
    mval_eq (stored_val v) (src_val s).
Proof. exact conv_exact_nondecimal. Qed.
Print Assumptions C19_partial_nondecimal.

(* mval_eq really is an equivalence (on finite values and infinities) *)
Theorem C19_mval_eq_trans : forall x y z, mval_eq x y -> mval_eq y z -> mval_eq x z.
Proof. exact mval_eq_trans. Qed.
Print Assumptions C19_mval_eq_trans.
Theorem C19_mval_eq_sym : forall x y, mval_eq x y -> mval_eq y x.
Proof. exact mval_eq_sym. Qed.
Print Assumptions C19_mval_eq_sym.

(* ---- what does not hold: one witness per defect class, whatever the parse does ---- *)

(* OnNegativeInt(2^63) into uint64 stores +2^63 *)
Theorem C19_negint_sign_lost_uint_refuted :
  forall ext_df ext_bdf, violates ext_df ext_bdf (SNeg p63) (TUint I64).
Proof. exact negint_sign_lost_uint. Qed.
Print Assumptions C19_negint_sign_lost_uint_refuted.

Theorem C19_negint_sign_lost_bigint_refuted :
  forall ext_df ext_bdf, violates ext_df ext_bdf (SNeg (p63 + 5)) TBigInt.
Proof. exact negint_sign_lost_bigint. Qed.
Print Assumptions C19_negint_sign_lost_bigint_refuted.

Theorem C19_negint_sign_lost_bigfloat_refuted :
  forall ext_df ext_bdf, violates ext_df ext_bdf (SNeg p63) TBigFloat.
Proof. exact negint_sign_lost_bigfloat. Qed.
Print Assumptions C19_negint_sign_lost_bigfloat_refuted.

Theorem C19_negint_sign_lost_float_refuted :
  forall ext_df ext_bdf, violates ext_df ext_bdf (SNeg p63) (TFloat F64).
Proof. exact negint_sign_lost_float. Qed.
Print Assumptions C19_negint_sign_lost_float_refuted.

(* OnPositiveInt(2^63+1) into big.Int stores 2^63 *)
Theorem C19_posint_low_bit_lost_refuted :
  forall ext_df ext_bdf, violates ext_df ext_bdf (SPos (p63 + 1)) TBigInt.
Proof. exact posint_low_bit_lost. Qed.
Print Assumptions C19_posint_low_bit_lost_refuted.

(* DFloat -5 into uint64 stores 18446744073709551611 *)
Theorem C19_decimal_negative_into_uint_refuted :
  forall ext_df ext_bdf, violates ext_df ext_bdf (SDec (Dec true 5 0)) (TUint I64).
Proof. exact decimal_negative_into_uint. Qed.
Print Assumptions C19_decimal_negative_into_uint_refuted.

(* apd.Decimal -5 into uint64 stores 18446744073709551611 *)
Theorem C19_bigdecimal_negative_into_uint_refuted :
  forall ext_df ext_bdf, violates ext_df ext_bdf (SBigDec (Dec true 5 0)) (TUint I64).
Proof. exact bigdecimal_negative_into_uint. Qed.
Print Assumptions C19_bigdecimal_negative_into_uint_refuted.

(* apd.Decimal -5 into big.Int stores +5 *)
Theorem C19_bigdecimal_sign_lost_bigint_refuted :
  forall ext_df ext_bdf, violates ext_df ext_bdf (SBigDec (Dec true 5 0)) TBigInt.
Proof. exact bigdecimal_sign_lost_bigint. Qed.
Print Assumptions C19_bigdecimal_sign_lost_bigint_refuted.

(* big integer 2^24+1 into float32 stores 2^24; 2^128 stores +Inf *)
Theorem C19_bigint_rounded_float32_refuted :
  forall ext_df ext_bdf, violates ext_df ext_bdf (SBigInt 16777217) (TFloat F32).
Proof. exact bigint_rounded_float32. Qed.
Print Assumptions C19_bigint_rounded_float32_refuted.

Theorem C19_bigint_overflows_float32_refuted :
  forall ext_df ext_bdf, violates ext_df ext_bdf (SBigInt (2 ^ 128)) (TFloat F32).
Proof. exact bigint_overflows_float32. Qed.
Print Assumptions C19_bigint_overflows_float32_refuted.

(* apd.Decimal 1e19 into uint64 stores 10376293541461622784, given that the library parses
   1e19 at 4 bits of precision with one correct rounding (checked against the library by the
   ParseCase entries of the correspondence run) *)
Theorem C19_bigdecimal_rounded_into_uint_refuted :
  forall ext_df ext_bdf,
    ext_bdf (Dec false 1 19) = parse_int_dec (bigdec_prec (Dec false 1 19)) (Dec false 1 19) ->
    violates ext_df ext_bdf (SBigDec (Dec false 1 19)) (TUint I64).
Proof. exact bigdecimal_rounded_into_uint. Qed.
Print Assumptions C19_bigdecimal_rounded_into_uint_refuted.

(* hence the property as stated is false for every pair of parse functions *)
Theorem C19_full_refuted : forall ext_df ext_bdf, ~ C19_full ext_df ext_bdf.
Proof. exact full_refuted. Qed.
Print Assumptions C19_full_refuted.

(* ---- non-vacuity ---- *)

(* values that are stored, and stored exactly *)
Example C19_example_stored :
  conv (fun _ => None) (fun _ => None) 166 50 (SFloat 0xc3e0000000000000%N) (TInt I64) = Stored (StInt (- p63)) /\
  conv (fun _ => None) (fun _ => None) 166 50 (SPos 18446744073709549568) (TFloat F64)
    = Stored (StFloat (FFin false 18446744073709549568 0)) /\
  conv (fun _ => None) (fun _ => None) 166 50 (SDec (Dec false 922337203685477580 1)) (TInt I64)
    = Stored (StInt 9223372036854775800) /\
  conv (fun _ => None) (fun _ => None) 166 50 (SBigFloat (BF true 3 62 64)) TBigInt
    = Stored (StBigInt (- 13835058055282163712)) /\
  conv (fun _ => None) (fun _ => None) 166 50 (SNeg 5) (TFloat F32) = Stored (StFloat (FFin true 5 0)).
Proof. vm_compute. repeat split. Qed.

(* values that are refused *)
Example C19_example_failed :
  conv (fun _ => None) (fun _ => None) 166 50 (SPos 18446744073709551615) (TFloat F64) = Failed /\
  conv (fun _ => None) (fun _ => None) 166 50 (SFloat 0x43e0000000000000%N) (TInt I64) = Failed /\
  conv (fun _ => None) (fun _ => None) 166 50 (SInt 16777217) (TFloat F32) = Failed /\
  conv (fun _ => None) (fun _ => None) 166 50 (SDec (Dec false 922337203685477581 1)) (TInt I64) = Failed /\
  conv (fun _ => None) (fun _ => None) 166 50 (SNan false) TBigFloat = Failed.
Proof. vm_compute. repeat split. Qed.

(* the hypotheses of C19_partial are satisfiable on a decimal that goes through the parse:
   9223372036854775808e0 = 2^63 does not fit int64, so BigDecimalFloatToUint falls back to the
   big.Float route; the concrete parse instance (19 digits -> 64 bits) returns it exactly *)
Example C19_example_parse_exact :
  let d := Dec false 9223372036854775808 0 in
  let ext := parse_int_dec (bigdec_prec d) in
  wf_src (SBigDec d) = true /\ excluded (SBigDec d) (TUint I64) = false /\
  ext_exact ext d /\
  conv ext ext 166 50 (SBigDec d) (TUint I64) = Stored (StUint 9223372036854775808).
Proof.
  cbv zeta. repeat split.
  intros b Hb. vm_compute in Hb. inversion Hb. vm_compute. reflexivity.
Qed.
