(* C19 - Numeric unmarshaling is exact or fails.
   Only theorem statements here; each is closed by a lemma from Proofs/NumConvProofs.v.

   Vocabulary (Model/NumConv.v):
     conv ext_df ext_bdf max2 max10 s t   what the builder does with numeric event s for a
                                          destination of kind t: Stored v, or Failed (= an error)
     ext_df, ext_bdf                      the library's decimal -> binary parse (DFloat.BigFloat,
                                          conversions.BigDecimalFloatToBigFloat), abstract
     src_val / stored_val                 the mathematical values, as n * 2^a * 10^b / infinities
     mval_eq                              equality of those rationals
     in_scope s t                         the pairs C19 names: any numeric event into an integer,
                                          unsigned, big.Int or big.Float destination; integer
                                          events into a float destination
     wf_src s                             what the Go types of the event arguments guarantee *)
From CE Require Import Model.NumConv Proofs.NumConvProofs.
Open Scope Z_scope.

(* The property as stated, for given parse functions. *)
Definition C19_full (ext_df ext_bdf : dec -> option bfl) : Prop :=
  forall max2 max10 s t v,
    wf_src s = true -> in_scope s t = true ->
    conv ext_df ext_bdf max2 max10 s t = Stored v ->
    mval_eq (stored_val v) (src_val s).

(* ---- what holds ---- *)

(* The builder consults the decimal -> binary parse on exactly these pairs: a DFloat or an
   apd.Decimal into a big.Float, an apd.Decimal into an unsigned integer.  On every other
   in-scope pair whatever is stored is exactly the value of the event - no exclusion, no
   hypothesis.  (This covers what used to be six defect classes: OnNegativeInt >= 2^63,
   UintToBigInt, negative decimals into unsigned destinations, the sign in
   BigDecimalFloatToBigInt, big integers into float32.) *)
Theorem C19_exact_without_parse :
  forall ext_df ext_bdf max2 max10 s t v,
    wf_src s = true -> in_scope s t = true -> consults_parse s t = false ->
    conv ext_df ext_bdf max2 max10 s t = Stored v ->
    mval_eq (stored_val v) (src_val s).
Proof. exact conv_exact_no_parse. Qed.
Print Assumptions C19_exact_without_parse.

(* instances: every integer destination, big.Int, float32/float64 from integer events *)
Theorem C19_int_destinations_exact :
  forall ext_df ext_bdf max2 max10 s w v,
    wf_src s = true ->
    conv ext_df ext_bdf max2 max10 s (TInt w) = Stored v ->
    mval_eq (stored_val v) (src_val s).
Proof. exact conv_exact_int. Qed.
Print Assumptions C19_int_destinations_exact.

Theorem C19_bigint_destination_exact :
  forall ext_df ext_bdf max2 max10 s v,
    wf_src s = true ->
    conv ext_df ext_bdf max2 max10 s TBigInt = Stored v ->
    mval_eq (stored_val v) (src_val s).
Proof. exact conv_exact_bigint. Qed.
Print Assumptions C19_bigint_destination_exact.

Theorem C19_float_destinations_exact :
  forall ext_df ext_bdf max2 max10 s w v,
    wf_src s = true -> src_is_integer_form s = true ->
    conv ext_df ext_bdf max2 max10 s (TFloat w) = Stored v ->
    mval_eq (stored_val v) (src_val s).
Proof. exact conv_exact_float. Qed.
Print Assumptions C19_float_destinations_exact.

(* All in-scope pairs, provided the decimal -> binary parse returned the exact value whenever
   it was consulted.  What this hypothesis excludes is exactly the remaining defect class: the
   parse rounds (to DecimalDigitsToBits(NumDigits) bits for an apd.Decimal, to 63 bits for a
   DFloat) and nothing checks the result against the decimal. *)
Theorem C19_partial :
  forall ext_df ext_bdf max2 max10 s t v,
    wf_src s = true -> in_scope s t = true ->
    (forall d, s = SDec d -> ext_exact ext_df d) ->
    (forall d, s = SBigDec d -> ext_exact ext_bdf d) ->
    conv ext_df ext_bdf max2 max10 s t = Stored v ->
    mval_eq (stored_val v) (src_val s).
Proof. exact conv_exact. Qed.
Print Assumptions C19_partial.

(* mval_eq really is an equivalence (on finite values and infinities) *)
Theorem C19_mval_eq_trans : forall x y z, mval_eq x y -> mval_eq y z -> mval_eq x z.
Proof. exact mval_eq_trans. Qed.
Print Assumptions C19_mval_eq_trans.
Theorem C19_mval_eq_sym : forall x y, mval_eq x y -> mval_eq y x.
Proof. exact mval_eq_sym. Qed.
Print Assumptions C19_mval_eq_sym.

(* ---- what does not hold ---- *)

(* apd.Decimal 1e19 into uint64 stores 10376293541461622784, given that the library parses
   1e19 at 4 bits of precision with one correct rounding (checked against the library by the
   ParseCase entries of the correspondence run)            [C19/bigdecimal->uint/inexact] *)
Theorem C19_bigdecimal_rounded_into_uint_refuted :
  forall ext_df ext_bdf,
    ext_bdf (Dec false 1 19) = parse_int_dec (bigdec_prec (Dec false 1 19)) (Dec false 1 19) ->
    violates ext_df ext_bdf (SBigDec (Dec false 1 19)) (TUint I64).
Proof. exact bigdecimal_rounded_into_uint. Qed.
Print Assumptions C19_bigdecimal_rounded_into_uint_refuted.

(* DFloat 0.1 into a big.Float: whatever the parse returns is stored, and no big.Float equals
   one tenth.  No code reads AllowLossyFloatConversion, so this happens with the knob off too
                                  [C19/decimal->bigfloat/rounded-with-lossy-conversion-disallowed] *)
Theorem C19_decimal_tenth_into_bigfloat_refuted :
  forall ext_df ext_bdf b,
    ext_df (Dec false 1 (-1)) = Some b ->
    violates ext_df ext_bdf (SDec (Dec false 1 (-1))) TBigFloat.
Proof. exact decimal_tenth_into_bigfloat. Qed.
Print Assumptions C19_decimal_tenth_into_bigfloat_refuted.

(* hence the property as stated is false for the library's parse *)
Theorem C19_full_refuted :
  forall ext_df ext_bdf,
    ext_bdf (Dec false 1 19) = parse_int_dec (bigdec_prec (Dec false 1 19)) (Dec false 1 19) ->
    ~ C19_full ext_df ext_bdf.
Proof. exact full_refuted. Qed.
Print Assumptions C19_full_refuted.

(* ---- non-vacuity ---- *)

(* values that are stored, and stored exactly *)
Example C19_example_stored :
  conv (fun _ => None) (fun _ => None) 166 50 (SFloat 0xc3e0000000000000%N) (TInt I64) = Stored (StInt (- p63)) /\
  conv (fun _ => None) (fun _ => None) 166 50 (SPos 18446744073709549568) (TFloat F64)
    = Stored (StFloat (FFin false 18446744073709549568 0)) /\
  conv (fun _ => None) (fun _ => None) 166 50 (SDec (Dec false 922337203685477580 1)) (TInt I64)
    = Stored (StInt 9223372036854775800) /\
  conv (fun _ => None) (fun _ => None) 166 50 (SBigFloat (BF true 3 62 64)) TBigInt
    = Stored (StBigInt (- 13835058055282163712)) /\
  conv (fun _ => None) (fun _ => None) 166 50 (SNeg 5) (TFloat F32) = Stored (StFloat (FFin true 5 0)) /\
  conv (fun _ => None) (fun _ => None) 166 50 (SNeg 0) (TFloat F64) = Stored (StFloat (FFin true 0 0)) /\
  conv (fun _ => None) (fun _ => None) 166 50 (SNeg 0) TBigFloat = Stored (StBigFloat (BF true 0 (-1074) 53)) /\
  conv (fun _ => None) (fun _ => None) 166 50 (SNeg 0) (TUint I8) = Stored (StUint 0) /\
  conv (fun _ => None) (fun _ => None) 166 50 (SNeg p63) (TInt I64) = Stored (StInt (- p63)) /\
  conv (fun _ => None) (fun _ => None) 166 50 (SNeg (p63 + 5)) TBigInt = Stored (StBigInt (- (p63 + 5))) /\
  conv (fun _ => None) (fun _ => None) 166 50 (SPos (p63 + 1)) TBigInt = Stored (StBigInt (p63 + 1)) /\
  conv (fun _ => None) (fun _ => None) 166 50 (SBigDec (Dec true 5 0)) TBigInt = Stored (StBigInt (-5)).
Proof. vm_compute. repeat split. Qed.

(* values that are refused *)
Example C19_example_failed :
  conv (fun _ => None) (fun _ => None) 166 50 (SPos 18446744073709551615) (TFloat F64) = Failed /\
  conv (fun _ => None) (fun _ => None) 166 50 (SFloat 0x43e0000000000000%N) (TInt I64) = Failed /\
  conv (fun _ => None) (fun _ => None) 166 50 (SInt 16777217) (TFloat F32) = Failed /\
  conv (fun _ => None) (fun _ => None) 166 50 (SDec (Dec false 922337203685477581 1)) (TInt I64) = Failed /\
  conv (fun _ => None) (fun _ => None) 166 50 (SNan false) TBigFloat = Failed /\
  conv (fun _ => None) (fun _ => None) 166 50 (SNeg p63) (TUint I64) = Failed /\
  conv (fun _ => None) (fun _ => None) 166 50 (SDec (Dec true 5 0)) (TUint I64) = Failed /\
  conv (fun _ => None) (fun _ => None) 166 50 (SBigDec (Dec true 5 0)) (TUint I64) = Failed /\
  conv (fun _ => None) (fun _ => None) 166 50 (SBigInt 16777217) (TFloat F32) = Failed /\
  conv (fun _ => None) (fun _ => None) 166 50 (SBigInt (2 ^ 128)) (TFloat F32) = Failed.
Proof. vm_compute. repeat split. Qed.

(* the hypotheses of C19_partial are satisfiable on a decimal that goes through the parse:
   9223372036854775808e0 = 2^63 does not fit int64, so BigDecimalFloatToUint falls back to the
   big.Float route; the concrete parse instance (19 digits -> 64 bits) returns it exactly *)
Example C19_example_parse_exact :
  let d := Dec false 9223372036854775808 0 in
  let ext := parse_int_dec (bigdec_prec d) in
  wf_src (SBigDec d) = true /\ consults_parse (SBigDec d) (TUint I64) = true /\
  ext_exact ext d /\
  conv ext ext 166 50 (SBigDec d) (TUint I64) = Stored (StUint 9223372036854775808).
Proof.
  cbv zeta. repeat split.
  intros b Hb. vm_compute in Hb. inversion Hb. vm_compute. reflexivity.
Qed.
