(* C11 — Array validation ignores how the data is split. *)
From CE Require Import Model.Rules Proofs.Utf8Stream Proofs.RulesArrayProofs.
Open Scope N_scope.

(* The streaming UTF-8 validation (at most 4 bytes of a partial character carried from one data
   event to the next, each piece validated on its own) accepts a list of data events exactly when
   their concatenation is valid UTF-8 — for every split, also inside characters. *)
Theorem C11_stream_accepts_iff :
  forall ds : list bytes, stream_accepts ds = true <-> utf8_valid (concat ds) = true.
Proof. exact stream_accepts_iff. Qed.
Print Assumptions C11_stream_accepts_iff.

(* One chunk of a string-like array (String, ResourceID, CustomText): whatever the division of its n
   bytes into data events, the validator reaches the end of the chunk with the bytes appended to the
   built array and no partial character left iff the chunk's bytes are valid UTF-8 (so it ends on a
   character boundary), and rejects otherwise. *)
Theorem C11_string_chunk_verdict :
  forall call c n ds,
    chunk_expected c = n -> chunk_actual c = 0 -> utf8_rem c = [] -> arr_validator c = VUtf8 ->
    0 < n -> completes_at_last n ds ->
    chunk_fold call true ds c
    = if utf8_valid (concat ds)
      then end_chunk call true (set_array c (arr_type c) (more_chunks c) (built c ++ concat ds) (arr_total c) n n [] VUtf8)
      else None.
Proof. exact string_chunk_fold. Qed.
Print Assumptions C11_string_chunk_verdict.

Theorem C11_string_chunk_split_invariant :
  forall call c n ds1 ds2,
    chunk_expected c = n -> chunk_actual c = 0 -> utf8_rem c = [] -> arr_validator c = VUtf8 ->
    0 < n -> completes_at_last n ds1 -> completes_at_last n ds2 -> concat ds1 = concat ds2 ->
    chunk_fold call true ds1 c = chunk_fold call true ds2 c.
Proof. exact string_chunk_split_invariant. Qed.
Print Assumptions C11_string_chunk_split_invariant.

(* Other array types: only the byte count matters. *)
Theorem C11_plain_chunk_split_invariant :
  forall call c n ds1 ds2,
    chunk_expected c = n -> chunk_actual c = 0 -> 0 < n ->
    completes_at_last n ds1 -> completes_at_last n ds2 ->
    chunk_fold call false ds1 c = chunk_fold call false ds2 c.
Proof. exact plain_chunk_split_invariant. Qed.
Print Assumptions C11_plain_chunk_split_invariant.

(* More data than the chunk header announced is rejected at the data event that overshoots. *)
Theorem C11_chunk_overflow_rejected :
  forall call sr pre d suf c,
    stays_below (chunk_expected c) (chunk_actual c) pre ->
    chunk_expected c < chunk_actual c + blen (concat pre) + blen d ->
    chunk_fold call sr (pre ++ d :: suf) c = None.
Proof. exact chunk_fold_overflow. Qed.
Print Assumptions C11_chunk_overflow_rejected.

(* Whole arrays, from the state right after the begin event: for a list of chunks whose more-flag is
   set exactly on the non-last chunks and whose data events deliver exactly the announced bytes, the
   array is accepted (the machine hands the finished array to the parent rule) iff the total size is
   within the limit and every chunk of a validated type is valid UTF-8; the verdict and the resulting
   state depend only on the chunks' lengths, flags and concatenated bytes. *)
Theorem C11_array_verdict :
  forall cfg call sr chs c,
    (sr = true -> utf8_rem c = [] /\ arr_validator c = VUtf8) ->
    length_ok cfg (arr_total c) = true ->
    Forall (chunk_shape sr (arr_type c)) chs -> more_flags_ok chs = true ->
    arr_total c + total_bytes sr (arr_type c) chs < two64 ->
    array_fold cfg call sr chs c
    = if length_ok cfg (arr_total c + total_bytes sr (arr_type c) chs) && all_data_ok sr chs
      then end_container_like call true (array_final sr chs c) else None.
Proof. exact array_fold_spec. Qed.
Print Assumptions C11_array_verdict.

Theorem C11_array_split_invariant :
  forall cfg call sr chs1 chs2 c,
    (sr = true -> utf8_rem c = [] /\ arr_validator c = VUtf8) -> length_ok cfg (arr_total c) = true ->
    Forall (chunk_shape sr (arr_type c)) chs1 -> Forall (chunk_shape sr (arr_type c)) chs2 ->
    more_flags_ok chs1 = true -> more_flags_ok chs2 = true ->
    arr_total c + total_bytes sr (arr_type c) chs1 < two64 ->
    Forall2 chunk_equiv chs1 chs2 ->
    array_fold cfg call sr chs1 c = array_fold cfg call sr chs2 c.
Proof. exact array_fold_split_invariant. Qed.
Print Assumptions C11_array_split_invariant.

(* End to end on the whole validator: "é" (C3 A9) split inside the character is accepted, a chunk
   boundary inside it is rejected, a truncated character at the end is rejected. *)
Example C11_example :
  accepts_document default_rcfg [EBeginDoc; EVersion 0; EArrayBegin AT_String; EArrayChunk 3 false;
                                 EArrayData [97; 195]; EArrayData []; EArrayData [169]; EEndDoc] = true /\
  rejected_at default_rcfg [EBeginDoc; EVersion 0; EArrayBegin AT_String; EArrayChunk 2 true;
                            EArrayData [97; 195]; EArrayChunk 1 false; EArrayData [169]; EEndDoc] = Some 4 /\
  rejected_at default_rcfg [EBeginDoc; EVersion 0; EArrayBegin AT_String; EArrayChunk 2 false;
                            EArrayData [97]; EArrayData [195]; EEndDoc] = Some 5.
Proof. vm_compute. repeat split. Qed.
