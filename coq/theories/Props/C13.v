(* C13 — Markers and local references are consistent in every accepted document (rules validator). *)
From CE Require Import Model.Rules Model.RulesSpec Proofs.RulesInvariants Proofs.RulesStructure Proofs.RulesLimits Proofs.RulesMarkers.
Open Scope N_scope.

(* Every local reference of an accepted complete document names a marker that appears somewhere in the
   document (earlier or later). *)
Theorem C13_references_name_markers :
  forall cfg es id, accepts_document cfg es = true -> In (ERefLocal id) es -> In (EMarker id) es.
Proof. exact refs_have_markers. Qed.
Print Assumptions C13_references_name_markers.

(* Identifiers of markers, references, records and record types in an accepted list are non-empty, within
   the configured length and made of identifier-safe characters ([validate_identifier]). *)
Theorem C13_identifiers_valid :
  forall cfg es e id, accepts cfg es = true -> In e es -> event_ident e = Some id -> validate_identifier cfg id = true.
Proof. exact accepted_identifiers_valid. Qed.
Print Assumptions C13_identifiers_valid.

(* The event following a marker - padding aside - is never a marker, a reference or a record type. *)
Theorem C13_marker_followed_by_object :
  forall cfg p id pads e q,
    accepts cfg (p ++ EMarker id :: pads ++ e :: q) = true -> forallb is_padding pads = true ->
    not_markable_event e = false.
Proof. exact marker_followed_by_object. Qed.
Print Assumptions C13_marker_followed_by_object.

(* A reference made where a map key is expected resolves, in the complete document, to a marked object
   whose type is in the keyable mask (marker before or after the reference). *)
Theorem C13_key_reference_keyable :
  forall cfg p id q,
    accepts_document cfg (p ++ ERefLocal id :: q) = true -> rule_in_force cfg p = Some RMapKey ->
    exists dt, marked_type cfg (p ++ ERefLocal id :: q) id = Some dt /\ N.land dt Allow_Keyable <> 0.
Proof. exact key_reference_keyable. Qed.
Print Assumptions C13_key_reference_keyable.

(* The registries after any accepted list: marked ids pairwise distinct and as many as the reference count,
   every marked id is the id of a marker event of the list, pending forward references are not marked,
   every reference made so far is marked or pending, and in the terminal state nothing is pending. *)
Theorem C13_registry_invariants :
  forall cfg es c, state_after cfg es = Some c ->
    NoDup (akeys (marked c)) /\ refcount c = N.of_nat (length (marked c)) /\
    (forall id, In id (akeys (marked c)) -> In (EMarker id) es) /\
    (forall id, In id (akeys (fwd c)) -> alookup id (marked c) = None) /\
    (forall id, In (ERefLocal id) es -> In id (akeys (marked c)) \/ In id (akeys (fwd c))) /\
    (e_rule (cur c) = RTerminal -> fwd c = []).
Proof. exact registry_invariants. Qed.
Print Assumptions C13_registry_invariants.

(* Marker ids are pairwise distinct - the full statement ... *)
Definition C13_marker_ids_distinct_full : Prop :=
  forall cfg es, accepts_document cfg es = true -> NoDup (marker_ids es).
(* ... is violated by the current code (a marker on a chunked string in key position is not registered): *)
Theorem C13_marker_ids_distinct_refuted :
  exists es, accepts_document default_rcfg es = true /\ ~ NoDup (marker_ids es).
Proof. exact marker_ids_distinct_refuted. Qed.
Print Assumptions C13_marker_ids_distinct_refuted.
Theorem C13_every_marker_registered_refuted :
  exists es id, accepts_document default_rcfg es = true /\ In (EMarker id) es /\ marked_type default_rcfg es id = None.
Proof. exact marker_registered_refuted. Qed.
Print Assumptions C13_every_marker_registered_refuted.
(* The proved part: the ids are pairwise distinct whenever every marker got registered (the reference count
   equals the number of marker events) - which is what fails in the two witnesses above. *)
Theorem C13_marker_ids_distinct_partial :
  forall cfg es c, state_after cfg es = Some c -> refcount c = marker_usage es -> NoDup (marker_ids es).
Proof. exact markers_distinct_if_all_registered. Qed.
Print Assumptions C13_marker_ids_distinct_partial.

(* Findings: nested markers (a marked container holding another marker) are rejected at the end of the
   outer container; a reference to a marked float is accepted as a map key although a float key is not. *)
Theorem C13_nested_markers_rejected : rejected_at default_rcfg nested_marker_witness = Some 6.
Proof. exact nested_markers_rejected. Qed.
Print Assumptions C13_nested_markers_rejected.
Theorem C13_float_key_reference_accepted :
  accepts_document default_rcfg float_key_witness_backward = true /\
  accepts_document default_rcfg float_key_witness_forward = true /\
  marked_type default_rcfg float_key_witness_backward [97] = Some DT_Float /\
  N.land DT_Float Allow_Keyable <> 0 /\
  accepts default_rcfg [EBeginDoc; EVersion 0; EMap; EFloat 0] = false.
Proof. exact float_key_reference_accepted. Qed.
Print Assumptions C13_float_key_reference_accepted.

(* Non-vacuity: forward and backward references, in key and value position. *)
Example C13_example_accept :
  accepts_document default_rcfg
    [EBeginDoc; EVersion 0; EList; EMap; ERefLocal [98]; ERefLocal [97]; EEnd; EMarker [97]; EList; EEnd;
     EMarker [98]; EPosInt 7; ERefLocal [97]; EEnd; EEndDoc] = true.
Proof. vm_compute. reflexivity. Qed.
Example C13_example_unknown_reference :
  rejected_at default_rcfg [EBeginDoc; EVersion 0; EList; ERefLocal [97]; EEnd; EEndDoc] = Some 5.
Proof. vm_compute. reflexivity. Qed.
Example C13_example_key_type_mismatch :
  rejected_at default_rcfg [EBeginDoc; EVersion 0; EList; EMarker [97]; EList; EEnd; EMap; ERefLocal [97]] = Some 7.
Proof. vm_compute. reflexivity. Qed.
