(* C13 — Markers and local references are consistent in every accepted document (rules validator). *)
From CE Require Import Model.Rules Model.RulesSpec Proofs.RulesInvariants Proofs.RulesStructure Proofs.RulesLimits Proofs.RulesMarkers.
Open Scope N_scope.

(* Every local reference of an accepted complete document names a marker that appears somewhere in the
   document (earlier or later). *)
Theorem C13_references_name_markers :
  forall cfg es id, accepts_document cfg es = true -> In (ERefLocal id) es -> In (EMarker id) es.
Proof. exact refs_have_markers. Qed.
Print Assumptions C13_references_name_markers.

(* Identifiers of markers, references, records and record types in an accepted list are non-empty, within
   the configured length and made of identifier-safe characters ([validate_identifier]). *)
Theorem C13_identifiers_valid :
  forall cfg es e id, accepts cfg es = true -> In e es -> event_ident e = Some id -> validate_identifier cfg id = true.
Proof. exact accepted_identifiers_valid. Qed.
Print Assumptions C13_identifiers_valid.

(* The event following a marker - padding aside - is never a marker, a reference or a record type. *)
Theorem C13_marker_followed_by_object :
  forall cfg p id pads e q,
    accepts cfg (p ++ EMarker id :: pads ++ e :: q) = true -> forallb is_padding pads = true ->
    not_markable_event e = false.
Proof. exact marker_followed_by_object. Qed.
Print Assumptions C13_marker_followed_by_object.

(* A reference made where a map key is expected resolves, in the complete document, to a marked object
   whose type is in the keyable mask (marker before or after the reference). *)
Theorem C13_key_reference_keyable :
  forall cfg p id q,
    accepts_document cfg (p ++ ERefLocal id :: q) = true -> rule_in_force cfg p = Some RMapKey ->
    exists dt, marked_type cfg (p ++ ERefLocal id :: q) id = Some dt /\ N.land dt Allow_Keyable <> 0.
Proof. exact key_reference_keyable. Qed.
Print Assumptions C13_key_reference_keyable.

(* Marker ids are pairwise distinct in every accepted complete document. *)
Theorem C13_marker_ids_distinct :
  forall cfg es, accepts_document cfg es = true -> NoDup (marker_ids es).
Proof. exact document_markers_distinct. Qed.
Print Assumptions C13_marker_ids_distinct.

(* Every marker of an accepted complete document is registered: the registered ids are exactly the ids of
   the marker events, and there are as many registrations as marker events. *)
Theorem C13_every_marker_registered :
  forall cfg es c, state_after cfg es = Some c -> e_rule (cur c) = RTerminal ->
    refcount c = marker_usage es /\ forall id, In (EMarker id) es <-> In id (akeys (marked c)).
Proof. exact document_markers_all_registered. Qed.
Print Assumptions C13_every_marker_registered.

(* The registries after any accepted list (also an incomplete one): marked ids pairwise distinct and as many
   as the reference count, every marked id is the id of a marker event of the list, pending forward references
   are not marked, every reference made so far is marked or pending, in the terminal state nothing is pending,
   and registered markers + marker entries still open = marker events (a marker is registered when its object
   - scalar, array or container, nested markers included - is complete). *)
Theorem C13_registry_invariants :
  forall cfg es c, state_after cfg es = Some c ->
    NoDup (akeys (marked c)) /\ refcount c = N.of_nat (length (marked c)) /\
    (forall id, In id (akeys (marked c)) -> In (EMarker id) es) /\
    (forall id, In id (akeys (fwd c)) -> alookup id (marked c) = None) /\
    (forall id, In (ERefLocal id) es -> In id (akeys (marked c)) \/ In id (akeys (fwd c))) /\
    (e_rule (cur c) = RTerminal -> fwd c = []) /\
    (Z.of_N (refcount c) + Z.of_nat (count_cl KMarker (e_rule (cur c) :: srules c)) = Z.of_N (marker_usage es))%Z.
Proof. exact registry_invariants. Qed.
Print Assumptions C13_registry_invariants.

(* Open finding: a reference to a marked float is accepted as a map key although a float key is not
   (the keyable mask contains the float type). *)
Theorem C13_float_key_reference_accepted :
  accepts_document default_rcfg float_key_witness_backward = true /\
  accepts_document default_rcfg float_key_witness_forward = true /\
  marked_type default_rcfg float_key_witness_backward [97] = Some DT_Float /\
  N.land DT_Float Allow_Keyable <> 0 /\
  accepts default_rcfg [EBeginDoc; EVersion 0; EMap; EFloat 0] = false.
Proof. exact float_key_reference_accepted. Qed.
Print Assumptions C13_float_key_reference_accepted.

(* Regression examples for the repaired defects (nested markers; marker on a chunked key). *)
Theorem C13_repaired_marker_examples :
  accepts_document default_rcfg nested_marker_example = true /\
  marked_type default_rcfg nested_marker_example [97] = Some DT_List /\
  marked_type default_rcfg nested_marker_example [98] = Some DT_Int /\
  rejected_at default_rcfg chunked_key_marker_example = Some 9.
Proof. exact repaired_marker_examples. Qed.

(* Non-vacuity: forward and backward references, in key and value position. *)
Example C13_example_accept :
  accepts_document default_rcfg
    [EBeginDoc; EVersion 0; EList; EMap; ERefLocal [98]; ERefLocal [97]; EEnd; EMarker [97]; EList; EEnd;
     EMarker [98]; EPosInt 7; ERefLocal [97]; EEnd; EEndDoc] = true.
Proof. vm_compute. reflexivity. Qed.
Example C13_example_unknown_reference :
  rejected_at default_rcfg [EBeginDoc; EVersion 0; EList; ERefLocal [97]; EEnd; EEndDoc] = Some 5.
Proof. vm_compute. reflexivity. Qed.
Example C13_example_key_type_mismatch :
  rejected_at default_rcfg [EBeginDoc; EVersion 0; EList; EMarker [97]; EList; EEnd; EMap; ERefLocal [97]] = Some 7.
Proof. vm_compute. reflexivity. Qed.
