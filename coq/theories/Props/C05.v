(* C05 — Marshaling emits a valid event stream that describes exactly the value.
   Only theorem statements here; each is closed by a lemma from Proofs/IterateProofs.v.

   Model (Model/Iterate.v): [iterate cfg root] is the event list RootObjectIterator.Iterate
   delivers for the Go value [root] (a tree the way package reflect presents it, with the
   addresses the recursion support keys on) under the iterator configuration [cfg] (field-name
   style, default omit behaviour, registered record types, recursion support);
   [iterate_outcome] also says whether the iteration ran to completion (false: it panicked).
   [accepts_document rc es] is the rules validator (Model/Rules.v) with limits [rc];
   [read_doc es] is the value an event stream describes (lists, maps, records resolved to
   maps through their record type, typed arrays decoded element by element, bit arrays bit by
   bit); [canon cfg v] is the Go value as a document value (every list element, map entry and
   kept struct field once; typed arrays as their elements' bit patterns; bool arrays as bits).

   Hypotheses: [head_ok] / [records_ok] — record-type names are distinct valid identifiers,
   their keys distinct valid strings; [vok rc cfg 0 v] — times are the zero value or accepted by
   compact_time's Validate (/repo bdbfb19; see C05_example_time), strings are valid UTF-8, media types have
   the form type/subtype the validator asks for (/repo afaa1e5; see C05_example_media), sizes and
   nesting within the limits [rc], map keys one-event keyable values that stay distinct,
   emitted field names distinct, values of a registered record type are of that type, no Edge;
   [descr cfg v] — no Edge, no signalling float32 NaN, no exported field promoted through an
   embedded struct whose type name is lower-case, values of a registered record type are
   of that type; [supported] — [vok] without the Edge restriction.

   Embedded fields: only an embedded field whose type is a struct is flattened into the outer
   struct ([flattened]); an embedded field of another type (type MyInt int, *Inner) is an ordinary
   field named after its type (/repo: extractFields tests reflectField.Type.Kind() == reflect.Struct;
   before, such a struct made the iterator panic).  See C05_embedded_non_struct_pinned.

   History: the earlier version of this file refuted the property on eight defect classes.
   Four are repaired in /repo, their witnesses pinned below and in the harness: bool slices
   longer than 8 (734b6c6), records omitting a declared field (8413af6), arrays panicking under
   recursion support (7f07b92), and the validator rejecting a marked container inside a marked
   container (192c5da).  Six remain open: types.Edge without its end event, signalling
   float32 NaNs, promoted fields of an embedded struct with a lower-case type name dropped, two
   flattened fields going by one name (without recursion support); marker on marker and slices
   sharing their start address (with it).  [canon] flattens embedded structs the way Go promotes
   fields (whatever the embedded type is called), the model of the iterator ([iterate]) the way
   extractFields does (by the name of the embedded type).  Distinct emitted field names are a
   hypothesis of [vok] and [supported]; [C05_full_any_names] is the property without it.
   [C05_full] is the whole property, each [_refuted] theorem derives its negation from one
   concrete witness of one open class, and [C05_partial] is the property for the fragment that
   excludes exactly those classes (recursion support off, [vok], [descr]). *)
From CE Require Import Model.Iterate Proofs.IterateProofs.
Open Scope N_scope.

(* ---- the two halves of the property, without recursion support -------------------------- *)

(* iterate_valid: the validator accepts the marshaler's events. *)
Theorem C05_iterate_valid :
  forall (rc : rcfg) (cfg : icfg) (root : option gval),
    expected_version rc = 0 -> c_recursion cfg = false -> head_ok rc cfg = true ->
    match root with
    | Some v => vok rc cfg 0 v = true /\ weight (rectypes_events cfg ++ plain cfg v) <= max_object_count rc
    | None => 1 <= max_object_count rc
    end ->
    accepts_document rc (iterate cfg root) = true.
Proof. exact iterate_valid. Qed.
Print Assumptions C05_iterate_valid.

(* iterate_describes: reading the events gives back exactly the value. *)
Theorem C05_iterate_describes :
  forall (cfg : icfg) (root : option gval),
    c_recursion cfg = false -> records_ok cfg = true ->
    match root with Some v => descr cfg v = true | None => True end ->
    read_doc (iterate cfg root) = Some (canon_root cfg root).
Proof. exact iterate_describes. Qed.
Print Assumptions C05_iterate_describes.

(* Typed arrays carry exactly the elements: the array event of a numeric slice/array decodes,
   element by element (little endian, two's complement), to the elements' bit patterns. *)
Theorem C05_typed_array_elements :
  forall (k : akind) (es : list Z),
    match k with AF32 => forallb (fun z => negb (is_snan32 (elem_pattern AF32 z))) es = true | _ => True end ->
    read_array (at_of k) (len es) (num_bytes k es) = Some (DNums (at_of k) (map (elem_pattern k) es)).
Proof. exact read_nums. Qed.
Print Assumptions C05_typed_array_elements.

(* Bool slices and arrays of every length: bit (i mod 8) of byte (i / 8) is element i. *)
Theorem C05_bool_array_bits :
  forall l : list bool, len l < two64 -> read_array AT_Bit (len l) (pack_bools l) = Some (DBits l).
Proof. exact read_bools. Qed.
Print Assumptions C05_bool_array_bits.

(* The iteration always runs to completion (the model has no panic left: arrays under recursion
   support were the one), for every configuration and value, with or without recursion support. *)
Theorem C05_iterate_completes :
  forall (cfg : icfg) (root : option gval), snd (iterate_outcome cfg root) = true.
Proof. exact iterate_completes. Qed.
Print Assumptions C05_iterate_completes.

(* The loop of iterateSliceOrArrayBool is the packing by chunks of eight, which reads back exactly. *)
Theorem C05_bool_loop_is_chunk_packing :
  forall (k : nat) (v : list bool) (isrc : nat), pack_bools_loop v isrc k = pack_bits (skipn isrc v) k.
Proof. exact pack_loop_eq. Qed.
Print Assumptions C05_bool_loop_is_chunk_packing.

(* ... and that packing (element i in bit i mod 8 of byte i / 8) reads back exactly, for every length *)
Theorem C05_bit_layout_of_intended_packing :
  forall (k : nat) (v : list bool),
    (length v <= 8 * k)%nat -> (8 * k < length v + 8)%nat ->
    unpack_bits (length v) (pack_bits v k) = Some v.
Proof. exact unpack_pack_bits. Qed.
Print Assumptions C05_bit_layout_of_intended_packing.

(* ---- the whole property ------------------------------------------------------------------ *)

Definition C05_full : Prop :=
  forall (rc : rcfg) (cfg : icfg) (root : option gval),
    expected_version rc = 0 -> head_ok rc cfg = true -> records_ok cfg = true ->
    match root with
    | Some v => supported rc cfg 0 v = true
                /\ (c_recursion cfg = false -> acyclic [] v = true)
                /\ weight (iterate cfg root) <= max_object_count rc
    | None => 1 <= max_object_count rc
    end ->
    snd (iterate_outcome cfg root) = true
    /\ accepts_document rc (iterate cfg root) = true
    /\ (if c_recursion cfg
        then match root with
             | Some v => acyclic [] v = true -> described_rec (iterate cfg root) = Some (canon cfg v)
             | None => True
             end
        else read_doc (iterate cfg root) = Some (canon_root cfg root)).

(* defect: types.Edge is emitted without its end-container event (iterateEdge) *)
Theorem C05_edge_refuted : ~ C05_full.
Proof. exact full_refuted_edge. Qed.
Print Assumptions C05_edge_refuted.
Theorem C05_edge_witness :
  supported default_rcfg cfg_plain 0 w_edge = true
  /\ accepts_document default_rcfg (iterate cfg_plain (Some w_edge)) = false.
Proof. exact edge_rejected. Qed.
Print Assumptions C05_edge_witness.

(* defect: a signalling float32 NaN reaches the receiver quiet (reflect.Value.Float) *)
Theorem C05_float32_snan_refuted : ~ C05_full.
Proof. exact full_refuted_float32_snan. Qed.
Print Assumptions C05_float32_snan_refuted.

(* defect (recursion support): a shared pointer to a shared pointer gives marker, marker *)
Theorem C05_marker_on_marker_refuted : ~ C05_full.
Proof. exact full_refuted_marker_on_marker. Qed.
Print Assumptions C05_marker_on_marker_refuted.

(* defect (recursion support): slices with the same start address and different lengths are merged *)
Theorem C05_same_base_slices_refuted : ~ C05_full.
Proof. exact full_refuted_same_base_slices. Qed.
Print Assumptions C05_same_base_slices_refuted.
Theorem C05_same_base_slices_witness :
  accepts_document default_rcfg (iterate cfg_rec (Some w_same_base)) = true
  /\ described_rec (iterate cfg_rec (Some w_same_base)) = Some (DList [DList [DScalar (EInt 1)]; DList [DScalar (EInt 1)]])
  /\ canon cfg_rec w_same_base = DList [DList [DScalar (EInt 1)]; DList [DScalar (EInt 1); DScalar (EInt 2); DScalar (EInt 3)]].
Proof. exact same_base_misdescribed. Qed.
Print Assumptions C05_same_base_slices_witness.

(* defect: struct{ low; Z int } with type low struct{ P int } — Go promotes P to the outer struct,
   extractFields drops the embedded struct because its type name is lower-case: P does not appear *)
Theorem C05_promoted_field_dropped_refuted : ~ C05_full.
Proof. exact full_refuted_promoted_field_dropped. Qed.
Print Assumptions C05_promoted_field_dropped_refuted.
Theorem C05_promoted_field_dropped_witness :
  supported default_rcfg cfg_plain 0 w_hidden = true
  /\ descr cfg_plain w_hidden = false
  /\ iterate cfg_plain (Some w_hidden) = [EBeginDoc; EVersion 0; EMap; EStringArray AT_String [122]; EInt 3; EEnd; EEndDoc]
  /\ accepts_document default_rcfg (iterate cfg_plain (Some w_hidden)) = true
  /\ read_doc (iterate cfg_plain (Some w_hidden)) = Some (DMap [(DString [122], DScalar (EInt 3))])
  /\ canon cfg_plain w_hidden = DMap [(DString [112], DScalar (EInt 1)); (DString [122], DScalar (EInt 3))].
Proof. exact hidden_promoted_dropped. Qed.
Print Assumptions C05_promoted_field_dropped_witness.

(* defect: struct{ A int; Inner } with type Inner struct{ A int } (legal Go: the outer A shadows the
   promoted one) — extractFields keeps both, the map has the key "a" twice, the validator refuses
   the marshaler's events.  [supported] (and [vok]) demand distinct emitted field names, so
   [C05_full] does not speak about such a struct; [C05_full_any_names] is the property without
   that demand: it implies [C05_full] and is refuted by this witness. *)
Definition C05_full_any_names : Prop :=
  forall (rc : rcfg) (cfg : icfg) (root : option gval),
    expected_version rc = 0 -> head_ok rc cfg = true -> records_ok cfg = true ->
    match root with
    | Some v => supported_any_names rc cfg 0 v = true
                /\ (c_recursion cfg = false -> acyclic [] v = true)
                /\ weight (iterate cfg root) <= max_object_count rc
    | None => 1 <= max_object_count rc
    end ->
    snd (iterate_outcome cfg root) = true
    /\ accepts_document rc (iterate cfg root) = true
    /\ (if c_recursion cfg
        then match root with
             | Some v => acyclic [] v = true -> described_rec (iterate cfg root) = Some (canon cfg v)
             | None => True
             end
        else read_doc (iterate cfg root) = Some (canon_root cfg root)).
Theorem C05_any_names_implies_full : C05_full_any_names -> C05_full.
Proof. exact full_property_any_names_stronger. Qed.
Print Assumptions C05_any_names_implies_full.
Theorem C05_supported_differs_by_distinct_names_only :
  forall (rc : rcfg) (cfg : icfg) (v : gval) (d : N),
    supported rc cfg d v = true -> supported_any_names rc cfg d v = true.
Proof. intros rc cfg v d. exact (supported_any_names_weaker rc cfg v d). Qed.
Print Assumptions C05_supported_differs_by_distinct_names_only.
Theorem C05_duplicate_flattened_name_refuted : ~ C05_full_any_names.
Proof. exact full_refuted_duplicate_flattened_name. Qed.
Print Assumptions C05_duplicate_flattened_name_refuted.
Theorem C05_duplicate_flattened_name_witness :
  supported_any_names default_rcfg cfg_plain 0 w_shadow = true
  /\ supported default_rcfg cfg_plain 0 w_shadow = false
  /\ iterate cfg_plain (Some w_shadow)
     = [EBeginDoc; EVersion 0; EMap; EStringArray AT_String [97]; EInt 1; EStringArray AT_String [97]; EInt 2; EEnd; EEndDoc]
  /\ rejected_at default_rcfg (iterate cfg_plain (Some w_shadow)) = Some 5
  /\ accepts_document default_rcfg (iterate cfg_plain (Some w_shadow)) = false.
Proof. exact shadow_rejected. Qed.
Print Assumptions C05_duplicate_flattened_name_witness.

(* ---- repaired classes: the former witnesses, pinned ---------------------------------------- *)

(* []bool of length 9, only the last element true: second byte 1 (was 0) *)
Theorem C05_bool_slice_pinned :
  iterate cfg_plain (Some w_bool9) = [EBeginDoc; EVersion 0; EArray AT_Bit 9 [0; 1]; EEndDoc]
  /\ read_doc (iterate cfg_plain (Some w_bool9)) = Some (canon cfg_plain w_bool9)
  /\ canon cfg_plain w_bool9 = DBits [false; false; false; false; false; false; false; false; true].
Proof. exact bool9_described. Qed.
Print Assumptions C05_bool_slice_pinned.

(* a record whose second field is the empty string: the value is carried (was omitted: the
   validator then rejected the record for having 1 of 2 values) *)
Theorem C05_record_pinned :
  iterate cfg_record (Some w_record)
  = [EBeginDoc; EVersion 0; ERecordType [114]; EStringArray AT_String [97]; EStringArray AT_String [98]; EEnd;
     ERecord [114]; EInt 1; EStringArray AT_String []; EEnd; EEndDoc]
  /\ accepts_document default_rcfg (iterate cfg_record (Some w_record)) = true
  /\ read_doc (iterate cfg_record (Some w_record))
     = Some (DMap [(DString [97], DScalar (EInt 1)); (DString [98], DString [])])
  /\ canon cfg_record w_record = DMap [(DString [97], DScalar (EInt 1)); (DString [98], DString [])].
Proof. exact record_accepted. Qed.
Print Assumptions C05_record_pinned.

(* an array iterated as a list under recursion support (used to panic after the version event) *)
Theorem C05_array_recursion_pinned :
  iterate_outcome cfg_rec (Some w_array)
  = ([EBeginDoc; EVersion 0; EList; EStringArray AT_String [97]; EEnd; EEndDoc], true)
  /\ accepts_document default_rcfg (iterate cfg_rec (Some w_array)) = true
  /\ described_rec (iterate cfg_rec (Some w_array)) = Some (canon cfg_rec w_array).
Proof. exact array_completes. Qed.
Print Assumptions C05_array_recursion_pinned.

(* a marked container inside a marked container, and a two-element cycle, under recursion support
   (the validator used to keep a single marker id and rejected them; /repo 192c5da) *)
Theorem C05_nested_markers_pinned :
  iterate cfg_rec (Some w_nested)
  = [EBeginDoc; EVersion 0; EList; EMarker [48]; EMap; EStringArray AT_String [110]; EMarker [49]; EMap;
     EStringArray AT_String [110]; ENull; EEnd; EEnd; ERefLocal [48]; ERefLocal [49]; EEnd; EEndDoc]
  /\ accepts_document default_rcfg (iterate cfg_rec (Some w_nested)) = true
  /\ described_rec (iterate cfg_rec (Some w_nested)) = Some (canon cfg_rec w_nested)
  /\ iterate cfg_rec (Some w_cycle)
     = [EBeginDoc; EVersion 0; EMarker [48]; EMap; EStringArray AT_String [110]; EMap; EStringArray AT_String [110];
        ERefLocal [48]; EEnd; EEnd; EEndDoc]
  /\ accepts_document default_rcfg (iterate cfg_rec (Some w_cycle)) = true.
Proof. exact nested_markers_accepted. Qed.
Print Assumptions C05_nested_markers_pinned.

(* ---- the property on the fragment without the open classes ------------------------------- *)

(* Excluded: recursion support (two open defect classes above; its general statement is not
   proved beyond completion), types.Edge, signalling float32 NaNs, exported fields promoted
   through an embedded struct with a lower-case type name ([descr]), flattened fields that go
   by one name ([vok]: emitted names distinct); map keys are restricted to
   one-event keyable values (see [vok]).  Bool slices of every length and records with empty
   fields are inside the fragment. *)
Theorem C05_partial :
  forall (rc : rcfg) (cfg : icfg) (root : option gval),
    expected_version rc = 0 -> head_ok rc cfg = true -> records_ok cfg = true ->
    c_recursion cfg = false ->
    match root with
    | Some v => vok rc cfg 0 v = true /\ descr cfg v = true
                /\ weight (iterate cfg root) <= max_object_count rc
    | None => 1 <= max_object_count rc
    end ->
    snd (iterate_outcome cfg root) = true
    /\ accepts_document rc (iterate cfg root) = true
    /\ read_doc (iterate cfg root) = Some (canon_root cfg root).
Proof. exact partial_property. Qed.
Print Assumptions C05_partial.

(* ---- non-vacuity -------------------------------------------------------------------------- *)

(* a struct with tags (order, omit), a list of mixed values, a map, a node, a nested record of a
   registered type with an empty field: inside the fragment, at the default limits *)
Example C05_hypotheses_satisfiable :
  head_ok default_rcfg ex_cfg = true /\ records_ok ex_cfg = true
  /\ vok default_rcfg ex_cfg 0 ex_value = true /\ descr ex_cfg ex_value = true
  /\ weight (iterate ex_cfg (Some ex_value)) <= max_object_count default_rcfg.
Proof. exact example_in_fragment. Qed.

Example C05_example_document :
  accepts_document default_rcfg (iterate ex_cfg (Some ex_value)) = true
  /\ read_doc (iterate ex_cfg (Some ex_value)) = Some (canon ex_cfg ex_value)
  /\ length (iterate ex_cfg (Some ex_value)) = 34%nat.
Proof. vm_compute. repeat split. Qed.

(* sharing without the defects: a pointer used twice is marked once and referenced once, the
   validator accepts, and the references resolve to the value *)
Example C05_example_recursion :
  let v := VSlice 1 [VIface (VPtr 2 (VInt 5)); VIface (VPtr 2 (VInt 5))] in
  iterate cfg_rec (Some v) = [EBeginDoc; EVersion 0; EList; EMarker [48]; EInt 5; ERefLocal [48]; EEnd; EEndDoc]
  /\ accepts_document default_rcfg (iterate cfg_rec (Some v)) = true
  /\ described_rec (iterate cfg_rec (Some v)) = Some (canon cfg_rec v).
Proof. vm_compute. repeat split. Qed.

(* a types.Media with a well-formed media type ("a/b") is inside the fragment and accepted; with a
   malformed one ("a": no subtype) it is outside [vok] / [supported], and the validator does refuse
   the marshaler's events (rules ValidateMediaType, /repo afaa1e5) *)
Example C05_example_media :
  let good := VSlice 1 [VIface (VMedia false [97; 47; 98] [1; 2]); VIface (VOPtr (VMedia false [65; 47; 66] []))] in
  let bad := VMedia false [97] [1] in
  vok default_rcfg cfg_plain 0 good = true /\ descr cfg_plain good = true
  /\ accepts_document default_rcfg (iterate cfg_plain (Some good)) = true
  /\ read_doc (iterate cfg_plain (Some good)) = Some (canon cfg_plain good)
  /\ vok default_rcfg cfg_plain 0 bad = false /\ supported default_rcfg cfg_plain 0 bad = false
  /\ accepts_document default_rcfg (iterate cfg_plain (Some bad)) = false.
Proof. vm_compute. repeat split. Qed.

(* embedded structs, three levels deep (Outer embeds Middle embeds Base embeds Core), as a map and
   as a record: every field of every level once, each with its own value *)
Example C05_example_embedding :
  let fld n := mkF n true false ODefault 9223372036854775807%Z in
  let emb n := mkF n true true ODefault 9223372036854775807%Z in
  let core := VStruct 4 [(fld [65], VInt 1); (fld [66], VInt 2); (fld [67], VInt 3)] in
  let base := VStruct 3 [(emb [67; 111; 114; 101], core); (fld [68], VInt 4)] in
  let middle := VStruct 2 [(emb [66; 97; 115; 101], base); (fld [69], VInt 5)] in
  let outer_fields := [(emb [77; 105; 100; 100; 108; 101], middle); (fld [70], VInt 6)] in
  let outer := VStruct 1 outer_fields in
  let cfg_o := mkCfg true false OEmpty [mkRT [111] 1 outer_fields] in
  iterate cfg_plain (Some outer)
  = [EBeginDoc; EVersion 0; EMap;
     EStringArray AT_String [97]; EInt 1; EStringArray AT_String [98]; EInt 2; EStringArray AT_String [99]; EInt 3;
     EStringArray AT_String [100]; EInt 4; EStringArray AT_String [101]; EInt 5; EStringArray AT_String [102]; EInt 6;
     EEnd; EEndDoc]
  /\ vok default_rcfg cfg_plain 0 outer = true /\ descr cfg_plain outer = true
  /\ read_doc (iterate cfg_plain (Some outer)) = Some (canon cfg_plain outer)
  /\ iterate cfg_o (Some outer)
     = [EBeginDoc; EVersion 0; ERecordType [111];
        EStringArray AT_String [97]; EStringArray AT_String [98]; EStringArray AT_String [99];
        EStringArray AT_String [100]; EStringArray AT_String [101]; EStringArray AT_String [102]; EEnd;
        ERecord [111]; EInt 1; EInt 2; EInt 3; EInt 4; EInt 5; EInt 6; EEnd; EEndDoc]
  /\ head_ok default_rcfg cfg_o = true /\ records_ok cfg_o = true /\ vok default_rcfg cfg_o 0 outer = true
  /\ read_doc (iterate cfg_o (Some outer)) = Some (canon cfg_o outer).
Proof. vm_compute. repeat split. Qed.

(* recursion support: a struct and its first field live at the same address but are different
   objects (duplicates.TypedPointer = type and address, hence two identities 2 and 3): each gets
   its own marker, and the references resolve to the value *)
Example C05_example_same_address :
  let fld n := mkF n true false ODefault 9223372036854775807%Z in
  let pos := VStruct 2 [(fld [88], VInt 5)] in
  let sprite := VStruct 1 [(fld [80; 111; 115], pos); (fld [78; 97; 109; 101], VString [115])] in
  let v := VSlice 1 [VIface (VPtr 2 sprite); VIface (VPtr 2 sprite); VIface (VPtr 3 pos); VIface (VPtr 3 pos)] in
  iterate cfg_rec (Some v)
  = [EBeginDoc; EVersion 0; EList;
     EMarker [48]; EMap; EStringArray AT_String [112; 111; 115]; EMap; EStringArray AT_String [120]; EInt 5; EEnd;
                         EStringArray AT_String [110; 97; 109; 101]; EStringArray AT_String [115]; EEnd;
     ERefLocal [48];
     EMarker [49]; EMap; EStringArray AT_String [120]; EInt 5; EEnd;
     ERefLocal [49];
     EEnd; EEndDoc]
  /\ accepts_document default_rcfg (iterate cfg_rec (Some v)) = true
  /\ described_rec (iterate cfg_rec (Some v)) = Some (canon cfg_rec v).
Proof. vm_compute. repeat split. Qed.

(* a time that compact_time's Validate accepts (token "2020-01-02/03:04:05") is inside the fragment
   and accepted, also as a map key; one it rejects (the harness tags its token with a leading NUL,
   Model/Rules.v time_token_valid) is outside [vok] / [supported]: the iterator emits it all the
   same and the validator refuses the event (rules OnTime, /repo bdbfb19) *)
Example C05_example_time :
  let tok := [50; 48; 50; 48; 45; 48; 49; 45; 48; 50; 47; 48; 51; 58; 48; 52; 58; 48; 53] in
  let good := VMap 1 [(VTime false tok, VIface (VTime false tok))] in
  let bad := VTime false (0 :: tok) in
  vok default_rcfg cfg_plain 0 good = true /\ descr cfg_plain good = true
  /\ accepts_document default_rcfg (iterate cfg_plain (Some good)) = true
  /\ read_doc (iterate cfg_plain (Some good)) = Some (canon cfg_plain good)
  /\ vok default_rcfg cfg_plain 0 bad = false /\ supported default_rcfg cfg_plain 0 bad = false
  /\ iterate cfg_plain (Some bad) = [EBeginDoc; EVersion 0; ETime (0 :: tok); EEndDoc]
  /\ rejected_at default_rcfg (iterate cfg_plain (Some bad)) = Some 2.
Proof. vm_compute. repeat split. Qed.

(* repaired in /repo (extractFields flattens only embedded structs; it used to call NumField on the
   embedded type and panic): E1{MyInt: 5, B: 6} with type MyInt int is the map my_int = 5, b = 6;
   E2{&Inner{7}, 8} with an embedded *Inner is inner = {a = 7}, b = 8; with a nil *Inner the field is
   omitted like any empty field (as a record it is carried as null); all inside the fragment *)
Example C05_embedded_non_struct_pinned :
  let fld n := mkF n true false ODefault 9223372036854775807%Z in
  let emb n := mkF n true true ODefault 9223372036854775807%Z in
  let myint := [77; 121; 73; 110; 116] in
  let inner := [73; 110; 110; 101; 114] in
  let e1 := VStruct 1 [(emb myint, VInt 5); (fld [66], VInt 6)] in
  let e2 p := VStruct 2 [(emb inner, p); (fld [66], VInt 8)] in
  let some := VPtr 1 (VStruct 3 [(fld [65], VInt 7)]) in
  let cfg_r := mkCfg true false OEmpty [mkRT [114] 2 [(emb inner, VNilPtr); (fld [66], VInt 0)]] in
  let s := EStringArray AT_String in
  iterate cfg_plain (Some e1)
  = [EBeginDoc; EVersion 0; EMap; s [109; 121; 95; 105; 110; 116]; EInt 5; s [98]; EInt 6; EEnd; EEndDoc]
  /\ iterate cfg_plain (Some (e2 some))
     = [EBeginDoc; EVersion 0; EMap; s [105; 110; 110; 101; 114]; EMap; s [97]; EInt 7; EEnd; s [98]; EInt 8; EEnd; EEndDoc]
  /\ iterate cfg_plain (Some (e2 VNilPtr)) = [EBeginDoc; EVersion 0; EMap; s [98]; EInt 8; EEnd; EEndDoc]
  /\ iterate cfg_r (Some (e2 VNilPtr))
     = [EBeginDoc; EVersion 0; ERecordType [114]; s [105; 110; 110; 101; 114]; s [98]; EEnd; ERecord [114]; ENull; EInt 8; EEnd; EEndDoc]
  /\ vok default_rcfg cfg_plain 0 e1 = true /\ descr cfg_plain e1 = true
  /\ vok default_rcfg cfg_plain 0 (e2 some) = true /\ descr cfg_plain (e2 some) = true
  /\ vok default_rcfg cfg_r 0 (e2 VNilPtr) = true /\ descr cfg_r (e2 VNilPtr) = true
  /\ head_ok default_rcfg cfg_r = true /\ records_ok cfg_r = true
  /\ read_doc (iterate cfg_plain (Some e1)) = Some (canon cfg_plain e1)
  /\ read_doc (iterate cfg_plain (Some (e2 some))) = Some (canon cfg_plain (e2 some))
  /\ read_doc (iterate cfg_plain (Some (e2 VNilPtr))) = Some (canon cfg_plain (e2 VNilPtr))
  /\ read_doc (iterate cfg_r (Some (e2 VNilPtr))) = Some (canon cfg_r (e2 VNilPtr))
  /\ canon cfg_plain (e2 some)
     = DMap [(DString [105; 110; 110; 101; 114], DMap [(DString [97], DScalar (EInt 7))]); (DString [98], DScalar (EInt 8))].
Proof. vm_compute. repeat split. Qed.

(* ---- one iterator, several documents ----------------------------------------------------- *)

(* A Marshaler may keep one RootObjectIterator for all its documents.  Every document stands on its
   own (the reference tables are made anew by every Iterate); only the marker names continue
   counting ([iterate_outcome_from n]: n = the first marker name).  The first document is the
   document of a fresh iterator, and every later one runs to completion as well. *)
Theorem C05_first_document_of_a_reused_iterator :
  forall (cfg : icfg) (root : option gval),
    let '(es, ok, _) := iterate_outcome_from 0 cfg root in iterate_outcome cfg root = (es, ok).
Proof. exact iterate_outcome_from_0. Qed.
Print Assumptions C05_first_document_of_a_reused_iterator.
Theorem C05_later_documents_complete :
  forall (n : N) (cfg : icfg) (root : option gval),
    let '(_, ok, _) := iterate_outcome_from n cfg root in ok = true.
Proof. exact iterate_outcome_from_completes. Qed.
Print Assumptions C05_later_documents_complete.

(* the same ring (a -> b -> a) twice through one iterator: the second document carries its own
   marker (named 1: the names go on) and is accepted and resolved like the first *)
Example C05_example_reused_iterator :
  let fld n := mkF n true false ODefault 9223372036854775807%Z in
  let ring := VPtr 1 (VStruct 1 [(fld [73], VInt 1);
                (fld [78], VPtr 2 (VStruct 1 [(fld [73], VInt 2); (fld [78], VPtr 1 VNilPtr)]))]) in
  let doc m := [EBeginDoc; EVersion 0; EMarker m; EMap; EStringArray AT_String [105]; EInt 1; EStringArray AT_String [110];
                EMap; EStringArray AT_String [105]; EInt 2; EStringArray AT_String [110]; ERefLocal m; EEnd; EEnd; EEndDoc] in
  iterate_outcome_from 0 cfg_rec (Some ring) = (doc [48], true, 1)
  /\ iterate_outcome_from 1 cfg_rec (Some ring) = (doc [49], true, 2)
  /\ accepts_document default_rcfg (doc [49]) = true
  /\ iterate_seq_case_ok (cfg_rec, [(Some ring, doc [48], true, None); (Some ring, doc [49], true, None)]) = true
  /\ iterate_seq_case_ok (cfg_rec, [(Some ring, doc [48], true, None);
                                    (Some ring, [EBeginDoc; EVersion 0; ERefLocal [48]; EEndDoc], true, Some 2)]) = false.
Proof. vm_compute. repeat split. Qed.
