(* C14 — Configured resource limits are enforced exactly (rules validator). *)
From CE Require Import Model.Rules Model.RulesSpec Proofs.RulesInvariants Proofs.RulesStructure Proofs.RulesLimits Proofs.RulesChunks.
Open Scope N_scope.

(* Usage is measured by independent folds over the event list (Model/RulesSpec.v): [object_usage] (events
   for which the receiver calls NotifyNewObject - record types count), [depth_usage] (deepest nesting of
   lists / maps / edges / nodes / records / record types over all prefixes), [whole_array_usage] (bytes of the
   largest array delivered in one event), [chunked_array_usage] (largest sum of the byte counts announced by
   the chunk headers of one array, summed as the validator does, 64-bit wrap-around included),
   [ident_usage] (longest identifier), [marker_usage] (marker events; the validator limits them by
   the smaller of MaxLocalReferenceCount and MaxMarkerCount, the model's [max_local_reference_count]).
   [cfg_le a b]: b is at least as generous as a (array limit 0 = none).  [length_ok cfg n]: n is within the
   array-size limit of cfg. *)

(* (a) Raising any limit never turns acceptance into rejection. *)
Theorem C14_raising_limits_never_rejects :
  forall cfg cfg', cfg_le cfg cfg' -> forall es, accepts cfg es = true -> accepts cfg' es = true.
Proof. exact accepts_mono. Qed.
Print Assumptions C14_raising_limits_never_rejects.

Theorem C14_raising_limits_never_rejects_document :
  forall cfg cfg', cfg_le cfg cfg' -> forall es, accepts_document cfg es = true -> accepts_document cfg' es = true.
Proof. exact accepts_document_mono. Qed.
Print Assumptions C14_raising_limits_never_rejects_document.

(* (b) Necessity: every accepted event list is within the object, depth, array (whole and chunked) and
   identifier limits (the marker limit: see C14_marker_limit_necessary). *)
Theorem C14_limits_necessary :
  forall cfg es, accepts cfg es = true ->
    object_usage es <= max_object_count cfg /\ depth_usage es <= max_container_depth cfg /\
    length_ok cfg (whole_array_usage es) = true /\ length_ok cfg (chunked_array_usage es) = true /\
    ident_usage es <= max_identifier_length cfg.
Proof. exact limits_necessary_full. Qed.
Print Assumptions C14_limits_necessary.

(* (b) Sufficiency: a list that more generous limits accept and whose usage (all six measures) is within the
   limits of [cfg] is accepted under [cfg] - a limit that is not exceeded never causes a rejection. *)
Theorem C14_limits_sufficient :
  forall cfg cfg' es, cfg_le cfg cfg' -> accepts cfg' es = true -> within_limits_full cfg es -> accepts cfg es = true.
Proof. exact limits_sufficient_full. Qed.
Print Assumptions C14_limits_sufficient.

Theorem C14_limits_sufficient_document :
  forall cfg cfg' es, cfg_le cfg cfg' -> accepts_document cfg' es = true -> within_limits_full cfg es ->
    accepts_document cfg es = true.
Proof. exact limits_sufficient_full_document. Qed.
Print Assumptions C14_limits_sufficient_document.

(* (b) Exactness, complete documents: a document is accepted exactly when more generous limits accept it and
   every one of the six usage measures is within its limit. *)
Theorem C14_limits_exact :
  forall cfg es,
    accepts_document cfg es = true <->
    (exists cfg', cfg_le cfg cfg' /\ accepts_document cfg' es = true) /\ within_limits_full cfg es.
Proof. exact limits_exact_document. Qed.
Print Assumptions C14_limits_exact.

(* Necessity of the marker limit: every marker of a complete document is registered, and registrations are
   counted against the limit (the smaller of MaxLocalReferenceCount and MaxMarkerCount in the code). *)
Theorem C14_marker_limit_necessary :
  forall cfg es, accepts_document cfg es = true -> marker_usage es <= max_local_reference_count cfg.
Proof. exact document_markers_within. Qed.
Print Assumptions C14_marker_limit_necessary.

(* (b) Exactness on arbitrary accepted lists (prefixes of documents), where open markers are not yet counted:
   the five other limits, given that the marker limit is not the binding one. *)
Theorem C14_limits_exact_prefix :
  forall cfg es, marker_usage es <= max_local_reference_count cfg ->
    (accepts cfg es = true <->
     (exists cfg', cfg_le cfg cfg' /\ accepts cfg' es = true) /\
     object_usage es <= max_object_count cfg /\ depth_usage es <= max_container_depth cfg /\
     length_ok cfg (whole_array_usage es) = true /\ length_ok cfg (chunked_array_usage es) = true /\
     ident_usage es <= max_identifier_length cfg).
Proof. exact limits_exact_full. Qed.
Print Assumptions C14_limits_exact_prefix.

(* Off by one: with the object, depth, identifier and marker limits set to exactly the measured usage the
   document is still accepted (and by necessity, with any of them one lower it is not). *)
Theorem C14_limits_tight :
  forall cfg es, accepts_document cfg es = true -> accepts_document (usage_cfg cfg es) es = true.
Proof. exact limits_tight_document. Qed.
Print Assumptions C14_limits_tight.

(* On every accepted list the registered markers plus the marker entries still open are the marker events. *)
Theorem C14_markers_accounted :
  forall cfg es c, state_after cfg es = Some c ->
    (Z.of_N (refcount c) + Z.of_nat (count_cl KMarker (e_rule (cur c) :: srules c)) = Z.of_N (marker_usage es))%Z.
Proof. exact markers_accounted. Qed.
Print Assumptions C14_markers_accounted.

(* Non-vacuity / off-by-one examples on one document: depth 2, 7 objects, identifier length 3, a whole array
   of 4 bytes, a chunked array of 2 + 3 bytes. *)
Definition C14_doc : list event :=
  [EBeginDoc; EVersion 0; EList; EMap; EPosInt 1; EMarker [97;98;99]; EStringArray AT_String [1;2;3;4]; EEnd;
   EArrayBegin AT_Uint8; EArrayChunk 2 true; EArrayData [1;2]; EArrayChunk 3 false; EArrayData [3]; EArrayData [4;5];
   EEnd; EEndDoc].
Definition C14_cfg (o d a i : N) : rcfg :=
  {| max_object_count := o; max_container_depth := d; max_array_size_bytes := a; max_identifier_length := i;
     max_local_reference_count := 1; expected_version := 0 |}.
Example C14_usage :
  (object_usage C14_doc, depth_usage C14_doc, whole_array_usage C14_doc, chunked_array_usage C14_doc,
   ident_usage C14_doc, marker_usage C14_doc) = (6, 2, 4, 5, 3, 1).
Proof. vm_compute. reflexivity. Qed.
Example C14_at_usage : accepts_document (C14_cfg 6 2 5 3) C14_doc = true.
Proof. vm_compute. reflexivity. Qed.
Example C14_below_usage :
  (rejected_at (C14_cfg 5 2 5 3) C14_doc, rejected_at (C14_cfg 6 1 5 3) C14_doc,
   rejected_at (C14_cfg 6 2 4 3) C14_doc, rejected_at (C14_cfg 6 2 3 3) C14_doc, rejected_at (C14_cfg 6 2 5 2) C14_doc)
  = (Some 8, Some 3, Some 11, Some 6, Some 5).
Proof. vm_compute. reflexivity. Qed.
