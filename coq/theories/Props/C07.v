(* C07 — No input makes a public entry point panic, hang or crash.
   Only theorem statements here; each is closed by a lemma from Proofs/EntryProofs.v.

   Vocabulary (CE.Model.Entry):
     run e calls            outcomes of successive calls of entry point e on one object
                            (the one-shot functions make a fresh object per call)
     run_chain e head len inner   entry point e on a document with first bytes head and length len,
                            as a nest of functions whose recover / unguarded-operation shape is
                            regenerated from the source (Gen/ApiShape.v); inner = innermost body
     Panic                  a panic escapes the entry point;  Hang = the call does not return
     cache_get              lookup in the type cache of a builder / iterator session
     run_typed pol e env fuel calls   outcomes of successive Marshal calls on one object with values over a
                            graph of types env (cycles, unsupported kinds): iterators capture the
                            placeholders of types still being generated; pol = what the failure path of
                            GetIteratorForType does with its placeholder; None = the model's fuel ran out
     artificially_terminate builder/context.go ArtificiallyTerminate on a builder stack
     frag_decode            cbe/decoder.go Decode + runMainDecodeLoop on a fragment of CBE
   The model does not cover: process death by memory exhaustion (the CBE reader allocates twice
   an announced length before reading), typed destinations, markers / references / records,
   the CTE parser; these are exercised by the harness only. *)
From Coq Require Import String.
From CE Require Import Model.Api Model.Entry Proofs.EntryProofs.
Open Scope N_scope.

(* ---- panics ---- *)

(* Whatever the innermost body does (including panicking), NO entry point lets a panic
   escape, on any document (the empty one included): on every path a function with a
   deferred recover() is crossed and no partial operation sits outside it.  (Since commit
   753581c this includes the universal DecodeDocument: the shape regenerated from the source
   no longer has the unguarded document[0].) *)
Theorem C07_no_panic_escapes :
  forall (R : Type) (e : entry_point) (head : bytes) (len : N) (inner : fmt -> outcome R),
    run_chain e head len inner <> Panic.
Proof. exact @run_chain_no_panic. Qed.
Print Assumptions C07_no_panic_escapes.

(* The hand-written call chains follow the call graph extracted from the source. *)
Theorem C07_chains_in_callgraph :
  forallb (fun e =>
    match route_of e with
    | Direct outer f dv => chain_in_callgraph (outer ++ specific_chain (kind_of e) f dv)
    | Universal outer _ dv =>
        chain_in_callgraph (outer :: specific_chain (kind_of e) FCbe dv)
        && chain_in_callgraph (outer :: specific_chain (kind_of e) FCte dv)
    end) all_entry_points = true.
Proof. exact chains_in_callgraph. Qed.
Print Assumptions C07_chains_in_callgraph.

(* ---- loops ---- *)

(* A loop whose body decreases a measure returns (fuel = the measure is enough). *)
Theorem C07_measured_loop_returns :
  forall (S : Type) (mu : S -> nat) (step : S -> option S),
    (forall s s', step s = Some s' -> (mu s' < mu s)%nat) ->
    forall s, exists s', run_loop mu step s = Ok s' /\ step s' = None.
Proof. exact @run_loop_returns. Qed.
Print Assumptions C07_measured_loop_returns.

(* ArtificiallyTerminate (after commit 5799b55) returns on EVERY builder stack, leaving at
   most the top-level builder; its measure is the stack depth. *)
Theorem C07_artificially_terminate_returns :
  forall st : stack, exists st', artificially_terminate st = Ok st' /\ (length st' <= 1)%nat.
Proof. exact artificially_terminate_returns. Qed.
Print Assumptions C07_artificially_terminate_returns.

(* What the repair changed: the previous loop never removed an edge builder (or a node
   builder) from the top of a stack of depth > 1 — under any measure. *)
Theorem C07_old_terminate_spins_on_edge :
  forall (mu : stack -> nat) (n : nat) (r : stack),
    r <> [] -> run_loop mu terminate_step_old (FEdge n :: r) = Hang.
Proof. exact old_terminate_spins_on_edge. Qed.
Print Assumptions C07_old_terminate_spins_on_edge.

Theorem C07_old_terminate_spins_on_node :
  forall (mu : stack -> nat) (b : bool) (r : stack),
    r <> [] -> run_loop mu terminate_step_old (FNode b :: r) = Hang.
Proof. exact old_terminate_spins_on_node. Qed.
Print Assumptions C07_old_terminate_spins_on_node.

(* The main decode loop of the CBE fragment consumes at least one byte per iteration: Decode
   returns on every byte string. *)
Theorem C07_frag_decode_returns : forall d : bytes, exists r, frag_decode d = Ok r.
Proof. exact frag_decode_returns. Qed.
Print Assumptions C07_frag_decode_returns.

(* Byte level, CBE fragment, validator off, destination interface{}: every unmarshal entry
   point returns a result or an error on every byte string. *)
Theorem C07_frag_unmarshal_returns :
  forall (e : entry_point) (d : bytes) (o : outcome unit),
    frag_unmarshal e d = Some o -> o <> Panic /\ o <> Hang.
Proof. exact frag_unmarshal_good. Qed.
Print Assumptions C07_frag_unmarshal_returns.

(* ---- type caches ---- *)

(* From an empty cache no sequence of calls stores a placeholder, so no lookup ever waits:
   a lookup of an unsupported type leaves the cache unchanged (commit d2cf257) ... *)
Theorem C07_failed_build_leaves_cache :
  forall (c : cache) (t : N), cache_find c t = None -> cache_get c t false = (c, BuildPanics).
Proof. exact cache_get_unsupported_unchanged. Qed.
Print Assumptions C07_failed_build_leaves_cache.

Theorem C07_lookup_never_waits :
  forall (c : cache) (t : N) (sup : bool),
    no_placeholder c -> no_placeholder (fst (cache_get c t sup)) /\ snd (cache_get c t sup) <> Waits.
Proof. exact cache_get_keeps. Qed.
Print Assumptions C07_lookup_never_waits.

(* ... whereas before the repair the second lookup of the same unsupported type waited forever. *)
Theorem C07_old_cache_poisoned :
  forall (c : cache) (t : N), cache_find c t = None ->
    snd (cache_get_old c t false) = BuildPanics /\
    snd (cache_get_old (fst (cache_get_old c t false)) t false) = Waits.
Proof. exact old_cache_poisoned. Qed.
Print Assumptions C07_old_cache_poisoned.

(* ---- iterator session over a graph of types ---- *)

(* Marshal calls on ONE object, values over ANY graph of types (self-referential types, unsupported
   kinds anywhere in the graph, interfaces holding unsupported values), in any order, any reuse after
   failed calls, every marshal entry point: every call the model evaluates returns a result or an
   error.  The generation of a type that fails leaves iterators of OTHER types cached with the
   failed type's placeholder inside; the failure path releases that placeholder (commit d2cf257),
   so calling it re-raises the error instead of waiting. *)
Theorem C07_typed_marshal_sessions_return :
  forall (e : entry_point) (env : tyenv) (fuel : nat) (calls : list (nat * vshape)),
    Forall (fun o => match o with Some o' => o' <> Panic /\ o' <> Hang | None => True end)
           (run_typed policy_current e env fuel calls).
Proof. exact run_typed_good. Qed.
Print Assumptions C07_typed_marshal_sessions_return.

(* The same for every failure path that releases the placeholder, whether or not it deletes it. *)
Theorem C07_typed_sessions_return_when_released :
  forall (pol : fail_policy) (e : entry_point) (env : tyenv) (fuel : nat) (calls : list (nat * vshape)),
    fp_release pol = true ->
    Forall (fun o => match o with Some o' => o' <> Panic /\ o' <> Hang | None => True end)
           (run_typed pol e env fuel calls).
Proof. exact run_typed_good_released. Qed.
Print Assumptions C07_typed_sessions_return_when_released.

(* Releasing is necessary.  type T struct { Next *T; Ch chan int } (rec_env), Marshal(T{}) then
   Marshal(&T{}) on one Marshaler (rec_calls): with a failure path that only deletes the
   placeholder the second call never returns, while one-shot calls and repetitions of the same
   call still return errors. *)
Theorem C07_unreleased_placeholder_waits :
  run_typed policy_delete_only CBEMarshaler_Marshal rec_env 8 rec_calls = [Some Err; Some Hang]
  /\ run_typed policy_delete_only CTEMarshaler_MarshalToDocument rec_env 8 rec_calls = [Some Err; Some Hang]
  /\ run_typed policy_delete_only MarshalToCBEDocument rec_env 8 rec_calls = [Some Err; Some Err]
  /\ run_typed policy_delete_only CBEMarshaler_Marshal rec_env 8 [(0, VNode []); (0, VNode [])]%nat = [Some Err; Some Err]
  /\ run_typed policy_delete_only CBEMarshaler_Marshal rec_env 8 [(1, VNode [(0, VNode [])]); (1, VNode [(0, VNode [])])]%nat = [Some Err; Some Err].
Proof. exact unreleased_placeholder_waits. Qed.
Print Assumptions C07_unreleased_placeholder_waits.

Theorem C07_typed_old_protocol_waits :
  run_typed policy_before_d2cf257 CBEMarshaler_Marshal rec_env 8 [(0, VNode []); (0, VNode [])]%nat = [Some Err; Some Hang].
Proof. exact typed_old_protocol_waits. Qed.
Print Assumptions C07_typed_old_protocol_waits.

(* Non-vacuity: on the same sequence the current protocol is evaluated to the end (no None). *)
Example C07_typed_witness_current :
  run_typed policy_current CBEMarshaler_Marshal rec_env 8 rec_calls = [Some Err; Some Err].
Proof. exact typed_witness_current. Qed.

(* ---- the property ---- *)

(* Full property: every call of every entry point, in every session, returns a result or an
   error. *)
Definition C07_full : Prop :=
  forall (e : entry_point) (calls : list call), Forall (fun o => o <> Panic /\ o <> Hang) (run e calls).

(* It is still FALSE on the current tree: a value that reaches itself (recursion support is off
   by default) sends Iterate into unbounded recursion. *)
Theorem C07_cyclic_value_refuted :
  ~ Forall (fun o => o <> Panic /\ o <> Hang) (run MarshalToCBEDocument [CallMarshal cyclic_value]).
Proof. exact cyclic_value_refutes. Qed.
Print Assumptions C07_cyclic_value_refuted.

Theorem C07_full_refuted : ~ C07_full.
Proof. exact full_property_false. Qed.
Print Assumptions C07_full_refuted.

(* Partial: the property holds for EVERY session whose marshaled values are acyclic — every
   entry point, every document (empty included), every mixture of supported and unsupported
   template / value types, any reuse of a Marshaler / Unmarshaler / Decoder after failed
   calls, any events reaching the builder before a decode error. *)
Theorem C07_partial :
  forall (e : entry_point) (calls : list call),
    benign calls -> Forall (fun o => o <> Panic /\ o <> Hang) (run e calls).
Proof. exact run_good. Qed.
Print Assumptions C07_partial.

(* Non-vacuity. *)
Example C07_benign_example :
  benign [CallUnmarshal [129] 3 1 true (fun _ => {| d_trace := [SList; SEdge; SVal]; d_fails := true |});
          CallUnmarshal [129] 3 2 false (fun _ => {| d_trace := [SNode]; d_fails := true |});
          CallUnmarshal [129] 3 2 false (fun _ => {| d_trace := [SVal]; d_fails := false |});
          CallMarshal unsupported_value; CallMarshal unsupported_value; CallDecode [] 0 (fun _ => false)].
Proof. exact benign_example. Qed.

(* The witnesses of the repaired defects now return errors (reuse histories return). *)
Example C07_repaired_witnesses :
  run CEDecoder_DecodeDocument [CallDecode [] 0 (fun _ => false)] = [Err]
  /\ run CBEMarshaler_Marshal [CallMarshal unsupported_value; CallMarshal unsupported_value] = [Err; Err]
  /\ run CBEUnmarshaler_Unmarshal
        [CallUnmarshal [129] 3 7 false (fun _ => {| d_trace := [SVal]; d_fails := false |});
         CallUnmarshal [129] 3 7 false (fun _ => {| d_trace := [SVal]; d_fails := false |});
         CallUnmarshal [129] 3 8 true (fun _ => {| d_trace := [SVal]; d_fails := false |})] = [Err; Err; Ok tt].
Proof. exact repaired_witnesses. Qed.

Example C07_example_runs :
  run CBEUnmarshaler_Unmarshal
      [CallUnmarshal [129] 3 1 true (fun _ => {| d_trace := [SList; SEdge; SVal]; d_fails := true |})] = [Err]
  /\ run UnmarshalFromCEDocument [CallUnmarshal [] 0 1 true (fun _ => {| d_trace := []; d_fails := false |})] = [Err]
  /\ run UnmarshalFromCEDocument [CallUnmarshal [99] 4 1 true (fun _ => {| d_trace := [SVal]; d_fails := false |})] = [Ok tt]
  /\ frag_unmarshal UnmarshalFromCBEDocument [129; 0; 151; 106; 1] = Some Err
  /\ frag_unmarshal UnmarshalFromCBEDocument [129; 0; 154; 1; 155] = Some (Ok tt)
  /\ run_loop (@length frame) terminate_step_old [FEdge 0; FTop false] = Hang
  /\ artificially_terminate [FEdge 0; FSlice; FNode false; FTop false] = Ok [FTop false].
Proof. vm_compute. repeat split. Qed.
