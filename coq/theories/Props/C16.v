(* C16 — Reused instances behave like fresh ones.
   Only theorem statements here; each is closed by a lemma from Proofs/ReuseProofs.v.

   [run_reused init call history op]: the answer of ONE instance to [op] after it
   has been used for the operations of [history] (every use includes the
   instance's real reset point); [run_fresh init call op]: the answer of a new
   instance.  Answers = everything a caller can observe of one use. *)
From CE Require Import Model.Rules Model.Reuse Proofs.ReuseProofs.
From CE Require Model.Cbe.
Open Scope N_scope.

(* ---- the property, for every kind of instance ---- *)
Definition C16_reader : Prop := forall max history reads,
  run_reused reader_init (reader_call max) history reads = run_fresh reader_init (reader_call max) reads.
Definition C16_cbe_encoder : Prop := forall history es,
  run_reused Cbe.enc_init cbe_enc_call history es = run_fresh Cbe.enc_init cbe_enc_call es.
Definition C16_cte_encoder : Prop := forall history es,
  run_reused cte_init cte_call history es = run_fresh cte_init cte_call es.
Definition C16_cache : Prop := forall dynamic history t,
  run_reused cache_init (cache_call dynamic) history t = run_fresh cache_init (cache_call dynamic) t.

(* ---- CBE reader: holds ---- *)
Theorem C16_reader_reuse : forall max history reads,
  run_reused reader_init (reader_call max) history reads = run_fresh reader_init (reader_call max) reads.
Proof. exact reader_reuse. Qed.
Print Assumptions C16_reader_reuse.

(* ---- CBE encoder: violated; holds when no array begin is pending ---- *)
Theorem C16_cbe_encoder_refuted : exists history es,
  run_reused Cbe.enc_init cbe_enc_call history es <> run_fresh Cbe.enc_init cbe_enc_call es.
Proof. exact cbe_enc_refuted. Qed.
Print Assumptions C16_cbe_encoder_refuted.

Theorem C16_cbe_encoder_partial : forall history es,
  Forall enc_closes history ->
  run_reused Cbe.enc_init cbe_enc_call history es = run_fresh Cbe.enc_init cbe_enc_call es.
Proof. exact cbe_enc_reuse_when. Qed.
Print Assumptions C16_cbe_encoder_partial.

(* ---- CTE encoder: holds for streams that begin with OnBeginDocument, OnVersion ---- *)
Theorem C16_cte_encoder_refuted : exists history es,
  run_reused cte_init cte_call history es <> run_fresh cte_init cte_call es.
Proof. exact cte_refuted. Qed.
Print Assumptions C16_cte_encoder_refuted.

Theorem C16_cte_encoder_partial : forall history es,
  has_header es ->
  run_reused cte_init cte_call history es = run_fresh cte_init cte_call es.
Proof. exact cte_reuse. Qed.
Print Assumptions C16_cte_encoder_partial.

(* ---- type caches: violated; holds while no unsupported type was met ---- *)
Theorem C16_cache_refuted : forall dynamic, exists history t,
  run_reused cache_init (cache_call dynamic) history t <> run_fresh cache_init (cache_call dynamic) t.
Proof. exact cache_refuted. Qed.
Print Assumptions C16_cache_refuted.

Theorem C16_cache_partial : forall dynamic history t,
  Forall all_supported history ->
  run_reused cache_init (cache_call dynamic) history t = run_fresh cache_init (cache_call dynamic) t.
Proof. exact cache_reuse_when. Qed.
Print Assumptions C16_cache_partial.
