(* C16 — Reused instances behave like fresh ones.
   Only theorem statements here; each is closed by a lemma from Proofs/ReuseProofs.v.

   [run_reused init call history op]: the answer of ONE instance to [op] after it
   has been used for the operations of [history] (every use includes the
   instance's real reset point); [run_fresh init call op]: the answer of a new
   instance.  Answers = everything a caller can observe of one use. *)
From CE Require Import Model.Rules Model.Reuse Proofs.ReuseProofs.
From CE Require Model.Cbe.
Open Scope N_scope.

(* ---- the property, for every kind of instance ---- *)
Definition C16_rules : Prop := forall cfg history es,
  run_reused init_rctx (rules_call cfg) history es = run_fresh init_rctx (rules_call cfg) es.
Definition C16_reader : Prop := forall max history reads,
  run_reused reader_init (reader_call max) history reads = run_fresh reader_init (reader_call max) reads.
Definition C16_cbe_encoder : Prop := forall history es,
  run_reused Cbe.enc_init cbe_enc_call history es = run_fresh Cbe.enc_init cbe_enc_call es.
Definition C16_cte_encoder : Prop := forall history es,
  run_reused cte_init cte_call history es = run_fresh cte_init cte_call es.
Definition C16_cache : Prop := forall dynamic history t,
  run_reused cache_init (cache_call dynamic) history t = run_fresh cache_init (cache_call dynamic) t.

(* the type caches again, over a table of types that may refer to themselves (Model/Reuse.v 5c) *)
Definition C16_cache_graph : Prop := forall tb history op,
  run_reused gcache_init (gcache_call tb) history op = run_fresh gcache_init (gcache_call tb) op.

(* The whole property: it holds for every kind of instance. *)
Definition C16_full : Prop :=
  C16_rules /\ C16_reader /\ C16_cbe_encoder /\ C16_cte_encoder /\ C16_cache /\ C16_cache_graph.

(* ---- rules validator: holds.  Context.Reset leaves recordTypeName, markerID and the
   array sub-state behind; no rule reads any of them before it has been written
   again (checked on the dispatch table regenerated from the code, lemma
   table_ok_sweep, and proved for all event lists). ---- *)
Theorem C16_rules_reuse : forall cfg history es,
  run_reused init_rctx (rules_call cfg) history es = run_fresh init_rctx (rules_call cfg) es.
Proof. exact rules_reuse. Qed.
Print Assumptions C16_rules_reuse.

(* ---- CBE reader: holds (SetReader restarts the byte count) ---- *)
Theorem C16_reader_reuse : forall max history reads,
  run_reused reader_init (reader_call max) history reads = run_fresh reader_init (reader_call max) reads.
Proof. exact reader_reuse. Qed.
Print Assumptions C16_reader_reuse.

(* ---- CBE encoder: holds (PrepareToEncode forgets the array state of the previous,
   possibly aborted, document) ---- *)
Theorem C16_cbe_encoder_reuse : forall history es,
  run_reused Cbe.enc_init cbe_enc_call history es = run_fresh Cbe.enc_init cbe_enc_call es.
Proof. exact cbe_enc_reuse. Qed.
Print Assumptions C16_cbe_encoder_reuse.

(* ---- CTE encoder: holds for streams that begin with OnBeginDocument, OnVersion ---- *)
Theorem C16_cte_encoder_refuted : exists history es,
  run_reused cte_init cte_call history es <> run_fresh cte_init cte_call es.
Proof. exact cte_refuted. Qed.
Print Assumptions C16_cte_encoder_refuted.

Theorem C16_cte_encoder_partial : forall history es,
  has_header es ->
  run_reused cte_init cte_call history es = run_fresh cte_init cte_call es.
Proof. exact cte_reuse. Qed.
Print Assumptions C16_cte_encoder_partial.

(* ---- type caches: holds, histories with unsupported types included (a failed
   generation deletes its placeholders before the error travels on) ---- *)
Theorem C16_cache_reuse : forall dynamic history t,
  run_reused cache_init (cache_call dynamic) history t = run_fresh cache_init (cache_call dynamic) t.
Proof. exact cache_reuse. Qed.
Print Assumptions C16_cache_reuse.

(* ---- type caches over SELF-REFERENTIAL types: violated.  The iterator of *T is finished
   while T is still in progress and keeps T's placeholder; when T then fails (unsupported
   field), *T stays in the session's map.  Witness: Marshal(T{}) fails, then
   Marshal of a nil *T is answered by the reused marshaler and refused by a fresh one. ---- *)
Theorem C16_cache_graph_refuted : ~ C16_cache_graph.
Proof. exact cache_graph_refuted. Qed.
Print Assumptions C16_cache_graph_refuted.

(* ---- marker names (Iterator.RecursionSupport): every Marshal builds a new root iterator, so
   whatever was marshaled before, the k marked objects of a value are named 0 .. k-1 ---- *)
Theorem C16_marker_names_reuse : forall history k,
  run_reused marker_init marker_call history k = run_fresh marker_init marker_call k.
Proof. exact marker_reuse. Qed.
Print Assumptions C16_marker_names_reuse.

Theorem C16_marker_names_from_zero : forall history k i, (i < N.to_nat k)%nat ->
  nth i (run_reused marker_init marker_call history k) 0 = N.of_nat i.
Proof. exact marker_names_spec. Qed.
Print Assumptions C16_marker_names_from_zero.

(* ---- the owners: an unmarshaler (builder session + CBE reader + validator) and
   the marshalers (iterator session + encoder); their answer is determined by
   the answers of their parts ---- *)
Theorem C16_cbe_unmarshaler_reuse : forall max cfg history op,
  run_reused cbe_unmarshaler_init (cbe_unmarshaler_call max cfg) history op
  = run_fresh cbe_unmarshaler_init (cbe_unmarshaler_call max cfg) op.
Proof. exact cbe_unmarshaler_reuse. Qed.
Print Assumptions C16_cbe_unmarshaler_reuse.

Theorem C16_cte_marshaler_partial : forall history op,
  has_header (snd op) ->
  run_reused cte_marshaler_init cte_marshaler_call history op = run_fresh cte_marshaler_init cte_marshaler_call op.
Proof. exact cte_marshaler_reuse. Qed.
Print Assumptions C16_cte_marshaler_partial.

Theorem C16_cbe_marshaler_reuse : forall history op,
  run_reused cbe_marshaler_init cbe_marshaler_call history op = run_fresh cbe_marshaler_init cbe_marshaler_call op.
Proof. exact cbe_marshaler_reuse. Qed.
Print Assumptions C16_cbe_marshaler_reuse.

(* ---- the full property is violated by the CTE encoder, when it is fed a stream that
   does not begin with OnBeginDocument (its reset point), and by the type caches on
   self-referential types with an unsupported field ---- *)
Theorem C16_full_refuted : ~ C16_full.
Proof. exact full_refuted. Qed.
Print Assumptions C16_full_refuted.

(* ---- non-vacuity: the hypotheses of the partial theorems are satisfiable on
   non-trivial histories, and the witnesses of the violations ---- *)
Example C16_ex_rules :
  run_reused init_rctx (rules_call default_rcfg)
    [[EBeginDoc; EVersion 0; EMap; EArrayBegin AT_String; EArrayChunk 3 true; EArrayData [97; 98]];
     [EBeginDoc; EVersion 0; EList; EMarker [109]]]
    [EBeginDoc; EVersion 0; EMap; EArrayBegin AT_String; EArrayChunk 1 false; EArrayData [99]; EPosInt 1; EEnd; EEndDoc]
  = ([EBeginDoc; EVersion 0; EMap; EArrayBegin AT_String; EArrayChunk 1 false; EArrayData [99]; EPosInt 1; EEnd; EEndDoc], None).
Proof. vm_compute. reflexivity. Qed.

(* the pinned witness of the repaired CBE encoder defect: an aborted array begin, then a document *)
Example C16_ex_cbe_witness :
  run_reused Cbe.enc_init cbe_enc_call [[EBeginDoc; EVersion 0; EList; EArrayBegin CbeConsts.cbeAT_Uint8]]
             [EBeginDoc; EVersion 0; ENull; EEndDoc] = (None, [129; 0; 125]) /\
  run_fresh Cbe.enc_init cbe_enc_call [EBeginDoc; EVersion 0; ENull; EEndDoc] = (None, [129; 0; 125]) /\
  run_reused Cbe.enc_init cbe_enc_call_noreset [[EBeginDoc; EVersion 0; EList; EArrayBegin CbeConsts.cbeAT_Uint8]]
             [EBeginDoc; EVersion 0; ENull; EEndDoc] = (None, [129; 0; 125; 147]).
Proof. exact cbe_enc_witness. Qed.

Example C16_ex_cte_header : has_header [CBegin; CVersion 0; CList; CPosInt 1; CEndContainer; CEndDoc].
Proof. exists 0, [CList; CPosInt 1; CEndContainer; CEndDoc]. reflexivity. Qed.

(* the pinned witness of the type-cycle violation: struct T { Next *T; Bad chan int } *)
Example C16_ex_cache_cycle_witness :
  run_all (gcache_call tb_cycle) gcache_init [(1, v_T0); (2, v_nilptr); (2, v_ptrT0); (1, v_T0)] = [CErr; COk; CErr; CErr] /\
  run_fresh gcache_init (gcache_call tb_cycle) (2, v_nilptr) = CErr /\
  g_map (fst (gcache_call tb_cycle gcache_init (1, v_T0))) = [(2, 2)].
Proof. exact gcache_cycle_witness. Qed.

(* marker names per document, and what one root iterator kept across calls would give *)
Example C16_ex_marker_names :
  run_all marker_call marker_init [1; 0; 2; 1] = [[0]; []; [0; 1]; [0]] /\
  run_all marker_call_noreset marker_init [1; 0; 2; 1] = [[0]; []; [1; 2]; [3]].
Proof. exact marker_witness. Qed.

Example C16_ex_cache_after_failure :
  run_all (cache_call true) cache_init [TBad 1; TBad 1; TComp 2 [(true, TLeaf 3); (true, TBad 1)]; TLeaf 3]
  = [(CErr, []); (CErr, []); (CErr, []); (COk, [3])].
Proof. exact cache_after_failure. Qed.
