(* C17 - Concurrent use of separate instances is race-free and matches
   sequential use.

   What is proved is about the protocol of the two shared type caches
   (iterator/session.go GetIteratorForType, builder/session.go
   GetBuilderGeneratorForType: sync.Map + placeholder closure + WaitGroup), as
   modelled in Model/Cache.v, for ALL schedules (lists of thread numbers of
   any length), any number of threads, any jobs and any type table.

   Assumed, not proved (the named gap): the Go memory model facts that
   sync.Map Load/LoadOrStore/Store and sync.WaitGroup Add/Done/Wait are
   synchronising operations (the model makes each of them one atomic step and
   a Done that brings the counter to zero happens before the return of every
   Wait it releases), that executions of data-race-free programs are
   sequentially consistent, and that a generated function is immutable once
   it has been assigned to the captured variable.  Instances that share no
   state (separate marshalers etc.) are not modelled: their only common state
   is the package-level root sessions, which are only read after package
   initialisation.  The race detector runs of the harness cover those.

   Only theorem statements here; each is closed by a lemma from Proofs/. *)
From CE Require Import Model.Cache Proofs.CacheProofs.
Open Scope N_scope.

(* Every call that returns normally has run exactly the functions the same
   call runs when it is alone on a new session (the trace [ref]): whatever the
   schedule, whatever else runs, supported types or not. *)
Theorem C17_returned_calls_match_sequential :
  forall (tb : ttable) (jobs : list (list job)) (sched : list nat) (th : thread) (jr : job * result),
    In th (st_threads (run tb (init jobs) sched)) -> In jr (th_done th) ->
    snd jr = RPanic \/ exists kinds, snd jr = ROk (ref tb (snd (fst jr)) (fst (fst jr))) kinds.
Proof. exact results_match. Qed.
Print Assumptions C17_returned_calls_match_sequential.

(* The jobs a thread has finished, is running and has still to run are always
   the jobs it was given, in order (no call is lost or invented). *)
Theorem C17_jobs_preserved :
  forall (tb : ttable) (jobs : list (list job)) (sched : list nat),
    map jobs_of (st_threads (run tb (init jobs) sched)) = jobs.
Proof. exact run_jobs. Qed.
Print Assumptions C17_jobs_preserved.

(* No reachable state has two different threads about to access the same
   plain variable (the captured [iterator] / [builderGenerator]) with a write
   among the two accesses. *)
Theorem C17_no_data_race :
  forall (tb : ttable) (jobs : list (list job)) (sched : list nat),
    race_state (run tb (init jobs) sched) = false.
Proof. exact no_race. Qed.
Print Assumptions C17_no_data_race.

(* Happens-before, explicitly: in the order in which the steps were taken
   (the log is newest first), every read of a plain variable through a
   placeholder by thread i comes after i's own Wait on that cell, which comes
   after a Done on that cell by some thread o, which comes after o's write of
   the variable:   Write -po-> Done -sw-> Wait -po-> Read. *)
Theorem C17_reads_happen_after_write :
  forall (tb : ttable) (jobs : list (list job)) (sched : list nat) l1 i p l2,
    st_log (run tb (init jobs) sched) = l1 ++ (i, ERead p) :: l2 ->
    exists la lb o lc ld,
      l2 = la ++ (i, EWait p) :: lb /\ lb = lc ++ (o, EDone p) :: ld /\ In (o, EWrite p) ld.
Proof. exact reads_happen_after_write. Qed.
Print Assumptions C17_reads_happen_after_write.

(* If every type is supported (no generator panics): no call ends in an
   error, and no call waits for ever - a state in which no thread can move has
   every thread finished with all its jobs. *)
Theorem C17_supported_calls_return_sequential_result :
  forall (tb : ttable) (jobs : list (list job)) (sched : list nat) (th : thread) (jr : job * result),
    supported tb ->
    In th (st_threads (run tb (init jobs) sched)) -> In jr (th_done th) ->
    exists kinds, snd jr = ROk (ref tb (snd (fst jr)) (fst (fst jr))) kinds.
Proof. exact supported_results. Qed.
Print Assumptions C17_supported_calls_return_sequential_result.

Theorem C17_supported_no_call_waits_for_ever :
  forall (tb : ttable) (jobs : list (list job)) (sched : list nat),
    supported tb ->
    stuck tb (run tb (init jobs) sched) = true -> all_finished (run tb (init jobs) sched) = true.
Proof. exact supported_no_deadlock. Qed.
Print Assumptions C17_supported_no_call_waits_for_ever.

Theorem C17_finished_threads_did_all_their_jobs :
  forall (tb : ttable) (jobs : list (list job)) (sched : list nat) (th : thread),
    all_finished (run tb (init jobs) sched) = true -> In th (st_threads (run tb (init jobs) sched)) ->
    map fst (th_done th) = jobs_of th.
Proof. exact finished_all_jobs. Qed.
Print Assumptions C17_finished_threads_did_all_their_jobs.

(* ------------------------------------------------------------------------- *)
(* The full property, and where the code violates it *)

(* "Each call returns exactly what it returns when run alone, and no data race
   occurs": no race; every finished call has the run-alone result
   ([alone]: the model's result of the same job as the only job on a new
   session); and every call does return (nobody is left waiting when nothing
   can move any more). *)
Definition C17_full : Prop :=
  forall (tb : ttable) (jobs : list (list job)) (sched : list nat),
    let s := run tb (init jobs) sched in
    race_state s = false /\
    (forall th jr, In th (st_threads s) -> In jr (th_done th) -> same_result (alone tb (fst jr)) (snd jr) = true) /\
    (stuck tb s = true -> all_finished s = true).

(* Defect 1 (never returns after a failed first use).  Type 0 is unsupported
   (a chan, func or complex field).  The first call fails, as it does alone -
   but the placeholder stays in the cache with its WaitGroup at 1, so the same
   call made again on the same session (here by the same thread) waits for
   ever, although alone it returns (an error). *)
Definition c17_bad_table : ttable := [(0, TBad); (1, TNode [0])].

Theorem C17_never_returns_refuted :
  exists (tb : ttable) (jobs : list (list job)) (sched : list nat),
    let s := run tb (init jobs) sched in
    stuck tb s = true /\ all_finished s = false /\
    (forall j, In j (concat jobs) -> alone tb j = Some RPanic).
Proof.
  exists c17_bad_table, [[(0, V []); (0, V [])]], (repeat 0%nat 20).
  split; [vm_compute; reflexivity|]. split; [vm_compute; reflexivity|].
  intros j [<-|[<-|[]]]; vm_compute; reflexivity.
Qed.
Print Assumptions C17_never_returns_refuted.

(* The same with two threads racing on the unsupported type: one gets the
   error, the other waits for ever. *)
Theorem C17_never_returns_concurrent_refuted :
  exists (tb : ttable) (jobs : list (list job)) (sched : list nat),
    let s := run tb (init jobs) sched in
    stuck tb s = true /\ all_finished s = false /\
    (forall j, In j (concat jobs) -> alone tb j = Some RPanic).
Proof.
  exists c17_bad_table, [[(0, V [])]; [(0, V [])]], [0; 1; 0; 1; 0; 1; 0; 1; 0; 1; 0; 1; 0; 1; 0; 1]%nat.
  split; [vm_compute; reflexivity|]. split; [vm_compute; reflexivity|].
  intros j [<-|[<-|[]]]; vm_compute; reflexivity.
Qed.
Print Assumptions C17_never_returns_concurrent_refuted.

(* Defect 2 (the result changes after a failed first use).  Type 1 holds type
   0 (e.g. a slice of it).  Alone, a call for type 1 fails.  After a failed
   call for type 0 on the same session, the call for type 1 with an empty
   value succeeds: it picks up the stale placeholder. *)
Theorem C17_result_changes_refuted :
  exists (tb : ttable) (jobs : list (list job)) (sched : list nat) (th : thread) (jr : job * result),
    In th (st_threads (run tb (init jobs) sched)) /\ In jr (th_done th) /\
    same_result (alone tb (fst jr)) (snd jr) = false.
Proof.
  exists c17_bad_table, [[(0, V []); (1, V [])]], (repeat 0%nat 40).
  eexists. exists ((1, V []), ROk [1] [false]).
  split; [vm_compute; left; reflexivity|]. split; [vm_compute; right; left; reflexivity | vm_compute; reflexivity].
Qed.
Print Assumptions C17_result_changes_refuted.

Theorem C17_full_refuted : ~ C17_full.
Proof.
  intro H. destruct C17_never_returns_refuted as (tb & jobs & sched & Hs & Hf & _).
  destruct (H tb jobs sched) as (_ & _ & H3). rewrite (H3 Hs) in Hf. discriminate.
Qed.
Print Assumptions C17_full_refuted.

(* The property for the fragment that excludes exactly that defect class:
   sessions on which no unsupported type is ever requested (every type of the
   table is supported).  All three parts of C17_full hold, the second in the
   stronger form "the result is the reference trace". *)
Theorem C17_partial :
  forall (tb : ttable) (jobs : list (list job)) (sched : list nat),
    supported tb ->
    let s := run tb (init jobs) sched in
    race_state s = false /\
    (forall th jr, In th (st_threads s) -> In jr (th_done th) ->
       exists kinds, snd jr = ROk (ref tb (snd (fst jr)) (fst (fst jr))) kinds) /\
    (stuck tb s = true -> all_finished s = true).
Proof. exact partial_property. Qed.
Print Assumptions C17_partial.

(* ------------------------------------------------------------------------- *)
(* Non-vacuity *)

(* A supported table with a recursive type (0 = struct {1; *0}, 2 = *0), three
   threads, a schedule that interleaves them: everybody finishes with the
   reference trace, threads 0 and 1 were handed the placeholder of thread 2's
   cell 0, and the log contains their reads of its variable (written by
   thread 2). *)
Definition c17_ex_table : ttable := [(0, TNode [1; 2]); (1, TLeaf); (2, TNode [0])].
Definition c17_ex_val : val := V [(SKid 0%nat, V []); (SKid 1%nat, V [(SKid 0%nat, V [(SKid 0%nat, V [])])])].
Definition c17_ex_sched : list nat :=
  concat (repeat [0; 1; 2; 1; 0; 2; 2]%nat 40).

Example C17_example_supported : supported c17_ex_table.
Proof. apply supported_check. reflexivity. Qed.

Example C17_example_run :
  let s := run c17_ex_table (init [[(0, c17_ex_val)]; [(0, c17_ex_val); (2, V [])]; [(0, c17_ex_val)]]) c17_ex_sched in
  stuck c17_ex_table s = true /\ all_finished s = true /\
  map (fun th => map snd (th_done th)) (st_threads s) =
    [[ROk [0; 1; 2; 0; 1] [true]];
     [ROk [0; 1; 2; 0; 1] [true]; ROk [2] [false]];
     [ROk [0; 1; 2; 0; 1] [false]]] /\
  existsb (fun e => match e with (1%nat, ERead 0%nat) => true | _ => false end) (st_log s) = true.
Proof. vm_compute. repeat split; reflexivity. Qed.

Example C17_example_reference : ref c17_ex_table c17_ex_val 0 = [0; 1; 2; 0; 1].
Proof. reflexivity. Qed.
