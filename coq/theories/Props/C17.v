(* C17 - Concurrent use of separate instances is race-free and matches
   sequential use.

   What is proved is about the protocol of the two shared type caches
   (iterator/session.go GetIteratorForType, builder/session.go
   GetBuilderGeneratorForType: sync.Map + placeholder closure + WaitGroup), as
   modelled in Model/Cache.v, for ALL schedules (lists of thread numbers of
   any length), any number of threads, any jobs and any type table.

   Assumed, not proved (the named gap): the Go memory model facts that
   sync.Map Load/LoadOrStore/Store and sync.WaitGroup Add/Done/Wait are
   synchronising operations (the model makes each of them one atomic step and
   a Done that brings the counter to zero happens before the return of every
   Wait it releases), that executions of data-race-free programs are
   sequentially consistent, and that a generated function is immutable once
   it has been assigned to the captured variable.  Instances that share no
   state (separate marshalers etc.) are not modelled: their only common state
   is the package-level root sessions, which are only read after package
   initialisation.  The race detector runs of the harness cover those.

   Only theorem statements here; each is closed by a lemma from Proofs/. *)
From CE Require Import Model.Cache Proofs.CacheProofs.
Open Scope N_scope.

(* Every call that returns normally has run exactly the functions the same
   call runs when it is alone on a new session (the trace [ref]): whatever the
   schedule, whatever else runs, supported types or not. *)
Theorem C17_returned_calls_match_sequential :
  forall (tb : ttable) (jobs : list (list job)) (sched : list nat) (th : thread) (jr : job * result),
    In th (st_threads (run tb (init jobs) sched)) -> In jr (th_done th) ->
    snd jr = RPanic \/ exists kinds, snd jr = ROk (ref tb (snd (fst jr)) (fst (fst jr))) kinds.
Proof. exact results_match. Qed.
Print Assumptions C17_returned_calls_match_sequential.

(* The jobs a thread has finished, is running and has still to run are always
   the jobs it was given, in order (no call is lost or invented). *)
Theorem C17_jobs_preserved :
  forall (tb : ttable) (jobs : list (list job)) (sched : list nat),
    map jobs_of (st_threads (run tb (init jobs) sched)) = jobs.
Proof. exact run_jobs. Qed.
Print Assumptions C17_jobs_preserved.

(* No reachable state has two different threads about to access the same
   plain variable (the captured [iterator] / [builderGenerator]) with a write
   among the two accesses. *)
Theorem C17_no_data_race :
  forall (tb : ttable) (jobs : list (list job)) (sched : list nat),
    race_state (run tb (init jobs) sched) = false.
Proof. exact no_race. Qed.
Print Assumptions C17_no_data_race.

(* Happens-before, explicitly: in the order in which the steps were taken
   (the log is newest first), every read of a plain variable through a
   placeholder by thread i comes after i's own Wait on that cell, which comes
   after a Done on that cell by some thread o, which comes after o's write of
   the variable:   Write -po-> Done -sw-> Wait -po-> Read. *)
Theorem C17_reads_happen_after_write :
  forall (tb : ttable) (jobs : list (list job)) (sched : list nat) l1 i p l2,
    st_log (run tb (init jobs) sched) = l1 ++ (i, ERead p) :: l2 ->
    exists la lb o lc ld,
      l2 = la ++ (i, EWait p) :: lb /\ lb = lc ++ (o, EDone p) :: ld /\ In (o, EWrite p) ld.
Proof. exact reads_happen_after_write. Qed.
Print Assumptions C17_reads_happen_after_write.

(* Every call returns, whatever the type table (unsupported types included):
   a state in which no thread can move any more has every thread finished with
   all its jobs.  (A failed generation releases its WaitGroup on the way out.) *)
Theorem C17_all_calls_return :
  forall (tb : ttable) (jobs : list (list job)) (sched : list nat),
    stuck tb (run tb (init jobs) sched) = true -> all_finished (run tb (init jobs) sched) = true.
Proof. exact no_deadlock. Qed.
Print Assumptions C17_all_calls_return.

Theorem C17_finished_threads_did_all_their_jobs :
  forall (tb : ttable) (jobs : list (list job)) (sched : list nat) (th : thread),
    all_finished (run tb (init jobs) sched) = true -> In th (st_threads (run tb (init jobs) sched)) ->
    map fst (th_done th) = jobs_of th.
Proof. exact finished_all_jobs. Qed.
Print Assumptions C17_finished_threads_did_all_their_jobs.

(* A call ends in an error only if it really involves an unsupported type:
   generating the function for its type runs into one ([gen_bad]) or the value
   leads to a type whose generation does ([call_bad]).  Nobody else's failure
   makes a healthy call fail. *)
Theorem C17_calls_fail_only_on_unsupported_types :
  forall (tb : ttable) (jobs : list (list job)) (sched : list nat) (th : thread) (jr : job * result),
    In th (st_threads (run tb (init jobs) sched)) -> In jr (th_done th) -> snd jr = RPanic ->
    job_bad tb (fst (fst jr)) (snd (fst jr)).
Proof. exact failures_are_genuine. Qed.
Print Assumptions C17_calls_fail_only_on_unsupported_types.

(* The run-alone result of the model ([alone]: the job as the only job ever
   run on a new session) obeys the same laws. *)
Theorem C17_alone_ok_is_reference :
  forall (tb : ttable) (j : job) tr kinds, alone tb j = Some (ROk tr kinds) -> tr = ref tb (snd j) (fst j).
Proof. exact alone_ok_is_reference. Qed.
Print Assumptions C17_alone_ok_is_reference.

Theorem C17_alone_panic_is_genuine :
  forall (tb : ttable) (j : job), alone tb j = Some RPanic -> job_bad tb (fst j) (snd j).
Proof. exact alone_panic_is_genuine. Qed.
Print Assumptions C17_alone_panic_is_genuine.

(* If every type of the table is supported, every finished call has the
   reference result. *)
Theorem C17_supported_calls_return_sequential_result :
  forall (tb : ttable) (jobs : list (list job)) (sched : list nat) (th : thread) (jr : job * result),
    supported tb ->
    In th (st_threads (run tb (init jobs) sched)) -> In jr (th_done th) ->
    exists kinds, snd jr = ROk (ref tb (snd (fst jr)) (fst (fst jr))) kinds.
Proof. exact supported_results. Qed.
Print Assumptions C17_supported_calls_return_sequential_result.

(* ------------------------------------------------------------------------- *)
(* The full property, and where the code still violates it *)

(* "Each call returns exactly what it returns when run alone, and no data race
   occurs": no race; every finished call has the run-alone result; every call
   returns. *)
Definition C17_full : Prop :=
  forall (tb : ttable) (jobs : list (list job)) (sched : list nat),
    let s := run tb (init jobs) sched in
    race_state s = false /\
    (forall th jr, In th (st_threads s) -> In jr (th_done th) -> same_result (alone tb (fst jr)) (snd jr) = true) /\
    (stuck tb s = true -> all_finished s = true).

(* Since the repair of the failure path (a failed generation deletes its
   placeholder, assigns an error function and calls Done) the first and the
   third part hold for every table (C17_no_data_race, C17_all_calls_return).
   The second part still fails in one situation: a generated function that was
   COMPLETED while it held the placeholder of a type whose generation then
   FAILED stays in the cache.  A later call that gets this function and does
   not reach the dead placeholder succeeds, although alone it fails.

   Sequential witness (mutually recursive types with an unsupported field):
   0 = struct { *2 ; chan }, 1 = *2, 2 = struct { *0 }, 3 = *0, 4 = chan.
   Generating 0 completes the functions for 3, 2 and 1 (3 captured the
   placeholder of 0) and then fails on 4.  The next call for type 2 with an
   empty value returns normally; alone it fails. *)
Definition c17_rec_table : ttable := [(0, TNode [1; 4]); (1, TNode [2]); (2, TNode [3]); (3, TNode [0]); (4, TBad)].

Theorem C17_result_changes_refuted :
  exists (tb : ttable) (jobs : list (list job)) (sched : list nat) (th : thread) (jr : job * result),
    In th (st_threads (run tb (init jobs) sched)) /\ In jr (th_done th) /\
    same_result (alone tb (fst jr)) (snd jr) = false.
Proof.
  exists c17_rec_table, [[(0, V []); (2, V [])]], (repeat 0%nat 120).
  eexists. exists ((2, V []), ROk [2] [false]).
  split; [vm_compute; left; reflexivity|]. split; [vm_compute; right; left; reflexivity | vm_compute; reflexivity].
Qed.
Print Assumptions C17_result_changes_refuted.

(* Concurrent witness without recursion: 0 is unsupported, 1 = a holder of 0
   (slice, pointer).  Thread 0 asks for 0, thread 1 for 1 with an empty value.
   Thread 1 picks up thread 0's placeholder between thread 0's LoadOrStore and
   its Delete, completes and stores the function for 1, and returns normally. *)
Theorem C17_result_changes_concurrent_refuted :
  exists (tb : ttable) (jobs : list (list job)) (sched : list nat) (th : thread) (jr : job * result),
    In th (st_threads (run tb (init jobs) sched)) /\ In jr (th_done th) /\
    same_result (alone tb (fst jr)) (snd jr) = false.
Proof.
  exists [(0, TBad); (1, TNode [0])], [[(0, V [])]; [(1, V [])]],
         ([0; 0; 0; 0; 0] ++ repeat 1%nat 30 ++ repeat 0%nat 30)%nat.
  eexists. exists ((1, V []), ROk [1] [false]).
  split; [vm_compute; right; left; reflexivity|]. split; [vm_compute; left; reflexivity | vm_compute; reflexivity].
Qed.
Print Assumptions C17_result_changes_concurrent_refuted.

Theorem C17_full_refuted : ~ C17_full.
Proof.
  intro H. destruct C17_result_changes_refuted as (tb & jobs & sched & th & jr & H1 & H2 & H3).
  destruct (H tb jobs sched) as (_ & Hr & _). rewrite (Hr th jr H1 H2) in H3. discriminate.
Qed.
Print Assumptions C17_full_refuted.

(* The property for the fragment that excludes exactly that class: calls whose
   type or value involves an unsupported type ([job_bad]).  For every other
   call, in every schedule and whatever the other threads do (including failing
   on unsupported types): the result is the run-alone result.  The first and
   the third part hold without any restriction. *)
Theorem C17_partial :
  forall (tb : ttable) (jobs : list (list job)) (sched : list nat),
    let s := run tb (init jobs) sched in
    race_state s = false /\
    (forall th jr, In th (st_threads s) -> In jr (th_done th) ->
       ~ job_bad tb (fst (fst jr)) (snd (fst jr)) -> alone tb (fst jr) <> None ->
       same_result (alone tb (fst jr)) (snd jr) = true) /\
    (stuck tb s = true -> all_finished s = true).
Proof.
  intros tb jobs sched s. split; [apply no_race|]. split; [apply good_jobs_match_alone | apply no_deadlock].
Qed.
Print Assumptions C17_partial.

(* and in the reference-trace form *)
Theorem C17_calls_without_unsupported_types_return_reference :
  forall (tb : ttable) (jobs : list (list job)) (sched : list nat) (th : thread) (jr : job * result),
    In th (st_threads (run tb (init jobs) sched)) -> In jr (th_done th) ->
    ~ job_bad tb (fst (fst jr)) (snd (fst jr)) ->
    exists kinds, snd jr = ROk (ref tb (snd (fst jr)) (fst (fst jr))) kinds.
Proof. exact good_jobs_return_reference. Qed.
Print Assumptions C17_calls_without_unsupported_types_return_reference.

(* ------------------------------------------------------------------------- *)
(* Non-vacuity *)

(* A supported table with a recursive type (0 = struct {1; *0}, 2 = *0), three
   threads, a schedule that interleaves them: everybody finishes with the
   reference trace, threads 0 and 1 were handed the placeholder of thread 2's
   cell 0, and the log contains their reads of its variable (written by
   thread 2). *)
Definition c17_ex_table : ttable := [(0, TNode [1; 2]); (1, TLeaf); (2, TNode [0])].
Definition c17_ex_val : val := V [(SKid 0%nat, V []); (SKid 1%nat, V [(SKid 0%nat, V [(SKid 0%nat, V [])])])].
Definition c17_ex_sched : list nat :=
  concat (repeat [0; 1; 2; 1; 0; 2; 2]%nat 40).

Example C17_example_supported : supported c17_ex_table.
Proof. apply supported_check. reflexivity. Qed.

Example C17_example_run :
  let s := run c17_ex_table (init [[(0, c17_ex_val)]; [(0, c17_ex_val); (2, V [])]; [(0, c17_ex_val)]]) c17_ex_sched in
  stuck c17_ex_table s = true /\ all_finished s = true /\
  map (fun th => map snd (th_done th)) (st_threads s) =
    [[ROk [0; 1; 2; 0; 1] [true]];
     [ROk [0; 1; 2; 0; 1] [true]; ROk [2] [false]];
     [ROk [0; 1; 2; 0; 1] [false]]] /\
  existsb (fun e => match e with (1%nat, ERead 0%nat) => true | _ => false end) (st_log s) = true.
Proof. vm_compute. repeat split; reflexivity. Qed.

Example C17_example_reference : ref c17_ex_table c17_ex_val 0 = [0; 1; 2; 0; 1].
Proof. reflexivity. Qed.

(* The former defect: the same failing call twice on one session, and two
   threads racing on an unsupported type.  Everybody returns (an error); in the
   race, thread 1 was handed thread 0's placeholder and got the error through
   the variable written on the failure path (its read is in the log). *)
Example C17_example_failed_generation_releases_waiters :
  let s1 := run [(0, TBad)] (init [[(0, V []); (0, V [])]]) (repeat 0%nat 40) in
  let s2 := run [(0, TBad)] (init [[(0, V [])]; [(0, V [])]]) ([0; 0; 0; 0; 0; 1; 1; 1] ++ repeat 0%nat 10 ++ repeat 1%nat 10)%nat in
  all_finished s1 = true /\ map (fun th => map snd (th_done th)) (st_threads s1) = [[RPanic; RPanic]] /\
  all_finished s2 = true /\ map (fun th => map snd (th_done th)) (st_threads s2) = [[RPanic]; [RPanic]] /\
  existsb (fun e => match e with (1%nat, ERead 0%nat) => true | _ => false end) (st_log s2) = true.
Proof. vm_compute. repeat split; reflexivity. Qed.

(* non-vacuity of [job_bad] and its negation *)
Example C17_example_job_bad : job_bad c17_rec_table 2 (V []).
Proof.
  left. apply (gb_kid _ 2 3); [left; reflexivity|]. apply (gb_kid _ 3 0); [left; reflexivity|].
  apply (gb_kid _ 0 4); [right; left; reflexivity|]. apply gb_here. reflexivity.
Qed.

Example C17_example_job_good : ~ job_bad c17_ex_table 0 c17_ex_val.
Proof. apply supported_no_job_bad, C17_example_supported. Qed.
