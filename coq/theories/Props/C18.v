(* C18 — Marshaling never modifies the value being marshaled.
   Only theorem statements here; each is closed by a lemma from Proofs/.

   Model (Model/Immut.v): the caller's big.Int is a cell holding an integer;
   [on_bigint e z] = (bytes written, final cell content) for Encoder.OnBigInt of
   the CBE encoder (cbe/encoder.go:155) and for the CTE encoder.  [run e h vs]
   marshals a value whose big numbers are the cells of heap [h], reached in the
   order [vs] either through a pointer ([ByPtr i], iteratePBigInt: the handler
   gets the caller's pointer; the same cell may be reached any number of times)
   or held by value ([ByVal i], iterateBigInt: the handler gets a private copy);
   big.Float and apd.Decimal cells ([CRead]) are only read by both encoders.

   History: before /repo commit d70a630 the CBE handler negated the caller's
   big.Int in place while choosing a width and returned early for
   -2^64 < z < -2^63 ([in_neg_window]), leaving such a cell negated (witness
   z = -(2^63+1): cell left at 2^63+1; a pointer shared between two places was
   then written 6f.. the first time and 6e.., the opposite sign, the second
   time).  The earlier version of this file stated the property as a
   definition, refuted it on that witness and proved it outside the window.
   The handler now negates a fresh copy; the full property is a theorem, and
   the harness keeps the witnesses (-(2^63+1), -(2^64-1) by pointer, the shared
   pointer written twice) in its boundary set. *)
From CE Require Import Model.Immut Proofs.ImmutProofs.
Open Scope N_scope.

(* ---- the full property ---------------------------------------------- *)

(* Whatever the big numbers of the value hold, however many there are, however
   they are reached (pointer, value, shared pointers, any order, any number of
   visits) and whichever encoder is used: after marshaling every cell holds what
   it held before. *)
Theorem C18_full :
  forall (e : encoder) (h : list cell) (vs : list visit), snd (run e h vs) = h.
Proof. exact run_unchanged. Qed.
Print Assumptions C18_full.

(* ---- one cell -------------------------------------------------------- *)

(* bigint_unchanged: the handler of either encoder returns the caller's big.Int
   with the content it received, for every integer. *)
Theorem C18_bigint_unchanged :
  forall (e : encoder) (z : Z), snd (on_bigint e z) = z.
Proof. exact on_bigint_unchanged. Qed.
Print Assumptions C18_bigint_unchanged.

(* One visit, by pointer or by value, leaves the heap as it was. *)
Theorem C18_visit_unchanged :
  forall (e : encoder) (h : list cell) (v : visit), snd (visit_cell e h v) = h.
Proof. exact visit_cell_unchanged. Qed.
Print Assumptions C18_visit_unchanged.

(* ---- consequences for the bytes written ------------------------------ *)

(* No visit influences a later one: the bytes of a run are the bytes of each
   visit evaluated on the original heap. *)
Theorem C18_run_bytes :
  forall (e : encoder) (h : list cell) (vs : list visit),
    fst (run e h vs) = flat_map (fun v => fst (visit_cell e h v)) vs.
Proof. exact run_bytes. Qed.
Print Assumptions C18_run_bytes.

(* A pointer shared between two places of the value is written identically
   both times. *)
Theorem C18_shared_pointer_written_twice :
  forall (e : encoder) (h : list cell) (i : nat),
    fst (run e h [ByPtr i; ByPtr i])
    = fst (visit_cell e h (ByPtr i)) ++ fst (visit_cell e h (ByPtr i)).
Proof. exact run_shared_twice. Qed.
Print Assumptions C18_shared_pointer_written_twice.

(* Reaching a cell through a pointer or by value writes the same bytes. *)
Theorem C18_pointer_and_value_write_the_same :
  forall (e : encoder) (h : list cell) (i : nat),
    fst (visit_cell e h (ByPtr i)) = fst (visit_cell e h (ByVal i)).
Proof. exact visit_bytes_ptr_val. Qed.
Print Assumptions C18_pointer_and_value_write_the_same.

(* The repaired path: for -2^64 < z < -2^63 the CBE handler writes the 64-bit
   negative integer form of |z| (and, by C18_bigint_unchanged, leaves z alone). *)
Theorem C18_cbe_window_bytes :
  forall z : Z,
    (- two64z < z < - two63z)%Z ->
    fst (on_bigint CBE z) = cbeTypeNegInt64 :: le_encode 8 (Z.to_N (- z)).
Proof. exact cbe_window_bytes. Qed.
Print Assumptions C18_cbe_window_bytes.

(* ---- non-vacuity ------------------------------------------------------ *)

Example C18_constants : two63z = (2 ^ 63)%Z /\ two64z = (2 ^ 64)%Z.
Proof. vm_compute. split; reflexivity. Qed.

(* the window of C18_cbe_window_bytes is not empty; its neighbours are outside *)
Example C18_window :
  in_neg_window (- two63z - 1)%Z = true /\ in_neg_window (- two64z + 1)%Z = true /\
  in_neg_window (- two63z)%Z = false /\ in_neg_window (- two64z)%Z = false /\
  in_neg_window (two63z + 1)%Z = false.
Proof. vm_compute. repeat split. Qed.

(* the witnesses of the repaired defect, evaluated on the model of the current
   code: cells unchanged, shared pointer written 6f.. both times *)
Example C18_repaired_witnesses :
  on_bigint CBE (- two63z - 1)%Z = ([111; 1; 0; 0; 0; 0; 0; 0; 128], (- two63z - 1)%Z) /\
  on_bigint CBE (- two64z + 1)%Z = ([111; 255; 255; 255; 255; 255; 255; 255; 255], (- two64z + 1)%Z) /\
  run CBE [CInt (- two63z - 1)%Z] [ByPtr 0; ByPtr 0]%nat
  = ([111; 1; 0; 0; 0; 0; 0; 0; 128; 111; 1; 0; 0; 0; 0; 0; 0; 128], [CInt (- two63z - 1)%Z]).
Proof. vm_compute. repeat split. Qed.

(* a run over a mixed heap with sharing, by-value visits and an out-of-range
   index writes something and changes nothing *)
Example C18_mixed_run :
  let h := [CInt (- two64z)%Z; CInt (- two63z - 1)%Z; CRead 7; CInt 5%Z] in
  let vs := [ByPtr 1; ByPtr 0; ByVal 1; ByPtr 2; ByPtr 1; ByVal 3; ByPtr 9]%nat in
  snd (run CBE h vs) = h /\ snd (run CTE h vs) = h /\
  fst (run CBE h vs) <> [] /\ fst (run CTE h vs) <> fst (run CBE h vs).
Proof. vm_compute. repeat split; discriminate. Qed.
