(* C12 — Duplicate map keys are rejected whatever encoding they use. *)
From CE Require Import Model.Rules Proofs.RulesKeys.
Open Scope N_scope.

(* NotifyKey's normalisation identifies two keys exactly when they denote the same value
   ([key_den]: kind + mathematical value; small / wide / negative-integer / big-integer forms of one
   integer coincide, negative zero is its own value, a string, a resource id and a time with the same
   text are different values). *)
Theorem C12_key_normalisation_sound_complete :
  forall k1 k2, rawkey_wf k1 -> rawkey_wf k2 ->
    (norm_key k1 = norm_key k2 <-> key_den k1 = key_den k2).
Proof. exact norm_key_sound_complete. Qed.
Print Assumptions C12_key_normalisation_sound_complete.

(* Hence, in a container whose key set holds the keys notified so far, a new key is rejected exactly
   when one of them denotes the same value, and is otherwise added. *)
Theorem C12_notify_key_rejects_exactly_duplicates :
  forall k ks c, rawkey_wf k -> Forall rawkey_wf ks -> e_keys (cur c) = map norm_key ks ->
    (notify_key k c = None <-> exists k', In k' ks /\ key_den k' = key_den k) /\
    (forall c', notify_key k c = Some c' -> e_keys (cur c') = map norm_key (k :: ks)).
Proof. exact notify_key_spec. Qed.
Print Assumptions C12_notify_key_rejects_exactly_duplicates.

(* Non-vacuity and end-to-end examples on the whole validator: -5 as a negative-integer event and as a
   signed event collide; 5 and -5 do not; a time and a string with the same text do not. *)
Example C12_example_collide :
  rejected_at default_rcfg [EBeginDoc; EVersion 0; EMap; ENegInt 5; ENull; EInt (-5)%Z; ENull; EEnd; EEndDoc] = Some 5.
Proof. vm_compute. reflexivity. Qed.
Example C12_example_distinct :
  accepts_document default_rcfg
    [EBeginDoc; EVersion 0; EMap; EPosInt 5; ENull; EInt (-5)%Z; ENull; ETime [50;48]; ENull;
     EStringArray AT_String [50;48]; ENull; EStringArray AT_ResourceID [50;48]; ENull; ENegInt 0; ENull; EPosInt 0; ENull; EEnd; EEndDoc] = true.
Proof. vm_compute. reflexivity. Qed.
