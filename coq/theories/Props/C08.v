(* C08 — Decoding cost is bounded by document size and configured limits.
   Only theorem statements here; each is closed by a lemma from Proofs/CostProofs.v.

   The statements are about the cost model CE.Model.Cost (CBE decoder + the
   validator's array accounting), tied to /repo by the correspondence run of the
   check (error-or-not, len(Reader.buffer), Reader.bytesRead, events delivered:
   exact; runtime.MemStats.TotalAlloc: bracketed; process deaths: explained).

   Quantification: every configuration [cfg] (validator present or not,
   MaxArraySizeBytes, MaxDocumentSizeBytes), every external time decoder [ext],
   every refusal point [stop] of whatever sits behind the decoder, every
   document [d] (any byte list, any length).

   Named gap: the Go allocator / GC and the CTE front end (ANTLR) are not
   modelled; CTE cost is measured only. *)
From Coq Require Import List NArith.
From CE Require Import Model.Cost Proofs.CostProofs.
Import ListNotations.
Open Scope N_scope.

(* ------------------------------------------------------------------ *)
(* The full property (FALSE on the current code)                        *)
(* ------------------------------------------------------------------ *)

(* "The memory a decoder allocates for a document is at most a fixed multiple of
   the document's length plus the configured maximum array size" — with the
   constants of the search oracle (64 bytes per byte, 1 MiB). *)
Definition C08_full : Prop :=
  forall cfg ext stop d,
    alloc cfg ext stop d <= 64 * N.of_nat (length d) + 2 * max_array cfg + 1048576.

(* Defect class 1 (reader): without a validator nothing compares an announced
   chunk length with anything: an 8-byte document makes the reader allocate 2 GiB. *)
Theorem C08_full_refuted_chunk_without_validator :
  exists cfg ext stop d, rules_on cfg = false /\
    ~ alloc cfg ext stop d <= 64 * N.of_nat (length d) + 2 * max_array cfg + 1048576.
Proof. exact alloc_refuted_bare. Qed.
Print Assumptions C08_full_refuted_chunk_without_validator.

(* Defect class 2 (media type): with a validator and a 1 MiB limit, a 9-byte
   document makes the reader allocate 1 GiB for the media-type string. *)
Theorem C08_full_refuted_media_type :
  exists cfg ext stop d, rules_on cfg = true /\ 0 < max_array cfg /\
    ~ alloc cfg ext stop d <= 64 * N.of_nat (length d) + 2 * max_array cfg + 1048576.
Proof. exact alloc_refuted_media. Qed.
Print Assumptions C08_full_refuted_media_type.

(* ... and under the library's default configuration (1 GiB) a 9-byte document asks for 8 GiB. *)
Theorem C08_full_refuted_media_type_default_config :
  ~ alloc (default_ccfg true) no_ext None [129; 0; 127; 243; 255; 255; 255; 255; 15]
    <= 64 * 9 + 2 * max_array (default_ccfg true) + 1048576.
Proof. exact alloc_refuted_media_default. Qed.
Print Assumptions C08_full_refuted_media_type_default_config.

(* ------------------------------------------------------------------ *)
(* What holds for every document                                        *)
(* ------------------------------------------------------------------ *)

(* Reader + validator allocation is at most 12 bytes per document byte plus
   twice the ONE announced length (if any) that the input could not satisfy. *)
Theorem C08_alloc_general :
  forall cfg ext stop d,
    alloc cfg ext stop d <= 12 * N.of_nat (length d) + 2 * o_over (run cfg ext stop d).
Proof. exact alloc_general. Qed.
Print Assumptions C08_alloc_general.

(* How large that announced length can be, by the field that carried it. *)
Theorem C08_overrun_by_field :
  forall cfg ext stop d,
    let o := run cfg ext stop d in
    match o_kind o with
    | RNone => o_over o = 0
    | RFixed => o_over o <= 240
    | RUint => o_over o <= 1024
    | RIdent => o_over o <= 100000
    | RMedia => o_over o <= 4294967295
    | RChunk => rules_on cfg = true -> 0 < max_array cfg -> max_array cfg < 9223372036854775808 ->
                o_over o <= max_array cfg
    end.
Proof. exact overrun_by_field. Qed.
Print Assumptions C08_overrun_by_field.

(* ------------------------------------------------------------------ *)
(* The property on the fragment that excludes exactly the defect classes *)
(* ------------------------------------------------------------------ *)

(* Validator in the pipeline, positive limit below 2^63.  Excluded: walks that
   end inside the media-type string (defect class 2). *)
Theorem C08_alloc_bound_partial :
  forall cfg ext stop d,
    rules_on cfg = true -> 0 < max_array cfg -> max_array cfg < 9223372036854775808 ->
    o_kind (run cfg ext stop d) <> RMedia ->
    alloc cfg ext stop d <= 12 * N.of_nat (length d) + 2 * max_array cfg + 200000.
Proof. exact alloc_bound_rules. Qed.
Print Assumptions C08_alloc_bound_partial.

(* Any pipeline (bare decoder included).  Excluded: walks that end inside the
   media-type string (class 2) or inside an array chunk (class 1). *)
Theorem C08_alloc_bound_bare_partial :
  forall cfg ext stop d,
    o_kind (run cfg ext stop d) <> RMedia -> o_kind (run cfg ext stop d) <> RChunk ->
    alloc cfg ext stop d <= 12 * N.of_nat (length d) + 200000.
Proof. exact alloc_bound_bare. Qed.
Print Assumptions C08_alloc_bound_bare_partial.

(* Documents the decoder accepts never cost more than 12 bytes per byte. *)
Theorem C08_alloc_bound_accepted :
  forall cfg ext stop d,
    o_why (run cfg ext stop d) = None -> alloc cfg ext stop d <= 12 * N.of_nat (length d).
Proof. exact alloc_bound_accepted. Qed.
Print Assumptions C08_alloc_bound_accepted.

(* ------------------------------------------------------------------ *)
(* Time                                                                 *)
(* ------------------------------------------------------------------ *)

(* The decoder's own work (bytes pulled + events delivered + bytes copied by the
   validator) is linear in the document, for every document. *)
Theorem C08_steps_linear :
  forall cfg ext stop d, steps cfg ext stop d <= 13 * N.of_nat (length d) + 1.
Proof. exact steps_linear. Qed.
Print Assumptions C08_steps_linear.

(* Counting the zero-filling of allocated buffers as well, time inherits the
   allocation bound (and its defect). *)
Theorem C08_time_general :
  forall cfg ext stop d,
    time cfg ext stop d <= 25 * N.of_nat (length d) + 1 + 2 * o_over (run cfg ext stop d).
Proof. exact time_general. Qed.
Print Assumptions C08_time_general.

(* ------------------------------------------------------------------ *)
(* Non-vacuity                                                          *)
(* ------------------------------------------------------------------ *)

(* hypotheses of C08_alloc_bound_partial on a document that really overruns: a
   4000-byte chunk announced under a 4 KiB limit and absent *)
Example C08_partial_example :
  let cfg := {| rules_on := true; max_array := 4096; max_doc := cbeDefaultMaxDocumentSizeBytes |} in
  let d := [129; 0; 154; 147; 192; 62; 97] in
  rules_on cfg = true /\ 0 < max_array cfg /\ max_array cfg < 9223372036854775808 /\
  o_kind (run cfg no_ext None d) = RChunk /\ o_over (run cfg no_ext None d) = 4000 /\
  alloc cfg no_ext None d = 8000.
Proof. vm_compute. repeat split; reflexivity. Qed.

(* an accepted document attaining the reader's factor 2 (300-byte string: 600-byte buffer + the validator's 300) *)
Example C08_accepted_example :
  let cfg := {| rules_on := true; max_array := 4096; max_doc := cbeDefaultMaxDocumentSizeBytes |} in
  let d := [129; 0; 144; 216; 4] ++ nrep 97 300 in
  o_why (run cfg no_ext None d) = None /\ alloc cfg no_ext None d = 900 /\ steps cfg no_ext None d = 611.
Proof. vm_compute. repeat split; reflexivity. Qed.

(* the witnesses of the refutations, evaluated *)
Example C08_witness_values :
  alloc {| rules_on := false; max_array := 1048576; max_doc := cbeDefaultMaxDocumentSizeBytes |} no_ext None
        [129; 0; 147; 128; 128; 128; 128; 8] = 2147483648 /\
  alloc {| rules_on := true; max_array := 1048576; max_doc := cbeDefaultMaxDocumentSizeBytes |} no_ext None
        [129; 0; 127; 243; 128; 128; 128; 128; 2] = 1073741824.
Proof. vm_compute. split; reflexivity. Qed.
