(* C08 — Decoding cost is bounded by document size and configured limits.
   Only theorem statements here; each is closed by a lemma from Proofs/CostProofs.v.

   The statements are about the cost model CE.Model.Cost (CBE decoder with the
   repaired reader of /repo commit 8884bbf, which fills its buffer as data
   arrives and doubles it only when full, + the validator's array accounting),
   tied to /repo by the correspondence run of the check (error-or-not,
   len(Reader.buffer), Reader.bytesRead, events delivered: exact;
   runtime.MemStats.TotalAlloc: bracketed; process deaths: must be explained).

   Quantification: every configuration [cfg] (validator present or not, any
   MaxArraySizeBytes incl. 0 = unlimited, any MaxDocumentSizeBytes), every
   external time decoder [ext], every refusal point [stop] of whatever sits
   behind the decoder, every document [d] (any byte list, any length).

   History: on the reader that allocated twice the ANNOUNCED length before
   reading, C08_full was false (an 8-byte document announcing a 2^30-byte chunk
   without a validator: 2 GiB; a 9-byte document announcing a 2^29-byte media
   type with one: 1 GiB).  Those documents are pinned in the harness (c08.go,
   c08PinnedWitnesses) and evaluated below on the current model.

   Named gap: the Go allocator / GC and the CTE front end (ANTLR) are not
   modelled.  Of the CTE decoder only the listener's accumulation of a
   string-like value is (C08_cte_accumulation_linear below); the CTE decoder as
   a whole is held to a measured bound by the harness (c08.go, stage (f):
   2048*len + 2*MaxArraySizeBytes + 4 MiB, and no growth of the allocation per
   document byte within a family). *)
From Coq Require Import List NArith.
From CE Require Import Model.Cost Proofs.CostProofs.
Import ListNotations.
Open Scope N_scope.

(* ------------------------------------------------------------------ *)
(* The property                                                         *)
(* ------------------------------------------------------------------ *)

(* "The memory a decoder allocates for a document is at most a fixed multiple of
   the document's length plus the configured maximum array size" — with the
   constants of the search oracle (64 bytes per byte, 1 MiB). *)
Definition C08_full : Prop :=
  forall cfg ext stop d,
    alloc cfg ext stop d <= 64 * N.of_nat (length d) + 2 * max_array cfg + 1048576.

Theorem C08_full_holds : C08_full.
Proof. exact alloc_full. Qed.
Print Assumptions C08_full_holds.

(* What is actually true is stronger: 14 bytes per document byte, no additive
   constant and no MaxArraySizeBytes term (the validator's builtArrayBuffer only
   ever holds bytes that were read, so the limit is not needed for the bound). *)
Theorem C08_alloc_bound :
  forall cfg ext stop d, alloc cfg ext stop d <= 14 * N.of_nat (length d).
Proof. exact alloc_bound. Qed.
Print Assumptions C08_alloc_bound.

(* The bare decoder (no validator): 4 bytes per document byte. *)
Theorem C08_alloc_bound_bare :
  forall cfg ext stop d, rules_on cfg = false -> alloc cfg ext stop d <= 4 * N.of_nat (length d).
Proof. exact alloc_bound_bare. Qed.
Print Assumptions C08_alloc_bound_bare.

(* Reader buffers and the validator's buffer separately. *)
Theorem C08_reader_alloc_bound :
  forall cfg ext stop d, al (o_st (run cfg ext stop d)) <= 4 * N.of_nat (length d).
Proof. exact reader_alloc_bound. Qed.
Print Assumptions C08_reader_alloc_bound.

Theorem C08_validator_alloc_bound :
  forall cfg ext stop d, val (o_st (run cfg ext stop d)) <= 10 * N.of_nat (length d).
Proof. exact validator_alloc_bound. Qed.
Print Assumptions C08_validator_alloc_bound.

(* The buffer a decoder keeps after a document: its start size, or at most twice the document. *)
Theorem C08_retained_buffer_bound :
  forall cfg ext stop d,
    buf (o_st (run cfg ext stop d)) <= N.max cbeDecoderStartBufferSize (2 * N.of_nat (length d)).
Proof. exact reader_buffer_bound. Qed.
Print Assumptions C08_retained_buffer_bound.

(* ------------------------------------------------------------------ *)
(* Time                                                                 *)
(* ------------------------------------------------------------------ *)

(* The decoder's own work (bytes pulled + events delivered + bytes copied by
   growBuffer + bytes copied by the validator) is linear in the document. *)
Theorem C08_steps_linear :
  forall cfg ext stop d, steps cfg ext stop d <= 17 * N.of_nat (length d) + 1.
Proof. exact steps_linear. Qed.
Print Assumptions C08_steps_linear.

(* Every event delivered is paid for by a byte of the document. *)
Theorem C08_events_le_bytes :
  forall cfg ext stop d,
    nev (o_st (run cfg ext stop d)) <= nread (o_st (run cfg ext stop d)) + 1.
Proof. exact events_le_bytes. Qed.
Print Assumptions C08_events_le_bytes.

(* Counting the zero-filling of allocated buffers as well. *)
Theorem C08_time_linear :
  forall cfg ext stop d, time cfg ext stop d <= 31 * N.of_nat (length d) + 1.
Proof. exact time_linear. Qed.
Print Assumptions C08_time_linear.

(* ------------------------------------------------------------------ *)
(* CTE: accumulation of a string-like value                             *)
(* ------------------------------------------------------------------ *)

(* Whatever the mix of plain characters, escape characters, code point escapes and
   continuations in the body of a string-like value (string, resource ID, remote
   reference, custom text, media text), the buffers the CTE listener allocates while
   accumulating the value are at most 10 bytes per byte of the value (+ 320), the
   value is at most 4 bytes per code point of its spelling, and the bytes it copies
   are paid for by the bytes it allocated: linear in the document.  (A listener that
   re-allocated the whole value at every escape would break the correspondence case
   CteStrRun of the check, whose upper bracket is [c_al] + slack.) *)
Theorem C08_cte_accumulation_linear :
  forall body s, cte_string body = Some s ->
    c_al s <= 10 * c_len s + 320 /\
    c_len s <= 4 * N.of_nat (length body) /\
    c_work s <= c_al s + c_len s.
Proof. exact cte_accumulation_linear. Qed.
Print Assumptions C08_cte_accumulation_linear.

(* ------------------------------------------------------------------ *)
(* Non-vacuity and the former witnesses                                 *)
(* ------------------------------------------------------------------ *)

(* the documents that used to cost 2 GiB / 1 GiB / 8 GiB now cost nothing and end in an error *)
Example C08_former_witnesses :
  alloc {| rules_on := false; max_array := 1048576; max_doc := cbeDefaultMaxDocumentSizeBytes |} no_ext None
        [129; 0; 147; 128; 128; 128; 128; 8] = 0 /\
  alloc {| rules_on := true; max_array := 1048576; max_doc := cbeDefaultMaxDocumentSizeBytes |} no_ext None
        [129; 0; 127; 243; 128; 128; 128; 128; 2] = 0 /\
  alloc (default_ccfg true) no_ext None [129; 0; 127; 243; 255; 255; 255; 255; 15] = 0 /\
  o_why (run {| rules_on := false; max_array := 1048576; max_doc := cbeDefaultMaxDocumentSizeBytes |} no_ext None
             [129; 0; 147; 128; 128; 128; 128; 8]) = Some WShort.
Proof. vm_compute. repeat split; reflexivity. Qed.

(* the bound is not slack by much: an accepted 1005-byte document (one 1000-byte string) makes the
   reader allocate 254 + 508 + 1016 = 1778 bytes and the validator 1000 *)
Example C08_accepted_example :
  let cfg := {| rules_on := true; max_array := 1048576; max_doc := cbeDefaultMaxDocumentSizeBytes |} in
  let d := [129; 0; 144; 208; 15] ++ nrep 97 1000 in
  o_why (run cfg no_ext None d) = None /\
  al (o_st (run cfg no_ext None d)) = 1778 /\ buf (o_st (run cfg no_ext None d)) = 1016 /\
  alloc cfg no_ext None d = 2778 /\ steps cfg no_ext None d = 2900.
Proof. vm_compute. repeat split; reflexivity. Qed.

(* the hypothesis of C08_cte_accumulation_linear is satisfiable: `abcdefgh\n` 1000 times *)
Example C08_cte_escape_heavy_example :
  cte_string (lrep [97; 98; 99; 100; 101; 102; 103; 104; 92; 110] 1000 ++ [34])
  = Some {| c_len := 9000; c_cap := 15550; c_al := 45982; c_work := 39432 |}.
Proof. vm_compute. reflexivity. Qed.

(* since /repo 9d7e9c8 a code point escape naming a surrogate or a value beyond U+10FFFF
   ends the decode in an error (model: None) instead of being appended as U+FFFD;
   the same body with a valid scalar value is accepted *)
Example C08_cte_invalid_codepoint_escapes_rejected :
  cte_string [97; 92; 91; 100; 56; 48; 48; 93; 34] = None /\              (* a\[d800] and the closing quote *)
  cte_string [97; 92; 91; 49; 49; 48; 48; 48; 48; 93; 34] = None /\      (* a\[110000] *)
  cte_string [97; 92; 91; 49; 48; 102; 102; 102; 102; 93; 34]             (* a\[10ffff] *)
  = Some {| c_len := 5; c_cap := 5; c_al := 6; c_work := 6 |}.
Proof. vm_compute. repeat split; reflexivity. Qed.
