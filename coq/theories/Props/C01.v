(* C01 — CBE encode/decode preserves every rules-valid event stream.
   Only theorem statements here; each is closed by a lemma from Proofs/CbeRoundtrip.v.
   Vocabulary: Model/Cbe.v (cbe_encode / cbe_decode, tied to the implementation by the
   cbe_enc_case / cbe_dec_case families of `vh run C01` and `vh run C22`), Model/Denote.v (den, the
   meaning of "the same data"; tied to den.go by den_case), Model/Rules.v (accepts_document).
   [document v body] is EBeginDoc :: EVersion v :: body ++ [EEndDoc]. *)
From CE Require Import Model.Cbe Model.Denote Proofs.CbeProofs Proofs.CbeRoundtrip.
From CE Require Model.Rules.
Open Scope N_scope.

(* 1. Data round trip on the fragment [c01_body body nbody] (CbeRoundtrip section 6; nbody is what
   the decoder reports): every scalar kind except times and big floats that are not exactly a float64 (integers
   of all four event forms and any size up to 1024 bytes, all float bit patterns, big floats that
   are exactly a non-zero float64 - given with an odd mantissa, as the harness prints them -,
   decimal floats, big decimals, NaN, UID), booleans / null / containers / padding / comments, markers, references, records and
   record types, whole and string-like arrays of the sixteen array types, media and custom binary —
   and arrays, media and custom binary through begin / chunk / data with ANY chunking and any split
   of the data over data events.  The document decodes, to exactly [document 0 nbody], and that
   stream denotes the same data minus the comments. *)
Theorem C01_den_roundtrip :
  forall cfg body nbody doc,
  c01_body body nbody ->
  cbe_encode (document 0 body) = Some doc ->
  len doc <= max_doc_size cfg ->
  cbe_decode cfg doc = (document 0 nbody, DOk) /\
  den (document 0 nbody) = no_comments (den (document 0 body)).
Proof. exact c01_den_roundtrip. Qed.
Print Assumptions C01_den_roundtrip.

(* The same with a decidable hypothesis: [c01_doc_norm es] computes the decoder's report when the
   stream lies in the fragment (evaluated on generated streams by the correspondence stage). *)
Theorem C01_den_roundtrip_checked :
  forall cfg es es' doc,
  c01_doc_norm es = Some es' -> cbe_encode es = Some doc -> len doc <= max_doc_size cfg ->
  cbe_decode cfg doc = (es', DOk) /\ den es' = no_comments (den es).
Proof. exact c01_den_roundtrip_checked. Qed.
Print Assumptions C01_den_roundtrip_checked.

(* 2. The full conclusion — decodes, is again accepted by the validator, same data — on the
   sub-fragment [c01r_body] where the validator provably moves through the same contexts on the
   decoded stream: as above, minus zeros written as floats or decimals (they come back as integers),
   whole arrays that need the regular header, string-like / media / custom events in one call, and
   chunked arrays short enough for the short form (all of which the decoder reports through the other
   array API).  Chunked arrays, media and custom binary whose chunks arrive in ANY number of data
   events are covered (the decoder reports one data event per non-empty chunk; by
   RulesArrayProofs the validator's contexts do not depend on how a chunk's bytes are cut),
   provided the byte total of the array stays below 2^64. *)
Theorem C01_roundtrip_rules :
  forall rcfg cfg body nbody doc,
  RulesPart.c01r_body body nbody ->
  Rules.accepts_document rcfg (document 0 body) = true ->
  cbe_encode (document 0 body) = Some doc ->
  len doc <= max_doc_size cfg ->
  cbe_decode cfg doc = (document 0 nbody, DOk) /\
  Rules.accepts_document rcfg (document 0 nbody) = true /\
  den (document 0 nbody) = no_comments (den (document 0 body)).
Proof. exact RulesPart.c01_roundtrip_rules. Qed.
Print Assumptions C01_roundtrip_rules.

Theorem C01_roundtrip_rules_checked :
  forall rcfg cfg es es' doc,
  RulesPart.c01r_doc_norm es = Some es' -> Rules.accepts_document rcfg es = true ->
  cbe_encode es = Some doc -> len doc <= max_doc_size cfg ->
  cbe_decode cfg doc = (es', DOk) /\ Rules.accepts_document rcfg es' = true /\ den es' = no_comments (den es).
Proof. exact RulesPart.c01_roundtrip_rules_checked. Qed.
Print Assumptions C01_roundtrip_rules_checked.

(* The validator's verdict does not depend on which integer event form carries a value: the
   decoder's form of an integer event moves the validator to the same context. *)
Theorem C01_integer_forms_validate_alike :
  forall cfg c e neg m,
  int_event_value e = Some (neg, m) ->
  RulesPart.step_ctx cfg c e = RulesPart.step_ctx cfg c (norm_signed neg m).
Proof. exact RulesPart.int_step. Qed.
Print Assumptions C01_integer_forms_validate_alike.

(* 3. The property as stated is false on the current code (witness: the MinInt32 big-decimal exponent below). *)
Theorem C01_full_refuted : ~ RulesPart.C01_full.
Proof. exact RulesPart.C01_full_refuted. Qed.
Print Assumptions C01_full_refuted.

(* Custom text is outside what CBE carries: both forms (one event, chunked API) are rules-valid and
   REFUSED by the encoder - an error, not a silent change of kind. *)
Theorem C01_custom_text_refused :
  Rules.accepts_document Rules.default_rcfg [EBeginDoc; EVersion 0; ECustomText 3 [97; 98]; EEndDoc] = true /\
  cbe_encode [EBeginDoc; EVersion 0; ECustomText 3 [97; 98]; EEndDoc] = None /\
  Rules.accepts_document Rules.default_rcfg chunked_custom_text_doc = true /\
  cbe_encode chunked_custom_text_doc = None.
Proof. exact RulesPart.custom_text_valid_but_refused. Qed.
Print Assumptions C01_custom_text_refused.

(* a big decimal with exponent MinInt32 is rules-valid and written as a document the decoder rejects *)
Theorem C01_refuted_bigdecimal_expmin :
  Rules.accepts_document Rules.default_rcfg bigdecimal_expmin_doc = true /\
  exists doc, cbe_encode bigdecimal_expmin_doc = Some doc /\ snd (cbe_decode default_dcfg doc) = DErr.
Proof. exact RulesPart.bigdecimal_expmin_valid_but_lost. Qed.
Print Assumptions C01_refuted_bigdecimal_expmin.

(* Non-vacuity: a 70-event rules-valid document with nested containers, a chunked UTF-8 string
   whose character is split over two data events, 2^48, -0, a signalling NaN, a marker and a
   reference lies in the fragment of theorem 1; a similar one in the sub-fragment of theorem 2. *)
Example C01_example :
  Rules.accepts_document Rules.default_rcfg c01_example = true /\
  exists es', c01_doc_norm c01_example = Some es' /\ events_eqb es' c01_example = false /\ (50 < length es')%nat.
Proof. split; [exact RulesPart.c01_example_valid | exact c01_example_covered]. Qed.

Example C01_example_rules :
  Rules.accepts_document Rules.default_rcfg RulesPart.c01r_example = true /\
  exists es', RulesPart.c01r_doc_norm RulesPart.c01r_example = Some es' /\ events_eqb es' RulesPart.c01r_example = false.
Proof. exact RulesPart.c01r_example_covered. Qed.

(* ------------------------------------------------------------------ *)
(* 4. Times.  Model/Cbe.v stops at the three time type codes; the bit-packed layout (cbe/encoder.go
   OnTime, cbe/decoder_reader.go ReadDate / ReadTime / ReadTimestamp / validateTime over the
   dependency go-compact-time) is Model/CbeTime.v, tied to the implementation by the cbetime_case
   family of `vh run C01` (c01_time.go).  A time is the Go struct field by field ([CbeTime.gtime]);
   [CbeTime.time_ok t]: not the zero value, accepted by validateTime (Time.Validate and the
   area/location character class), the year inside the window  -2147481648 .. 2147485647  that
   survives int32(year) - 2000, and a zone the library's constructors build (short and long area name
   belong together, at most 127 bytes).  [CbeTime.canon t] is t rebuilt by the library's constructors:
   fields the kind does not use are zero, a date carries the bare Local zone of InitDate, a UTC zone
   is the library's UTC value whatever alias it was made from (TZAtAreaLocation("Etc/GMT") is written
   as plain UTC), unused zone fields are zero/empty, a UTC offset of 0 minutes is UTC.  canon t = t for
   every value made by NewDate / NewTime / NewTimestamp with a zone from TZAtUTC / TZLocal /
   TZAtAreaLocation (not an alias of UTC) / TZAtLatLong / TZWithMiutesOffsetFromUTC. *)
From CE Require Model.CbeTime Proofs.CbeTimeProofs.

(* for ALL times in the domain, followed by anything: the decoder returns the time and stops exactly
   where the encoding ends *)
Theorem C01_time_roundtrip :
  forall t rest, CbeTime.time_ok t = true ->
  CbeTime.cbe_decode_time (CbeTime.cbe_encode_time t ++ rest) = Some (CbeTime.canon t, rest).
Proof. exact CbeTimeProofs.cbe_time_roundtrip. Qed.
Print Assumptions C01_time_roundtrip.

Theorem C01_time_consumed_length :
  forall t rest, CbeTime.time_ok t = true ->
  CbeTime.decode_obs (CbeTime.cbe_encode_time t ++ rest)
  = Some (CbeTime.canon t, N.of_nat (length (CbeTime.cbe_encode_time t))).
Proof. exact CbeTimeProofs.cbe_time_consumed. Qed.
Print Assumptions C01_time_consumed_length.

(* prefix-freedom: encodings that start the same input encode the same time and end at the same byte *)
Theorem C01_time_prefix_free :
  forall t1 t2 r1 r2, CbeTime.time_ok t1 = true -> CbeTime.time_ok t2 = true ->
  CbeTime.cbe_encode_time t1 ++ r1 = CbeTime.cbe_encode_time t2 ++ r2 ->
  CbeTime.canon t1 = CbeTime.canon t2 /\ r1 = r2 /\ CbeTime.cbe_encode_time t1 = CbeTime.cbe_encode_time t2.
Proof. exact CbeTimeProofs.cbe_time_prefix_free. Qed.
Print Assumptions C01_time_prefix_free.

(* for ANY bytes: what the decoder leaves is a suffix of its input *)
Theorem C01_time_decoder_leaves_suffix :
  forall b t r, CbeTime.cbe_decode_time b = Some (t, r) -> exists pre, b = pre ++ r.
Proof. exact CbeTimeProofs.cbe_decode_time_suffix. Qed.
Print Assumptions C01_time_decoder_leaves_suffix.

(* the converse, for ANY bytes: a non-zero time the decoder delivers (it passed validateTime) is in
   the domain above, so writing it and reading it again gives the same time *)
Theorem C01_time_decoded_is_in_domain :
  forall b t r, bytes_wf b -> CbeTime.cbe_decode_time b = Some (t, r) -> CbeTime.is_zero t = false ->
  CbeTime.time_ok t = true.
Proof. exact CbeTimeProofs.cbe_decode_time_ok. Qed.
Print Assumptions C01_time_decoded_is_in_domain.

Theorem C01_time_decoded_survives_reencoding :
  forall b t r r', bytes_wf b -> CbeTime.cbe_decode_time b = Some (t, r) -> CbeTime.is_zero t = false ->
  CbeTime.cbe_decode_time (CbeTime.cbe_encode_time t ++ r') = Some (CbeTime.canon t, r').
Proof. exact CbeTimeProofs.cbe_time_reencode. Qed.
Print Assumptions C01_time_decoded_survives_reencoding.

(* ... but NOT to the same bytes: the decoder accepts encodings the encoder never writes (upper year
   bits padded with empty ULEB128 groups, a larger sub-second magnitude than needed, UTC spelled as
   the area "Z" / as offset 0 / as an alias, the four ignored bits above a UTC offset, area names and
   "Local" written in full) — see the [noncanonical_*] examples in Proofs/CbeTimeProofs.v; relevant to C22 *)
Theorem C01_time_canonical_refuted : ~ CbeTimeProofs.cbe_time_canonical_full.
Proof. exact CbeTimeProofs.cbe_time_canonical_refuted. Qed.
Print Assumptions C01_time_canonical_refuted.

(* outside the guards the encoder still writes and the value changes silently *)
Theorem C01_time_unguarded_refuted : ~ CbeTimeProofs.cbe_time_roundtrip_unguarded.
Proof. exact CbeTimeProofs.cbe_time_roundtrip_unguarded_refuted. Qed.
Print Assumptions C01_time_unguarded_refuted.

(* the year guard: 2147485648-01-01 comes back as -2147481648-01-01 (open finding, dependency) *)
Theorem C01_time_year_window_refuted :
  CbeTimeProofs.silently_changed (CbeTime.new_date 2147485648 1 1) (CbeTime.new_date (-2147481648) 1 1).
Proof. exact CbeTimeProofs.year_above_window_refuted. Qed.
Print Assumptions C01_time_year_window_refuted.

(* the nanosecond guard: 2 * 10^9 ns is written as 2000 ms into a 10-bit field *)
Theorem C01_time_nanosecond_refuted :
  CbeTimeProofs.silently_changed (CbeTimeProofs.with_nano (CbeTime.new_time 1 2 3 0 CbeTime.tz_utc) 2000000000)
                                 (CbeTime.new_time 1 2 3 976000000 CbeTime.tz_utc).
Proof. exact CbeTimeProofs.nanosecond_overflow_refuted. Qed.
Print Assumptions C01_time_nanosecond_refuted.

(* a field wider than its bit field: hour 37 comes back as hour 5 *)
Theorem C01_time_field_width_refuted :
  CbeTimeProofs.silently_changed (CbeTime.new_time 37 0 0 0 CbeTime.tz_utc) (CbeTime.new_time 5 0 0 0 CbeTime.tz_utc).
Proof. exact CbeTimeProofs.hour_overflow_refuted. Qed.
Print Assumptions C01_time_field_width_refuted.

(* the zero value is written as null, and 2000-00-00 is read as the zero value *)
Theorem C01_time_zero_value_refuted :
  CbeTime.cbe_encode_time (CbeTime.zero_time CbeTime.KDate) = [Gen.CbeConsts.cbeTypeNull] /\
  CbeTime.cbe_encode_time (CbeTime.zero_time CbeTime.KTime) = [Gen.CbeConsts.cbeTypeNull] /\
  CbeTime.cbe_encode_time (CbeTime.zero_time CbeTime.KTimestamp) = [Gen.CbeConsts.cbeTypeNull] /\
  CbeTime.cbe_decode_time [Gen.CbeConsts.cbeTypeNull] = None.
Proof. exact CbeTimeProofs.zero_value_written_as_null. Qed.
Print Assumptions C01_time_zero_value_refuted.

(* Non-vacuity: a timestamp with nanoseconds (leap second, magnitude 3) in an area/location zone whose
   name the library abbreviates (example_short = "M/Argentina/Buenos_Aires") satisfies the hypothesis; its 35 bytes are the ones the real encoder writes *)
Example C01_time_example :
  CbeTime.time_ok CbeTimeProofs.example_time = true /\
  CbeTime.g_nano CbeTimeProofs.example_time = 123456789 /\
  CbeTime.z_kind (CbeTime.g_zone CbeTimeProofs.example_time) = CbeTime.ZArea /\
  CbeTime.z_short (CbeTime.g_zone CbeTimeProofs.example_time) = CbeTimeProofs.example_short /\
  CbeTime.canon CbeTimeProofs.example_time = CbeTimeProofs.example_time /\
  CbeTime.cbe_encode_time CbeTimeProofs.example_time =
    [124; 175; 104; 222; 58; 248; 253; 22; 203; 0; 48] ++ CbeTimeProofs.example_short.
Proof. exact CbeTimeProofs.example_time_ok. Qed.
