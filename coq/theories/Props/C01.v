(* C01 — CBE encode/decode preserves every rules-valid event stream.
   Only theorem statements here; each is closed by a lemma from Proofs/CbeRoundtrip.v.
   Vocabulary: Model/Cbe.v (cbe_encode / cbe_decode, tied to the implementation by the
   cbe_enc_case / cbe_dec_case families of `vh run C01` and `vh run C22`), Model/Denote.v (den, the
   meaning of "the same data"; tied to den.go by den_case), Model/Rules.v (accepts_document).
   [document v body] is EBeginDoc :: EVersion v :: body ++ [EEndDoc]. *)
From CE Require Import Model.Cbe Model.Denote Proofs.CbeProofs Proofs.CbeRoundtrip.
From CE Require Model.Rules.
Open Scope N_scope.

(* 1. Data round trip on the fragment [c01_body body nbody] (CbeRoundtrip section 6; nbody is what
   the decoder reports): every scalar kind except times and big floats that are not exactly a float64 (integers
   of all four event forms and any size up to 1024 bytes, all float bit patterns, big floats that
   are exactly a non-zero float64 - given with an odd mantissa, as the harness prints them -,
   decimal floats, big decimals, NaN, UID), booleans / null / containers / padding / comments, markers, references, records and
   record types, whole and string-like arrays of the sixteen array types, media and custom binary —
   and arrays, media and custom binary through begin / chunk / data with ANY chunking and any split
   of the data over data events.  The document decodes, to exactly [document 0 nbody], and that
   stream denotes the same data minus the comments. *)
Theorem C01_den_roundtrip :
  forall cfg body nbody doc,
  c01_body body nbody ->
  cbe_encode (document 0 body) = Some doc ->
  len doc <= max_doc_size cfg ->
  cbe_decode cfg doc = (document 0 nbody, DOk) /\
  den (document 0 nbody) = no_comments (den (document 0 body)).
Proof. exact c01_den_roundtrip. Qed.
Print Assumptions C01_den_roundtrip.

(* The same with a decidable hypothesis: [c01_doc_norm es] computes the decoder's report when the
   stream lies in the fragment (evaluated on generated streams by the correspondence stage). *)
Theorem C01_den_roundtrip_checked :
  forall cfg es es' doc,
  c01_doc_norm es = Some es' -> cbe_encode es = Some doc -> len doc <= max_doc_size cfg ->
  cbe_decode cfg doc = (es', DOk) /\ den es' = no_comments (den es).
Proof. exact c01_den_roundtrip_checked. Qed.
Print Assumptions C01_den_roundtrip_checked.

(* 2. The full conclusion — decodes, is again accepted by the validator, same data — on the
   sub-fragment [c01r_body] where the validator provably moves through the same contexts on the
   decoded stream: as above, minus zeros written as floats or decimals (they come back as integers),
   whole arrays that need the regular header, string-like / media / custom events in one call, and
   chunked arrays delivered with several data events per chunk or short enough for the short form
   (all of which the decoder reports through the other array API). *)
Theorem C01_roundtrip_rules :
  forall rcfg cfg body nbody doc,
  RulesPart.c01r_body body nbody ->
  Rules.accepts_document rcfg (document 0 body) = true ->
  cbe_encode (document 0 body) = Some doc ->
  len doc <= max_doc_size cfg ->
  cbe_decode cfg doc = (document 0 nbody, DOk) /\
  Rules.accepts_document rcfg (document 0 nbody) = true /\
  den (document 0 nbody) = no_comments (den (document 0 body)).
Proof. exact RulesPart.c01_roundtrip_rules. Qed.
Print Assumptions C01_roundtrip_rules.

Theorem C01_roundtrip_rules_checked :
  forall rcfg cfg es es' doc,
  RulesPart.c01r_doc_norm es = Some es' -> Rules.accepts_document rcfg es = true ->
  cbe_encode es = Some doc -> len doc <= max_doc_size cfg ->
  cbe_decode cfg doc = (es', DOk) /\ Rules.accepts_document rcfg es' = true /\ den es' = no_comments (den es).
Proof. exact RulesPart.c01_roundtrip_rules_checked. Qed.
Print Assumptions C01_roundtrip_rules_checked.

(* The validator's verdict does not depend on which integer event form carries a value: the
   decoder's form of an integer event moves the validator to the same context. *)
Theorem C01_integer_forms_validate_alike :
  forall cfg c e neg m,
  int_event_value e = Some (neg, m) ->
  RulesPart.step_ctx cfg c e = RulesPart.step_ctx cfg c (norm_signed neg m).
Proof. exact RulesPart.int_step. Qed.
Print Assumptions C01_integer_forms_validate_alike.

(* 3. The property as stated is false on the current code (witness: the MinInt32 big-decimal exponent below). *)
Theorem C01_full_refuted : ~ RulesPart.C01_full.
Proof. exact RulesPart.C01_full_refuted. Qed.
Print Assumptions C01_full_refuted.

(* Custom text is outside what CBE carries: both forms (one event, chunked API) are rules-valid and
   REFUSED by the encoder - an error, not a silent change of kind. *)
Theorem C01_custom_text_refused :
  Rules.accepts_document Rules.default_rcfg [EBeginDoc; EVersion 0; ECustomText 3 [97; 98]; EEndDoc] = true /\
  cbe_encode [EBeginDoc; EVersion 0; ECustomText 3 [97; 98]; EEndDoc] = None /\
  Rules.accepts_document Rules.default_rcfg chunked_custom_text_doc = true /\
  cbe_encode chunked_custom_text_doc = None.
Proof. exact RulesPart.custom_text_valid_but_refused. Qed.
Print Assumptions C01_custom_text_refused.

(* a big decimal with exponent MinInt32 is rules-valid and written as a document the decoder rejects *)
Theorem C01_refuted_bigdecimal_expmin :
  Rules.accepts_document Rules.default_rcfg bigdecimal_expmin_doc = true /\
  exists doc, cbe_encode bigdecimal_expmin_doc = Some doc /\ snd (cbe_decode default_dcfg doc) = DErr.
Proof. exact RulesPart.bigdecimal_expmin_valid_but_lost. Qed.
Print Assumptions C01_refuted_bigdecimal_expmin.

(* Non-vacuity: a 70-event rules-valid document with nested containers, a chunked UTF-8 string
   whose character is split over two data events, 2^48, -0, a signalling NaN, a marker and a
   reference lies in the fragment of theorem 1; a similar one in the sub-fragment of theorem 2. *)
Example C01_example :
  Rules.accepts_document Rules.default_rcfg c01_example = true /\
  exists es', c01_doc_norm c01_example = Some es' /\ events_eqb es' c01_example = false /\ (50 < length es')%nat.
Proof. split; [exact RulesPart.c01_example_valid | exact c01_example_covered]. Qed.

Example C01_example_rules :
  Rules.accepts_document Rules.default_rcfg RulesPart.c01r_example = true /\
  exists es', RulesPart.c01r_doc_norm RulesPart.c01r_example = Some es' /\ events_eqb es' RulesPart.c01r_example = false.
Proof. exact RulesPart.c01r_example_covered. Qed.
