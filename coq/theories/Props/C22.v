(* C22 — CBE encoding is minimal and canonical.
   Only theorem statements here; each is closed by a lemma from Proofs/CbeProofs.v.
   The model (Model/Cbe.v) is tied to the implementation by the correspondence
   cases of `vh run C22` (cbe_enc_case / cbe_dec_case / cbe_dec_cfg_case). *)
From CE Require Import Model.Cbe Proofs.FloatBitsProofs Proofs.CbeProofs.
Open Scope N_scope.

(* Integers.  The format's menu of integer forms is [int_form] with
   [form_available] (which forms can hold sign/magnitude) and [form_length]:
   small int (1 byte, |v| <= 100, not the negative zero), fixed width 1/2/4/8
   (1 + w bytes), variable length with any sufficient byte count n
   (1 + ULEB(n) + n bytes).  Every integer event (OnPositiveInt, OnNegativeInt,
   OnInt, OnBigInt) is written in an available form, and no available form is
   shorter.  No bound on the magnitude. *)
Theorem C22_int_minimal :
  forall st e neg m, int_event_value e = Some (neg, m) ->
  exists B, cbe_encode_event st e = Some (st, B) /\
    form_available neg m (chosen_form neg m) /\ length B = form_length (chosen_form neg m) /\
    forall f, form_available neg m f -> (length B <= form_length f)%nat.
Proof. exact int_event_minimal. Qed.
Print Assumptions C22_int_minimal.

(* The same against the explicit menu list (small, the four fixed widths, the
   variable-length form with every byte count the decoder accepts, 0..1024),
   each filtered by whether it can hold the value. *)
Theorem C22_int_minimal_menu :
  forall neg m, m < 256 ^ N.of_nat 1024 ->
  list_min (map snd (int_menu neg m)) = Some (length (enc_signed neg m)).
Proof. exact int_minimal_menu. Qed.
Print Assumptions C22_int_minimal_menu.

(* Binary floats other than zeros, infinities and NaNs: type byte + the
   narrowest of bfloat16 / float32 / float64 whose widening gives back exactly
   the same float64 (repr16 / repr32 of FloatBitsProofs). *)
Theorem C22_float_narrowest :
  forall st b, b < 2 ^ 64 -> f64_ordinary b = true ->
  exists B, cbe_encode_event st (EFloat b) = Some (st, B) /\
    length B = S (width_bytes (float_width b)) /\ repr_in (float_width b) b /\
    forall w, repr_in w b -> (width_bytes (float_width b) <= width_bytes w)%nat.
Proof. exact float_event_narrowest. Qed.
Print Assumptions C22_float_narrowest.

(* Zeros, infinities and NaNs never take more than the three bytes a bfloat16 would. *)
Theorem C22_float_special_length :
  forall b, f64_ordinary b = false -> (length (enc_float b) <= 3)%nat.
Proof. exact enc_float_special_length. Qed.
Print Assumptions C22_float_special_length.

(* Arrays and strings through OnArray / OnStringlikeArray: the short header is
   written when the element count is at most 15 and the type has a short form
   (has_short_form, read off the encoder's table: strings and the eleven
   plane-7f typed arrays), the regular header + chunk header otherwise. *)
Theorem C22_array_header :
  forall st t n d, t < 256 -> n < two64 -> bytes_wf d ->
  cbe_encode_event st (EArray t n d) = opt_map (fun h => (st, h ++ d)) (enc_whole_array_header t n) /\
  cbe_encode_event st (EStringArray t d) = opt_map (fun h => (st, h ++ d)) (enc_whole_array_header t (len d)) /\
  (n <= cbeMaxSmallArrayLength -> has_short_form t = true -> enc_whole_array_header t n = Some (short_header t n)) /\
  (cbeMaxSmallArrayLength < n \/ (has_short_form t = false /\ array_info t <> None) ->
   enc_whole_array_header t n = opt_map (fun h => h ++ uleb_encode (chunk_header n false)) (enc_array_header t)).
Proof. exact array_event_header. Qed.
Print Assumptions C22_array_header.

(* Chunked API: a first chunk that is also the last one gets exactly the header
   a whole array of that type and count gets; a first chunk with more to follow
   gets the regular header; later chunks only a chunk header. *)
Theorem C22_chunk_first_final :
  forall t n, n < two64 ->
  cbe_encode_event {| es_array_type := t; es_try_small := true |} (EArrayChunk n false) =
  opt_map (fun h => ({| es_array_type := t; es_try_small := false |}, h)) (enc_whole_array_header t n).
Proof. exact chunk_first_final. Qed.
Print Assumptions C22_chunk_first_final.

Theorem C22_chunk_first_not_final :
  forall t n, n < two64 ->
  cbe_encode_event {| es_array_type := t; es_try_small := true |} (EArrayChunk n true) =
  opt_map (fun h => ({| es_array_type := t; es_try_small := false |}, h ++ uleb_encode (chunk_header n true)))
          (enc_array_header t).
Proof. exact chunk_first_not_final. Qed.
Print Assumptions C22_chunk_first_not_final.

(* Idempotence on the covered fragment (wf_body: see CbeProofs section 12; it
   excludes times, custom text, big floats that are not exactly a float64, big
   decimal exponents beyond +-(2^31-1), version 1 and event
   sequences that break the array protocol): decoding the encoder's document
   succeeds and encoding the decoded events reproduces it byte for byte. *)
Theorem C22_reencode_idempotent :
  forall cfg v body doc,
  v < two64 -> v <> 1 -> wf_body body ->
  cbe_encode (EBeginDoc :: EVersion v :: body ++ [EEndDoc]) = Some doc ->
  len doc <= max_doc_size cfg ->
  snd (cbe_decode cfg doc) = DOk /\ cbe_encode (fst (cbe_decode cfg doc)) = Some doc.
Proof. exact reencode_idempotent. Qed.
Print Assumptions C22_reencode_idempotent.

(* The same with a decidable hypothesis (doc_okb is evaluated on the generated
   streams by the correspondence stage). *)
Theorem C22_reencode_idempotent_checked :
  forall cfg es doc,
  doc_okb es = true -> cbe_encode es = Some doc -> len doc <= max_doc_size cfg ->
  snd (cbe_decode cfg doc) = DOk /\ cbe_encode (fst (cbe_decode cfg doc)) = Some doc.
Proof. exact reencode_idempotent_checked. Qed.
Print Assumptions C22_reencode_idempotent_checked.

(* Without the restriction the statement is false: an apd exponent of MinInt32
   is written as an exponent field the decoder rejects. *)
Theorem C22_reencode_full_refuted : ~ reencode_full.
Proof. exact reencode_full_refuted. Qed.
Print Assumptions C22_reencode_full_refuted.

Theorem C22_reencode_bigdecimal_expmin_witness :
  cbe_encode bigdecimal_expmin_doc = Some [129; 0; 118; 130; 128; 128; 128; 224; 255; 255; 255; 255; 1; 7] /\
  snd (cbe_decode default_dcfg [129; 0; 118; 130; 128; 128; 128; 224; 255; 255; 255; 255; 1; 7]) = DErr.
Proof. exact reencode_bigdecimal_expmin. Qed.
Print Assumptions C22_reencode_bigdecimal_expmin_witness.

(* Non-vacuity: a document with every covered kind is in the fragment, round
   trips, and its decoded form differs from the original events. *)
Example C22_example_covered : doc_okb ex_doc = true.
Proof. exact ex_doc_covered. Qed.

Example C22_example_lengths :
  map (fun m => (length (enc_signed false m), length (enc_signed true m)))
      [0; 100; 101; 255; 256; 65535; 65536; 4294967295; 4294967296; 281474976710655; 281474976710656;
       18446744073709551615; 18446744073709551616]
  = [(1, 2); (1, 1); (2, 2); (2, 2); (3, 3); (3, 3); (5, 5); (5, 5); (7, 7); (8, 8); (9, 9); (9, 9); (11, 11)]%nat.
Proof. exact ex_int_menu. Qed.
