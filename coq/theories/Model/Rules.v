(* The rules validator (package rules) as an executable state machine.
   The (rule x method) matrix is Gen/RulesTable.v (translated from the source on
   every run); this file gives the meaning of the statements it is made of
   (rules/context.go, rules/context_array.go) and of the receiver layer
   (rules/rules_event_rcv.go).  A rejected event (a Go panic) is [None]. *)
From CE Require Export Model.RulesSyntax Gen.RulesConsts Gen.RulesTable Base.Utf8.
Open Scope N_scope.

(* ---- configuration (configuration.RuleConfiguration, the fields the validator reads) ---- *)
Record rcfg := {
  max_object_count : N;
  max_container_depth : N;
  max_array_size_bytes : N;
  max_identifier_length : N;
  max_local_reference_count : N;   (* the validator checks MaxLocalReferenceCount and MaxMarkerCount at the same
                                      place against the same counter: this field is the smaller of the two *)
  expected_version : N;
}.

Definition default_rcfg : rcfg := {|
  max_object_count := default_max_object_count;
  max_container_depth := default_max_container_depth;
  max_array_size_bytes := default_max_array_size_bytes;
  max_identifier_length := default_max_identifier_length;
  max_local_reference_count := default_max_local_reference_count;
  expected_version := 0;
|}.

(* ---- map keys ---- *)
(* the dynamic Go value handed to NotifyKey *)
Inductive rawkey :=
| RkBool (b : bool) | RkUint64 (n : N) | RkNegint (n : N) | RkInt64 (z : Z) | RkBigInt (z : Z)
| RkBytes (b : bytes) | RkTime (s : bytes) | RkString (b : bytes) | RkRid (b : bytes).
(* the value stored in the key set after NotifyKey's type switch (Go map key: dynamic type + value) *)
Inductive nkey :=
| NkBool (b : bool) | NkUint64 (n : N) | NkInt64 (z : Z) | NkNegint (n : N)
| NkBigWords (sign : Z) (mag : N) | NkUid (b : bytes) | NkTimeString (s : bytes)
| NkString (b : bytes) | NkRid (b : bytes).

Fixpoint pad_to (n : nat) (b : bytes) : bytes :=
  match n with
  | O => []
  | S k => match b with [] => 0 :: pad_to k [] | x :: r => x :: pad_to k r end
  end.

Definition two64 : N := 18446744073709551616.
Definition two63 : Z := 9223372036854775808.

(* the *big.Int arm of NotifyKey *)
Definition norm_big (z : Z) : nkey :=
  if ((0 <=? z) && (z <? Z.of_N two64))%Z then NkUint64 (Z.to_N z)
  else if ((- two63 <=? z) && (z <? two63))%Z then NkInt64 z
  else NkBigWords (Z.sgn z) (Z.abs_N z).

Definition norm_key (k : rawkey) : nkey :=
  match k with
  | RkBool b => NkBool b
  | RkUint64 n => NkUint64 n
  | RkNegint n => if n =? 0 then NkNegint 0 else norm_big (- Z.of_N n)
  | RkInt64 z => if (0 <=? z)%Z then NkUint64 (Z.to_N z) else NkInt64 z
  | RkBigInt z => norm_big z
  | RkBytes b => NkUid (pad_to 16 b)
  | RkTime s => NkTimeString s
  | RkString b => NkString b
  | RkRid b => NkRid b
  end.

Definition nkey_eqb (a b : nkey) : bool :=
  match a, b with
  | NkBool x, NkBool y => Bool.eqb x y
  | NkUint64 x, NkUint64 y | NkNegint x, NkNegint y => x =? y
  | NkInt64 x, NkInt64 y => (x =? y)%Z
  | NkBigWords s1 m1, NkBigWords s2 m2 => (s1 =? s2)%Z && (m1 =? m2)
  | NkUid x, NkUid y | NkTimeString x, NkTimeString y | NkString x, NkString y | NkRid x, NkRid y => bytes_eqb x y
  | _, _ => false
  end.

(* ---- context ---- *)
Record entry := {
  e_rule : rule;
  e_dtype : N;
  e_count : N;                    (* CurrentObjectCount *)
  e_expected : option N;          (* ExpectedObjectCount; None = -1 *)
  e_keys : list nkey;
}.

Inductive validator := VUtf8 | VNothing.

Record rctx := {
  cur : entry;
  stack : list entry;
  depth : N;                      (* containerDepth *)
  objects : N;                    (* objectCount *)
  rectypes : list (bytes * N);    (* recordTypes *)
  rectype_name : bytes;
  arr_type : arrty;
  more_chunks : bool;
  built : bytes;                  (* builtArrayBuffer *)
  arr_total : N;
  chunk_expected : N;
  chunk_actual : N;
  utf8_rem : bytes;               (* utf8RemainderBuffer *)
  arr_validator : validator;
  marker_id : bytes;
  marked : list (bytes * N);      (* markedObjects *)
  fwd : list (bytes * N);         (* forwardLocalReferences *)
  refcount : N;                   (* LocalReferenceCount *)
}.

Definition mk_entry r dt exp := {| e_rule := r; e_dtype := dt; e_count := 0; e_expected := exp; e_keys := [] |}.

Definition init_rctx : rctx := {|
  cur := mk_entry RBeginDocument DT_Invalid None;
  stack := []; depth := 0; objects := 0; rectypes := []; rectype_name := [];
  arr_type := 0; more_chunks := false; built := []; arr_total := 0; chunk_expected := 0; chunk_actual := 0;
  utf8_rem := []; arr_validator := VNothing; marker_id := []; marked := []; fwd := []; refcount := 0;
|}.

Definition set_cur (c : rctx) (e : entry) : rctx :=
  {| cur := e; stack := stack c; depth := depth c; objects := objects c; rectypes := rectypes c; rectype_name := rectype_name c;
     arr_type := arr_type c; more_chunks := more_chunks c; built := built c; arr_total := arr_total c;
     chunk_expected := chunk_expected c; chunk_actual := chunk_actual c; utf8_rem := utf8_rem c; arr_validator := arr_validator c;
     marker_id := marker_id c; marked := marked c; fwd := fwd c; refcount := refcount c |}.
Definition set_stack (c : rctx) (s : list entry) : rctx :=
  {| cur := cur c; stack := s; depth := depth c; objects := objects c; rectypes := rectypes c; rectype_name := rectype_name c;
     arr_type := arr_type c; more_chunks := more_chunks c; built := built c; arr_total := arr_total c;
     chunk_expected := chunk_expected c; chunk_actual := chunk_actual c; utf8_rem := utf8_rem c; arr_validator := arr_validator c;
     marker_id := marker_id c; marked := marked c; fwd := fwd c; refcount := refcount c |}.
Definition set_depth (c : rctx) (d : N) : rctx :=
  {| cur := cur c; stack := stack c; depth := d; objects := objects c; rectypes := rectypes c; rectype_name := rectype_name c;
     arr_type := arr_type c; more_chunks := more_chunks c; built := built c; arr_total := arr_total c;
     chunk_expected := chunk_expected c; chunk_actual := chunk_actual c; utf8_rem := utf8_rem c; arr_validator := arr_validator c;
     marker_id := marker_id c; marked := marked c; fwd := fwd c; refcount := refcount c |}.
Definition set_objects (c : rctx) (o : N) : rctx :=
  {| cur := cur c; stack := stack c; depth := depth c; objects := o; rectypes := rectypes c; rectype_name := rectype_name c;
     arr_type := arr_type c; more_chunks := more_chunks c; built := built c; arr_total := arr_total c;
     chunk_expected := chunk_expected c; chunk_actual := chunk_actual c; utf8_rem := utf8_rem c; arr_validator := arr_validator c;
     marker_id := marker_id c; marked := marked c; fwd := fwd c; refcount := refcount c |}.
Definition set_rectypes (c : rctx) (rt : list (bytes * N)) (name : bytes) : rctx :=
  {| cur := cur c; stack := stack c; depth := depth c; objects := objects c; rectypes := rt; rectype_name := name;
     arr_type := arr_type c; more_chunks := more_chunks c; built := built c; arr_total := arr_total c;
     chunk_expected := chunk_expected c; chunk_actual := chunk_actual c; utf8_rem := utf8_rem c; arr_validator := arr_validator c;
     marker_id := marker_id c; marked := marked c; fwd := fwd c; refcount := refcount c |}.
(* array sub-state *)
Definition set_array (c : rctx) (t : arrty) (more : bool) (b : bytes) (total expd act : N) (rem : bytes) (v : validator) : rctx :=
  {| cur := cur c; stack := stack c; depth := depth c; objects := objects c; rectypes := rectypes c; rectype_name := rectype_name c;
     arr_type := t; more_chunks := more; built := b; arr_total := total;
     chunk_expected := expd; chunk_actual := act; utf8_rem := rem; arr_validator := v;
     marker_id := marker_id c; marked := marked c; fwd := fwd c; refcount := refcount c |}.
Definition set_markers (c : rctx) (mid : bytes) (mk fw : list (bytes * N)) (rc : N) : rctx :=
  {| cur := cur c; stack := stack c; depth := depth c; objects := objects c; rectypes := rectypes c; rectype_name := rectype_name c;
     arr_type := arr_type c; more_chunks := more_chunks c; built := built c; arr_total := arr_total c;
     chunk_expected := chunk_expected c; chunk_actual := chunk_actual c; utf8_rem := utf8_rem c; arr_validator := arr_validator c;
     marker_id := mid; marked := mk; fwd := fw; refcount := rc |}.

Definition set_rule (c : rctx) (r : rule) : rctx :=
  let e := cur c in
  set_cur c {| e_rule := r; e_dtype := e_dtype e; e_count := e_count e; e_expected := e_expected e; e_keys := e_keys e |}.

(* association lists keyed by byte strings *)
Fixpoint alookup (k : bytes) (l : list (bytes * N)) : option N :=
  match l with
  | [] => None
  | (k', v) :: r => if bytes_eqb k k' then Some v else alookup k r
  end.
Fixpoint aremove (k : bytes) (l : list (bytes * N)) : list (bytes * N) :=
  match l with
  | [] => []
  | (k', v) :: r => if bytes_eqb k k' then aremove k r else (k', v) :: aremove k r
  end.
Definition aset (k : bytes) (v : N) (l : list (bytes * N)) : list (bytes * N) := (k, v) :: aremove k l.

Definition mask_value (m : mask) : N :=
  match m with
  | MaskAny => Allow_Any | MaskNonNull => Allow_NonNull | MaskKeyable => Allow_Keyable
  | MaskMarkable => Allow_Markable | MaskString => Allow_String | MaskResourceID => Allow_ResourceID
  end.

Definition array_dtype (t : arrty) : option N := nth_error array_type_to_data_type (N.to_nat t).
Definition array_bits (t : arrty) : option N := nth_error array_elem_bits (N.to_nat t).

(* common.ElementCountToByteCount with its uint64 wrap-around *)
Definition elem_byte_count (bits count : N) : N :=
  let bc := ((count * bits) mod two64) / 8 in
  if (bits =? 1) && negb (N.land count 7 =? 0) then (bc + 1) mod two64 else bc.

(* ---- arguments of a rule-method call ---- *)
Record args := {
  a_dtype : N;              (* objType / containerType *)
  a_key : option rawkey;    (* key of OnKeyableObject *)
  a_id : bytes;             (* identifier *)
  a_arrty : arrty;
  a_count : N;              (* elementCount / chunk length *)
  a_data : bytes;
  a_version : N;
  a_more : bool;
}.
Definition no_args : args :=
  {| a_dtype := 0; a_key := None; a_id := []; a_arrty := 0; a_count := 0; a_data := []; a_version := 0; a_more := false |}.
Definition with_dtype (a : args) (dt : N) : args :=
  {| a_dtype := dt; a_key := a_key a; a_id := a_id a; a_arrty := a_arrty a; a_count := a_count a; a_data := a_data a;
     a_version := a_version a; a_more := a_more a |}.
Definition with_key (a : args) (k : option rawkey) : args :=
  {| a_dtype := a_dtype a; a_key := k; a_id := a_id a; a_arrty := a_arrty a; a_count := a_count a; a_data := a_data a;
     a_version := a_version a; a_more := a_more a |}.

(* ---- context primitives ---- *)
Definition notify_new_object (cfg : rcfg) (real : bool) (c : rctx) : option rctx :=
  let e := cur c in
  let cnt := if real then e_count e + 1 else e_count e in
  let over := match e_expected e with Some x => real && (x <? cnt) | None => false end in
  if over then None else
  let c1 := set_cur c {| e_rule := e_rule e; e_dtype := e_dtype e; e_count := cnt; e_expected := e_expected e; e_keys := e_keys e |} in
  let o := objects c + 1 in
  if max_object_count cfg <? o then None else Some (set_objects c1 o).

Definition stack_rule (r : rule) (dt : N) (exp : option N) (c : rctx) : rctx :=
  set_cur (set_stack c (cur c :: stack c)) (mk_entry r dt exp).

Definition unstack_rule (c : rctx) : option rctx :=
  match stack c with
  | [] => None
  | e :: s => Some (set_cur (set_stack c s) e)
  end.

Definition begin_container (cfg : rcfg) (r : rule) (dt : N) (exp : option N) (c : rctx) : option rctx :=
  let d := depth c + 1 in
  if max_container_depth cfg <? d then None else Some (stack_rule r dt exp (set_depth c d)).

Definition notify_key (k : rawkey) (c : rctx) : option rctx :=
  let nk := norm_key k in
  let e := cur c in
  if existsb (nkey_eqb nk) (e_keys e) then None
  else Some (set_cur c {| e_rule := e_rule e; e_dtype := e_dtype e; e_count := e_count e; e_expected := e_expected e; e_keys := nk :: e_keys e |}).

Definition length_ok (cfg : rcfg) (len : N) : bool :=
  negb ((max_array_size_bytes cfg <? len) && (0 <? max_array_size_bytes cfg)).

Definition is_stringlike_validated (t : arrty) : bool :=
  (t =? AT_String) || (t =? AT_ResourceID) || (t =? AT_CustomText) || (t =? AT_ReferenceRemote).

Definition blen (b : bytes) : N := N.of_nat (length b).

Definition validate_full_array_any (cfg : rcfg) (t : arrty) (count : N) (data : bytes) : bool :=
  if is_stringlike_validated t then length_ok cfg (blen data) && utf8_valid data
  else match array_bits t with
       | Some bits => (blen data =? elem_byte_count bits count) && length_ok cfg (blen data)
       | None => false
       end.
Definition validate_full_array_stringlike (cfg : rcfg) (t : arrty) (data : bytes) : bool :=
  if is_stringlike_validated t then length_ok cfg (blen data) && utf8_valid data
  else length_ok cfg (blen data).
Definition assert_array_type (t : arrty) (allowed : N) : bool :=
  match array_dtype t with Some dt => negb (N.land dt allowed =? 0) | None => false end.

Definition begin_array (t : arrty) (r : rule) (dt : N) (v : validator) (c : rctx) : rctx :=
  let c1 := stack_rule r dt None c in
  set_array c1 t (more_chunks c1) [] 0 (chunk_expected c1) (chunk_actual c1) [] v.

Definition begin_array_any (t : arrty) (c : rctx) : option rctx :=
  match array_dtype t with
  | None => None
  | Some dt =>
    if is_stringlike_validated t then Some (begin_array t RString dt VUtf8 c)
    else Some (begin_array t RArray dt VNothing c)
  end.

Definition mark_object (cfg : rcfg) (dt : N) (c : rctx) : option rctx :=
  let n := refcount c + 1 in
  if max_local_reference_count cfg <? n then None else
  let id := marker_id c in
  match alookup id (marked c) with
  | Some _ => None
  | None =>
    let mk := aset id dt (marked c) in
    match alookup id (fwd c) with
    | Some allowed =>
        if N.land allowed dt =? 0 then None
        else Some (set_markers c id mk (aremove id (fwd c)) n)
    | None => Some (set_markers c id mk (fwd c) n)
    end
  end.

(* contextStackEntry.MarkerID.  The entry a marker creates never holds map keys (NotifyKey is only
   reached after the marker entry has been unstacked), so the model stores the marker's ID in the
   otherwise unused key list of that entry instead of widening the [entry] record. *)
Definition tag_marker_entry (id : bytes) (c : rctx) : rctx :=
  let e := cur c in
  set_cur c {| e_rule := e_rule e; e_dtype := e_dtype e; e_count := e_count e; e_expected := e_expected e; e_keys := [NkString id] |}.
Definition entry_marker_id (e : entry) : option bytes :=
  match e_keys e with [NkString id] => Some id | _ => None end.

Definition local_reference (id : bytes) (allowed : N) (c : rctx) : option rctx :=
  match alookup id (marked c) with
  | Some dt => if N.land dt allowed =? 0 then None else Some c
  | None =>
    let current := match alookup id (fwd c) with Some x => x | None => 0 end in
    let current' := if current =? 0 then allowed else N.land current allowed in
    Some (set_markers c (marker_id c) (marked c) (aset id current' (fwd c)) (refcount c))
  end.

(* ---- the streaming UTF-8 splitter (Context.StreamStringData) ---- *)
Definition rune_byte_count (b : N) : N := nth (N.to_nat (N.shiftr b 3)) rune_byte_counts 0.

(* chars.IndexOfLastRuneStart.  When a non-empty piece holds no rune start at all the Go loop
   leaves index = -1 and the caller's slice expression panics: None. *)
Fixpoint last_rune_start_from (rev_prefix : bytes) (idx : nat) (total : nat) : option (nat * bool) :=
  (* rev_prefix = the bytes at positions idx-1, idx-2, ... 0 *)
  match rev_prefix, idx with
  | b :: r, S i =>
      let n := rune_byte_count b in
      if 0 <? n then Some (i, Nat.eqb (i + N.to_nat n) total) else last_rune_start_from r i total
  | _, _ => None
  end.
Definition index_of_last_rune_start (data : bytes) : option (nat * bool) :=
  match data with
  | [] => Some (O, true)
  | _ => last_rune_start_from (rev data) (length data) (length data)
  end.

(* result: (firstRuneBytes, nextRunesBytes, new remainder); None = the Go code panics *)
Definition tail_split (data : bytes) : option (bytes * bytes) :=
  match index_of_last_rune_start data with
  | None => None
  | Some (idx, complete) =>
    if complete then Some (data, [])
    else let remn := skipn idx data in
         if (4 <? length remn)%nat then None else Some (firstn idx data, remn)
  end.

Definition stream_string_data (rem data : bytes) : option (bytes * bytes * bytes) :=
  match rem with
  | [] => match tail_split data with Some (nx, rm) => Some ([], nx, rm) | None => None end
  | b0 :: _ =>
    let remlen := length rem in
    let req := N.to_nat (rune_byte_count b0) in
    if (req <? remlen)%nat then None            (* rem[:req] then rem[remlen:] is out of range *)
    else
      let take := Nat.min (req - remlen) (length data) in
      let rem2 := rem ++ firstn take data in
      let data' := skipn take data in
      if (remlen + take <? req)%nat then Some ([], data', rem2)
      else match tail_split data' with Some (nx, rm) => Some (rem2, nx, rm) | None => None end
  end.

(* ---- executing the statements of a method body ---- *)
Section Exec.
  Variable cfg : rcfg.
  (* calling a method of the rule in force, one nesting level down *)
  Variable call : rule -> meth -> args -> rctx -> option rctx.

  Definition end_container_like (notify : bool) (c : rctx) : option rctx :=
    let ctype := e_dtype (cur c) in
    match unstack_rule c with
    | None => None
    | Some c1 => if notify then call (e_rule (cur c1)) MChildContainerEnded (with_dtype no_args ctype) c1 else Some c1
    end.

  Definition end_container (notify : bool) (c : rctx) : option rctx :=
    if depth c =? 0 then None else
    let e := cur c in
    let bad := match e_expected e with Some x => negb (e_count e =? x) | None => false end in
    if bad then None else
    let c1 := if e_dtype e =? DT_RecordType
              then match alookup (rectype_name c) (rectypes c) with
                   | Some _ => None
                   | None => Some (set_rectypes c (aset (rectype_name c) (e_count e) (rectypes c)) (rectype_name c))
                   end
              else Some c in
    match c1 with
    | None => None
    | Some c2 => end_container_like notify (set_depth c2 (depth c2 - 1))
    end.

  Definition try_end_array (more : bool) (c : rctx) : option (rctx * bool) :=
    if more then Some (c, false)
    else match end_container_like true c with Some c1 => Some (c1, true) | None => None end.

  Definition end_chunk (string_rule : bool) (c : rctx) : option rctx :=
    if string_rule && negb (Nat.eqb (length (utf8_rem c)) 0) then None else
    match try_end_array (more_chunks c) c with
    | None => None
    | Some (c1, true) => Some c1
    | Some (c1, false) => Some (set_rule c1 (if string_rule then RString else RArray))
    end.

  (* ArrayRule/StringRule.OnArrayChunk *)
  Definition rule_chunk (string_rule : bool) (len : N) (more : bool) (c : rctx) : option rctx :=
    if len =? 0 then match try_end_array more c with Some (c1, _) => Some c1 | None => None end
    else
      let expd := if string_rule then Some len
                  else match array_bits (arr_type c) with Some bits => Some (elem_byte_count bits len) | None => None end in
      match expd with
      | None => None
      | Some ex =>
        let total := (arr_total c + ex) mod two64 in
        if (max_array_size_bytes cfg <? total) && (0 <? max_array_size_bytes cfg) then None
        else Some (set_rule (set_array c (arr_type c) more (built c) total ex 0 (utf8_rem c) (arr_validator c))
                            (if string_rule then RStringChunk else RArrayChunk))
      end.

  Definition validate_with (v : validator) (b : bytes) : bool :=
    match v with VUtf8 => utf8_valid b | VNothing => true end.

  (* ArrayChunkRule / StringChunkRule.OnArrayData *)
  Definition chunk_data (string_rule : bool) (data : bytes) (c : rctx) : option rctx :=
    let act := chunk_actual c + blen data in
    if chunk_expected c <? act then None else
    if string_rule then
      match stream_string_data (utf8_rem c) data with
      | None => None
      | Some (first, next, rem') =>
        if validate_with (arr_validator c) first && validate_with (arr_validator c) next then
          let c1 := set_array c (arr_type c) (more_chunks c) (built c ++ first ++ next) (arr_total c)
                              (chunk_expected c) act rem' (arr_validator c) in
          if act =? chunk_expected c then end_chunk true c1 else Some c1
        else None
      end
    else
      let c1 := set_array c (arr_type c) (more_chunks c) (built c) (arr_total c) (chunk_expected c) act (utf8_rem c) (arr_validator c) in
      if act =? chunk_expected c then end_chunk false c1 else Some c1.

  Definition key_from_array (t : arrty) (data : bytes) (c : rctx) : option rctx :=
    if t =? AT_String then notify_key (RkString data) c
    else if t =? AT_ResourceID then notify_key (RkRid data) c
    else Some c.

  Definition exec_prim (self : rule) (m : meth) (a : args) (p : prim) (c : rctx) : option rctx :=
    match p with
    | PReject => None
    | PChangeRule r => Some (set_rule c r)
    | PBeginList => begin_container cfg RList DT_List None c
    | PBeginMap => begin_container cfg RMapKey DT_Map None c
    | PBeginRecordType =>
        match stack c with
        | [] => match begin_container cfg RRecordType DT_RecordType None c with
                | Some c1 => Some (set_rectypes c1 (rectypes c1) (a_id a))
                | None => None
                end
        | _ => None
        end
    | PBeginRecord =>
        match alookup (a_id a) (rectypes c) with
        | Some n => begin_container cfg RRecord DT_Record (Some n) c
        | None => None
        end
    | PBeginEdge => begin_container cfg REdgeSource DT_Edge (Some 3) c
    | PBeginNode => begin_container cfg RNode DT_List None c
    | PEndContainer notify => end_container notify c
    | PBeginMarkerAnyType mk =>
        Some (tag_marker_entry (a_id a)
               (stack_rule RMarkedObjectAnyType (mask_value mk) None (set_markers c (a_id a) (marked c) (fwd c) (refcount c))))
    | PBeginMarkerKeyable mk =>
        Some (tag_marker_entry (a_id a)
               (stack_rule RMarkedObjectKeyable (mask_value mk) None (set_markers c (a_id a) (marked c) (fwd c) (refcount c))))
    | PLocalReferenceAnyType => local_reference (a_id a) Allow_Any c
    | PLocalReferenceKeyable => local_reference (a_id a) Allow_Keyable c
    | PValidateFullArrayAnyType => if validate_full_array_any cfg (a_arrty a) (a_count a) (a_data a) then Some c else None
    | PValidateFullArrayStringlike => if validate_full_array_stringlike cfg (a_arrty a) (a_data a) then Some c else None
    | PValidateFullArrayKeyable =>
        if assert_array_type (a_arrty a) Allow_Keyable && validate_full_array_any cfg (a_arrty a) (a_count a) (a_data a) then Some c else None
    | PValidateFullArrayStringlikeKeyable =>
        if assert_array_type (a_arrty a) Allow_Keyable && validate_full_array_stringlike cfg (a_arrty a) (a_data a) then Some c else None
    | PAssertArrayType mk => if assert_array_type (a_arrty a) (mask_value mk) then Some c else None
    | PBeginArrayAnyType => begin_array_any (a_arrty a) c
    | PBeginArrayKeyable => if assert_array_type (a_arrty a) Allow_Keyable then begin_array_any (a_arrty a) c else None
    | PNotifyKeyArg => match a_key a with Some k => notify_key k c | None => None end
    | PNotifyKeyFromArrayData => key_from_array (a_arrty a) (a_data a) c
    | PNotifyKeyFromBuilt =>
        if a_dtype a =? DT_String then notify_key (RkString (built c)) c
        else if a_dtype a =? DT_ResourceID then notify_key (RkRid (built c)) c
        else Some c
    | PCheckVersion => if a_version a =? expected_version cfg then Some c else None
    | PEndDocument => match fwd c with [] => Some (set_rule c RTerminal) | _ => None end
    | PUnstackRule => unstack_rule c
    | PForwardCurrent m' => call (e_rule (cur c)) m' a c
    | PForwardCurrentKeyableEmptyKey => call (e_rule (cur c)) MKeyableObject (with_key a (Some (RkString []))) c
    | PForwardParent m' => match stack c with e :: _ => call (e_rule e) m' a c | [] => None end
    | PMarkObject DtArg => mark_object cfg (a_dtype a) c
    | PMarkObject DtOfArrayType => match array_dtype (a_arrty a) with Some dt => mark_object cfg dt c | None => None end
    | PMarkObject DtNull => mark_object cfg DT_Null c
    | PMarkContainer =>
        match entry_marker_id (cur c) with
        | Some id => mark_object cfg (a_dtype a) (set_markers c id (marked c) (fwd c) (refcount c))
        | None => mark_object cfg (a_dtype a) (set_markers c [] (marked c) (fwd c) (refcount c))
        end
    | PArrayRuleChunk => rule_chunk false (a_count a) (a_more a) c
    | PStringRuleChunk => rule_chunk true (a_count a) (a_more a) c
    | PArrayChunkRuleData => chunk_data false (a_data a) c
    | PStringChunkRuleData => chunk_data true (a_data a) c
    | PStringBuilderRuleChunk | PStringBuilderChunkRuleData => None   (* unreachable rules; not modelled *)
    end.

  Fixpoint exec_prims (self : rule) (m : meth) (a : args) (ps : list prim) (c : rctx) : option rctx :=
    match ps with
    | [] => Some c
    | p :: r => match exec_prim self m a p c with Some c1 => exec_prims self m a r c1 | None => None end
    end.
End Exec.

(* Method calls nest (container end -> parent's OnChildContainerEnded -> marker
   rule -> its parent ...); the nesting is bounded, so a small fuel suffices.
   Running out of fuel is a rejection; the correspondence run would expose it. *)
Fixpoint call_rule (fuel : nat) (cfg : rcfg) (r : rule) (m : meth) (a : args) (c : rctx) : option rctx :=
  match fuel with
  | O => None
  | S f => exec_prims cfg (call_rule f cfg) r m a (dispatch r m) c
  end.

Definition call_fuel : nat := 6.
Definition call_current (cfg : rcfg) (m : meth) (a : args) (c : rctx) : option rctx :=
  call_rule call_fuel cfg (e_rule (cur c)) m a c.

(* ---- receiver layer (rules_event_rcv.go) ---- *)
Definition is_identifier_safe_rune (r : N) : bool :=
  existsb (fun iv => (fst iv <=? r) && (r <=? snd iv)) identifier_safe_intervals.

Definition validate_identifier (cfg : rcfg) (id : bytes) : bool :=
  negb (Nat.eqb (length id) 0) && (blen id <=? max_identifier_length cfg) && forallb is_identifier_safe_rune (runes id).

Definition obind {A B} (o : option A) (f : A -> option B) : option B := match o with Some x => f x | None => None end.

Definition keyable (cfg : rcfg) (dt : N) (k : rawkey) (c : rctx) : option rctx :=
  obind (notify_new_object cfg true c) (call_current cfg MKeyableObject
    {| a_dtype := dt; a_key := Some k; a_id := []; a_arrty := 0; a_count := 0; a_data := []; a_version := 0; a_more := false |}).
Definition nonkeyable (cfg : rcfg) (dt : N) (c : rctx) : option rctx :=
  obind (notify_new_object cfg true c) (call_current cfg MNonKeyableObject (with_dtype no_args dt)).
Definition simple (cfg : rcfg) (real : bool) (m : meth) (c : rctx) : option rctx :=
  obind (notify_new_object cfg real c) (call_current cfg m no_args).
Definition with_id (id : bytes) : args :=
  {| a_dtype := 0; a_key := None; a_id := id; a_arrty := 0; a_count := 0; a_data := []; a_version := 0; a_more := false |}.
Definition array_args (t : arrty) (count : N) (data : bytes) : args :=
  {| a_dtype := 0; a_key := None; a_id := []; a_arrty := t; a_count := count; a_data := data; a_version := 0; a_more := false |}.

Definition array_api_ok (t : arrty) : bool := negb ((t =? AT_CustomBinary) || (t =? AT_CustomText) || (t =? AT_Media)).
Definition custom_api_ok (t : arrty) : bool := (t =? AT_CustomBinary) || (t =? AT_CustomText).

(* rules/context_array.go ValidateMediaType: type "/" subtype, a letter first, then only
   the characters the CTE grammar allows (CHAR_MEDIA_TYPE_NEXT); exactly one slash. *)
Definition media_first_char (b : N) : bool :=
  ((97 <=? b) && (b <=? 122)) || ((65 <=? b) && (b <=? 90)).
Definition media_next_char (b : N) : bool :=
  media_first_char b || ((48 <=? b) && (b <=? 57)) ||
  existsb (N.eqb b) [33;35;36;37;38;39;42;43;46;94;95;96;124;126;123;125;45].
Fixpoint media_split (l : bytes) : bytes * option bytes :=
  match l with
  | [] => ([], None)
  | b :: r => if b =? 47 then ([], Some r)
              else let '(pre, post) := media_split r in (b :: pre, post)
  end.
Definition media_type_valid (mt : bytes) : bool :=
  match mt with
  | [] => false
  | b :: rest =>
      media_first_char b &&
      match media_split rest with
      | (pre, Some (p :: post)) =>
          forallb media_next_char pre && forallb media_next_char (p :: post)
      | _ => false
      end
  end.
(* rules/rules_event_rcv.go OnTime: a time must be the zero value or pass compact_time's
   Time.Validate. The payload of ETime is the printed form of the time, from which validity cannot
   be read off; validity is a property of the time VALUE, decided by the go-compact-time dependency.
   The harness therefore tags the token of a value that Validate rejects with a leading NUL byte
   (evcoq.go), and the model reads the tag. *)
Definition time_token_valid (s : bytes) : bool :=
  match s with 0 :: _ => false | _ => true end.
(* rules/context_array.go ValidateCustomType *)
Definition custom_type_ok (ct : N) : bool := ct <=? 4294967295.

Definition dfloat_is_nan (d : dfloat) : bool := match d with DQNan | DSNan => true | _ => false end.

(* One event: the new context and the events handed to the next receiver. *)
Definition rstep (cfg : rcfg) (c : rctx) (e : event) : option (rctx * list event) :=
  let fwd1 (o : option rctx) := match o with Some c1 => Some (c1, [e]) | None => None end in
  let as_ev (e' : event) (o : option rctx) := match o with Some c1 => Some (c1, [e']) | None => None end in
  let null_ (c : rctx) := simple cfg true MNull c in
  let nan_ (c : rctx) := nonkeyable cfg DT_Nan c in
  match e with
  | EBeginDoc => fwd1 (call_current cfg MBeginDocument no_args c)
  | EEndDoc => fwd1 (call_current cfg MEndDocument no_args c)
  | EVersion v => fwd1 (call_current cfg MVersion
      {| a_dtype := 0; a_key := None; a_id := []; a_arrty := 0; a_count := 0; a_data := []; a_version := v; a_more := false |} c)
  | EPadding => fwd1 (call_current cfg MPadding no_args c)
  | EComment _ _ => fwd1 (call_current cfg MComment no_args c)
  | ENull => fwd1 (null_ c)
  | EBool b => fwd1 (keyable cfg DT_Bool (RkBool b) c)
  | ETrue => fwd1 (keyable cfg DT_Bool (RkBool true) c)
  | EFalse => fwd1 (keyable cfg DT_Bool (RkBool false) c)
  | EPosInt n => fwd1 (keyable cfg DT_Int (RkUint64 n) c)
  | ENegInt n => fwd1 (keyable cfg DT_Int (RkNegint n) c)
  | EInt z => fwd1 (keyable cfg DT_Int (RkInt64 z) c)
  | EBigInt None => as_ev ENull (null_ c)
  | EBigInt (Some z) => fwd1 (keyable cfg DT_Int (RkBigInt z) c)
  | EFloat bits =>
      if f64_is_nan bits then as_ev (ENan (negb (f64_quiet_bit bits))) (nan_ c)
      else fwd1 (nonkeyable cfg DT_Float c)
  | EBigFloat None => as_ev ENull (null_ c)
  | EBigFloat (Some _) => fwd1 (nonkeyable cfg DT_Float c)
  | EDecimal d =>
      match d with
      | DQNan => as_ev (ENan false) (nan_ c)
      | DSNan => as_ev (ENan true) (nan_ c)
      | _ => fwd1 (nonkeyable cfg DT_Float c)
      end
  | EBigDecimal None => as_ev ENull (null_ c)
  | EBigDecimal (Some DSNan) => as_ev (ENan true) (nan_ c)
  | EBigDecimal (Some DQNan) => as_ev (ENan false) (nan_ c)
  | EBigDecimal (Some _) => fwd1 (nonkeyable cfg DT_Float c)
  | ENan _ => fwd1 (nan_ c)
  | EUid b => fwd1 (keyable cfg DT_UID (RkBytes b) c)
  | ETime s => if negb (time_token_valid s) then None else fwd1 (keyable cfg DT_Time (RkTime s) c)
  | EArray t count data =>
      if array_api_ok t then fwd1 (obind (notify_new_object cfg true c) (call_current cfg MArray (array_args t count data))) else None
  | EStringArray t data =>
      if array_api_ok t then fwd1 (obind (notify_new_object cfg true c) (call_current cfg MStringlikeArray (array_args t 0 data))) else None
  | EMedia mt data =>
      if negb (utf8_valid mt && media_type_valid mt) then None else
      fwd1 (obind (notify_new_object cfg true c) (call_current cfg MArray (array_args AT_Media (blen data) data)))
  | ECustomBin ct data =>
      if negb (custom_type_ok ct) then None else
      fwd1 (obind (notify_new_object cfg true c) (call_current cfg MArray (array_args AT_CustomBinary (blen data) data)))
  | ECustomText ct data =>
      if negb (custom_type_ok ct) then None else
      fwd1 (obind (notify_new_object cfg true c) (call_current cfg MStringlikeArray (array_args AT_CustomText 0 data)))
  | EArrayBegin t =>
      if array_api_ok t then fwd1 (obind (notify_new_object cfg true c) (call_current cfg MArrayBegin (array_args t 0 []))) else None
  | EMediaBegin mt => if negb (utf8_valid mt && media_type_valid mt) then None else fwd1 (obind (notify_new_object cfg true c) (call_current cfg MArrayBegin (array_args AT_Media 0 [])))
  | ECustomBegin t ct =>
      if custom_api_ok t && custom_type_ok ct then fwd1 (obind (notify_new_object cfg true c) (call_current cfg MArrayBegin (array_args t 0 []))) else None
  | EArrayChunk n more => fwd1 (call_current cfg MArrayChunk
      {| a_dtype := 0; a_key := None; a_id := []; a_arrty := 0; a_count := n; a_data := []; a_version := 0; a_more := more |} c)
  | EArrayData d => fwd1 (call_current cfg MArrayData (array_args 0 0 d) c)
  | EList => fwd1 (simple cfg true MList c)
  | EMap => fwd1 (simple cfg true MMap c)
  | EEdge => fwd1 (simple cfg true MEdge c)
  | ENode => fwd1 (simple cfg true MNode c)
  | EEnd => fwd1 (call_current cfg MEnd no_args c)
  | ERecordType id =>
      fwd1 (obind (notify_new_object cfg false c) (fun c1 =>
            if validate_identifier cfg id then call_current cfg MRecordType (with_id id) c1 else None))
  | ERecord id =>
      fwd1 (obind (notify_new_object cfg true c) (fun c1 =>
            if validate_identifier cfg id then call_current cfg MRecord (with_id id) c1 else None))
  | EMarker id =>
      if validate_identifier cfg id
      then fwd1 (obind (notify_new_object cfg true c) (call_current cfg MMarker (with_id id))) else None
  | ERefLocal id =>
      if validate_identifier cfg id
      then fwd1 (obind (notify_new_object cfg true c) (call_current cfg MReferenceLocal (with_id id))) else None
  end.

(* Run a whole event list. Result: final context, forwarded events, and the
   index of the first rejected event (None when every event was accepted). *)
Fixpoint run_from (cfg : rcfg) (c : rctx) (i : N) (es : list event) (out : list event) : rctx * list event * option N :=
  match es with
  | [] => (c, out, None)
  | e :: r =>
    match rstep cfg c e with
    | Some (c1, o) => run_from cfg c1 (N.succ i) r (out ++ o)
    | None => (c, out, Some i)
    end
  end.
Definition run (cfg : rcfg) (es : list event) := run_from cfg init_rctx 0 es [].
Definition rejected_at (cfg : rcfg) (es : list event) : option N := snd (run cfg es).
Definition forwarded (cfg : rcfg) (es : list event) : list event := snd (fst (run cfg es)).
Definition accepts (cfg : rcfg) (es : list event) : bool :=
  match rejected_at cfg es with None => true | Some _ => false end.
(* a complete document: accepted and in the terminal state *)
Definition accepts_document (cfg : rcfg) (es : list event) : bool :=
  match run cfg es with
  | (c, _, None) => match e_rule (cur c) with RTerminal => true | _ => false end
  | _ => false
  end.

(* correspondence cases: event list, limits, observed index of first rejection (None = all accepted),
   and the events observed at the next receiver *)
Definition rules_case := (rcfg * list event * option N * list event)%type.
Definition rules_case_ok (k : rules_case) : bool :=
  let '(cfg, es, rej, out) := k in
  let '(_, o, r) := run cfg es in
  option_eqb N.eqb r rej && list_eqb event_eqb o out.

(* bounded-exhaustive correspondence: a prefix of alphabet indices that the implementation
   accepted, and the bit mask of alphabet events it accepts next *)
Definition exh_case := (list N * N)%type.
Fixpoint indexed_from {A} (i : N) (l : list A) : list (N * A) :=
  match l with [] => [] | x :: r => (i, x) :: indexed_from (N.succ i) r end.
Definition exh_case_ok (cfg : rcfg) (alphabet : list event) (k : exh_case) : bool :=
  let '(idxs, mask) := k in
  let es := map (fun i => nth (N.to_nat i) alphabet EPadding) idxs in
  match run cfg es with
  | (c, _, None) =>
      forallb (fun ie => Bool.eqb (match rstep cfg c (snd ie) with Some _ => true | None => false end)
                                  (N.testbit mask (fst ie)))
              (indexed_from 0 alphabet)
  | _ => false
  end.

(* The string-chunk validation of StringChunkRule.OnArrayData, isolated from the context:
   feed the data events of one chunk through StreamStringData, validating the two pieces it
   returns each time; the chunk is acceptable when no partial character is left at its end. *)
Fixpoint stream_fold (rem built : bytes) (ds : list bytes) : option (bytes * bytes) :=
  match ds with
  | [] => Some (built, rem)
  | d :: r =>
    match stream_string_data rem d with
    | None => None
    | Some (f, n, rem') =>
      if utf8_valid f && utf8_valid n then stream_fold rem' (built ++ f ++ n) r else None
    end
  end.
Definition stream_accepts (ds : list bytes) : bool :=
  match stream_fold [] [] ds with Some (_, []) => true | _ => false end.
