(* Syntax of the validator's dispatch matrix: rules, EventRule methods and the
   small statement language the method bodies of package rules are translated
   into by `vh gen` (Gen/RulesTable.v).  Semantics: Model/Rules.v. *)
From CE Require Export Model.Events.

(* one constructor per rule variable of rules/rules.go *)
Inductive rule :=
| RBeginDocument | REndDocument | RTerminal | RVersion | RTopLevel
| RList | RMapKey | RMapValue | RRecordType | RRecord
| RArray | RArrayChunk | RString | RStringChunk
| RMarkedObjectKeyable | RMarkedObjectAnyType
| RStringBuilder | RStringBuilderChunk
| REdgeSource | REdgeDescription | REdgeDestination | RNode | RAwaitEnd.

(* one constructor per method of the EventRule interface *)
Inductive meth :=
| MBeginDocument | MEndDocument | MChildContainerEnded | MVersion | MPadding | MComment
| MKeyableObject | MNonKeyableObject | MNull | MList | MMap | MRecordType | MRecord
| MEdge | MNode | MEnd | MMarker | MReferenceLocal | MArray | MStringlikeArray
| MArrayBegin | MArrayChunk | MArrayData.

Inductive mask := MaskAny | MaskNonNull | MaskKeyable | MaskMarkable | MaskString | MaskResourceID.

(* which data type a MarkObject call receives *)
Inductive dtsrc := DtArg | DtOfArrayType | DtNull.

Inductive prim :=
| PReject                                   (* wrongType(...) / panic *)
| PChangeRule (r : rule)                    (* ctx.ChangeRule(&r) *)
| PBeginList | PBeginMap | PBeginRecordType | PBeginRecord | PBeginEdge | PBeginNode
| PEndContainer (notify : bool)
| PBeginMarkerAnyType (m : mask) | PBeginMarkerKeyable (m : mask)
| PLocalReferenceAnyType | PLocalReferenceKeyable
| PValidateFullArrayAnyType | PValidateFullArrayStringlike
| PValidateFullArrayKeyable | PValidateFullArrayStringlikeKeyable
| PAssertArrayType (m : mask)
| PBeginArrayAnyType | PBeginArrayKeyable
| PNotifyKeyArg                             (* ctx.NotifyKey(key) *)
| PNotifyKeyFromArrayData                   (* switch arrayType { String: NotifyKey(string(data)); ResourceID: NotifyKey(rid(data)) } *)
| PNotifyKeyFromBuilt                       (* switch dataType { String: NotifyKey(built); ResourceID: NotifyKey(rid(built)) } *)
| PCheckVersion | PEndDocument
| PUnstackRule
| PForwardCurrent (m : meth)                (* ctx.CurrentEntry.Rule.<m>(same arguments) *)
| PForwardCurrentKeyableEmptyKey            (* ctx.CurrentEntry.Rule.OnKeyableObject(ctx, objType, "") *)
| PForwardParent (m : meth)                 (* ctx.ParentRule().<m>(same arguments) *)
| PMarkObject (s : dtsrc)
| PMarkContainer                            (* ctx.MarkContainer(containerType): markerID := CurrentEntry.MarkerID; MarkObject *)
| PArrayRuleChunk | PStringRuleChunk | PStringBuilderRuleChunk
| PArrayChunkRuleData | PStringChunkRuleData | PStringBuilderChunkRuleData.
