(* Specification-side vocabulary for the rules validator: orderings of configurations,
   resource-usage measures computed by independent folds over the event list (C14),
   marker / reference bookkeeping on event lists (C13), document shape (C10).
   Definitions only; the proofs are in Proofs/Rules*.v. *)
From CE Require Export Model.Rules.
Open Scope N_scope.

(* ---- configurations ---- *)
(* [cfg_le a b]: every limit of [b] is at least as generous as that of [a]
   (an array-size limit of 0 means "no limit"); same expected version. *)
Definition cfg_le (a b : rcfg) : Prop :=
  max_object_count a <= max_object_count b /\
  max_container_depth a <= max_container_depth b /\
  (max_array_size_bytes b = 0 \/ (0 < max_array_size_bytes a /\ max_array_size_bytes a <= max_array_size_bytes b)) /\
  max_identifier_length a <= max_identifier_length b /\
  max_local_reference_count a <= max_local_reference_count b /\
  expected_version a = expected_version b.

(* ---- usage measures ---- *)
Fixpoint count_if {A} (f : A -> bool) (l : list A) : N :=
  match l with [] => 0 | x :: r => (if f x then 1 else 0) + count_if f r end.

(* events that count as an object (the receiver calls NotifyNewObject): everything except the
   document frame, padding, comments, container ends and array chunk / data events.
   Record-type declarations count. *)
Definition counts_object (e : event) : bool :=
  match e with
  | EBeginDoc | EEndDoc | EVersion _ | EPadding | EComment _ _ | EEnd | EArrayChunk _ _ | EArrayData _ => false
  | _ => true
  end.
Definition object_usage (es : list event) : N := count_if counts_object es.

(* container nesting: lists, maps, edges, nodes, records and record types open a level
   (arrays and markers do not); the end-of-container event closes one *)
Definition depth_delta (e : event) : Z :=
  match e with
  | EList | EMap | EEdge | ENode | ERecord _ | ERecordType _ => 1
  | EEnd => -1
  | _ => 0
  end.
Definition depth_after (es : list event) : Z := fold_right (fun e z => (depth_delta e + z)%Z) 0%Z es.
(* the deepest nesting reached: maximum over all prefixes *)
Fixpoint depth_scan (d : Z) (es : list event) : Z :=
  match es with
  | [] => d
  | e :: r => Z.max d (depth_scan (d + depth_delta e) r)
  end.
Definition depth_usage (es : list event) : N := Z.to_N (depth_scan 0 es).

(* identifiers: of record types, records, markers and local references *)
Definition event_ident (e : event) : option bytes :=
  match e with
  | ERecordType id | ERecord id | EMarker id | ERefLocal id => Some id
  | _ => None
  end.
Definition ident_usage (es : list event) : N :=
  fold_right (fun e z => match event_ident e with Some id => N.max (blen id) z | None => z end) 0 es.

(* markers *)
Definition is_marker (e : event) : bool := match e with EMarker _ => true | _ => false end.
Definition marker_usage (es : list event) : N := count_if is_marker es.

(* arrays delivered in one event: the size of their data in bytes *)
Definition whole_array_bytes (e : event) : option N :=
  match e with
  | EArray _ _ d | EStringArray _ d | EMedia _ d | ECustomBin _ d | ECustomText _ d => Some (blen d)
  | _ => None
  end.
Definition whole_array_usage (es : list event) : N :=
  fold_right (fun e z => match whole_array_bytes e with Some n => N.max n z | None => z end) 0 es.

(* arrays delivered in pieces: chunk headers and chunk data *)
Definition is_chunk_event (e : event) : bool := match e with EArrayChunk _ _ | EArrayData _ => true | _ => false end.
Definition no_chunks (es : list event) : bool := forallb (fun e => negb (is_chunk_event e)) es.

(* [chunk_side cfg es]: either the configuration has no array-size limit, or the event list has no
   chunked arrays (the part of the array-size limit the exactness theorem does not cover) *)
Definition chunk_side (cfg : rcfg) (es : list event) : Prop := max_array_size_bytes cfg = 0 \/ no_chunks es = true.

(* chunked arrays: the bytes announced by the chunk headers of one array, summed the way the
   validator sums them (64-bit wrap-around included); the largest such sum *)
Definition chunk_bytes (t : arrty) (n : N) : N :=
  if is_stringlike_validated t then n
  else match array_bits t with Some b => elem_byte_count b n | None => 0 end.
Fixpoint chunked_scan (t : arrty) (total : N) (es : list event) : N :=
  match es with
  | [] => total
  | e :: r =>
    match e with
    | EArrayBegin t' => N.max total (chunked_scan t' 0 r)
    | EMediaBegin _ => N.max total (chunked_scan AT_Media 0 r)
    | ECustomBegin t' _ => N.max total (chunked_scan t' 0 r)
    | EArrayChunk n _ =>
        if n =? 0 then chunked_scan t total r
        else N.max total (chunked_scan t ((total + chunk_bytes t n) mod two64) r)
    | _ => chunked_scan t total r
    end
  end.
Definition chunked_array_usage (es : list event) : N := chunked_scan 0 0 es.

(* the configuration whose object, depth, identifier and marker limits are exactly the usage of [es] *)
Definition usage_cfg (cfg : rcfg) (es : list event) : rcfg :=
  {| max_object_count := object_usage es; max_container_depth := depth_usage es;
     max_array_size_bytes := max_array_size_bytes cfg; max_identifier_length := ident_usage es;
     max_local_reference_count := marker_usage es; expected_version := expected_version cfg |}.

(* the usage of an event list is within the limits of a configuration *)
Definition within_limits (cfg : rcfg) (es : list event) : Prop :=
  object_usage es <= max_object_count cfg /\
  depth_usage es <= max_container_depth cfg /\
  length_ok cfg (whole_array_usage es) = true /\
  ident_usage es <= max_identifier_length cfg /\
  marker_usage es <= max_local_reference_count cfg.

(* ---- markers and references on event lists (C13) ---- *)
Definition marker_ids (es : list event) : list bytes :=
  flat_map (fun e => match e with EMarker id => [id] | _ => [] end) es.
Definition is_padding (e : event) : bool := match e with EPadding => true | _ => false end.
(* events that may not follow a marker *)
Definition not_markable_event (e : event) : bool :=
  match e with EMarker _ | ERefLocal _ | ERecordType _ => true | _ => false end.

(* observations of the model state after an accepted event list *)
Definition state_after (cfg : rcfg) (es : list event) : option rctx :=
  match run cfg es with (c, _, None) => Some c | _ => None end.
Definition rule_in_force (cfg : rcfg) (es : list event) : option rule :=
  match state_after cfg es with Some c => Some (e_rule (cur c)) | None => None end.
Definition marked_type (cfg : rcfg) (es : list event) (id : bytes) : option N :=
  match state_after cfg es with Some c => alookup id (marked c) | None => None end.
Definition container_depth (cfg : rcfg) (es : list event) : option N :=
  match state_after cfg es with Some c => Some (depth c) | None => None end.

(* ------------------------------------------------------------------------- *)
(* Document trees (C10 c)                                                     *)
(* ------------------------------------------------------------------------- *)
(* The fragment WITHOUT chunked arrays, media and custom types, and without markers or references in
   map-key position: scalars, arrays delivered whole, lists, maps with scalar or string keys, nodes, edges
   with three components, records of declared arity, markers on any of these (nested markers included) and
   local references (backward and forward) in value position; padding and comments wherever the validator
   allows them; record types before the single top-level value. *)
Inductive trivia := TPad | TComment (multi : bool) (text : bytes).
Definition trivia_event (t : trivia) : event :=
  match t with TPad => EPadding | TComment m x => EComment m x end.

Inductive val :=
| VLeaf (e : event)                                  (* a value delivered in one event *)
| VT (t : trivia) (v : val)                          (* padding / a comment before a value *)
| VList (items : list val) (close : list trivia)
| VMap (entries : list (list trivia * event * val)) (close : list trivia)   (* trivia, key, value *)
| VNode (v : val) (items : list val) (close : list trivia)
| VEdge (src desc dst : val) (close : list trivia)
| VRecord (id : bytes) (fields : list val) (close : list trivia)
| VMarked (id : bytes) (pads : nat) (v : val)        (* a marker, padding events, the marked value *)
| VRef (id : bytes)                                  (* a local reference *)
| VChunked (b : event) (chunks : list (list (bool * bytes) * N * bool * list bytes)).
    (* an array delivered in chunks: the begin event (EArrayBegin / EMediaBegin / ECustomBegin), then for every
       chunk the comments before it, its declared length, its more-chunks-follow flag and the payloads of its data
       events *)

Definition comment_event (x : bool * bytes) : event := EComment (fst x) (snd x).
Definition chunk_events (ch : list (bool * bytes) * N * bool * list bytes) : list event :=
  let '(cm, n, more, ds) := ch in map comment_event cm ++ EArrayChunk n more :: map EArrayData ds.

Fixpoint flatten (v : val) : list event :=
  match v with
  | VLeaf e => [e]
  | VT t v => trivia_event t :: flatten v
  | VList items close => EList :: flat_map flatten items ++ map trivia_event close ++ [EEnd]
  | VMap entries close =>
      EMap :: flat_map (fun en => let '(tv, k, v) := en in map trivia_event tv ++ k :: flatten v) entries
           ++ map trivia_event close ++ [EEnd]
  | VNode v items close => ENode :: flatten v ++ flat_map flatten items ++ map trivia_event close ++ [EEnd]
  | VEdge s d t close => EEdge :: flatten s ++ flatten d ++ flatten t ++ map trivia_event close ++ [EEnd]
  | VRecord id fields close => ERecord id :: flat_map flatten fields ++ map trivia_event close ++ [EEnd]
  | VMarked id pads v => EMarker id :: repeat EPadding pads ++ flatten v
  | VRef id => [ERefLocal id]
  | VChunked b chunks => b :: flat_map chunk_events chunks
  end.

(* nesting depth *)
Definition list_max (l : list N) : N := fold_right N.max 0 l.
Fixpoint height (v : val) : N :=
  match v with
  | VLeaf _ => 0
  | VT _ v => height v
  | VList items _ => 1 + list_max (map height items)
  | VMap entries _ => 1 + list_max (map (fun en => let '(_, _, v) := en in height v) entries)
  | VNode v items _ => 1 + N.max (height v) (list_max (map height items))
  | VEdge s d t _ => 1 + N.max (height s) (N.max (height d) (height t))
  | VRecord _ fields _ => 1 + list_max (map height fields)
  | VMarked _ _ v => height v
  | VRef _ => 0
  | VChunked _ _ => 0
  end.

Definition is_null_event (e : event) : bool :=
  match e with ENull | EBigInt None | EBigFloat None | EBigDecimal None => true | _ => false end.

(* positions of a value: plain (top level, list item, map value, record field, edge destination aside), edge
   source (no null, array type must be non-null), edge description and first child of a node (array type checked
   against the any-mask), edge destination (no null) *)
Inductive vpos := PPlain | PSrc | PDesc | PDst.
Definition null_ok (p : vpos) : bool := match p with PSrc | PDst => false | _ => true end.
Definition arr_guard (p : vpos) (t : arrty) : bool :=
  match p with
  | PSrc => assert_array_type t Allow_NonNull
  | PDesc => assert_array_type t Allow_Any
  | _ => true
  end.

(* values delivered in one event: scalars, and arrays that pass the validator's full-array checks at that position *)
Definition leaf_ok (cfg : rcfg) (p : vpos) (e : event) : bool :=
  match e with
  | ENull | EBool _ | ETrue | EFalse | EPosInt _ | ENegInt _ | EInt _ | EBigInt _
  | EFloat _ | EBigFloat _ | EDecimal _ | EBigDecimal _ | ENan _ | EUid _ => true
  | ETime s => time_token_valid s   (* a valid time value *)
  | EArray t n d => array_api_ok t && validate_full_array_any cfg t n d && arr_guard p t
  | EStringArray t d => array_api_ok t && validate_full_array_stringlike cfg t d && arr_guard p t
  (* media and custom arrays delivered in one event: a valid media type / custom type code *)
  | EMedia mt d => utf8_valid mt && media_type_valid mt && validate_full_array_any cfg AT_Media (blen d) d && arr_guard p AT_Media
  | ECustomBin ct d => custom_type_ok ct && validate_full_array_any cfg AT_CustomBinary (blen d) d && arr_guard p AT_CustomBinary
  | ECustomText ct d => custom_type_ok ct && validate_full_array_stringlike cfg AT_CustomText d && arr_guard p AT_CustomText
  | _ => false
  end.
Definition leaf_wf (cfg : rcfg) (p : vpos) (e : event) : bool :=
  leaf_ok cfg p e && (null_ok p || negb (is_null_event e)).

(* map keys and record-type field names: keyable scalars and whole strings / resource ids (as string-like or
   as plain array events) *)
Definition key_of (e : event) : option rawkey :=
  match e with
  | EBool b => Some (RkBool b) | ETrue => Some (RkBool true) | EFalse => Some (RkBool false)
  | EPosInt n => Some (RkUint64 n) | ENegInt n => Some (RkNegint n) | EInt z => Some (RkInt64 z)
  | EBigInt (Some z) => Some (RkBigInt z)
  | EUid b => Some (RkBytes b) | ETime s => Some (RkTime s)
  | EStringArray t d | EArray t _ d =>
      if t =? AT_String then Some (RkString d) else if t =? AT_ResourceID then Some (RkRid d) else None
  | _ => None
  end.
Definition key_ok (cfg : rcfg) (e : event) : bool :=
  match key_of e with
  | Some _ =>
      match e with
      | EStringArray t d => validate_full_array_stringlike cfg t d
      | EArray t n d => validate_full_array_any cfg t n d
      | ETime s => time_token_valid s
      | _ => true
      end
  | None => false
  end.
Definition nkey_of (e : event) : option nkey := option_map norm_key (key_of e).
(* pairwise distinct after NotifyKey's normalisation (C12: i.e. pairwise distinct values) *)
Fixpoint nkeys_distinct (ks : list (option nkey)) : bool :=
  match ks with
  | [] => true
  | None :: _ => false
  | Some k :: r => negb (existsb (fun x => match x with Some k' => nkey_eqb k k' | None => false end) r) && nkeys_distinct r
  end.

(* ---- arrays delivered in chunks ---- *)
(* the array type a begin event announces, if the event is acceptable at all *)
Definition chunked_type (b : event) : option arrty :=
  match b with
  | EArrayBegin t => if array_api_ok t then Some t else None
  | EMediaBegin mt => if utf8_valid mt && media_type_valid mt then Some AT_Media else None
  | ECustomBegin t ct => if custom_api_ok t && custom_type_ok ct then Some t else None
  | _ => None
  end.
(* the bytes a chunk of [n] elements announces: [n] for the string-like types, otherwise the element count times
   the element size, computed as the implementation does (64-bit wrap-around) *)
Definition chunk_byte_count (t : arrty) (n : N) : option N :=
  if is_stringlike_validated t then Some n
  else match array_bits t with Some bits => Some (elem_byte_count bits n) | None => None end.
(* the data events of a chunk deliver exactly the announced bytes, and not before the last one; [a] = the bytes
   already delivered *)
Fixpoint data_completes (ex a : N) (ds : list bytes) : bool :=
  match ds with
  | [] => false
  | d :: r => let a' := a + blen d in
              if a' =? ex then match r with [] => true | _ => false end else (a' <? ex) && data_completes ex a' r
  end.
(* the chunks of an array of type [t]; [total] = the bytes announced so far (modulo 2^64, as counted by the
   implementation).  A chunk of length 0 has no data events; every other chunk's data events deliver the
   announced bytes, which for the string-like types are valid UTF-8 on their own (every chunk ends on a character
   boundary); the running total stays within the array size limit; the more flag is set on all chunks but the last;
   comments may stand before a chunk, except in the string-like arrays *)
Fixpoint chunks_ok (cfg : rcfg) (t : arrty) (total : N) (chs : list (list (bool * bytes) * N * bool * list bytes)) : bool :=
  match chs with
  | [] => false
  | (cm, n, more, ds) :: r =>
      let tail_ok tot := if more then chunks_ok cfg t tot r else match r with [] => true | _ => false end in
      (* comments between the chunks: not in the string-like arrays *)
      (if is_stringlike_validated t then match cm with [] => true | _ => false end else true) &&
      if n =? 0 then match ds with [] => tail_ok total | _ => false end
      else match chunk_byte_count t n with
           | None => false
           | Some ex =>
               let tot := (total + ex) mod two64 in
               length_ok cfg tot && data_completes ex 0 ds &&
               (if is_stringlike_validated t then utf8_valid (concat ds) else true) && tail_ok tot
           end
  end.
Definition chunked_ok (cfg : rcfg) (p : vpos) (b : event) (chs : list (list (bool * bytes) * N * bool * list bytes)) : bool :=
  match chunked_type b with
  | Some t => match array_dtype t with Some _ => true | None => false end && arr_guard p t && chunks_ok cfg t 0 chs
  | None => false
  end.

(* what a marker can be put on directly: not trivia, not a marker, not a reference; arrays of a markable type *)
Definition markable (v : val) : bool :=
  match v with
  | VLeaf (EArray t _ _) | VLeaf (EStringArray t _) => assert_array_type t Allow_Markable
  | VLeaf (EMedia _ _) => assert_array_type AT_Media Allow_Markable
  | VLeaf (ECustomBin _ _) => assert_array_type AT_CustomBinary Allow_Markable
  | VLeaf (ECustomText _ _) => assert_array_type AT_CustomText Allow_Markable
  | VChunked b _ => match chunked_type b with Some t => assert_array_type t Allow_Markable | None => false end
  | VT _ _ | VMarked _ _ _ | VRef _ => false
  | _ => true
  end.

(* [wf_val cfg rts p v]: [rts] = the declared record types (name -> arity); [p] = the position of the value *)
Fixpoint wf_val (cfg : rcfg) (rts : list (bytes * N)) (p : vpos) (v : val) : bool :=
  match v with
  | VLeaf e => leaf_wf cfg p e
  | VT _ v => wf_val cfg rts p v
  | VList items _ => forallb (wf_val cfg rts PPlain) items
  | VMap entries _ =>
      forallb (fun en => let '(_, k, v) := en in key_ok cfg k && wf_val cfg rts PPlain v) entries &&
      nkeys_distinct (map (fun en => let '(_, k, _) := en in nkey_of k) entries)
  | VNode v items _ => wf_val cfg rts PDesc v && forallb (wf_val cfg rts PPlain) items
  | VEdge s d t _ => wf_val cfg rts PSrc s && wf_val cfg rts PDesc d && wf_val cfg rts PDst t
  | VRecord id fields _ =>
      validate_identifier cfg id &&
      match alookup id rts with Some n => N.of_nat (length fields) =? n | None => false end &&
      forallb (wf_val cfg rts PPlain) fields
  | VMarked id _ v => validate_identifier cfg id && markable v && wf_val cfg rts p v
  | VRef id => validate_identifier cfg id
  | VChunked b chs => chunked_ok cfg p b chs
  end.

(* The marker / reference bookkeeping of a value, on sets of identifiers: [fst st] = the ids marked so far,
   [snd st] = the ids referenced but not yet marked.  A marker is registered when its value is complete; its id
   must be new.  None = a marker id is used twice. *)
Definition id_mem (id : bytes) (l : list bytes) : bool := existsb (bytes_eqb id) l.
Definition id_remove (id : bytes) (l : list bytes) : list bytes := filter (fun x => negb (bytes_eqb x id)) l.
Fixpoint reg_val (v : val) (st : list bytes * list bytes) : option (list bytes * list bytes) :=
  let reg_items :=
    fix go (l : list val) (s : list bytes * list bytes) : option (list bytes * list bytes) :=
      match l with
      | [] => Some s
      | x :: r => match reg_val x s with Some s1 => go r s1 | None => None end
      end in
  match v with
  | VLeaf _ => Some st
  | VT _ v => reg_val v st
  | VList items _ => reg_items items st
  | VMap entries _ =>
      (fix go (l : list (list trivia * event * val)) (s : list bytes * list bytes) : option (list bytes * list bytes) :=
         match l with
         | [] => Some s
         | en :: r => match reg_val (snd en) s with Some s1 => go r s1 | None => None end
         end) entries st
  | VNode v items _ => match reg_val v st with Some s => reg_items items s | None => None end
  | VEdge s d t _ =>
      match reg_val s st with
      | Some s1 => match reg_val d s1 with Some s2 => reg_val t s2 | None => None end
      | None => None
      end
  | VRecord _ fields _ => reg_items fields st
  | VMarked id _ v =>
      match reg_val v st with
      | Some (mk, fw) => if id_mem id mk then None else Some (id :: mk, id_remove id fw)
      | None => None
      end
  | VRef id => let '(mk, fw) := st in if id_mem id mk || id_mem id fw then Some st else Some (mk, id :: fw)
  | VChunked _ _ => Some st
  end.
(* the same over a list of values *)
Fixpoint reg_list (vs : list val) (st : list bytes * list bytes) : option (list bytes * list bytes) :=
  match vs with
  | [] => Some st
  | x :: r => match reg_val x st with Some s1 => reg_list r s1 | None => None end
  end.
(* a reference cannot be the top-level value *)
Fixpoint top_ok (v : val) : bool :=
  match v with VT _ v => top_ok v | VRef _ => false | _ => true end.

(* documents: record types (and trivia) first, then the one top-level value *)
Inductive top_item :=
| TopTrivia (t : trivia)
| TopRecType (id : bytes) (fields : list (list trivia * event)) (close : list trivia).   (* trivia, field name *)
Record doc := { d_pre : list top_item; d_top : val }.

Definition flatten_top (it : top_item) : list event :=
  match it with
  | TopTrivia t => [trivia_event t]
  | TopRecType id fields close =>
      ERecordType id :: flat_map (fun f => map trivia_event (fst f) ++ [snd f]) fields ++ map trivia_event close ++ [EEnd]
  end.
Definition flatten_doc (cfg : rcfg) (d : doc) : list event :=
  EBeginDoc :: EVersion (expected_version cfg) :: flat_map flatten_top (d_pre d) ++ flatten (d_top d) ++ [EEndDoc].

(* the record types declared by the items, or None when a declaration is ill-formed *)
Fixpoint declare (cfg : rcfg) (rts : list (bytes * N)) (pre : list top_item) : option (list (bytes * N)) :=
  match pre with
  | [] => Some rts
  | TopTrivia _ :: r => declare cfg rts r
  | TopRecType id fields _ :: r =>
      if validate_identifier cfg id && forallb (fun f => key_ok cfg (snd f)) fields &&
         nkeys_distinct (map (fun f => nkey_of (snd f)) fields) &&
         match alookup id rts with None => true | Some _ => false end
      then declare cfg (aset id (N.of_nat (length fields)) rts) r
      else None
  end.
Definition wf_doc (cfg : rcfg) (d : doc) : bool :=
  match declare cfg [] (d_pre d) with
  | Some rts =>
      wf_val cfg rts PPlain (d_top d) && top_ok (d_top d) &&
      match reg_val (d_top d) ([], []) with Some (_, []) => true | _ => false end   (* marker ids distinct, every reference resolved *)
  | None => false
  end.
Definition doc_height (d : doc) : N :=
  N.max (height (d_top d)) (if existsb (fun it => match it with TopRecType _ _ _ => true | _ => false end) (d_pre d) then 1 else 0).

(* the (array type, announced bytes) pair a chunked array is in after an event *)
Definition chunk_step (e : event) (st : arrty * N) : arrty * N :=
  match e with
  | EArrayBegin t' => (t', 0)
  | EMediaBegin _ => (AT_Media, 0)
  | ECustomBegin t' _ => (t', 0)
  | EArrayChunk n _ => (fst st, if n =? 0 then snd st else (snd st + chunk_bytes (fst st) n) mod two64)
  | _ => st
  end.
Definition chunk_state (st : arrty * N) (es : list event) : arrty * N := fold_left (fun s e => chunk_step e s) es st.

(* all six measures *)
Definition within_limits_full (cfg : rcfg) (es : list event) : Prop :=
  within_limits cfg es /\ length_ok cfg (chunked_array_usage es) = true.

(* the events of the tree grammar [doc]: all *)
Definition grammar_event (e : event) : bool := true.
Definition in_grammar (es : list event) : bool := forallb grammar_event es.
Definition is_array_begin (e : event) : bool :=
  match e with EArrayBegin _ | EMediaBegin _ | ECustomBegin _ _ => true | _ => false end.
Definition is_marker_or_ref (e : event) : bool := match e with EMarker _ | ERefLocal _ => true | _ => false end.
(* the events that cannot stand for a key on their own: markers, references, the begin of an array in chunks *)
Definition not_a_plain_key (e : event) : bool := is_marker_or_ref e || is_array_begin e.
(* ... the others *)
Definition plain_event (e : event) : bool := negb (not_a_plain_key e).
(* event lists without markers, references and arrays in chunks *)
Definition in_fragment (es : list event) : bool := forallb plain_event es.
(* keys are plain: where the validator expects a map key or a field name of a record type (the rule in force
   after the events before is the map-key rule / the record-type rule) there is no marker, no reference and no
   array delivered in chunks *)
Definition plain_keys_only (cfg : rcfg) (es : list event) : Prop :=
  forall p e tl, es = p ++ e :: tl -> not_a_plain_key e = true ->
    rule_in_force cfg p <> Some RMapKey /\ rule_in_force cfg p <> Some RRecordType.
(* the same, decided along the run *)
Fixpoint plain_keys_from (cfg : rcfg) (c : rctx) (es : list event) : bool :=
  match es with
  | [] => true
  | e :: r =>
      negb (not_a_plain_key e && match e_rule (cur c) with RMapKey | RRecordType => true | _ => false end) &&
      match rstep cfg c e with Some (c1, _) => plain_keys_from cfg c1 r | None => true end
  end.
Definition plain_keys_onlyb (cfg : rcfg) (es : list event) : bool := plain_keys_from cfg init_rctx es.
