(* Specification-side vocabulary for the rules validator: orderings of configurations,
   resource-usage measures computed by independent folds over the event list (C14),
   marker / reference bookkeeping on event lists (C13), document shape (C10).
   Definitions only; the proofs are in Proofs/Rules*.v. *)
From CE Require Export Model.Rules.
Open Scope N_scope.

(* ---- configurations ---- *)
(* [cfg_le a b]: every limit of [b] is at least as generous as that of [a]
   (an array-size limit of 0 means "no limit"); same expected version. *)
Definition cfg_le (a b : rcfg) : Prop :=
  max_object_count a <= max_object_count b /\
  max_container_depth a <= max_container_depth b /\
  (max_array_size_bytes b = 0 \/ (0 < max_array_size_bytes a /\ max_array_size_bytes a <= max_array_size_bytes b)) /\
  max_identifier_length a <= max_identifier_length b /\
  max_local_reference_count a <= max_local_reference_count b /\
  expected_version a = expected_version b.

(* ---- usage measures ---- *)
Fixpoint count_if {A} (f : A -> bool) (l : list A) : N :=
  match l with [] => 0 | x :: r => (if f x then 1 else 0) + count_if f r end.

(* events that count as an object (the receiver calls NotifyNewObject): everything except the
   document frame, padding, comments, container ends and array chunk / data events.
   Record-type declarations count. *)
Definition counts_object (e : event) : bool :=
  match e with
  | EBeginDoc | EEndDoc | EVersion _ | EPadding | EComment _ _ | EEnd | EArrayChunk _ _ | EArrayData _ => false
  | _ => true
  end.
Definition object_usage (es : list event) : N := count_if counts_object es.

(* container nesting: lists, maps, edges, nodes, records and record types open a level
   (arrays and markers do not); the end-of-container event closes one *)
Definition depth_delta (e : event) : Z :=
  match e with
  | EList | EMap | EEdge | ENode | ERecord _ | ERecordType _ => 1
  | EEnd => -1
  | _ => 0
  end.
Definition depth_after (es : list event) : Z := fold_right (fun e z => (depth_delta e + z)%Z) 0%Z es.
(* the deepest nesting reached: maximum over all prefixes *)
Fixpoint depth_scan (d : Z) (es : list event) : Z :=
  match es with
  | [] => d
  | e :: r => Z.max d (depth_scan (d + depth_delta e) r)
  end.
Definition depth_usage (es : list event) : N := Z.to_N (depth_scan 0 es).

(* identifiers: of record types, records, markers and local references *)
Definition event_ident (e : event) : option bytes :=
  match e with
  | ERecordType id | ERecord id | EMarker id | ERefLocal id => Some id
  | _ => None
  end.
Definition ident_usage (es : list event) : N :=
  fold_right (fun e z => match event_ident e with Some id => N.max (blen id) z | None => z end) 0 es.

(* markers *)
Definition is_marker (e : event) : bool := match e with EMarker _ => true | _ => false end.
Definition marker_usage (es : list event) : N := count_if is_marker es.

(* arrays delivered in one event: the size of their data in bytes *)
Definition whole_array_bytes (e : event) : option N :=
  match e with
  | EArray _ _ d | EStringArray _ d | EMedia _ d | ECustomBin _ d | ECustomText _ d => Some (blen d)
  | _ => None
  end.
Definition whole_array_usage (es : list event) : N :=
  fold_right (fun e z => match whole_array_bytes e with Some n => N.max n z | None => z end) 0 es.

(* arrays delivered in pieces: chunk headers and chunk data *)
Definition is_chunk_event (e : event) : bool := match e with EArrayChunk _ _ | EArrayData _ => true | _ => false end.
Definition no_chunks (es : list event) : bool := forallb (fun e => negb (is_chunk_event e)) es.

(* the usage of an event list is within the limits of a configuration *)
Definition within_limits (cfg : rcfg) (es : list event) : Prop :=
  object_usage es <= max_object_count cfg /\
  depth_usage es <= max_container_depth cfg /\
  length_ok cfg (whole_array_usage es) = true /\
  ident_usage es <= max_identifier_length cfg /\
  marker_usage es <= max_local_reference_count cfg.
