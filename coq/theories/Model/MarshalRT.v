(* C04 - marshal then unmarshal: the typed object builder behind ce.UnmarshalFrom*Document
   (template of a given Go type), and the forms in which the events of the marshaler reach it.

   Model of
     builder/session.go             defaultBuilderGeneratorForType ([gtype]: which builder a type gets)
     builder/builder_event_rcv.go   the receiver: routing of the integer / NaN events, chunked arrays
     builder/context.go             builder stack, BeginArray / BeginArrayChunk / AddArrayData
     builder/builder_top_level.go, builder_bool.go, builder_numeric.go, builder_typed_array.go
       (string, typed slices and arrays, media), builder_slice.go, builder_array.go, builder_map.go,
       builder_ptr.go, builder_struct.go, builder_time.go, builder_rid.go, builder_interface.go,
       builder_node.go, builder_edge.go, generated-do-not-edit.go (the methods that panic)
     builder/conversions.go, conversions/conversions.go   the set*From* functions reached from the
       events a marshaled value can produce
   written from the code as it is on /repo (defects included).  Definitions only.

   Universe.  Go values are the [gval] of Model/Iterate.v (the marshaler's view of a value).  Go types
   are [gtype]: one constructor per choice of defaultBuilderGeneratorForType (the harness classifies a
   reflect.Type exactly as that switch does).  The builder's result is again a [gval] (addresses 0,
   IsZero flags false: [veq] ignores both).

   The machine.  A stack of frames, one per Builder on Context.builderStack; an event reaches the
   receiver, is routed ([event_scalar]) and handed to the builder on top, which converts it for the
   type of its next slot ([conv]) and stores it ([deliver]); container events push the builders
   chosen by the slot type ([begin_cont]); an end-container event pops and notifies the parent
   ([deliver] again: NotifyChildContainerFinished).  Arrays delivered in chunks are reassembled in
   the context and replayed as one OnArray / BuildFromMedia call.

   Outcomes: a step succeeds, panics ([ROk]/[RPanic]) or leaves the model ([ROut]).  Outside the
   model (always reported as such, never guessed): markers, references, record types and records,
   custom types; struct keys that are not strings or that no field answers to (ignore builders:
   C21); two struct fields whose identifiers coincide (Go map order decides); numeric conversions
   that a marshaled value of the destination type cannot trigger (float or decimal into an integer,
   rounding conversions: C19); Null or a string key delivered to a slot of type Node / Edge / struct
   inside a slice, array or map element position (the fresh builder pushes builders on the stack);
   NaN payloads (all NaNs of a width are one value here).

   External libraries are Section variables: [url_conv] = net/url Parse then String;
   [time_conv] = compact_time AsGoTime then AsCompactTime(..).String(); [dec_bigfloat] /
   [bigdec_bigfloat] = DFloat.BigFloat / conversions.BigDecimalFloatToBigFloat on finite values.
   The case checker instantiates them with the finite tables observed on the implementation.

   [cbe_form]: the events the builder receives for one event of the marshaler when the document
   goes through the CBE encoder, the CBE decoder and the validator (explicit normalisation; it is
   proved equal to RulesPassthrough.nn after CbeProofs.norm_event in Proofs/MarshalRTProofs.v,
   and compared with the implementation on every CBE correspondence case). *)
From CE Require Import Model.Cbe.
From CE Require Export Model.Iterate.
Open Scope N_scope.

(* ------------------------------------------------------------------------- *)
(* Types                                                                      *)

Inductive width := W8 | W16 | W32 | W64.      (* int and uint are 64 bits wide *)

Inductive gtype :=
| TBool | TInt (w : width) | TUint (w : width) | TF32 | TF64 | TString
| TNumSlice (k : akind) (assignable : bool)
      (* []uint8 .. []float64 by element KIND; assignable = false: the element type is a named
         type (e.g. []time.Duration), reflect.Set of the []int64 built is refused *)
| TNumArr (k : akind) (n : N)                 (* [n]uint8 .. [n]float64 *)
| TSlice (e : gtype)                          (* any other slice: sliceBuilder.  []int, []uint, []bool are here *)
| TArr (n : N) (e : gtype)                    (* any other array: arrayBuilder *)
| TMap (k v : gtype)
| TPtr (e : gtype)                            (* ptrBuilder *)
| TStruct (sid : N) (fields : list (finfo * gtype))   (* every field, in declaration order *)
| TIface
| TTime | TCTime | TUrl | TPUrl | TBigInt | TPBigInt | TBigFloat | TPBigFloat | TBigDec | TPBigDec
| TDFloat | TUid | TMedia | TNode | TEdge.

Definition width_eqb (a b : width) : bool :=
  match a, b with W8, W8 | W16, W16 | W32, W32 | W64, W64 => true | _, _ => false end.
Definition akind_eqb (a b : akind) : bool :=
  match a, b with
  | AU8, AU8 | AU16, AU16 | AU32, AU32 | AU64, AU64 | AI8, AI8 | AI16, AI16 | AI32, AI32 | AI64, AI64
  | AF32, AF32 | AF64, AF64 => true
  | _, _ => false
  end.

Definition wbits (w : width) : Z := match w with W8 => 8 | W16 => 16 | W32 => 32 | W64 => 64 end%Z.
Definition fits_int (w : width) (z : Z) : bool := ((- 2 ^ (wbits w - 1) <=? z) && (z <? 2 ^ (wbits w - 1)))%Z.
Definition fits_uint (w : width) (n : N) : bool := (Z.of_N n <? 2 ^ wbits w)%Z.

(* the element type of a typed-array builder *)
Definition elem_type (k : akind) : gtype :=
  match k with
  | AU8 => TUint W8 | AU16 => TUint W16 | AU32 => TUint W32 | AU64 => TUint W64
  | AI8 => TInt W8 | AI16 => TInt W16 | AI32 => TInt W32 | AI64 => TInt W64
  | AF32 => TF32 | AF64 => TF64
  end.
(* the array kind the ITERATOR uses for a slice / array of this element type *)
Definition akind_of_elem (e : gtype) : option akind :=
  match e with
  | TUint W8 => Some AU8 | TUint W16 => Some AU16 | TUint W32 => Some AU32 | TUint W64 => Some AU64
  | TInt W8 => Some AI8 | TInt W16 => Some AI16 | TInt W32 => Some AI32 | TInt W64 => Some AI64
  | TF32 => Some AF32 | TF64 => Some AF64
  | _ => None
  end.

(* ------------------------------------------------------------------------- *)
(* Library constants                                                          *)

Definition zero_time_text : bytes :=           (* compact_time.AsCompactTime(time.Time{}).String() *)
  [49;45;48;49;45;48;49;47;48;48;58;48;48;58;48;48].   (* "1-01-01/00:00:00" *)
Definition zero_ctime_text : bytes :=          (* compact_time.Time{}.String() *)
  [60;122;101;114;111;32;116;105;109;101;32;118;97;108;117;101;62].   (* "<zero time value>" *)
Definition nan32 : N := 0x7fc00000.
Definition nan64 : N := 0x7ff8000000000001.
Definition neg_zero64 : N := 0x8000000000000000.
Definition max_i64 : N := 9223372036854775807.
Definition bquiet_nan_bits : N := 0x7ffc000000000000.       (* common.Float64QuietNan *)
Definition bsignaling_nan_bits : N := 0x7ff4000000000000.   (* common.Float64SignalingNan *)

(* ------------------------------------------------------------------------- *)
(* Values                                                                     *)

Definition is_optr_elem (e : gtype) : bool := match e with TTime | TCTime => true | _ => false end.
(* a non-nil pointer, in the marshaler's representation *)
Definition mk_ptr (e : gtype) (v : gval) : gval := if is_optr_elem e then VOPtr v else VPtr 0 v.

Definition num_of (v : gval) : Z :=
  match v with VInt z => z | VUint n => Z.of_N n | VF32 w => Z.of_N w | VF64 b => Z.of_N b | _ => 0%Z end.
Definition bool_of (v : gval) : bool := match v with VBool b => b | _ => false end.

(* a slice (sk = SSlice / SNil) or array (SArr) of element type e holding elems *)
Definition mk_seq (sk : skind) (e : gtype) (elems : list gval) : gval :=
  match akind_of_elem e with
  | Some k => VNum sk k (map num_of elems)
  | None =>
      match e with
      | TBool => VBools sk (map bool_of elems)
      | _ => match sk with
             | SNil => VNilSlice
             | SSlice => VSlice 0 elems
             | SArr => VArray elems
             end
      end
  end.

Definition zero_num (k : akind) : gval :=
  match elem_type k with TInt _ => VInt 0 | TUint _ => VUint 0 | TF32 => VF32 0 | _ => VF64 0 end.

Fixpoint zero_of (t : gtype) : gval :=
  match t with
  | TBool => VBool false
  | TInt _ => VInt 0
  | TUint _ => VUint 0
  | TF32 => VF32 0
  | TF64 => VF64 0
  | TString => VString []
  | TNumSlice k _ => VNum SNil k []
  | TNumArr k n => VNum SArr k (repeat 0%Z (N.to_nat n))
  | TSlice e => mk_seq SNil e []
  | TArr n e => mk_seq SArr e (repeat (zero_of e) (N.to_nat n))
  | TMap _ _ => VNilMap
  | TPtr _ | TPUrl | TPBigInt | TPBigFloat | TPBigDec => VNilPtr
  | TStruct sid fs =>
      VStruct sid ((fix go (fs : list (finfo * gtype)) : list (finfo * gval) :=
                      match fs with [] => [] | (i, ft) :: r => (i, zero_of ft) :: go r end) fs)
  | TIface => VNilIface
  | TTime => VTime true zero_time_text
  | TCTime => VTime true zero_ctime_text
  | TUrl => VUrl true []
  | TBigInt => VBigInt true 0
  | TBigFloat => VBigFloat true (BFin false 0 0 0)
  | TBigDec => VBigDec true (DFin false 0 0)
  | TDFloat => VDFloat true (DFin false 0 0)
  | TUid => VUid (repeat 0 16)
  | TMedia => VMedia true [] []
  | TNode => VNode VNilIface VNilSlice
  | TEdge => VEdge VNilIface VNilIface VNilIface
  end.

(* ------------------------------------------------------------------------- *)
(* What an event delivers to the builder on top of the stack                  *)

Inductive bscalar :=
| BNull | BBool (b : bool) | BInt (z : Z) | BUint (n : N) | BBigInt (z : Z)
| BFloat (bits : N) | BBigFloat (f : bigfloat) | BDec (d : dfloat) | BBigDec (d : dfloat)
| BUid (b : bytes)
| BArr (t : arrty) (data : bytes)       (* BuildFromArray *)
| BStr (t : arrty) (data : bytes)       (* BuildFromStringlikeArray *)
| BMedia (mt data : bytes) | BTime (s : bytes).

(* BuilderEventReceiver.OnXxx.  None: not a value event, or outside the model (custom types, nil
   big numbers, which the validator turns into Null before the builder sees them) *)
Definition event_scalar (e : event) : option bscalar :=
  match e with
  | ENull => Some BNull
  | EBool b => Some (BBool b)
  | ETrue => Some (BBool true)
  | EFalse => Some (BBool false)
  | EPosInt n => Some (BUint n)
  | ENegInt n => Some (if n =? 0 then BFloat neg_zero64
                       else if n <=? max_i64 then BInt (- Z.of_N n) else BBigInt (- Z.of_N n))
  | EInt z => Some (BInt z)
  | EBigInt (Some z) => Some (BBigInt z)
  | EFloat b => Some (BFloat b)
  | EBigFloat (Some f) => Some (BBigFloat f)
  | EDecimal d => Some (BDec d)
  | EBigDecimal (Some d) => Some (BBigDec d)
  | ENan s => Some (BFloat (if s then bsignaling_nan_bits else bquiet_nan_bits))
  | EUid b => Some (BUid b)
  | ETime s => Some (BTime s)
  | EArray t _ data => Some (BArr t data)
  | EStringArray t data => Some (BStr t data)
  | EMedia mt data => Some (BMedia mt data)
  | _ => None
  end.

(* ------------------------------------------------------------------------- *)
(* Typed arrays                                                               *)

(* len(value)/w elements, little endian; trailing bytes are not read *)
Fixpoint split_elems (w : nat) (fuel : nat) (d : bytes) : list N :=
  match fuel with
  | O => []
  | S f => if (length d <? w)%nat then [] else le_decode (firstn w d) :: split_elems w f (skipn w d)
  end.
Definition arr_elems (w : nat) (d : bytes) : list N := split_elems w (length d) d.

(* a bit pattern as the element of a [VNum]: signed kinds by value, the others by pattern *)
Definition elem_of_pattern (k : akind) (p : N) : Z :=
  match k with
  | AI8 | AI16 | AI32 | AI64 =>
      let m := (2 ^ (8 * Z.of_nat (width_of k)))%Z in
      if (Z.of_N p <? m / 2)%Z then Z.of_N p else (Z.of_N p - m)%Z
  | _ => Z.of_N p
  end.
(* float32(float64(math.Float32frombits(x))) stored through SetFloat: NaNs are one value here *)
Definition arr_f32_elem (p : N) : Z := Z.of_N (if FloatBits.f32_is_nan p then nan32 else p).

Definition decode_slice (k : akind) (d : bytes) : list Z :=
  map (elem_of_pattern k) (arr_elems (width_of k) d).
Definition decode_array (k : akind) (d : bytes) : list Z :=
  match k with
  | AF32 => map arr_f32_elem (arr_elems 4 d)
  | _ => decode_slice k d
  end.

(* ------------------------------------------------------------------------- *)
(* Floats from integers (exact below 2^53)                                    *)

Definition p53 : N := 9007199254740992.
Definition f64_of_nat (n : N) : N :=           (* 0 < n < 2^53 *)
  let l := N.log2 n in FloatBits.f64_make 0 (1023 + l) ((n - 2 ^ l) * 2 ^ (52 - l)).
Definition f64_of_int (z : Z) : option N :=
  if (z =? 0)%Z then Some 0
  else if Z.abs_N z <? p53 then Some ((if (z <? 0)%Z then p63 else 0) + f64_of_nat (Z.abs_N z))
  else None.

(* big.NewFloat(x) for a finite x, mantissa made odd (the representation used for [bigfloat]
   values throughout: the harness prints big.Float values with their minimal mantissa) *)
Fixpoint strip_twos (fuel : nat) (m : N) (e : Z) : N * Z :=
  match fuel with
  | O => (m, e)
  | S f => if (m =? 0) then (0, 0%Z) else if N.even m then strip_twos f (m / 2) (e + 1)%Z else (m, e)
  end.
Definition mk_bigfloat (neg : bool) (m : N) (e : Z) (prec : N) : bigfloat :=
  let (m', e') := strip_twos (S (N.to_nat (N.size m))) m e in BFin neg m' e' prec.
Definition bigfloat_of_f64 (b : N) : option bigfloat :=
  if FloatBits.f64_is_nan b then None                     (* big.NewFloat panics *)
  else if FloatBits.f64_is_inf b then Some (BInf (FloatBits.f64_sign b =? 1))
  else
    let s := FloatBits.f64_sign b =? 1 in
    let ex := FloatBits.f64_expo b in
    let ma := FloatBits.f64_mant b in
    if ex =? 0 then Some (mk_bigfloat s ma (-1074)%Z 53)
    else Some (mk_bigfloat s (p52 + ma) (Z.of_N ex - 1075)%Z 53).
Definition bitlen (n : N) : N := N.size n.
Definition bigfloat_of_int (z : Z) (prec : N) : bigfloat := mk_bigfloat (z <? 0)%Z (Z.abs_N z) 0%Z prec.

(* ------------------------------------------------------------------------- *)
(* Struct fields as the struct builder sees them                              *)

Record bcfg := mkBcfg {
  b_case_insensitive : bool;       (* Builder.CaseInsensitiveStructFieldNames *)
}.
Definition default_bcfg : bcfg := mkBcfg true.

(* common.ToStructFieldIdentifier on an ASCII name *)
Definition field_ident (s : bytes) : bytes :=
  filter (fun c => negb ((c =? 32) || (c =? 95))) (map to_lower s).

Definition fpath := list nat.
(* makeGeneratorDescs: exported fields, embedded structs flattened, in traversal order *)
Fixpoint flat_fields (t : gtype) (prefix : fpath) {struct t} : list (bytes * fpath * gtype) :=
  match t with
  | TStruct _ fs =>
      (fix go (fs : list (finfo * gtype)) (i : nat) : list (bytes * fpath * gtype) :=
         match fs with
         | [] => []
         | (fi, ft) :: r =>
             (if f_exported fi then
                if f_anon fi then flat_fields ft (prefix ++ [i])
                else [(f_name fi, prefix ++ [i], ft)]
              else []) ++ go r (S i)
         end) fs O
  | _ => []
  end.

Inductive lookup_res := LFound (p : fpath) (t : gtype) | LMissing | LAmbiguous.
(* generatorDescs[key]: the exact names (a later field with the same name replaces an earlier
   one), then the aliases ToStructFieldIdentifier(name) of the names, added only where no entry
   exists; two different fields competing for one alias are decided by Go's map order *)
Definition last_match {A} (p : A -> bool) (l : list A) : option A :=
  fold_left (fun acc x => if p x then Some x else acc) l None.
Definition lookup_field (tbl : list (bytes * fpath * gtype)) (key : bytes) : lookup_res :=
  match last_match (fun e => bytes_eqb (fst (fst e)) key) tbl with
  | Some (_, p, t) => LFound p t
  | None =>
      (* the entries as the map holds them: the last field of each exact name *)
      let live := filter (fun e => match last_match (fun x => bytes_eqb (fst (fst x)) (fst (fst e))) tbl with
                                   | Some (_, p, _) => list_eqb Nat.eqb p (snd (fst e))
                                   | None => false end) tbl in
      match filter (fun e => bytes_eqb (field_ident (fst (fst e))) key) live with
      | [] => LMissing
      | [(_, p, t)] => LFound p t
      | _ => LAmbiguous
      end
  end.

(* container.Field(i0).Field(i1)... := x *)
Fixpoint set_nth {A} (n : nat) (f : A -> A) (l : list A) : list A :=
  match l, n with
  | [], _ => []
  | x :: r, O => f x :: r
  | x :: r, S k => x :: set_nth k f r
  end.
Fixpoint set_path (p : fpath) (x : gval) (v : gval) : gval :=
  match p with
  | [] => x
  | i :: r =>
      match v with
      | VStruct sid fs => VStruct sid (set_nth i (fun iv => (fst iv, set_path r x (snd iv))) fs)
      | _ => v
      end
  end.

(* ------------------------------------------------------------------------- *)
(* Converting one delivered value for a destination of a given type           *)

Inductive cres := COk (v : gval) | CErr | COut.

Fixpoint tab_find {A B} (eqb : A -> A -> bool) (k : A) (t : list (A * B)) : option B :=
  match t with
  | [] => None
  | (k', v) :: r => if eqb k k' then Some v else tab_find eqb k r
  end.

Section Lib.
  Variable url_conv : bytes -> option bytes.                 (* None: url.Parse fails *)
  Variable time_conv : bytes -> option bytes.                (* None: AsGoTime fails *)
  Variable dec_bigfloat : dfloat -> option bigfloat.         (* DFloat.BigFloat on finite non-zero values *)
  Variable bigdec_bigfloat : dfloat -> option bigfloat.      (* BigDecimalFloatToBigFloat on finite values *)

  Definition conv_int (w : width) (s : bscalar) : cres :=
    match s with
    | BInt z => if fits_int w z then COk (VInt z) else CErr
    | BUint n => if (n <=? max_i64) && fits_int w (Z.of_N n) then COk (VInt (Z.of_N n)) else CErr
    | BBigInt z => if fits_int W64 z && fits_int w z then COk (VInt z) else CErr
    | BFloat _ | BBigFloat _ | BDec _ | BBigDec _ => COut
    | _ => CErr
    end.
  Definition conv_uint (w : width) (s : bscalar) : cres :=
    match s with
    | BInt z => if (0 <=? z)%Z && fits_uint w (Z.to_N z) then COk (VUint (Z.to_N z)) else CErr
    | BUint n => if fits_uint w n then COk (VUint n) else CErr
    | BBigInt z => if (0 <=? z)%Z && (Z.to_N z <? two64) && fits_uint w (Z.to_N z) then COk (VUint (Z.to_N z)) else CErr
    | BFloat _ | BBigFloat _ | BDec _ | BBigDec _ => COut
    | _ => CErr
    end.
  (* DFloat.Float() on the special values *)
  Definition dec_special_f64 (d : dfloat) : option N :=
    match d with
    | DInf neg => Some (if neg then 0xfff0000000000000 else 0x7ff0000000000000)
    | DQNan | DSNan => Some nan64
    | DFin neg 0 _ => Some (if neg then neg_zero64 else 0)
    | _ => None
    end.
  Definition conv_f64 (s : bscalar) : cres :=
    match s with
    | BFloat b => COk (VF64 (if FloatBits.f64_is_nan b then nan64 else b))
    | BInt z => match f64_of_int z with Some b => COk (VF64 b) | None => COut end
    | BUint n => match f64_of_int (Z.of_N n) with Some b => COk (VF64 b) | None => COut end
    | BDec d => match dec_special_f64 d with Some b => COk (VF64 b) | None => COut end
    | BBigInt _ | BBigFloat _ | BBigDec _ => COut
    | _ => CErr
    end.
  (* the same through reflect.Value.SetFloat on a float32: exact narrowing only *)
  Definition narrow_f32 (b : N) : cres :=
    if FloatBits.f64_is_nan b then COk (VF32 nan32)
    else match FloatBits.f64_narrow32 b with Some w => COk (VF32 w) | None => COut end.
  Definition conv_f32 (s : bscalar) : cres :=
    match conv_f64 s with
    | COk (VF64 b) => narrow_f32 b
    | r => r
    end.

  Definition conv_string (s : bscalar) : cres :=
    match s with
    | BNull => COk (VString [])
    | BArr t d | BStr t d => if t =? AT_String then COk (VString d) else CErr
    | _ => CErr
    end.

  Definition conv_num_slice (k : akind) (asg : bool) (s : bscalar) : cres :=
    match s with
    | BNull => COk (VNum SNil k [])
    | BArr t d =>
        if t =? at_of k then
          if asg || akind_eqb k AU8 then COk (VNum SSlice k (decode_slice k d)) else CErr
        else CErr
    | _ => CErr
    end.
  Definition conv_num_arr (k : akind) (n : N) (s : bscalar) : cres :=
    match s with
    | BArr t d =>
        if t =? at_of k then
          let es := decode_array k d in
          if (length es <=? N.to_nat n)%nat
          then COk (VNum SArr k (es ++ repeat 0%Z (N.to_nat n - length es)))
          else CErr                                 (* dst.Index(i) out of range *)
        else CErr
    | _ => CErr
    end.

  Definition conv_url (s : bscalar) : cres :=
    match s with
    | BArr t d | BStr t d =>
        if t =? AT_ResourceID then match url_conv d with Some out => COk (VUrl false out) | None => CErr end
        else CErr
    | _ => CErr
    end.
  Definition conv_time (s : bscalar) : cres :=
    match s with
    | BTime x => match time_conv x with Some out => COk (VTime false out) | None => CErr end
    | _ => CErr
    end.
  Definition conv_ctime (s : bscalar) : cres :=
    match s with
    | BTime x => COk (VTime false x)
    | BNull => COk (VTime true zero_ctime_text)
    | _ => CErr
    end.
  Definition conv_bigint (s : bscalar) : cres :=
    match s with
    | BInt z | BBigInt z => COk (VBigInt false z)
    | BUint n => COk (VBigInt false (Z.of_N n))
    | BFloat _ | BBigFloat _ | BDec _ | BBigDec _ => COut
    | _ => CErr
    end.
  Definition ok_bf (o : option bigfloat) : cres := match o with Some f => COk (VBigFloat false f) | None => CErr end.
  Definition conv_bigfloat (s : bscalar) : cres :=
    match s with
    | BInt z => COk (VBigFloat false (bigfloat_of_int z 64))
    | BUint n => COk (VBigFloat false (bigfloat_of_int (Z.of_N n) 64))
    | BBigInt z => COk (VBigFloat false (bigfloat_of_int z (N.max (bitlen (Z.abs_N z)) 64)))
    | BFloat b => ok_bf (bigfloat_of_f64 b)
    | BBigFloat f => COk (VBigFloat false f)
    | BDec d =>
        match d with
        | DInf neg => COk (VBigFloat false (BInf neg))
        | DQNan | DSNan => CErr                     (* big.NewFloat(NaN) panics *)
        | DFin neg 0 _ => COk (VBigFloat false (BFin neg 0 0 53))
        | _ => ok_bf (dec_bigfloat d)
        end
    | BBigDec d =>
        match d with
        | DFin _ _ _ => ok_bf (bigdec_bigfloat d)
        | _ => CErr                                 (* "NaN" / "Infinity" do not parse *)
        end
    | _ => CErr
    end.
  Definition dec_of_int (z : Z) : dfloat := DFin (z <? 0)%Z (Z.abs_N z) 0.
  (* conversions.FloatToBigDecimalFloat on the values the validator can hand over for a big decimal *)
  Definition conv_bigdec (s : bscalar) : cres :=
    match s with
    | BInt z | BBigInt z => COk (VBigDec false (dec_of_int z))
    | BUint n => COk (VBigDec false (DFin false n 0))
    | BDec d | BBigDec d => COk (VBigDec false d)
    | BFloat b =>
        if FloatBits.f64_is_nan b then COk (VBigDec false DQNan)        (* "NaN" *)
        else if b =? neg_zero64 then COk (VBigDec false (DFin true 0 0))
        else COut
    | _ => CErr
    end.
  Definition conv_dfloat (s : bscalar) : cres :=
    match s with
    | BInt z => COk (VDFloat false (dec_of_int z))
    | BDec d => COk (VDFloat false d)
    | BFloat b =>
        if FloatBits.f64_is_nan b then COk (VDFloat false (if FloatBits.f64_quiet_bit b then DQNan else DSNan))
        else if b =? neg_zero64 then COk (VDFloat false (DFin true 0 0))
        else COut
    | BBigDec d =>
        match d with
        | DFin _ c _ => if c <? p63 then COk (VDFloat false d) else COut
        | _ => COk (VDFloat false d)
        end
    | BUint _ | BBigInt _ | BBigFloat _ => COut
    | _ => CErr
    end.

  (* interfaceBuilder *)
  Definition conv_iface (s : bscalar) : cres :=
    match s with
    | BNull => COk VNilIface
    | BBool b => COk (VIface (VBool b))
    | BInt z => COk (VIface (VInt z))
    | BUint n => COk (VIface (VUint n))
    | BBigInt z => COk (VIface (VOPtr (VBigInt false z)))
    | BFloat b => COk (VIface (VF64 (if FloatBits.f64_is_nan b then nan64 else b)))
    | BBigFloat f => COk (VIface (VOPtr (VBigFloat false f)))
    | BDec d => COk (VIface (VDFloat false d))
    | BBigDec d => COk (VIface (VOPtr (VBigDec false d)))
    | BUid b => if (length b =? 16)%nat then COk (VIface (VUid b)) else COut
    | BArr t d =>
        if t =? AT_Uint8 then COk (VIface (VNum SSlice AU8 (decode_slice AU8 d)))
        else if t =? AT_Uint16 then COk (VIface (VNum SSlice AU16 (decode_slice AU16 d)))
        else if t =? AT_Uint32 then COk (VIface (VNum SSlice AU32 (decode_slice AU32 d)))
        else if t =? AT_Uint64 then COk (VIface (VNum SSlice AU64 (decode_slice AU64 d)))
        else if t =? AT_Int8 then COk (VIface (VNum SSlice AI8 (decode_slice AI8 d)))
        else if t =? AT_Int16 then COk (VIface (VNum SSlice AI16 (decode_slice AI16 d)))
        else if t =? AT_Int32 then COk (VIface (VNum SSlice AI32 (decode_slice AI32 d)))
        else if t =? AT_Int64 then COk (VIface (VNum SSlice AI64 (decode_slice AI64 d)))
        else if t =? AT_Float32 then COk (VIface (VNum SSlice AF32 (map arr_f32_elem (arr_elems 4 d))))
        else if t =? AT_Float64 then COk (VIface (VNum SSlice AF64 (decode_slice AF64 d)))
        else if t =? AT_String then COk (VIface (VString d))
        else if t =? AT_ResourceID then
          match url_conv d with Some out => COk (VIface (VOPtr (VUrl false out))) | None => CErr end
        else if t =? AT_Float16 then COut
        else CErr                                   (* "TODO: Typed array support" *)
    | BStr t d =>
        if t =? AT_String then COk (VIface (VString d))
        else if (t =? AT_ResourceID) || (t =? AT_ReferenceRemote) then
          match url_conv d with Some out => COk (VIface (VOPtr (VUrl false out))) | None => CErr end
        else CErr
    | BMedia mt d => COk (VIface (VMedia false mt d))
    | BTime x => match time_conv x with
                 | Some out => COk (VIface (VTime false out))
                 | None => COk (VIface (VTime false x))
                 end
    end.

  Definition opt_ptr (r : cres) (s : bscalar) : cres :=
    match s with
    | BNull => COk VNilPtr
    | _ => match r with COk v => COk (VOPtr v) | other => other end
    end.

  (* generator(ctx).BuildFromXxx(ctx, value, dst) for a fresh destination of type t *)
  Fixpoint conv (t : gtype) (s : bscalar) {struct t} : cres :=
    match t with
    | TBool => match s with BBool b => COk (VBool b) | _ => CErr end
    | TInt w => conv_int w s
    | TUint w => conv_uint w s
    | TF32 => conv_f32 s
    | TF64 => conv_f64 s
    | TString => conv_string s
    | TNumSlice k asg => conv_num_slice k asg s
    | TNumArr k n => conv_num_arr k n s
    | TSlice e =>
        (* a throw-away sliceBuilder builds the element and appends it to its own container;
           the destination is not written *)
        match conv e s with COk _ => COk (zero_of t) | other => other end
    | TArr n e =>
        (* a throw-away arrayBuilder: container.Index(0) first *)
        if n =? 0 then CErr
        else match conv e s with COk _ => COk (zero_of t) | other => other end
    | TMap k _ =>
        (* a throw-away mapBuilder takes the value as a key *)
        match conv k s with COk _ => COk (zero_of t) | other => other end
    | TPtr e =>
        match s with
        | BNull => COk VNilPtr
        | _ => match conv e s with COk v => COk (mk_ptr e v) | other => other end
              (* BuildFromMedia too builds into the new element (since /repo commit bfbf710; before,
                 it handed the pointer destination itself to the media builder, which panicked) *)
        end
    | TStruct _ _ =>
        (* a throw-away structBuilder expects a key: its string builder is given the invalid Value;
           a string would be looked up (and an ignore builder pushed when it is not found) *)
        match s with
        | BArr t' _ | BStr t' _ => if t' =? AT_String then COut else CErr
        | _ => CErr
        end
    | TIface => conv_iface s
    | TTime => conv_time s
    | TCTime => conv_ctime s
    | TUrl => conv_url s
    | TPUrl => opt_ptr (conv_url s) s
    | TBigInt => conv_bigint s
    | TPBigInt => opt_ptr (conv_bigint s) s
    | TBigFloat => conv_bigfloat s
    | TPBigFloat => opt_ptr (conv_bigfloat s) s
    | TBigDec => conv_bigdec s
    | TPBigDec => opt_ptr (conv_bigdec s) s
    | TDFloat => conv_dfloat s
    | TUid => match s with
              | BUid b => if (length b =? 16)%nat then COk (VUid b) else COut
              | _ => CErr
              end
    | TMedia => match s with BMedia mt d => COk (VMedia false mt d) | _ => CErr end
    | TEdge =>
        (* a throw-away edgeBuilder stores the value as its first component; nothing else happens *)
        match conv_iface s with COk _ => COk (zero_of t) | other => other end
    | TNode => COut                   (* the throw-away nodeBuilder pushes its children builder on the stack *)
    end.

  (* ----------------------------------------------------------------------- *)
  (* The machine                                                              *)

  Inductive ckind := KList | KMap | KNode | KEdge.

  Inductive bframe :=
  | BTop (t : gtype)                                            (* topLevelBuilder *)
  | BSlice (e : gtype) (acc : list gval)                        (* sliceBuilder *)
  | BArr' (n : N) (e : gtype) (acc : list gval)                 (* arrayBuilder; elemIndex = length acc *)
  | BMap (k v : gtype) (kvs : list (gval * gval)) (key : option gval)   (* mapBuilder; Some = a value is next *)
  | BStruct (t : gtype) (cur : gval) (next : option (fpath * gtype)) (is_key : bool)   (* structBuilder *)
  | BPtr (e : gtype)                                            (* ptrBuilder waiting for its pointee's container *)
  | BNode (children_mode : bool) (value : gval)                 (* nodeBuilder *)
  | BEdge (comps : list gval).                                  (* edgeBuilder *)

  Inductive cbkind := CBNone | CBArray (t : arrty) | CBMedia (mt : bytes).

  Record bstate := mkBS {
    bstack : list bframe;                 (* head = Context.CurrentBuilder *)
    bobject : option gval;                (* BuilderEventReceiver.object once set *)
    cdata : bytes; crem : N; cmore : bool; ccb : cbkind; cbits : N;
  }.
  Definition with_stack (st : bstate) (s : list bframe) : bstate :=
    mkBS s (bobject st) (cdata st) (crem st) (cmore st) (ccb st) (cbits st).
  Definition with_object (st : bstate) (s : list bframe) (v : gval) : bstate :=
    mkBS s (Some v) (cdata st) (crem st) (cmore st) (ccb st) (cbits st).
  Definition with_chunk (st : bstate) (d : bytes) (r : N) (m : bool) (cb : cbkind) (bits : N) : bstate :=
    mkBS (bstack st) (bobject st) d r m cb bits.
  Definition init_bstate (t : gtype) : bstate := mkBS [BTop t] None [] 0 false CBNone 0.

  Inductive bres := ROk (st : bstate) | RPanic | ROut.

  (* Go map keys: equality of the keyable kinds *)
  Fixpoint gkey_eqb (a b : gval) : bool :=
    match a, b with
    | VBool x, VBool y => Bool.eqb x y
    | VInt x, VInt y => (x =? y)%Z
    | VUint x, VUint y => x =? y
    | VString x, VString y | VUid x, VUid y => bytes_eqb x y
    | VIface x, VIface y => gkey_eqb x y
    | VNilIface, VNilIface => true
    | _, _ => false
    end.
  (* kinds whose Go equality the model decides *)
  Fixpoint gkey_known (a : gval) : bool :=
    match a with
    | VBool _ | VInt _ | VUint _ | VString _ | VUid _ | VNilIface => true
    | VIface x => gkey_known x
    | _ => false
    end.
  Fixpoint map_set (k x : gval) (kvs : list (gval * gval)) : list (gval * gval) :=
    match kvs with
    | [] => [(k, x)]
    | (k', x') :: r => if gkey_eqb k' k then (k', x) :: r else (k', x') :: map_set k x r
    end.

  (* the type the builder on top of the stack builds its next value with; None: it has no such
     slot (or, for a struct expecting a key, see [on_scalar]) *)
  Definition slot_type (fr : bframe) : option gtype :=
    match fr with
    | BTop t => Some t
    | BSlice e _ => Some e
    | BArr' _ e _ => Some e
    | BMap k v _ key => Some (match key with None => k | Some _ => v end)
    | BStruct _ _ (Some (_, ft)) false => Some ft
    | BStruct _ _ _ _ => None
    | BPtr _ => None
    | BNode false _ => Some TIface
    | BNode true _ => None
    | BEdge _ => Some TIface
    end.

  (* reflect.Value.Addr on the finished container handed to a ptrBuilder: the slice and map
     builders, and a ptrBuilder further in, hand over values that are not addressable *)
  Definition addressable (e : gtype) : bool :=
    match e with
    | TSlice _ | TNumSlice _ _ | TMap _ _ | TIface | TPtr _ => false   (* TPtr: the inner ptrBuilder hands over value.Addr() *)
    | _ => true
    end.

  (* a finished value x reaches the builder on top of [stk]: BuildFromXxx has converted it
     (raw = false), or a child container has ended (NotifyChildContainerFinished, raw = true: a
     container stored into an interface{} slot becomes the dynamic value of the interface) *)
  Definition wrap_for (t : gtype) (raw : bool) (x : gval) : gval :=
    if raw then match t with TIface => VIface x | _ => x end else x.
  Fixpoint deliver (stk : list bframe) (raw : bool) (x : gval) (st : bstate) {struct stk} : bres :=
    match stk with
    | [] => RPanic
    | fr :: below =>
      match fr with
      | BTop t => ROk (with_object st stk (wrap_for t raw x))
      | BSlice e acc => ROk (with_stack st (BSlice e (acc ++ [wrap_for e raw x]) :: below))
      | BArr' n e acc =>
          if (length acc <? N.to_nat n)%nat then ROk (with_stack st (BArr' n e (acc ++ [wrap_for e raw x]) :: below))
          else RPanic                                           (* container.Index out of range *)
      | BMap k v kvs None => ROk (with_stack st (BMap k v kvs (Some (wrap_for k raw x)) :: below))
      | BMap k v kvs (Some key) =>
          if gkey_known key then ROk (with_stack st (BMap k v (map_set key (wrap_for v raw x) kvs) None :: below))
          else ROut
      | BStruct t cur (Some (p, ft)) false =>
          ROk (with_stack st (BStruct t (set_path p (wrap_for ft raw x) cur) (Some (p, ft)) true :: below))
      | BStruct _ _ _ _ => ROut
      | BPtr e => if addressable e then deliver below true (mk_ptr e x) st else RPanic
      | BNode false _ => ROk (with_stack st (BSlice TIface [] :: BNode true (wrap_for TIface raw x) :: below))
      | BNode true val =>
          (* the children slice has ended: the node is complete *)
          match x with
          | VSlice _ ch => deliver below true (VNode val (VSlice 0 ch)) st
          | _ => RPanic
          end
      | BEdge comps =>
          match comps with
          | [a; b] => deliver below true (VEdge a b (wrap_for TIface raw x)) st
          | _ => ROk (with_stack st (BEdge (comps ++ [wrap_for TIface raw x]) :: below))
          end
      end
    end.

  (* BuildBeginXxxContents of the generator for type t: the builders pushed, innermost first *)
  Inductive begin_res := GPush (frs : list bframe) | GErr | GOut.
  Fixpoint begin_cont (t : gtype) (k : ckind) {struct t} : begin_res :=
    match t, k with
    | TIface, KList => GPush [BSlice TIface []]
    | TIface, KMap => GPush [BMap TIface TIface [] None]
    | TIface, KNode => GPush [BNode false VNilIface]
    | TIface, KEdge => GPush [BEdge []]
    | TSlice e, KList => GPush [BSlice e []]
    | TNumSlice kk asg, KList => if asg then GPush [BSlice (elem_type kk) []] else GOut
    | TArr n e, KList => GPush [BArr' n e []]
    | TNumArr kk n, KList => GPush [BArr' n (elem_type kk) []]
    | TMap kt vt, KMap => GPush [BMap kt vt [] None]
    | TStruct _ _, KMap => GPush [BStruct t (zero_of t) None true]
    | TNode, KNode => GPush [BNode false VNilIface]
    | TEdge, KEdge => GPush [BEdge []]
    | TPtr e, _ =>
        match begin_cont e k with
        | GPush frs => GPush (frs ++ [BPtr e])
        | other => other
        end
    | _, _ => GErr
    end.

  Definition on_scalar (cfg : bcfg) (s : bscalar) (st : bstate) : bres :=
    match bstack st with
    | [] => RPanic
    | fr :: below =>
      match fr with
      | BStruct t cur next true =>
          (* a key is expected *)
          match s with
          | BArr at' d | BStr at' d =>
              if at' =? AT_String then
                let key := if b_case_insensitive cfg then field_ident d else d in
                match lookup_field (flat_fields t []) key with
                | LFound p ft => ROk (with_stack st (BStruct t cur (Some (p, ft)) false :: below))
                | LMissing | LAmbiguous => ROut
                end
              else match next with None => RPanic | Some _ => ROut end
          | _ => match next with None => RPanic | Some _ => ROut end
          end
      | _ =>
        match slot_type fr with
        | None => RPanic
        | Some t =>
            match fr, s with
            | BArr' n _ acc, _ =>
                (* advanceElem comes before the conversion *)
                if (length acc <? N.to_nat n)%nat then
                  match conv t s with
                  | COk x => deliver (bstack st) false x st
                  | CErr => RPanic
                  | COut => ROut
                  end
                else RPanic
            | _, _ =>
                match conv t s with
                | COk x => deliver (bstack st) false x st
                | CErr => RPanic
                | COut => ROut
                end
            end
        end
      end
    end.

  Definition on_begin (k : ckind) (st : bstate) : bres :=
    match bstack st with
    | [] => RPanic
    | fr :: _ =>
      match fr with
      | BStruct _ _ _ true => ROut
      | _ =>
        match slot_type fr with
        | None => RPanic
        | Some t =>
            match begin_cont t k with
            | GPush frs => ROk (with_stack st (frs ++ bstack st))
            | GErr => RPanic
            | GOut => ROut
            end
        end
      end
    end.

  Definition on_end (st : bstate) : bres :=
    match bstack st with
    | BSlice e acc :: below => deliver below true (mk_seq SSlice e acc) st
    | BArr' n e acc :: below =>
        deliver below true (mk_seq SArr e (acc ++ repeat (zero_of e) (N.to_nat n - length acc))) st
    | BMap _ _ kvs _ :: below => deliver below true (VMap 0 kvs) st
    | BStruct _ cur _ _ :: below => deliver below true cur st
    | _ => RPanic
    end.

  (* ---- chunked arrays ---- *)
  Definition elem_bits_of (t : arrty) : N := nth (N.to_nat t) array_elem_bits 0.
  Definition fire (cfg : bcfg) (st : bstate) : bres :=
    match ccb st with
    | CBNone => RPanic
    | CBArray t => if elem_bits_of t =? 0 then RPanic else on_scalar cfg (BArr t (cdata st)) st
    | CBMedia mt => on_scalar cfg (BMedia mt (cdata st)) st
    end.
  Definition on_chunk (cfg : bcfg) (n : N) (more : bool) (st : bstate) : bres :=
    let r := elem_byte_count (cbits st) n in
    let st1 := with_chunk st (cdata st) r more (ccb st) (cbits st) in
    if negb more && (r =? 0) then fire cfg st1 else ROk st1.
  Definition on_data (cfg : bcfg) (d : bytes) (st : bstate) : bres :=
    let r := (crem st + two64 - (N.of_nat (length d)) mod two64) mod two64 in
    let st1 := with_chunk st (cdata st ++ d) r (cmore st) (ccb st) (cbits st) in
    if negb (cmore st) && (r =? 0) then fire cfg st1 else ROk st1.

  Definition bstep (cfg : bcfg) (st : bstate) (e : event) : bres :=
    match e with
    | EBeginDoc | EEndDoc | EVersion _ | EPadding | EComment _ _ => ROk st
    | EList => on_begin KList st
    | EMap => on_begin KMap st
    | ENode => on_begin KNode st
    | EEdge => on_begin KEdge st
    | EEnd => on_end st
    | EArrayBegin t =>
        if t <? AT_Count then ROk (with_chunk st [] (crem st) (cmore st) (CBArray t) (elem_bits_of t)) else RPanic
    | EMediaBegin mt => ROk (with_chunk st [] (crem st) (cmore st) (CBMedia mt) 8)
    | EArrayChunk n more => on_chunk cfg n more st
    | EArrayData d => on_data cfg d st
    | _ => match event_scalar e with
           | Some s => on_scalar cfg s st
           | None => ROut
           end
    end.

  (* the events, the index of the one being delivered *)
  Fixpoint brun (cfg : bcfg) (st : bstate) (es : list event) (i : N) : bres * N :=
    match es with
    | [] => (ROk st, i)
    | e :: r =>
      match bstep cfg st e with
      | ROk st1 => brun cfg st1 r (N.succ i)
      | other => (other, i)
      end
    end.

  Inductive tres := TOk (v : gval) | TErr (at_event : N) | TOut.

  (* a fresh receiver for a template of type t is fed the events; GetBuiltObject *)
  Definition build_typed (cfg : bcfg) (t : gtype) (es : list event) : tres :=
    match brun cfg (init_bstate t) es 0 with
    | (ROk st, _) => TOk (match bobject st with Some v => v | None => zero_of t end)
    | (RPanic, i) => TErr i
    | (ROut, _) => TOut
    end.
End Lib.

(* ------------------------------------------------------------------------- *)
(* The events of the marshaler as the builder receives them through CBE        *)

(* the CBE encoder writes arrays of up to 15 elements of the types that have one in the short
   form, which the decoder reports as one event; everything else comes back as begin / chunk /
   data *)
Definition cbe_short (t n : N) : bool :=
  match Cbe.enc_small_header t n with Some (Some _) => true | _ => false end.
Definition cbe_array_form (t n : N) (d : bytes) : list event :=
  if cbe_short t n then [EArray t n d]
  else EArrayBegin t :: EArrayChunk n false :: (if is_nil d then [] else [EArrayData d]).

(* the decoder's form of an integer of sign neg and magnitude m *)
Definition cbe_int_form (neg : bool) (m : N) : event :=
  let z := if neg then (- Z.of_N m)%Z else Z.of_N m in
  if (m <=? 100) && negb (neg && (m =? 0)) then EInt z
  else if m <? two64 then (if neg then ENegInt m else EPosInt m)
  else EBigInt (Some z).

Definition cbe_float_form (b : N) : event :=
  if FloatBits.f64_is_inf b then EDecimal (DInf (FloatBits.f64_sign b =? 1))
  else if FloatBits.f64_is_nan b then ENan (negb (FloatBits.f64_quiet_bit b))
  else if FloatBits.f64_is_zero b then (if FloatBits.f64_sign b =? 1 then ENegInt 0 else EInt 0)
  else EFloat b.

Definition cbe_decimal_form (d : dfloat) : event :=
  match d with
  | DFin neg c e =>
      if c =? 0 then (if neg then ENegInt 0 else EInt 0)
      else if p63 <=? c then EBigDecimal (Some d) else EDecimal d
  | DQNan => ENan false
  | DSNan => ENan true
  | DInf _ => EDecimal d
  end.

Definition cbe_form (e : event) : list event :=
  match e with
  | EBool b => [if b then ETrue else EFalse]
  | EPosInt n => [cbe_int_form false n]
  | EInt z | EBigInt (Some z) => [cbe_int_form (z <? 0)%Z (Z.abs_N z)]
  | EFloat b => [cbe_float_form b]
  | EBigFloat (Some (BInf neg)) => [EDecimal (DInf neg)]
  | EBigFloat (Some (BFin neg mant ex _)) =>
      match Cbe.bigfloat_to_f64 neg mant ex with Some b => [cbe_float_form b] | None => [e] end
  | EDecimal d | EBigDecimal (Some d) => [cbe_decimal_form d]
  | EArray t n d => cbe_array_form t n d
  | EStringArray t d => cbe_array_form t (Iterate.len d) d
  | EMedia mt d => EMediaBegin mt :: EArrayChunk (Iterate.len d) false :: (if is_nil d then [] else [EArrayData d])
  | ETime s => if bytes_eqb s zero_ctime_text then [ENull] else [e]    (* encoder: value.IsZeroValue() -> null *)
  | _ => [e]
  end.

Definition cbe_events (es : list event) : list event := flat_map cbe_form es.

(* ------------------------------------------------------------------------- *)
(* Types of values, equality of values                                        *)

Definition in_range_elem (k : akind) (z : Z) : bool :=
  match k with
  | AI8 | AI16 | AI32 | AI64 =>
      let h := (2 ^ (8 * Z.of_nat (width_of k) - 1))%Z in ((- h <=? z) && (z <? h))%Z
  | _ => ((0 <=? z) && (z <? 2 ^ (8 * Z.of_nat (width_of k))))%Z
  end.

Definition finfo_eqb (a b : finfo) : bool :=
  bytes_eqb (f_name a) (f_name b) && Bool.eqb (f_exported a) (f_exported b) && Bool.eqb (f_anon a) (f_anon b)
  && omit_eqb (f_omit a) (f_omit b) && (f_order a =? f_order b)%Z.

Definition is_iface_val (v : gval) : bool := match v with VNilIface | VIface _ => true | _ => false end.

(* [has_type t v]: v is a value of the Go type t, in the marshaler's representation *)
Fixpoint has_type (t : gtype) (v : gval) {struct v} : bool :=
  match v with
  | VBool _ => match t with TBool => true | _ => false end
  | VInt z => match t with TInt w => fits_int w z | _ => false end
  | VUint n => match t with TUint w => fits_uint w n | _ => false end
  | VF32 w => match t with TF32 => w <? 2 ^ 32 | _ => false end
  | VF64 b => match t with TF64 => b <? two64 | _ => false end
  | VString _ => match t with TString => true | _ => false end
  | VNum sk k es =>
      forallb (in_range_elem k) es &&
      match t, sk with
      | TNumSlice k' _, (SNil | SSlice) => akind_eqb k k' && (match sk with SNil => is_nil es | _ => true end)
      | TNumArr k' n, SArr => akind_eqb k k' && (Iterate.len es =? n)
      | TSlice e, (SNil | SSlice) =>
          (match akind_of_elem e with Some k' => akind_eqb k k' | None => false end)
          && (match sk with SNil => is_nil es | _ => true end)
      | TArr n e, SArr =>
          (match akind_of_elem e with Some k' => akind_eqb k k' | None => false end) && (Iterate.len es =? n)
      | _, _ => false
      end
  | VBools sk l =>
      match t, sk with
      | TSlice TBool, SNil => is_nil l
      | TSlice TBool, SSlice => true
      | TArr n TBool, SArr => Iterate.len l =? n
      | _, _ => false
      end
  | VNilSlice => match t with
                 | TSlice e => match akind_of_elem e, e with None, TBool => false | None, _ => true | _, _ => false end
                 | _ => false end
  | VSlice _ es =>
      match t with
      | TSlice e => (match akind_of_elem e, e with None, TBool => false | None, _ => true | _, _ => false end)
                    && forallb (has_type e) es
      | _ => false
      end
  | VArray es =>
      match t with
      | TArr n e => (match akind_of_elem e, e with None, TBool => false | None, _ => true | _, _ => false end)
                    && (Iterate.len es =? n) && forallb (has_type e) es
      | _ => false
      end
  | VNilMap => match t with TMap _ _ => true | _ => false end
  | VMap _ kvs =>
      match t with
      | TMap kt vt => forallb (fun kv => has_type kt (fst kv) && has_type vt (snd kv)) kvs
      | _ => false
      end
  | VNilPtr => match t with TPtr _ | TPUrl | TPBigInt | TPBigFloat | TPBigDec => true | _ => false end
  | VPtr _ p => match t with TPtr e => negb (is_optr_elem e) && has_type e p | _ => false end
  | VOPtr p =>
      match t with
      | TPtr e => is_optr_elem e && has_type e p
      | TPUrl => has_type TUrl p
      | TPBigInt => has_type TBigInt p
      | TPBigFloat => has_type TBigFloat p
      | TPBigDec => has_type TBigDec p
      | _ => false
      end
  | VNilIface => match t with TIface => true | _ => false end
  | VIface _ => match t with TIface => true | _ => false end
  | VStruct sid fvs =>
      match t with
      | TStruct sid' fts =>
          (sid =? sid') &&
          (fix go (fvs : list (finfo * gval)) (fts : list (finfo * gtype)) : bool :=
             match fvs, fts with
             | [], [] => true
             | (i, x) :: r, (i', ft) :: r' =>
                 finfo_eqb i i' && has_type ft x
                 && (if f_anon i then match ft with TStruct _ _ => true | _ => false end else true)
                 && go r r'
             | _, _ => false
             end) fvs fts
      | _ => false
      end
  | VTime _ _ => match t with TTime | TCTime => true | _ => false end
  | VUrl _ _ => match t with TUrl => true | _ => false end
  | VBigInt _ _ => match t with TBigInt => true | _ => false end
  | VBigFloat _ _ => match t with TBigFloat => true | _ => false end
  | VBigDec _ _ => match t with TBigDec => true | _ => false end
  | VDFloat _ _ => match t with TDFloat => true | _ => false end
  | VUid b => match t with TUid => (length b =? 16)%nat | _ => false end
  | VMedia _ _ _ => match t with TMedia => true | _ => false end
  | VNode x ch =>
      match t with
      | TNode => is_iface_val x && match ch with
                                   | VNilSlice => true
                                   | VSlice _ es => forallb is_iface_val es
                                   | _ => false end
      | _ => false
      end
  | VEdge a b c => match t with TEdge => is_iface_val a && is_iface_val b && is_iface_val c | _ => false end
  end.

(* ---- equality ---- *)
Definition f32_veq (a b : N) : bool := (FloatBits.f32_is_nan a && FloatBits.f32_is_nan b) || (a =? b).
Definition f64_veq (a b : N) : bool := (FloatBits.f64_is_nan a && FloatBits.f64_is_nan b) || (a =? b).
Definition num_veq (k : akind) (a b : Z) : bool :=
  match k with
  | AF32 => f32_veq (Z.to_N a) (Z.to_N b)
  | AF64 => f64_veq (Z.to_N a) (Z.to_N b)
  | _ => (a =? b)%Z
  end.
(* decimal numbers by value as far as the code keeps it: a zero keeps its sign only; all NaNs alike *)
Definition dfloat_veq (a b : dfloat) : bool :=
  match a, b with
  | DFin n1 0 _, DFin n2 0 _ => Bool.eqb n1 n2
  | (DQNan | DSNan), (DQNan | DSNan) => true
  | _, _ => dfloat_eqb a b
  end.
(* big floats by value: precision is not compared *)
Definition bigfloat_veq (a b : bigfloat) : bool :=
  match a, b with
  | BFin n1 m1 e1 _, BFin n2 m2 e2 _ => Bool.eqb n1 n2 && (m1 =? m2) && ((m1 =? 0) || (e1 =? e2)%Z)
  | BInf n1, BInf n2 => Bool.eqb n1 n2
  | _, _ => false
  end.

(* a number held by an interface: the untyped builder gives int64 / uint64 / float64 back *)
Definition iface_num (v : gval) : option (Z + N) :=
  match v with
  | VInt z => Some (inl z)
  | VUint n => Some (inl (Z.of_N n))
  | VF32 w => Some (inr (FloatBits.f32_widen w))
  | VF64 b => Some (inr b)
  | _ => None
  end.

Definition seq_elems (v : gval) : option (list gval) :=
  match v with
  | VNilSlice => Some []
  | VSlice _ es => Some es
  | _ => None
  end.

(* [veq a b]: b is "the same Go value" as a: nil and empty slices / maps alike; addresses and
   IsZero flags ignored; NaNs alike; times by their compact-time text; big numbers by value;
   numbers inside an interface by value.  Maps entry by entry in some order. *)
Fixpoint veq (a b : gval) {struct a} : bool :=
  match a with
  | VBool x => match b with VBool y => Bool.eqb x y | _ => false end
  | VInt x =>
      match b with VInt y => (x =? y)%Z | VUint y => (x =? Z.of_N y)%Z | _ => false end
  | VUint x =>
      match b with VUint y => x =? y | VInt y => (Z.of_N x =? y)%Z | _ => false end
  | VF32 x =>
      match b with VF32 y => f32_veq x y | VF64 y => f64_veq (FloatBits.f32_widen x) y | _ => false end
  | VF64 x => match b with VF64 y => f64_veq x y | _ => false end
  | VString x => match b with VString y => bytes_eqb x y | _ => false end
  | VNum sk k es =>
      match b with
      | VNum sk' k' es' =>
          akind_eqb k k' && list_eqb (num_veq k) es es'
          && match sk, sk' with SArr, SArr => true | SArr, _ | _, SArr => false | _, _ => true end
      | _ => false
      end
  | VBools sk l =>
      match b with
      | VBools sk' l' =>
          list_eqb Bool.eqb l l'
          && match sk, sk' with SArr, SArr => true | SArr, _ | _, SArr => false | _, _ => true end
      | _ => false
      end
  | VNilSlice => match b with VNilSlice => true | VSlice _ [] => true | _ => false end
  | VSlice _ es =>
      match b with
      | VNilSlice => is_nil es
      | VSlice _ es' =>
          (fix go (l : list gval) (l' : list gval) : bool :=
             match l, l' with
             | [], [] => true
             | x :: r, y :: r' => veq x y && go r r'
             | _, _ => false
             end) es es'
      | _ => false
      end
  | VArray es =>
      match b with
      | VArray es' =>
          (fix go (l : list gval) (l' : list gval) : bool :=
             match l, l' with
             | [], [] => true
             | x :: r, y :: r' => veq x y && go r r'
             | _, _ => false
             end) es es'
      | _ => false
      end
  | VNilMap => match b with VNilMap => true | VMap _ [] => true | _ => false end
  | VMap _ kvs =>
      match b with
      | VNilMap => is_nil kvs
      | VMap _ kvs' =>
          (length kvs =? length kvs')%nat &&
          (fix go (l : list (gval * gval)) : bool :=
             match l with
             | [] => true
             | kv :: r => existsb (fun kv' => veq (fst kv) (fst kv') && veq (snd kv) (snd kv')) kvs' && go r
             end) kvs
      | _ => false
      end
  | VNilPtr => match b with VNilPtr => true | _ => false end
  | VPtr _ p | VOPtr p => match b with VPtr _ q | VOPtr q => veq p q | _ => false end
  | VNilIface => match b with VNilIface => true | _ => false end
  | VIface p => match b with VIface q => veq p q | _ => false end
  | VStruct sid fs =>
      match b with
      | VStruct sid' fs' =>
          (sid =? sid') &&
          (fix go (l : list (finfo * gval)) (l' : list (finfo * gval)) : bool :=
             match l, l' with
             | [], [] => true
             | x :: r, y :: r' => veq (snd x) (snd y) && go r r'
             | _, _ => false
             end) fs fs'
      | _ => false
      end
  | VTime _ x => match b with VTime _ y => bytes_eqb x y | _ => false end
  | VUrl _ x => match b with VUrl _ y => bytes_eqb x y | _ => false end
  | VBigInt _ x => match b with VBigInt _ y => (x =? y)%Z | _ => false end
  | VBigFloat _ x => match b with VBigFloat _ y => bigfloat_veq x y | _ => false end
  | VBigDec _ x => match b with VBigDec _ y => dfloat_veq x y | _ => false end
  | VDFloat _ x => match b with VDFloat _ y => dfloat_veq x y | _ => false end
  | VUid x => match b with VUid y => bytes_eqb x y | _ => false end
  | VMedia _ mt d => match b with VMedia _ mt' d' => bytes_eqb mt mt' && bytes_eqb d d' | _ => false end
  | VNode x ch =>
      match b with
      | VNode y ch' => veq x y && veq ch ch'
      | _ => false
      end
  | VEdge x y z => match b with VEdge x' y' z' => veq x x' && veq y y' && veq z z' | _ => false end
  end.

(* [same_shape a b]: the same nil / non-nil choices everywhere (what [veq] does not look at) *)
Definition skind_eqb (a b : skind) : bool :=
  match a, b with SNil, SNil | SSlice, SSlice | SArr, SArr => true | _, _ => false end.
Fixpoint same_shape (a b : gval) {struct a} : bool :=
  match a, b with
  | VNum s1 _ _, VNum s2 _ _ | VBools s1 _, VBools s2 _ => skind_eqb s1 s2
  | VNilSlice, VNilSlice | VNilMap, VNilMap => true
  | VNilSlice, _ | _, VNilSlice | VNilMap, _ | _, VNilMap => false
  | VSlice _ l, VSlice _ l' | VArray l, VArray l' =>
      (fix go (l l' : list gval) : bool :=
         match l, l' with
         | x :: r, y :: r' => same_shape x y && go r r'
         | _, _ => true
         end) l l'
  | VMap _ kvs, VMap _ kvs' =>
      (* values of the entries with equal keys *)
      (fix go (l : list (gval * gval)) : bool :=
         match l with
         | [] => true
         | kv :: r => forallb (fun kv' => negb (veq (fst kv) (fst kv')) || same_shape (snd kv) (snd kv')) kvs' && go r
         end) kvs
  | VPtr _ p, (VPtr _ q | VOPtr q) | VOPtr p, (VPtr _ q | VOPtr q) | VIface p, VIface q => same_shape p q
  | VStruct _ fs, VStruct _ fs' =>
      (fix go (l l' : list (finfo * gval)) : bool :=
         match l, l' with
         | x :: r, y :: r' => same_shape (snd x) (snd y) && go r r'
         | _, _ => true
         end) fs fs'
  | VNode x ch, VNode y ch' => same_shape x y && same_shape ch ch'
  | VEdge x y z, VEdge x' y' z' => same_shape x x' && same_shape y y' && same_shape z z'
  | _, _ => true
  end.

(* ------------------------------------------------------------------------- *)
(* The pipeline behind ce.UnmarshalFromCBEDocument: the validator stands between the decoder
   and the builder                                                             *)

Definition table (A : Type) := list (bytes * option A).
Definition of_table {A} (t : table A) (k : bytes) : option A :=
  match tab_find bytes_eqb k t with Some r => r | None => None end.
Definition dtable := list (dfloat * option bigfloat).
Definition of_dtable (t : dtable) (k : dfloat) : option bigfloat :=
  match tab_find dfloat_eqb k t with Some r => r | None => None end.

Record libtabs := mkLib {
  lt_url : table bytes; lt_time : table bytes; lt_dec : dtable; lt_bigdec : dtable;
}.
Definition no_lib : libtabs := mkLib [] [] [] [].
Definition build_with (lt : libtabs) (cfg : bcfg) (t : gtype) (es : list event) : tres :=
  build_typed (of_table (lt_url lt)) (of_table (lt_time lt)) (of_dtable (lt_dec lt)) (of_dtable (lt_bigdec lt)) cfg t es.

(* decoder events -> the validator (default limits) -> the builder *)
Definition unmarshal_events (lt : libtabs) (cfg : bcfg) (t : gtype) (es : list event) : tres :=
  match rejected_at default_rcfg es with
  | Some i => TErr i
  | None => build_with lt cfg t (forwarded default_rcfg es)
  end.

(* ------------------------------------------------------------------------- *)
(* Correspondence cases                                                       *)

Inductive mrt_obs :=
| ObsOk (v : gval)          (* the unmarshal call returned this value *)
| ObsPanic (i : N)          (* the builder panicked on the event of this index *)
| ObsStopped.               (* the validator or the decoder stopped the document: the events are a prefix *)

Fixpoint is_prefix (a b : list event) : bool :=
  match a, b with
  | [], _ => true
  | x :: a', y :: b' => event_eqb x y && is_prefix a' b'
  | _, _ => false
  end.

(* libraries; builder configuration; type; for CBE documents the marshaler's configuration and the
   value marshaled; the events the builder received; what was observed *)
Definition marshalrt_case := (libtabs * bcfg * gtype * option (icfg * gval) * list event * mrt_obs)%type.

Definition marshalrt_case_ok (c : marshalrt_case) : bool :=
  let '(lt, cfg, t, src, evs, obs) := c in
  (match src with
   | None => true
   | Some (ic, v) =>
       (* iterate, CBE encoder, CBE decoder, validator: the events that reached the builder *)
       let model_evs := cbe_events (iterate ic (Some v)) in
       match obs with
       | ObsStopped => is_prefix evs model_evs
       | ObsPanic _ => is_prefix evs model_evs
       | ObsOk _ => list_eqb event_eqb model_evs evs
       end
   end) &&
  match obs, build_with lt cfg t evs with
  | ObsOk v, TOk m => veq m v && veq v m && same_shape m v
  | ObsPanic i, TErr j => i =? j
  | ObsStopped, TOk _ => true
  | _, _ => false
  end.
