(* C20 — pointer graphs through the marshaler and back, with recursion support.

   Model of
     iterator/iterator_root.go   RootObjectIterator.Iterate, addLocalReference,
                                 getNamedLocalReference (marker ids: a uint32 counter, printed in decimal)
     iterator/iterators.go       newPointerIterator, newSliceOrArrayAsListIterator, newMapIterator,
                                 newStructIterator + shouldIncludeField/isValueEmpty (field omission)
     go-duplicates               FindDuplicatePointers / scanValue (which objects get a marker)
     rules/context.go            BeginMarkerAnyType, MarkObject, LocalReferenceObject, EndDocument and
     rules/rules_marker_ref.go   MarkedObjectAnyTypeRule, MarkContainer: the marker/reference bookkeeping of
                                 the validator (the id of a marked container is kept in the marker's stack entry)
     builder/builder_marker.go   markerObjectBuilder (a marked container is registered when it ENDS)
     builder/reference_filler.go NotifyMarker / NotifyLocalReference (setters run at once or deferred)
     builder/builder_struct.go, builder_slice.go, builder_map.go, builder_ptr.go, builder_top_level.go
                                 the builder stack for the destination type below, BuildFromLocalReference
   written from the code as it is.  Definitions only.

   Go values.  The graphs are the values of the Go type

       type N struct { V int; A, B, C *N; S []*N; M map[int]*N }

   reachable from a root of type *N.  A heap maps an address to a node:
   a struct node (the object a *N points to: payload V, the five reference fields), a slice node
   (the backing array of a []*N together with its length; elements are *N or nil) or a map node
   (a map[int]*N; values are *N or nil).  An address stands for the identity the code uses:
   duplicates.TypedPointer = (type, pointer).  References are [option addr]; [None] is nil.
   Every node keeps its outgoing references as a list of (label, reference): field index for
   structs, position for slices, key for maps (for a map: in the order the Go runtime delivered the
   entries when it was iterated; the harness observes that order).

   Outside the model (stated where used): the encoders/decoders between iterator and builder (the
   codec round trip of these events is the subject of other properties; the harness runs the real
   CBE and CTE codecs and compares the final object graph); the validator's size limits (container
   depth 1000, 10^6 objects, 10^4 marked objects / markers) and every validator rule other than the
   marker/reference bookkeeping (the case checker evaluates the complete validator model
   Model/Rules.v on every generated stream and compares); pointers into the middle of another object;
   slices sharing a backing array with different lengths; event streams that the builder stack for
   this type answers with a panic other than the ones modelled (unknown field names, a marked null).

   Root by value.  Marshal may be handed the root struct itself (a N, not a *N).  The interface then
   holds a COPY of the root object, which nothing points at; the graph that is written is the heap
   with one more struct node (the copy, same payload and fields as the root object) as its root.
   The iterator treats that root like any other unmarked object, and Unmarshal builds a *N, so
   [graph_roundtrip] and the theorems apply to that heap as they stand; the harness hands over such
   heaps with the copy as root (by_value_root in the case description).

   Other Go types (pointers to scalars, by-value nested structs, arrays, slices / maps of structs,
   pointers to slices / maps, roots that are arrays, slices or maps): section "Extended shapes"
   below gives the heap language, the isomorphism relation and the supported fragment for them;
   the library's behaviour on them is not modelled. *)
From CE Require Export Model.Iterate.
Open Scope N_scope.

(* ------------------------------------------------------------------------- *)
(* Heaps                                                                      *)

Definition addr := N.
Definition ref := option addr.

Inductive kind := KStruct (v : Z) | KSlice | KMap.
Inductive label := LF (i : N) | LI (i : N) | LK (k : Z).
Record node := mkNode { nkind : kind; nkids : list (label * ref) }.
Definition heap := list (addr * node).

Definition label_eqb (a b : label) : bool :=
  match a, b with
  | LF x, LF y | LI x, LI y => x =? y
  | LK x, LK y => (x =? y)%Z
  | _, _ => false
  end.
Definition kind_eqb (a b : kind) : bool :=
  match a, b with
  | KStruct x, KStruct y => (x =? y)%Z
  | KSlice, KSlice | KMap, KMap => true
  | _, _ => false
  end.

Fixpoint hget (h : heap) (a : addr) : option node :=
  match h with
  | [] => None
  | (a', n) :: t => if a =? a' then Some n else hget t a
  end.
Fixpoint hupd (h : heap) (a : addr) (f : node -> node) : heap :=
  match h with
  | [] => []
  | (a', n) :: t => if a =? a' then (a', f n) :: t else (a', n) :: hupd t a f
  end.
Fixpoint kget (l : label) (ks : list (label * ref)) : option ref :=
  match ks with
  | [] => None
  | (l', r) :: t => if label_eqb l l' then Some r else kget l t
  end.
(* assignment to a slot: replace the entry, or append a new one *)
Fixpoint kset (l : label) (v : ref) (ks : list (label * ref)) : list (label * ref) :=
  match ks with
  | [] => [(l, v)]
  | (l', r) :: t => if label_eqb l l' then (l', v) :: t else (l', r) :: kset l v t
  end.

Definition mem (a : addr) (l : list addr) : bool := existsb (N.eqb a) l.
Definition is_struct (n : node) : bool := match nkind n with KStruct _ => true | _ => false end.

(* the destination type: field name (snake-cased Go name, which is also the alias the struct
   builder looks names up by), and the type of the field *)
Inductive ty := TPtr | TSlice | TMap.
Definition payload_name : bytes := [118].                                   (* "v" *)
Definition fields : list (bytes * ty) :=
  [([97], TPtr); ([98], TPtr); ([99], TPtr); ([115], TSlice); ([109], TMap)]. (* a b c s m *)
Definition field_label_name (l : label) : bytes :=
  match l with LF i => fst (nth (N.to_nat i) fields ([], TPtr)) | _ => [] end.
Fixpoint field_find (name : bytes) (i : N) (fs : list (bytes * ty)) : option (label * ty) :=
  match fs with
  | [] => None
  | (n, t) :: r => if bytes_eqb name n then Some (LF i, t) else field_find name (N.succ i) r
  end.
Definition zero_fields : list (label * ref) := [(LF 0, None); (LF 1, None); (LF 2, None); (LF 3, None); (LF 4, None)].

(* ------------------------------------------------------------------------- *)
(* duplicates.FindDuplicatePointers on a heap                                  *)

Definition container_empty (n : node) : bool :=
  match nkind n, nkids n with
  | KSlice, [] | KMap, [] => true
  | _, _ => false
  end.

(* scanValue: nil -> nothing; slices and maps of length 0 are not registered; the second visit of
   a registered address marks it and stops.  (The addresses of the fields themselves, which
   scanValue also registers, are distinct from every object address and never marked.) *)
Fixpoint gscan (h : heap) (fuel : nat) (r : ref) (rg : reg) : reg :=
  match r, fuel with
  | None, _ => rg
  | Some _, O => rg
  | Some a, S f =>
      match hget h a with
      | None => rg
      | Some n =>
          if container_empty n then rg
          else match reg_find a rg with
               | Some _ => reg_mark a rg
               | None => fold_left (fun g (lr : label * ref) => gscan h f (snd lr) g) (nkids n) ((a, false) :: rg)
               end
      end
  end.
Definition gdups_of (h : heap) (root : ref) : list addr :=
  map fst (filter (fun ad : N * bool => snd ad) (gscan h (S (length h)) root [])).

(* ------------------------------------------------------------------------- *)
(* The iterator                                                               *)

(* the tree of iterator calls: what was written at each position *)
Inductive tm :=
| TOmit                                   (* struct field left out (shouldIncludeField = false) *)
| TNull                                   (* NotifyNil *)
| TRef (id : N)                           (* OnReferenceLocal: later visit of a named object *)
| TNode (src : addr) (mark : option N) (k : kind) (kids : list (label * tm)).
                                          (* the object at src written out, behind OnMarker when named *)

Record ist := mkIst { g_named : list (addr * N); g_next : N }.
Definition ist0 : ist := mkIst [] 0.

Section Iterator.
Variable h : heap.
Variable dups : list addr.       (* foundReferences: the addresses FindDuplicatePointers maps to true *)
Variable omit_never : bool.      (* DefaultFieldOmitBehavior = OmitFieldNever (default: OmitFieldEmpty) *)

(* isValueEmpty on a field of N: nil, or a slice/map of length 0 *)
Definition empty_target (r : ref) : bool :=
  match r with
  | None => true
  | Some a => match hget h a with Some n => container_empty n | None => false end
  end.

Fixpoint gtrav_kids (tr : ref -> ist -> option (tm * ist)) (struct_fields : bool)
         (ks : list (label * ref)) (s : ist) : option (list (label * tm) * ist) :=
  match ks with
  | [] => Some ([], s)
  | (l, r) :: rest =>
      if struct_fields && negb omit_never && empty_target r then
        match gtrav_kids tr struct_fields rest s with
        | Some (ts, s') => Some ((l, TOmit) :: ts, s')
        | None => None
        end
      else
        match tr r s with
        | Some (t, s1) =>
            match gtrav_kids tr struct_fields rest s1 with
            | Some (ts, s2) => Some ((l, t) :: ts, s2)
            | None => None
            end
        | None => None
        end
  end.

(* one call of a pointer / slice / map iterator on a reference.  [None]: the recursion did not
   come back within [fuel] nested calls (or the heap has a dangling address). *)
Fixpoint gtrav (fuel : nat) (r : ref) (s : ist) : option (tm * ist) :=
  match r with
  | None => Some (TNull, s)
  | Some a =>
      match fuel with
      | O => None
      | S f =>
          match hget h a with
          | None => None
          | Some n =>
              if mem a dups then
                match named_find a (g_named s) with
                | Some id => Some (TRef id, s)
                | None =>
                    let id := g_next s in
                    match gtrav_kids (gtrav f) (is_struct n) (nkids n)
                                     (mkIst ((a, id) :: g_named s) ((id + 1) mod 4294967296)) with
                    | Some (ts, s') => Some (TNode a (Some id) (nkind n) ts, s')
                    | None => None
                    end
                end
              else
                match gtrav_kids (gtrav f) (is_struct n) (nkids n) s with
                | Some (ts, s') => Some (TNode a None (nkind n) ts, s')
                | None => None
                end
          end
      end
  end.

End Iterator.

(* the events of a call tree *)
Definition label_events (l : label) : list event :=
  match l with
  | LF _ => [EStringArray AT_String (field_label_name l)]
  | LK k => [EInt k]
  | LI _ => []
  end.
Definition kind_events (k : kind) : list event :=
  match k with
  | KStruct v => [EMap; EStringArray AT_String payload_name; EInt v]
  | KSlice => [EList]
  | KMap => [EMap]
  end.
Definition is_omit (t : tm) : bool := match t with TOmit => true | _ => false end.
Fixpoint flatten (t : tm) : list event :=
  match t with
  | TOmit => []
  | TNull => [ENull]
  | TRef id => [ERefLocal (dec_bytes id)]
  | TNode _ m k kids =>
      (match m with Some id => [EMarker (dec_bytes id)] | None => [] end) ++
      kind_events k ++
      flat_map (fun lt : label * tm =>
                  match lt with
                  | (l, t') => if is_omit t' then [] else label_events l ++ flatten t'
                  end) kids ++
      [EEnd]
  end.

(* enough nested calls for every heap on which the iteration terminates at all (GraphProofs) *)
Definition graph_fuel (h : heap) (dups : list addr) : nat := (S (length dups)) * (length h + 3).

Definition iterate_tree (h : heap) (dups : list addr) (omit_never : bool) (root : ref) : option tm :=
  match gtrav h dups omit_never (graph_fuel h dups) root ist0 with
  | Some (t, _) => Some t
  | None => None
  end.

(* RootObjectIterator.Iterate(root) for a non-nil interface holding a *N *)
Definition doc_events (t : tm) : list event := EBeginDoc :: EVersion 0 :: flatten t ++ [EEndDoc].
Definition iterate_graph (h : heap) (dups : list addr) (omit_never : bool) (root : ref) : option (list event) :=
  match iterate_tree h dups omit_never root with
  | Some t => Some (doc_events t)
  | None => None
  end.

(* ------------------------------------------------------------------------- *)
(* The validator's marker / reference bookkeeping                              *)

(* the stack entry a marker creates keeps the marker's id (contextStackEntry.MarkerID) *)
Inductive vframe := VContainer | VMarker (id : bytes).
Record vst := mkV {
  v_stack : list vframe;
  v_slot : bytes;               (* Context.markerID *)
  v_marked : list bytes;        (* markedObjects *)
  v_fwd : list bytes;           (* forwardLocalReferences *)
}.
Definition vst0 : vst := mkV [] [] [] [].
Definition bmem (x : bytes) (l : list bytes) : bool := existsb (bytes_eqb x) l.
Definition bremove (x : bytes) (l : list bytes) : list bytes := filter (fun y => negb (bytes_eqb x y)) l.

(* MarkObject: registers the id that is in Context.markerID *)
Definition v_mark (s : vst) : option vst :=
  if bmem (v_slot s) (v_marked s) then None
  else Some (mkV (v_stack s) (v_slot s) (v_slot s :: v_marked s) (bremove (v_slot s) (v_fwd s))).
(* a scalar was delivered to the rule on top: MarkedObjectAnyTypeRule unstacks itself, then MarkObject *)
Definition v_scalar (s : vst) : option vst :=
  match v_stack s with
  | VMarker _ :: rest => v_mark (mkV rest (v_slot s) (v_marked s) (v_fwd s))
  | _ => Some s
  end.
(* a container ended below the rule on top: MarkContainer takes the id from the marker's own entry *)
Definition v_ended (s : vst) : option vst :=
  match v_stack s with
  | VMarker id :: rest => v_mark (mkV rest id (v_marked s) (v_fwd s))
  | _ => Some s
  end.
Definition vstep (s : vst) (e : event) : option vst :=
  match e with
  | EBeginDoc | EVersion _ | EPadding | EComment _ _ => Some s
  | EEndDoc => if is_nil (v_fwd s) then Some s else None
  | EMarker id =>
      match v_stack s with
      | VMarker _ :: _ => None
      | _ => Some (mkV (VMarker id :: v_stack s) id (v_marked s) (v_fwd s))
      end
  | ERefLocal id =>
      match v_stack s with
      | VMarker _ :: _ => None
      | _ => Some (if bmem id (v_marked s) then s
                   else mkV (v_stack s) (v_slot s) (v_marked s) (id :: bremove id (v_fwd s)))
      end
  | EList | EMap => Some (mkV (VContainer :: v_stack s) (v_slot s) (v_marked s) (v_fwd s))
  | EEnd =>
      match v_stack s with
      | VContainer :: rest => v_ended (mkV rest (v_slot s) (v_marked s) (v_fwd s))
      | _ => None
      end
  | _ => v_scalar s
  end.
Fixpoint vrun (s : vst) (es : list event) : option vst :=
  match es with
  | [] => Some s
  | e :: r => match vstep s e with Some s' => vrun s' r | None => None end
  end.
Definition vmark (es : list event) : bool :=
  match vrun vst0 es with Some _ => true | None => false end.

(* ------------------------------------------------------------------------- *)
(* The builder for destination type *N                                         *)

Definition slot := (addr * label)%type.

Record bst := mkB {
  b_heap : heap;                        (* objects allocated so far *)
  b_next : addr;                        (* next fresh address *)
  b_marked : list (bytes * addr);       (* ReferenceFiller.markedValues *)
  b_pend : list (bytes * slot);         (* ReferenceFiller.unresolvedReferences: the slot each setter fills *)
  b_root : option ref;                  (* what the top-level builder's callback received *)
}.
Definition bst0 : bst := mkB [] 0 [] [] None.

Fixpoint bfind (id : bytes) (l : list (bytes * addr)) : option addr :=
  match l with
  | [] => None
  | (i, x) :: t => if bytes_eqb id i then Some x else bfind id t
  end.

Definition b_alloc (k : kind) (ks : list (label * ref)) (s : bst) : addr * bst :=
  (b_next s, mkB ((b_next s, mkNode k ks) :: b_heap s) (b_next s + 1) (b_marked s) (b_pend s) (b_root s)).
Definition b_set (sl : slot) (v : ref) (s : bst) : bst :=
  mkB (hupd (b_heap s) (fst sl) (fun n => mkNode (nkind n) (kset (snd sl) v (nkids n))))
      (b_next s) (b_marked s) (b_pend s) (b_root s).
Definition b_payload (p : addr) (z : Z) (s : bst) : bst :=
  mkB (hupd (b_heap s) p (fun n => mkNode (KStruct z) (nkids n))) (b_next s) (b_marked s) (b_pend s) (b_root s).
(* NotifyLocalReference *)
Definition b_ref (id : bytes) (sl : slot) (s : bst) : bst :=
  match bfind id (b_marked s) with
  | Some x => b_set sl (Some x) s
  | None => mkB (b_heap s) (b_next s) (b_marked s) (b_pend s ++ [(id, sl)]) (b_root s)
  end.
(* NotifyMarker *)
Definition b_mark (id : bytes) (x : addr) (s : bst) : bst :=
  let s1 := fold_left (fun st (e : bytes * slot) => if bytes_eqb id (fst e) then b_set (snd e) (Some x) st else st)
                      (b_pend s) s in
  mkB (b_heap s1) (b_next s1) ((id, x) :: b_marked s) (filter (fun e : bytes * slot => negb (bytes_eqb id (fst e))) (b_pend s))
      (b_root s1).

(* the builder stack, top first *)
Inductive bframe :=
| FTop                                         (* topLevelBuilder for *N *)
| FStructKey (p : addr)                        (* structBuilder, nextIsKey *)
| FStructInt (p : addr)                        (* structBuilder, next value is the payload V *)
| FStructVal (p : addr) (l : label) (t : ty)   (* structBuilder, next value goes into field l *)
| FSlice (p : addr) (n : N)                    (* sliceBuilder holding n elements *)
| FMapKey (p : addr)
| FMapVal (p : addr) (k : Z)
| FMarker (id : bytes).                        (* markerObjectBuilder *)

(* the type of the value a frame is waiting for *)
Definition frame_ty (f : bframe) : option ty :=
  match f with
  | FTop | FSlice _ _ | FMapVal _ _ => Some TPtr
  | FStructVal _ _ t => Some t
  | _ => None
  end.

(* a finished value reaches the frame that was waiting for it *)
Definition deliver (v : ref) (f : bframe) (s : bst) : option (bframe * bst) :=
  match f with
  | FTop => Some (FTop, mkB (b_heap s) (b_next s) (b_marked s) (b_pend s) (Some v))
  | FStructVal p l t =>
      match v, t with
      | None, TMap => None            (* mapBuilder.BuildFromNull hands the null to its KEY builder: intBuilder panics *)
      | None, TSlice => Some (FStructKey p, s)   (* sliceBuilder.BuildFromNull appends to a scratch slice: field stays nil *)
      | _, _ => Some (FStructKey p, b_set (p, l) v s)
      end
  | FSlice p n => Some (FSlice p (n + 1), b_set (p, LI n) v s)
  | FMapVal p k => Some (FMapKey p, b_set (p, LK k) v s)
  | _ => None
  end.

Definition bstate := (list bframe * bst)%type.

Definition begin_container (t : ty) (e : event) (s : bst) : option (bframe * bst) :=
  match t, e with
  | TPtr, EMap => let (p, s') := b_alloc (KStruct 0) zero_fields s in Some (FStructKey p, s')
  | TSlice, EList => let (p, s') := b_alloc KSlice [] s in Some (FSlice p 0, s')
  | TMap, EMap => let (p, s') := b_alloc KMap [] s in Some (FMapKey p, s')
  | _, _ => None
  end.

(* the builder that answers the next value: the marker wrapper passes the call to its child *)
Definition value_frame (stk : list bframe) : option bframe :=
  match stk with
  | FMarker _ :: f :: _ => Some f
  | f :: _ => Some f
  | [] => None
  end.

Definition bstep (st : bstate) (e : event) : option bstate :=
  let (stk, s) := st in
  match e with
  | EBeginDoc | EVersion _ | EEndDoc => Some st
  | EMarker id =>
      match stk with
      | f :: _ => match frame_ty f with Some _ => Some (FMarker id :: stk, s) | None => None end
      | [] => None
      end
  | ENull =>
      match stk with
      | f :: rest => match deliver None f s with Some (f', s') => Some (f' :: rest, s') | None => None end
      | [] => None
      end
  | EList | EMap =>
      match value_frame stk with
      | Some f =>
          match frame_ty f with
          | Some t => match begin_container t e s with Some (nf, s') => Some (nf :: stk, s') | None => None end
          | None => None
          end
      | None => None
      end
  | EEnd =>
      match stk with
      | (FStructKey p | FSlice p _ | FMapKey p) :: FMarker id :: f :: rest =>
          match deliver (Some p) f (b_mark id p s) with Some (f', s') => Some (f' :: rest, s') | None => None end
      | (FStructKey p | FSlice p _ | FMapKey p) :: f :: rest =>
          match deliver (Some p) f s with Some (f', s') => Some (f' :: rest, s') | None => None end
      | _ => None
      end
  | ERefLocal id =>
      match stk with
      | FStructVal p l _ :: rest => Some (FStructKey p :: rest, b_ref id (p, l) s)
      | FSlice p n :: rest => Some (FSlice p (n + 1) :: rest, b_ref id (p, LI n) (b_set (p, LI n) None s))
      | FMapVal p k :: rest => Some (FMapKey p :: rest, b_ref id (p, LK k) s)
      | _ => None
      end
  | EStringArray t name =>
      match stk with
      | FStructKey p :: rest =>
          if negb (t =? AT_String) then None
          else if bytes_eqb name payload_name then Some (FStructInt p :: rest, s)
          else match field_find name 0 fields with
               | Some (l, fty) => Some (FStructVal p l fty :: rest, s)
               | None => None
               end
      | _ => None
      end
  | EInt z =>
      match stk with
      | FStructInt p :: rest => Some (FStructKey p :: rest, b_payload p z s)
      | FMapKey p :: rest => Some (FMapVal p z :: rest, s)
      | _ => None
      end
  | _ => None
  end.
Fixpoint brun (st : bstate) (es : list event) : option bstate :=
  match es with
  | [] => Some st
  | e :: r => match bstep st e with Some st' => brun st' r | None => None end
  end.

Inductive rt_result := RtOk (h' : heap) (root' : ref) | RtRejected | RtBuildError | RtNoTermination.

Definition build_graph (es : list event) : rt_result :=
  match brun ([FTop], bst0) es with
  | Some ([FTop], s) => match b_root s with Some r => RtOk (b_heap s) r | None => RtBuildError end
  | _ => RtBuildError
  end.

(* Marshal, then Unmarshal into a *N.  enforce_rules = configuration.Marshal.EnforceRules *)
Definition graph_roundtrip (enforce_rules omit_never : bool) (h : heap) (dups : list addr) (root : ref) : rt_result :=
  match iterate_graph h dups omit_never root with
  | None => RtNoTermination
  | Some es => if enforce_rules && negb (vmark es) then RtRejected else build_graph es
  end.

(* ------------------------------------------------------------------------- *)
(* Hypotheses on the input, as boolean checks                                  *)

Definition all_kids (h : heap) : list ref := flat_map (fun an : addr * node => map snd (nkids (snd an))) h.

(* every address written in the heap, and the root, is allocated *)
Definition closed (h : heap) (root : ref) : bool :=
  forallb (fun r : ref => match r with Some a => match hget h a with Some _ => true | None => false end | None => true end)
          (root :: all_kids h).

(* longest chain of unmarked objects below a, cut off at [fuel] *)
Fixpoint rank_of (h : heap) (dups : list addr) (fuel : nat) (a : addr) : nat :=
  match fuel with
  | O => O
  | S f =>
      match hget h a with
      | None => O
      | Some n =>
          fold_left (fun m (lr : label * ref) =>
                       match snd lr with
                       | Some b => if mem b dups then m else Nat.max m (S (rank_of h dups f b))
                       | None => m
                       end) (nkids n) O
      end
  end.
(* every cycle passes through a marked object: along every edge into an unmarked object the rank drops *)
Definition cover_ok (h : heap) (dups : list addr) : bool :=
  forallb (fun an : addr * node =>
             forallb (fun lr : label * ref =>
                        match snd lr with
                        | Some b => mem b dups || (rank_of h dups (length h) b <? rank_of h dups (length h) (fst an))%nat
                        | None => true
                        end) (nkids (snd an))) h.

(* every object that is referenced more than once (the root reference counts) is marked *)
Definition occurrences (a : addr) (rs : list ref) : nat :=
  length (filter (fun r : ref => match r with Some b => a =? b | None => false end) rs).
Definition indeg_ok (h : heap) (root : ref) (dups : list addr) : bool :=
  forallb (fun an : addr * node => mem (fst an) dups || (occurrences (fst an) (root :: all_kids h) <=? 1)%nat) h.

(* the heap is a value of the Go type: no address allocated twice, struct nodes have the five fields
   pointing to objects of the field's type, slice positions are 0..n-1, map keys are distinct,
   elements are struct nodes; root is a struct node *)
Definition target_ok (h : heap) (t : ty) (r : ref) : bool :=
  match r with
  | None => true
  | Some a =>
      match hget h a, t with
      | Some (mkNode (KStruct _) _), TPtr | Some (mkNode KSlice _), TSlice | Some (mkNode KMap _), TMap => true
      | _, _ => false
      end
  end.
Fixpoint slice_labels_ok (i : N) (ks : list (label * ref)) : bool :=
  match ks with
  | [] => true
  | (LI j, _) :: t => (i =? j) && slice_labels_ok (N.succ i) t
  | _ :: _ => false
  end.
Fixpoint map_labels_ok (seen : list Z) (ks : list (label * ref)) : bool :=
  match ks with
  | [] => true
  | (LK k, _) :: t => negb (existsb (Z.eqb k) seen) && map_labels_ok (k :: seen) t
  | _ :: _ => false
  end.
Definition node_typed (h : heap) (n : node) : bool :=
  match nkind n with
  | KStruct _ =>
      list_eqb label_eqb (map fst (nkids n)) (map fst zero_fields) &&
      list_eqb Bool.eqb (map (fun c : (label * ref) * (bytes * ty) => target_ok h (snd (snd c)) (snd (fst c)))
                             (combine (nkids n) fields)) [true; true; true; true; true]
  | KSlice => slice_labels_ok 0 (nkids n) && forallb (fun lr : label * ref => target_ok h TPtr (snd lr)) (nkids n)
  | KMap => map_labels_ok [] (nkids n) && forallb (fun lr : label * ref => target_ok h TPtr (snd lr)) (nkids n)
  end.
Fixpoint addrs_distinct (seen : list addr) (h : heap) : bool :=
  match h with
  | [] => true
  | (a, _) :: t => negb (mem a seen) && addrs_distinct (a :: seen) t
  end.
Definition typed (h : heap) (root : ref) : bool :=
  addrs_distinct [] h && forallb (fun an : addr * node => node_typed h (snd an)) h && target_ok h TPtr root.
Definition no_empty_containers (h : heap) : bool :=
  forallb (fun an : addr * node => negb (container_empty (snd an))) h.

(* ------------------------------------------------------------------------- *)
(* Isomorphism of pointed heaps, decided by a simultaneous walk                *)

Definition pairing := list (addr * addr).
Fixpoint p_fwd (a : addr) (m : pairing) : option addr :=
  match m with [] => None | (x, y) :: t => if a =? x then Some y else p_fwd a t end.
Fixpoint p_bwd (b : addr) (m : pairing) : option addr :=
  match m with [] => None | (x, y) :: t => if b =? y then Some x else p_bwd b t end.

Fixpoint iso_walk (h1 h2 : heap) (fuel : nat) (r1 r2 : ref) (m : pairing) : option pairing :=
  match r1, r2 with
  | None, None => Some m
  | Some a, Some b =>
      match p_fwd a m, p_bwd b m with
      | Some b', _ => if b' =? b then Some m else None
      | None, Some _ => None
      | None, None =>
          match fuel with
          | O => None
          | S f =>
              match hget h1 a, hget h2 b with
              | Some n1, Some n2 =>
                  if kind_eqb (nkind n1) (nkind n2) && (length (nkids n1) =? length (nkids n2))%nat then
                    fold_left (fun (om : option pairing) (lr : label * ref) =>
                                 match om with
                                 | None => None
                                 | Some m' =>
                                     match kget (fst lr) (nkids n2) with
                                     | Some r2' => iso_walk h1 h2 f (snd lr) r2' m'
                                     | None => None
                                     end
                                 end) (nkids n1) (Some ((a, b) :: m))
                  else None
              | _, _ => None
              end
          end
      end
  | _, _ => None
  end.
Definition giso_check (h1 : heap) (r1 : ref) (h2 : heap) (r2 : ref) : bool :=
  match iso_walk h1 h2 (S (length h1)) r1 r2 [] with Some _ => true | None => false end.

(* ------------------------------------------------------------------------- *)
(* Extended shapes                                                             *)

(* A second, wider heap language: Go values of any type built from int, float64, string, pointers,
   slices, maps (scalar keys), arrays and structs — in particular the shapes the type N does not
   have: pointers to scalars and strings (markers on values that are not containers), structs
   nested BY VALUE that hold pointers, arrays of pointers, slices and maps whose elements are
   structs holding pointers, pointers to slices and to maps, and roots that are not pointers
   (a struct value, an array, a slice, a map).

   A value [xval] is what a variable of the Go type holds: by-value structs and arrays are written
   in line; a pointer, a non-empty slice and a non-empty map are references [XRef a] to a cell of
   the heap, which is where identity lives (the address stands for duplicates.TypedPointer, as
   above); nil pointers, nil and empty slices and maps are [XNil] (the default omit behaviour does
   not distinguish them).  A float64 is given by its IEEE bits.

   What is defined on this language: the isomorphism of pointed heaps ([xiso_check], the same
   simultaneous walk as [iso_walk]), the embedding of the heaps of the type N ([xembed]), and the
   fragment [x_supported] on which the round trip is asserted to give an isomorphic graph.  What
   the library DOES with these shapes (iterator and builders for arbitrary Go types) is NOT
   modelled: the harness runs the library, writes the original and the unmarshaled graph in this
   language, and the case checker recomputes the isomorphism verdicts and checks the assertion for
   the fragment.  Outside the fragment are exactly the classes on which the library loses
   references or refuses its own document (open findings, see Props/C20.v). *)

Inductive xval :=
| XNil
| XInt (z : Z)
| XFlt (bits : Z)
| XStr (s : bytes)
| XRef (a : addr)
| XStruct (fs : list xval)      (* fields in declaration order *)
| XArr (es : list xval).
Inductive xcell :=
| XCObj (v : xval)                   (* what a pointer points at *)
| XCSlice (es : list xval)           (* backing array and length of a slice *)
| XCMap (kvs : list (xval * xval)).  (* a map; keys are scalars or strings *)
Definition xheap := list (addr * xcell).

Fixpoint xget (h : xheap) (a : addr) : option xcell :=
  match h with
  | [] => None
  | (a', c) :: t => if a =? a' then Some c else xget t a
  end.

Definition xscalar_eqb (a b : xval) : bool :=
  match a, b with
  | XNil, XNil => true
  | XInt x, XInt y | XFlt x, XFlt y => (x =? y)%Z
  | XStr x, XStr y => bytes_eqb x y
  | _, _ => false
  end.
Fixpoint xmap_find (k : xval) (kvs : list (xval * xval)) : option xval :=
  match kvs with
  | [] => None
  | (k', v) :: t => if xscalar_eqb k k' then Some v else xmap_find k t
  end.

Fixpoint xsize (v : xval) : nat :=
  match v with
  | XStruct l | XArr l => S ((fix go (l : list xval) : nat := match l with [] => O | x :: r => (xsize x + go r)%nat end) l)
  | _ => 1%nat
  end.
Definition xcell_size (c : xcell) : nat :=
  match c with
  | XCObj v => S (xsize v)
  | XCSlice l => S (fold_right (fun x n => (xsize x + n)%nat) O l)
  | XCMap kvs => S (fold_right (fun (kv : xval * xval) n => (S (xsize (snd kv)) + n)%nat) O kvs)
  end.
Definition xheap_size (h : xheap) : nat := fold_right (fun (ac : addr * xcell) n => (xcell_size (snd ac) + n)%nat) O h.

(* the simultaneous walk: references are paired one to one, everything else is compared in place *)
Fixpoint xiso_walk (h1 h2 : xheap) (fuel : nat) (v1 v2 : xval) (m : pairing) : option pairing :=
  match fuel with
  | O => None
  | S f =>
      let walk_list :=
        fix wl (l1 l2 : list xval) (m : pairing) : option pairing :=
          match l1, l2 with
          | [], [] => Some m
          | x :: r1, y :: r2 => match xiso_walk h1 h2 f x y m with Some m' => wl r1 r2 m' | None => None end
          | _, _ => None
          end in
      match v1, v2 with
      | XRef a, XRef b =>
          match p_fwd a m, p_bwd b m with
          | Some b', _ => if b' =? b then Some m else None
          | None, Some _ => None
          | None, None =>
              match xget h1 a, xget h2 b with
              | Some (XCObj x), Some (XCObj y) => xiso_walk h1 h2 f x y ((a, b) :: m)
              | Some (XCSlice l1), Some (XCSlice l2) => walk_list l1 l2 ((a, b) :: m)
              | Some (XCMap k1), Some (XCMap k2) =>
                  if (length k1 =? length k2)%nat then
                    (fix wm (kvs : list (xval * xval)) (m : pairing) : option pairing :=
                       match kvs with
                       | [] => Some m
                       | (k, v) :: r =>
                           match xmap_find k k2 with
                           | Some v2 => match xiso_walk h1 h2 f v v2 m with Some m' => wm r m' | None => None end
                           | None => None
                           end
                       end) k1 ((a, b) :: m)
                  else None
              | _, _ => None
              end
          end
      | XStruct l1, XStruct l2 | XArr l1, XArr l2 => walk_list l1 l2 m
      | XRef _, _ | _, XRef _ | XStruct _, _ | _, XStruct _ | XArr _, _ | _, XArr _ => None
      | a, b => if xscalar_eqb a b then Some m else None
      end
  end.
Definition xiso_check (h1 : xheap) (r1 : xval) (h2 : xheap) (r2 : xval) : bool :=
  match xiso_walk h1 h2 (S (xheap_size h1 + xsize r1)) r1 r2 [] with Some _ => true | None => false end.
Definition xiso_both (h1 : xheap) (r1 : xval) (h2 : xheap) (r2 : xval) : bool :=
  xiso_check h1 r1 h2 r2 && xiso_check h2 r2 h1 r1.

(* the heaps of the type N in this language (struct node: payload, then the five fields) *)
Definition xembed_ref (h : heap) (r : ref) : xval :=
  match r with
  | Some a => match hget h a with
              | Some n => if container_empty n then XNil else XRef a
              | None => XRef a
              end
  | None => XNil
  end.
Definition xembed_node (h : heap) (n : node) : xcell :=
  match nkind n with
  | KStruct v => XCObj (XStruct (XInt v :: map (fun lr : label * ref => xembed_ref h (snd lr)) (nkids n)))
  | KSlice => XCSlice (map (fun lr : label * ref => xembed_ref h (snd lr)) (nkids n))
  | KMap => XCMap (map (fun lr : label * ref =>
                          (match fst lr with LK k => XInt k | LF i | LI i => XInt (Z.of_N i) end, xembed_ref h (snd lr)))
                       (nkids n))
  end.
Definition xembed (h : heap) : xheap := map (fun an : addr * node => (fst an, xembed_node h (snd an))) h.

(* references written in a value / a cell *)
Fixpoint xrefs (v : xval) : list addr :=
  match v with
  | XRef a => [a]
  | XStruct l | XArr l => (fix go (l : list xval) : list addr := match l with [] => [] | x :: r => xrefs x ++ go r end) l
  | _ => []
  end.
Definition xcell_refs (c : xcell) : list addr :=
  match c with
  | XCObj v => xrefs v
  | XCSlice l => flat_map xrefs l
  | XCMap kvs => flat_map (fun kv : xval * xval => xrefs (snd kv)) kvs
  end.
(* the cells reachable from a work list *)
Fixpoint xreach_from (h : xheap) (fuel : nat) (todo seen : list addr) : list addr :=
  match fuel with
  | O => seen
  | S f =>
      match todo with
      | [] => seen
      | a :: r =>
          if mem a seen then xreach_from h f r seen
          else match xget h a with
               | Some c => xreach_from h f (xcell_refs c ++ r) (a :: seen)
               | None => xreach_from h f r (a :: seen)
               end
      end
  end.
Definition xreaches (h : xheap) (a b : addr) : bool :=
  mem b (xreach_from h (S (2 * xheap_size h)) [a] []).

Definition is_xstruct (v : xval) : bool := match v with XStruct _ => true | _ => false end.
Definition is_xbyval (v : xval) : bool := match v with XStruct _ | XArr _ => true | _ => false end.

(* Is there, in the value [v] held by the cell [self], a reference that sits in a by-value
   container (a struct nested in a struct, an array, a struct or array that is an element of a
   slice or a value of a map) and whose target leads back to [self]?  When the library writes the
   graph such a reference can be one to an object that is still open (a back-edge). *)
Fixpoint xbyval_cyclic (h : xheap) (self : addr) (inbyval : bool) (v : xval) : bool :=
  match v with
  | XRef a => inbyval && xreaches h a self
  | XStruct l =>
      (fix go (l : list xval) : bool :=
         match l with [] => false | x :: r => xbyval_cyclic h self (inbyval || is_xstruct x) x || go r end) l
  | XArr l =>
      (fix go (l : list xval) : bool :=
         match l with [] => false | x :: r => xbyval_cyclic h self true x || go r end) l
  | _ => false
  end.
Definition xcell_supported (h : xheap) (self : addr) (c : xcell) : bool :=
  match c with
  | XCObj v =>
      negb (match v with
            | XRef a => match xget h a with Some (XCSlice _) | Some (XCMap _) => true | _ => false end  (* pointer to a slice / map *)
            | _ => false
            end) &&
      negb (xbyval_cyclic h self false v)
  | XCSlice l => forallb (fun e => negb (xbyval_cyclic h self (is_xbyval e) e)) l
  | XCMap kvs => forallb (fun kv : xval * xval => negb (xbyval_cyclic h self (is_xbyval (snd kv)) (snd kv))) kvs
  end.
(* the fragment on which the round trip is asserted to give an isomorphic graph (any root) *)
Definition x_supported (h : xheap) : bool :=
  forallb (fun ac : addr * xcell => xcell_supported h (fst ac) (snd ac)) h.

(* every address written in the heap or in the root is allocated, no address twice *)
Definition xclosed (h : xheap) (root : xval) : bool :=
  forallb (fun a => match xget h a with Some _ => true | None => false end)
          (xrefs root ++ flat_map (fun ac : addr * xcell => xcell_refs (snd ac)) h) &&
  (fix nd (seen : list addr) (h : xheap) : bool :=
     match h with [] => true | (a, _) :: t => negb (mem a seen) && nd (a :: seen) t end) [] h.

(* correspondence cases for the extended shapes *)
Inductive shape_result :=
| SOk (h' : xheap) (root' : xval) (verdict : bool)   (* what Unmarshal returned; the harness's own isomorphism verdict *)
| SErr.                                              (* Marshal or Unmarshal failed *)
Inductive shape_case :=
| ShapeCase (h : xheap) (root : xval)                (* what was handed to Marshal *)
            (results : list shape_result).           (* from the CBE document, from the CTE document *)

Definition shape_case_ok (c : shape_case) : bool :=
  match c with
  | ShapeCase h root results =>
      xclosed h root &&
      (* 1. the isomorphism verdicts, recomputed *)
      forallb (fun r => match r with
                        | SOk h' r' verdict => xclosed h' r' && Bool.eqb (xiso_both h root h' r') verdict
                        | SErr => true
                        end) results &&
      (* 2. inside the fragment the unmarshaled graph is isomorphic to the original *)
      (if x_supported h
       then forallb (fun r => match r with SOk _ _ true => true | _ => false end) results
       else true)
  end.

(* ------------------------------------------------------------------------- *)
(* Correspondence cases                                                        *)

Inductive impl_result := IOk (h' : heap) (root' : ref) | IErr.

Inductive graph_case :=
| GraphCase
    (omit_never : bool)
    (rules : bool)                  (* Marshal.EnforceRules *)
    (h : heap) (root : ref)
    (dups : list addr)              (* what duplicates.FindDuplicatePointers answered, as addresses of the heap *)
    (events : list event)           (* what the iterator delivered *)
    (results : list impl_result)    (* what Unmarshal returned: from the CBE document, from the CTE document *)
| StreamCase                        (* an event stream played into validator + builder for a *N *)
    (rules : bool)
    (events : list event)
    (result : impl_result).

Definition same_set (a b : list addr) : bool :=
  forallb (fun x => mem x b) a && forallb (fun x => mem x a) b.

Definition result_matches (model : rt_result) (impl : impl_result) : bool :=
  match model, impl with
  | RtOk hm rm, IOk hi ri => giso_check hm rm hi ri && giso_check hi ri hm rm
  | (RtRejected | RtBuildError), IErr => true
  | _, _ => false
  end.

Definition graph_case_ok (c : graph_case) : bool :=
  match c with
  | GraphCase omit_never rules h root d events results =>
      let model := graph_roundtrip rules omit_never h d root in
      (* 1. the duplicate finder *)
      same_set (gdups_of h root) d &&
      (* 2. the iterator *)
      match iterate_graph h d omit_never root with
      | Some es => list_eqb event_eqb es events &&
                   (* 3. the reduced validator agrees with the complete validator model *)
                   Bool.eqb (vmark es) (accepts_document default_rcfg es)
      | None => false
      end &&
      (* 4. validator + builder *)
      forallb (result_matches model) results &&
      (* 5. the theorem's statement on the implementation's own answers: under its hypotheses the
            unmarshaled graph is isomorphic to the original *)
      (if typed h root && closed h root && no_empty_containers h && negb omit_never &&
          cover_ok h d && indeg_ok h root d
       then forallb (fun r => match r with IOk h' r' => giso_check h root h' r' && giso_check h' r' h root | IErr => false end) results
       else true) &&
      (* 6. on these heaps the isomorphism of the extended heap language (above) is the same relation *)
      forallb (fun r => match r with
                        | IOk h' r' =>
                            if no_empty_containers h && no_empty_containers h'
                            then Bool.eqb (giso_check h root h' r' && giso_check h' r' h root)
                                          (xiso_both (xembed h) (xembed_ref h root) (xembed h') (xembed_ref h' r'))
                            else true
                        | IErr => true
                        end) results
  | StreamCase rules es result =>
      let full := accepts_document default_rcfg es in
      (* the reduced validator rejects nothing the complete one accepts *)
      (negb full || vmark es) &&
      result_matches (if rules && negb full then RtRejected else build_graph es) result
  end.

