(* Typed-array byte conversion helpers of package ce (ce/arrays.go), implemented
   in internal/arrays (arrays.go = byte-wise "fallback" loops,
   arrays_impurego.go = dispatch on an endianness probe + unsafe fast path,
   arrays_purego.go = always the fallbacks), and the private byte loops of the
   iterator (iterator/iterators.go iterateSliceOrArrayXxx) and of the typed-array
   builders (builder/builder_typed_array.go).  Executable definitions only.

   Element values are N bit patterns: unsigned ints as themselves, signed ints
   as their two's-complement pattern, floats as their IEEE-754 bit pattern.

   WHAT RUNS ON THE VERIFICATION HOST.  arrays_impurego.go init() stores
   uint16(1) and sets isLittleEndian when the byte at offset 1 is 1.  That is
   the big-endian layout, so the probe is inverted: on a little-endian host
   (amd64, the host of this project) isLittleEndian = false and every public
   helper runs the byte-wise fallback of arrays.go; the unsafe fast path is
   dead code there ([probe_is_little_endian], [runs_fast_path]).  The model of
   the helpers below is therefore the model of the fallbacks, which is also
   what a purego build runs on any host.  The harness reads the flag of the
   running binary and compares it with [probe_is_little_endian].

   In Go, [byte(v >> (8*i))] is [(v / 256^i) mod 256] and the OR of bytes
   shifted to disjoint positions is their weighted sum; [le_encode]/[le_decode]
   of Base.LE are written in that arithmetic form. *)
From CE Require Export Base.Prelude Base.LE.
Open Scope N_scope.

(* ------------------------------------------------------------------ *)
(* The fallbacks of internal/arrays/arrays.go                           *)
(* ------------------------------------------------------------------ *)

(* xSliceToBytes: result[i*w+j] = byte(v_i >> 8j), j < w. *)
Definition slice_to_bytes_nat (w : nat) (elems : list N) : bytes :=
  flat_map (le_encode w) elems.

(* bytesToXSlice: length := len(data) / w; result[i] = OR_j data[i*w+j] << 8j.
   The trailing len(data) mod w bytes are never read. *)
Definition bytes_to_slice_nat (w : nat) (b : bytes) : list N :=
  map (fun i => le_decode (firstn w (skipn (i * w) b))) (seq 0 (length b / w)).

(* Public forms, width in bytes as N: 1 (int8), 2 (uint16 int16),
   4 (uint32 int32 float32), 8 (uint64 int64 float64). *)
Definition slice_to_bytes (w : N) (elems : list N) : bytes :=
  slice_to_bytes_nat (N.to_nat w) elems.
Definition bytes_to_slice (w : N) (b : bytes) : list N :=
  bytes_to_slice_nat (N.to_nat w) b.

(* float16SliceToBytes takes float32 values and writes byte(f>>16), byte(f>>24):
   the top 16 bits of the float32 pattern (a bfloat16), low 16 bits dropped
   without rounding.  bytesToFloat16Slice puts the two bytes back at bits 16..31. *)
Definition f16_slice_to_bytes (elems : list N) : bytes :=
  slice_to_bytes 2 (map (fun f => f / 65536) elems).
Definition f16_bytes_to_slice (b : bytes) : list N :=
  map (fun v => v * 65536) (bytes_to_slice 2 b).

(* uuidSliceToBytes: concatenation (result := data[0]; append the rest).  The
   model is the value-level behaviour on elements that do not share memory;
   the Go code appends in place to data[0] when it has spare capacity, which
   the harness probes separately (finding "UUIDSliceAsBytes/aliasing"). *)
Definition uuid_slice_to_bytes (elems : list bytes) : bytes := concat elems.

(* bytesToUUIDSlice: for i := 0; i < len(data); i += 16 { data[i:i+16] }.
   A Go slice expression may extend up to the capacity, so a last partial
   chunk is completed from the [spare] bytes between len and cap when there
   are enough of them and panics otherwise.  [fuel] >= number of chunks. *)
Fixpoint uuid_chunks (fuel : nat) (b spare : bytes) : outcome (list bytes) :=
  match fuel with
  | O => Ok []
  | S f =>
    match b with
    | [] => Ok []
    | _ :: _ =>
      if (16 <=? length b)%nat then
        outcome_bind (uuid_chunks f (skipn 16 b) spare) (fun r => Ok (firstn 16 b :: r))
      else if (16 <=? length b + length spare)%nat then
        Ok [b ++ firstn (16 - length b) spare]
      else Panic
    end
  end.
Definition bytes_to_uuid_slice (b spare : bytes) : outcome (list bytes) :=
  uuid_chunks (length b) b spare.

(* ------------------------------------------------------------------ *)
(* Dispatch of arrays_impurego.go                                       *)
(* ------------------------------------------------------------------ *)

(* Memory image of an unsigned value of [w] bytes on the host. *)
Definition mem_bytes (host_le : bool) (w : nat) (v : N) : bytes :=
  if host_le then le_encode w v else rev (le_encode w v).

(* init(): v := uint16(1); isLittleEndian = (bytes[1] == 1). *)
Definition probe_is_little_endian (host_le : bool) : bool :=
  nth 1 (mem_bytes host_le 2 1) 0 =? 1.

(* The helpers take the unsafe path iff the flag is set. *)
Definition runs_fast_path (host_le : bool) : bool := probe_is_little_endian host_le.

(* XSliceAsBytes as dispatched: the unsafe path reinterprets host memory
   (and indexes data[0], so it panics on an empty slice). *)
Definition as_bytes_on_host (host_le : bool) (w : N) (elems : list N) : outcome bytes :=
  if runs_fast_path host_le then
    match elems with
    | [] => Panic
    | _ => Ok (flat_map (mem_bytes host_le (N.to_nat w)) elems)
    end
  else Ok (slice_to_bytes w elems).

(* ------------------------------------------------------------------ *)
(* The encoders' and decoders' own loops                                *)
(* ------------------------------------------------------------------ *)

(* float32 bit patterns: signalling NaN = exponent all ones, quiet bit (22)
   clear, mantissa non-zero.  A float32 -> float64 -> float32 conversion
   returns the pattern unchanged except that a signalling NaN comes back
   quiet (bit 22 set). *)
Definition is_snan32 (f : N) : bool :=
  ((f / 8388608) mod 256 =? 255) && negb (f mod 8388608 =? 0) && ((f / 4194304) mod 2 =? 0).
Definition quiet32 (f : N) : N := if is_snan32 f then f + 4194304 else f.

(* iterator/iterators.go iterateSliceOrArray{Uint,Int}{8,16,32,64}: the same
   byte loop as the fallbacks, on v.Index(i).Uint()/Int().
   iterateSliceOrArrayFloat32: math.Float32bits(float32(v.Index(i).Float())),
   i.e. through float64 and back.  Float64: v.Float() is the identity. *)
Definition iter_to_bytes (w : N) (is_f32 : bool) (elems : list N) : bytes :=
  if is_f32 then slice_to_bytes 4 (map quiet32 elems) else slice_to_bytes w elems.

(* builder/builder_typed_array.go: xSliceBuilder and xArrayBuilder repeat the
   loop of bytesToXSlice.  float32ArrayBuilder stores through
   elem.SetFloat(float64(math.Float32frombits(bits))) into a float32 cell:
   through float64 and back.  The slice builder and the interface{} builder
   (which calls the helpers) keep the bits. *)
Definition build_from_bytes (w : N) (is_f32_array : bool) (b : bytes) : list N :=
  if is_f32_array then map quiet32 (bytes_to_slice 4 b) else bytes_to_slice w b.

(* ------------------------------------------------------------------ *)
(* Correspondence cases                                                 *)
(* ------------------------------------------------------------------ *)

Definition nlist_eqb : list N -> list N -> bool := list_eqb N.eqb.
Definition bytes_list_eqb : list bytes -> list bytes -> bool := list_eqb bytes_eqb.

Definition outcome_eqb {A} (eqb : A -> A -> bool) (a b : outcome A) : bool :=
  match a, b with
  | Ok x, Ok y => eqb x y
  | Err, Err | Panic, Panic | Hang, Hang => true
  | _, _ => false
  end.

Inductive arr_case :=
| ToBytes (w : N) (elems : list N) (impl_bytes : bytes)          (* ce.XSliceAsBytes *)
| FromBytes (w : N) (b : bytes) (impl_elems : list N)            (* ce.BytesToXSlice *)
| F16ToBytes (elems : list N) (impl_bytes : bytes)               (* arrays.Float16SliceAsBytes *)
| F16FromBytes (b : bytes) (impl_elems : list N)                 (* arrays.BytesToFloat16Slice *)
| UuidToBytes (elems : list bytes) (impl_bytes : bytes)          (* arrays.UUIDSliceAsBytes, unshared elements *)
| UuidFromBytes (b spare : bytes) (impl : outcome (list bytes))  (* arrays.BytesToUUIDSlice *)
| IterBytes (w : N) (is_f32 : bool) (elems : list N) (impl_bytes : bytes)      (* OnArray payload from the iterator *)
| BuildElems (w : N) (is_f32_array : bool) (b : bytes) (impl_elems : list N)   (* object built from an OnArray event *)
| ProbeCase (host_le : bool) (impl_flag : bool).                 (* arrays.isLittleEndian of the running binary *)

Definition arr_case_ok (c : arr_case) : bool :=
  match c with
  | ToBytes w e r => bytes_eqb (slice_to_bytes w e) r
  | FromBytes w b r => nlist_eqb (bytes_to_slice w b) r
  | F16ToBytes e r => bytes_eqb (f16_slice_to_bytes e) r
  | F16FromBytes b r => nlist_eqb (f16_bytes_to_slice b) r
  | UuidToBytes e r => bytes_eqb (uuid_slice_to_bytes e) r
  | UuidFromBytes b s r => outcome_eqb bytes_list_eqb (bytes_to_uuid_slice b s) r
  | IterBytes w f e r => bytes_eqb (iter_to_bytes w f e) r
  | BuildElems w f b r => nlist_eqb (build_from_bytes w f b) r
  | ProbeCase h r => Bool.eqb (probe_is_little_endian h) r
  end.
