(* C24 — CTE literals: what the listener in /repo/cte/parser.go computes from
   the text of a token (ExitValueInt, ExitValueFloat, parseIntElement,
   parseUintElement, parseFloatElement, ExitEscapeChar, ExitCodepointContents,
   ExitVerbatimContents) together with the string-mode part of the lexer
   (/repo/codegen/cte/CTELexer.g4, MODE_STRING .. MODE_CODEPOINT, including the
   stateful verbatim-sentinel predicates), and next to it the meaning of a
   literal according to the grammar (the [*_lit] spelling trees, [render_*],
   [*_value]).

   Executable definitions only.  Conventions:
   - texts are byte lists (ASCII for numbers); string bodies are lists of code
     points, exactly what antlr.NewInputStream hands to the lexer;
   - the decoder turns every panic of the listener into an error, so the only
     observable outcomes are [Ok r] and [Err];
   - library routines are modelled by their documented contract on the inputs
     the grammar can produce: strconv.ParseInt/ParseUint (syntax incl. base 0
     prefixes and the underscore rule, range check), big.Int.SetString base 0,
     strconv.ParseFloat / big.ParseFloat (syntax; value = exact value of the
     spelling handed to a rounding function), apd.NewFromString (syntax and
     exponent limits).  compact_float.DFloatFromString is modelled statement
     by statement because its uint64 / int32 wrap-arounds are observable.
   - the binary rounding function is a parameter of the float-element model
     ([round]); [rne] is the concrete correctly-rounding instance used by the
     correspondence cases. *)
From CE Require Export Base.Prelude Base.LE.
Open Scope N_scope.

(* ------------------------------------------------------------------ *)
(* Characters                                                           *)
(* ------------------------------------------------------------------ *)

Definition c_us : N := 95.    (* _ *)
Definition c_minus : N := 45.
Definition c_plus : N := 43.
Definition c_dot : N := 46.
Definition c_0 : N := 48.

Definition is_dec (c : N) : bool := (48 <=? c) && (c <=? 57).
Definition lower (c : N) : N := if (65 <=? c) && (c <=? 90) then c + 32 else c.
Definition is_hexletter (c : N) : bool := (97 <=? lower c) && (lower c <=? 102).
Definition is_hex (c : N) : bool := is_dec c || is_hexletter c.

(* strconv's digit value: 0-9, a-z, A-Z *)
Definition digit_val (c : N) : option N :=
  if is_dec c then Some (c - 48)
  else if (97 <=? lower c) && (lower c <=? 122) then Some (lower c - 87)
  else None.

Definition is_us (c : N) : bool := c =? c_us.
(* strings.ReplaceAll(s, "_", "") *)
Definition strip_us (s : bytes) : bytes := filter (fun c => negb (is_us c)) s.
Definition has_us (s : bytes) : bool := existsb is_us s.

(* longest prefix satisfying p, and the rest *)
Fixpoint span (p : N -> bool) (s : bytes) : bytes * bytes :=
  match s with
  | [] => ([], [])
  | c :: r => if p c then let '(a, b) := span p r in (c :: a, b) else ([], s)
  end.

(* value of a digit string in a base (every char must be a digit < base) *)
Fixpoint digits_val (base : N) (s : bytes) (acc : N) : option N :=
  match s with
  | [] => Some acc
  | c :: r => match digit_val c with
              | Some d => if d <? base then digits_val base r (acc * base + d) else None
              | None => None
              end
  end.

(* ------------------------------------------------------------------ *)
(* strconv.ParseUint / ParseInt, big.Int.SetString(s, 0)                *)
(* ------------------------------------------------------------------ *)

(* the digit loop of ParseUint: '_' is skipped only when base0 *)
Fixpoint go_digits (base : N) (us_ok : bool) (s : bytes) (acc : N) : option N :=
  match s with
  | [] => Some acc
  | c :: r =>
    if is_us c then (if us_ok then go_digits base us_ok r acc else None)
    else match digit_val c with
         | Some d => if d <? base then go_digits base us_ok r (acc * base + d) else None
         | None => None
         end
  end.

(* strconv.underscoreOK *)
Inductive saw := SawStart | SawDigit | SawUs | SawOther.
Fixpoint us_scan (hex : bool) (st : saw) (s : bytes) : bool :=
  match s with
  | [] => match st with SawUs => false | _ => true end
  | c :: r =>
    if is_dec c || (hex && is_hexletter c) then us_scan hex SawDigit r
    else if is_us c then (match st with SawDigit => us_scan hex SawUs r | _ => false end)
    else match st with SawUs => false | _ => us_scan hex SawOther r end
  end.
Definition drop_sign (s : bytes) : bytes :=
  match s with c :: r => if (c =? c_minus) || (c =? c_plus) then r else s | [] => [] end.
Definition underscore_ok (s0 : bytes) : bool :=
  let s := drop_sign s0 in
  match s with
  | z :: c :: r =>
    let l := lower c in
    if (z =? 48) && ((l =? 98) || (l =? 111) || (l =? 120)) then us_scan (l =? 120) SawDigit r
    else us_scan false SawStart s
  | _ => us_scan false SawStart s
  end.

(* base-0 prefix selection of ParseUint: needs len >= 3 for 0b/0o/0x *)
Definition base0_prefix (s : bytes) : N * bytes :=
  match s with
  | z :: r =>
    if z =? 48 then
      match r with
      | c :: (_ :: _) as r2 =>
        let l := lower c in
        if l =? 98 then (2, r2) else if l =? 111 then (8, r2) else if l =? 120 then (16, r2)
        else (8, r)
      | _ => (8, r)
      end
    else (10, s)
  | [] => (10, s)
  end.

(* None = any error (syntax or range) *)
Definition go_parse_uint (s : bytes) (base bits : N) : option N :=
  match s with
  | [] => None
  | _ =>
    let base0 := base =? 0 in
    let '(b, rest) := if base0 then base0_prefix s else (base, s) in
    match go_digits b base0 rest 0 with
    | None => None
    | Some n =>
      if base0 && has_us s && negb (underscore_ok s) then None
      else if n <? 2 ^ bits then Some n else None
    end
  end.

Definition go_parse_int (s : bytes) (base bits : N) : option Z :=
  match s with
  | [] => None
  | c :: r =>
    let '(neg, s') := if c =? c_plus then (false, r) else if c =? c_minus then (true, r) else (false, s) in
    match go_parse_uint s' base bits with
    | None => None
    | Some n =>
      let cutoff := 2 ^ (bits - 1) in
      if neg then (if n <=? cutoff then Some (- Z.of_N n)%Z else None)
      else (if n <? cutoff then Some (Z.of_N n) else None)
    end
  end.

(* big.Int.SetString(s, 0): same prefixes ("0" alone or followed by digits is
   octal), a prefix must be followed by a digit, no size limit *)
Definition go_bigint0 (s : bytes) : option Z :=
  match s with
  | [] => None
  | c :: r =>
    let '(neg, s') := if c =? c_plus then (false, r) else if c =? c_minus then (true, r) else (false, s) in
    match s' with
    | [] => None
    | _ =>
      let '(b, rest) := base0_prefix s' in
      match go_digits b true rest 0 with
      | None => None
      | Some n => if has_us s' && negb (underscore_ok s') then None
                  else Some (if neg then (- Z.of_N n)%Z else Z.of_N n)
      end
    end
  end.

(* ------------------------------------------------------------------ *)
(* Results                                                              *)
(* ------------------------------------------------------------------ *)

Inductive lit_result :=
| RInt (z : Z)                                         (* OnInt *)
| RNegInt (n : N)                                      (* OnNegativeInt *)
| RBigInt (z : Z)                                      (* OnBigInt *)
| RFloat (bits : N)                                    (* OnFloat, float64 bit pattern *)
| RBigFloat (neg : bool) (mant : N) (exp : Z) (prec : N) (* OnBigFloat: (-1)^neg * mant * 2^exp, mant odd *)
| RDec (coef : Z) (exp : Z)                            (* OnDecimalFloat: raw DFloat fields *)
| RBigDec (neg : bool) (coef : N) (exp : Z)            (* OnBigDecimalFloat *)
| RBytes (data : bytes).                               (* payload of OnArray *)

Definition lit_result_eqb (a b : lit_result) : bool :=
  match a, b with
  | RInt x, RInt y | RBigInt x, RBigInt y => (x =? y)%Z
  | RNegInt x, RNegInt y | RFloat x, RFloat y => x =? y
  | RBigFloat n1 m1 e1 p1, RBigFloat n2 m2 e2 p2 => Bool.eqb n1 n2 && (m1 =? m2) && (e1 =? e2)%Z && (p1 =? p2)
  | RDec c1 e1, RDec c2 e2 => (c1 =? c2)%Z && (e1 =? e2)%Z
  | RBigDec n1 c1 e1, RBigDec n2 c2 e2 => Bool.eqb n1 n2 && (c1 =? c2) && (e1 =? e2)%Z
  | RBytes x, RBytes y => bytes_eqb x y
  | _, _ => false
  end.

Definition res_eqb (a b : outcome lit_result) : bool :=
  match a, b with
  | Ok x, Ok y => lit_result_eqb x y
  | Err, Err => true
  | _, _ => false
  end.

Definition is_neg_text (s : bytes) : bool := match s with c :: _ => c =? c_minus | [] => false end.

(* stripDecimalLeadingZeros (cte/parser.go, fixes 601f9e0 and 6b24587): after an
   optional sign, a zero is dropped together with the separators that follow it
   as long as a decimal digit comes next, so that the base-0 modes of strconv /
   math/big do not read "010" or "0_10" as octal.  A zero followed by anything
   else ("0x..", "0") stays. *)
Fixpoint digit_after_us (s : bytes) : bool :=
  match s with
  | c :: r => if is_us c then digit_after_us r else is_dec c
  | [] => false
  end.
(* [skipping]: the separators behind a dropped zero are being skipped *)
Fixpoint drop0x (skipping : bool) (s : bytes) : bytes :=
  match s with
  | [] => []
  | c :: r => if skipping && is_us c then drop0x true r
              else if (c =? 48) && digit_after_us r then drop0x true r
              else s
  end.
Definition drop0 (s : bytes) : bytes := drop0x false s.
Definition strip_dec_lead0 (s : bytes) : bytes :=
  match s with
  | c :: r => if (c =? c_minus) || (c =? c_plus) then c :: drop0 r else drop0 s
  | [] => []
  end.

(* ------------------------------------------------------------------ *)
(* ExitValueInt                                                         *)
(* ------------------------------------------------------------------ *)

Definition impl_int (text : bytes) : outcome lit_result :=
  let str := strip_dec_lead0 (strip_us text) in
  match str with
  | [] => Err                                     (* str[0]: index out of range *)
  | _ =>
    let neg := is_neg_text str in
    match go_parse_int str 0 64 with
    | Some v => if (v =? 0)%Z && neg then Ok (RNegInt 0) else Ok (RInt v)
    | None => match go_bigint0 str with
              | Some z => Ok (RBigInt z)
              | None => Err                       (* "BUG: Expected an integer" *)
              end
    end
  end.

(* ------------------------------------------------------------------ *)
(* parseIntElement / parseUintElement                                   *)
(* ------------------------------------------------------------------ *)

(* bits in {8,16,32,64}; little-endian two's complement *)
Definition le_bits (bits : N) (v : N) : bytes := le_encode (N.to_nat (bits / 8)) v.
Definition twos (bits : N) (z : Z) : N := Z.to_N (z mod 2 ^ Z.of_N bits).

Definition parse_int_elem (base bits : N) (text : bytes) : outcome bytes :=
  match go_parse_int text base bits with
  | Some z => Ok (le_bits bits (twos bits z))
  | None => Err
  end.

Definition parse_uint_elem (base bits : N) (text : bytes) : outcome bytes :=
  match go_parse_uint text base bits with
  | Some n => Ok (le_bits bits n)
  | None => Err
  end.

(* in an implicit-base array the text first goes through stripDecimalLeadingZeros
   (the separators are still in it) *)
Definition elem_text (base : N) (text : bytes) : bytes :=
  if base =? 0 then strip_dec_lead0 text else text.
Definition impl_int_elem (base bits : N) (text : bytes) : outcome bytes :=
  parse_int_elem base bits (elem_text base text).
Definition impl_uint_elem (base bits : N) (text : bytes) : outcome bytes :=
  parse_uint_elem base bits (elem_text base text).

Fixpoint concat_outcomes (l : list (outcome bytes)) : outcome bytes :=
  match l with
  | [] => Ok []
  | Ok b :: r => match concat_outcomes r with Ok b' => Ok (b ++ b') | o => o end
  | _ :: _ => Err
  end.

(* ------------------------------------------------------------------ *)
(* Spelling trees of the grammar (CTELexer.g4 fragments)                *)
(* ------------------------------------------------------------------ *)

(* DIGITS_x: D ('_'* D)*  — first digit, then (number of underscores, digit) *)
Record dseq := { d_first : N; d_rest : list (nat * N) }.
Definition dseq_chars (d : dseq) : bytes := d_first d :: map snd (d_rest d).
Definition render_dseq (d : dseq) : bytes :=
  d_first d :: flat_map (fun p => repeat c_us (fst p) ++ [snd p]) (d_rest d).

Inductive ibase := B2 | B8 | B10 | B16.
Definition ibase_n (b : ibase) : N := match b with B2 => 2 | B8 => 8 | B10 => 10 | B16 => 16 end.
(* the digit class of each base: BIT, OCT, DEC, HEX *)
Definition digit_ok (b : ibase) (c : N) : bool :=
  match b with
  | B2 => (c =? 48) || (c =? 49)
  | B8 => (48 <=? c) && (c <=? 55)
  | B10 => is_dec c
  | B16 => is_hex c
  end.
Definition dseq_ok (b : ibase) (d : dseq) : bool := forallb (digit_ok b) (dseq_chars d).

(* PREFIX_BIN / PREFIX_OCT / PREFIX_HEX with either letter case; none for decimal *)
Definition prefix_chars (b : ibase) (upper : bool) : bytes :=
  match b with
  | B2 => [48; if upper then 66 else 98]
  | B8 => [48; if upper then 79 else 111]
  | B16 => [48; if upper then 88 else 120]
  | B10 => []
  end.

Fixpoint chars_val (base : N) (s : bytes) (acc : N) : N :=
  match s with
  | [] => acc
  | c :: r => chars_val base r (acc * base + match digit_val c with Some d => d | None => 0 end)
  end.
Definition dseq_val (b : ibase) (d : dseq) : N := chars_val (ibase_n b) (dseq_chars d) 0.

(* PINT_x / NINT_x, ARRAY_I_ELEM_x, ARRAY_U_ELEM_x *)
Record int_lit := { i_neg : bool; i_base : ibase; i_upper : bool; i_digits : dseq }.
Definition int_lit_ok (l : int_lit) : bool := dseq_ok (i_base l) (i_digits l).
Definition sign_chars (neg : bool) : bytes := if neg then [c_minus] else [].
Definition render_int (l : int_lit) : bytes :=
  sign_chars (i_neg l) ++ prefix_chars (i_base l) (i_upper l) ++ render_dseq (i_digits l).
Definition int_mag (l : int_lit) : N := dseq_val (i_base l) (i_digits l).
Definition int_value (l : int_lit) : Z := if i_neg l then (- Z.of_N (int_mag l))%Z else Z.of_N (int_mag l).

(* the event a spelled integer must produce: its value in the narrowest of
   int64 / big int, "-0" as negative zero *)
Definition spec_int (l : int_lit) : lit_result :=
  let v := int_value l in
  if (v =? 0)%Z && i_neg l then RNegInt 0
  else if ((- 2 ^ 63 <=? v) && (v <? 2 ^ 63))%Z then RInt v
  else RBigInt v.

(* ARRAY_x_B/O/X_ELEM: NEG? DIGITS_x without prefix *)
Definition render_int_noprefix (l : int_lit) : bytes := sign_chars (i_neg l) ++ render_dseq (i_digits l).

(* element of a signed / unsigned integer array: the value if it fits, else rejected *)
Definition spec_int_elem (bits : N) (l : int_lit) : outcome bytes :=
  let v := int_value l in
  if ((- 2 ^ (Z.of_N bits - 1) <=? v) && (v <? 2 ^ (Z.of_N bits - 1)))%Z
  then Ok (le_bits bits (twos bits v)) else Err.
Definition spec_uint_elem (bits : N) (l : int_lit) : outcome bytes :=
  if int_mag l <? 2 ^ bits then Ok (le_bits bits (int_mag l)) else Err.

(* the defect classes *)
Definition leading_zero_dec (l : int_lit) : bool :=
  match i_base l with
  | B10 => (d_first (i_digits l) =? 48) && negb (match d_rest (i_digits l) with [] => true | _ => false end)
  | _ => false
  end.
Definition max_us (d : dseq) : nat := fold_right (fun p m => Nat.max (fst p) m) O (d_rest d).
Definition no_us (d : dseq) : bool := Nat.eqb (max_us d) 0.
Definition single_us (d : dseq) : bool := Nat.leb (max_us d) 1.

(* what stripDecimalLeadingZeros leaves of a decimal digit sequence: the leading
   zeros are gone, together with the separators behind them *)
Fixpoint strip0 (first : N) (rest : list (nat * N)) : dseq :=
  match rest with
  | (_, c) :: r => if first =? 48 then strip0 c r else {| d_first := first; d_rest := rest |}
  | [] => {| d_first := first; d_rest := rest |}
  end.
Definition strip0_lit (l : int_lit) : int_lit :=
  match i_base l with
  | B10 => {| i_neg := i_neg l; i_base := B10; i_upper := i_upper l;
              i_digits := strip0 (d_first (i_digits l)) (d_rest (i_digits l)) |}
  | _ => l
  end.
(* the remaining defect class in implicit-base arrays: repeated separators
   behind the first significant digit (those behind leading zeros are dropped) *)
Definition single_us_elem (l : int_lit) : bool := single_us (i_digits (strip0_lit l)).
(* kept for the developments that mention it: never true any more *)
Definition leading_zero_sep (l : int_lit) : bool := leading_zero_dec (strip0_lit l).

(* ------------------------------------------------------------------ *)
(* Float spellings as the Go parsers read them                          *)
(* ------------------------------------------------------------------ *)

Definition is_p (c : N) : bool := lower c =? 112.
Definition is_e (c : N) : bool := lower c =? 101.
Definition has_p (s : bytes) : bool := existsb is_p s.
Definition hex_prefixed (s : bytes) : bool :=
  match s with z :: c :: _ => (z =? 48) && (lower c =? 120) | _ => false end.

(* normalizeFloatString(str, base) with base = 16 (explicit) or 0 *)
Definition normalize_float (text : bytes) (base16 : bool) : bytes :=
  let str := strip_us text in
  let neg := is_neg_text str in
  let nosign := if neg then tl str else str in
  let str1 := if base16 then (if neg then 45 :: 48 :: 120 :: nosign else 48 :: 120 :: str) else str in
  let is16 := base16 || ((2 <? N.of_nat (length nosign)) && hex_prefixed nosign) in
  if is16 && negb (has_p str1) then str1 ++ [112; 48] else str1.

(* mantissa and exponent of an (unsigned, unprefixed) spelling:
   digits [. digits] [(e|p) [sign] decdigits]; value = mant * B^exp with
   B = 10 (decimal) or 2 (hex mantissa, binary exponent) *)
Definition exp_digits_val (s : bytes) : option N :=
  match s with
  | [] => None
  | _ => if forallb is_dec s then Some (chars_val 10 s 0) else None
  end.
Definition scan_exponent (s : bytes) : option Z :=
  match s with
  | [] => None
  | c :: r =>
    let '(neg, ds) := if c =? c_minus then (true, r) else if c =? c_plus then (false, r) else (false, s) in
    match exp_digits_val ds with
    | Some e => Some (if neg then (- Z.of_N e)%Z else Z.of_N e)
    | None => None
    end
  end.
Definition scan_float (hex need_exp : bool) (s : bytes) : option (N * Z) :=
  let isd := if hex then is_hex else is_dec in
  let '(ip, s1) := span isd s in
  let '(fp, s2) := match s1 with
                   | c :: r => if c =? c_dot then span isd r else ([], s1)
                   | [] => ([], s1)
                   end in
  match ip ++ fp with
  | [] => None
  | ds =>
    let mant := chars_val (if hex then 16 else 10) ds 0 in
    let scale := (Z.of_nat (length fp) * (if hex then 4 else 1))%Z in
    match s2 with
    | [] => if need_exp then None else Some (mant, (- scale)%Z)
    | c :: r =>
      if (if hex then is_p c else is_e c) then
        match scan_exponent r with
        | Some e => Some (mant, (e - scale)%Z)
        | None => None
        end
      else None
    end
  end.

(* strconv.ParseFloat syntax: [sign] [0x] mantissa [exponent]; a hex mantissa
   needs a p exponent.  Returns (negative, hex, mant, exp). *)
Definition go_parse_float_parts (s : bytes) : option (bool * bool * N * Z) :=
  let '(neg, s1) := match s with
                    | c :: r => if c =? c_minus then (true, r) else if c =? c_plus then (false, r) else (false, s)
                    | [] => (false, [])
                    end in
  let hex := match s1 with z :: c :: _ :: _ => (z =? 48) && (lower c =? 120) | _ => false end in
  let body := if hex then skipn 2 s1 else s1 in
  match scan_float hex hex body with
  | Some (m, e) => Some (neg, hex, m, e)
  | None => None
  end.

(* ------------------------------------------------------------------ *)
(* Binary formats                                                       *)
(* ------------------------------------------------------------------ *)

(* width 64: binary64, 32: binary32, 16: bfloat16.
   (precision incl. hidden bit, exponent of the lowest subnormal bit, +inf pattern) *)
Definition fmt_p (w : N) : N := if w =? 64 then 53 else if w =? 32 then 24 else 8.
Definition fmt_emin (w : N) : Z := if w =? 64 then (-1074)%Z else if w =? 32 then (-149)%Z else (-133)%Z.
Definition fmt_inf (w : N) : N := if w =? 64 then 2047 * 2 ^ 52 else if w =? 32 then 255 * 2 ^ 23 else 255 * 2 ^ 7.
Definition fmt_signbit (w : N) : N := 2 ^ (w - 1).

(* n/d rounded half-to-even *)
Definition rhe_div (n d : N) : N :=
  let q := n / d in
  let r := n mod d in
  if 2 * r <? d then q else if d <? 2 * r then q + 1 else if N.even q then q else q + 1.

(* magnitude bit pattern of n/d correctly rounded (nearest, ties to even);
   the +inf pattern on overflow *)
Definition rne_ratio (w : N) (n d : N) : N :=
  if n =? 0 then 0 else
  let p := fmt_p w in
  let emin := fmt_emin w in
  let l0 := (Z.of_N (N.log2 n) - Z.of_N (N.log2 d))%Z in
  let ge := if (0 <=? l0)%Z then d * 2 ^ Z.to_N l0 <=? n else d <=? n * 2 ^ Z.to_N (- l0) in
  let fl := if ge then l0 else (l0 - 1)%Z in
  let q := Z.max (fl - (Z.of_N p - 1)) emin in
  let M := if (0 <=? q)%Z then rhe_div n (d * 2 ^ Z.to_N q) else rhe_div (n * 2 ^ Z.to_N (- q)) d in
  let bits := M + Z.to_N (q - emin) * 2 ^ (p - 1) in
  if fmt_inf w <=? bits then fmt_inf w else bits.

(* mant * B^exp correctly rounded; the coarse bounds only avoid huge powers *)
Definition rne (w : N) (hex : bool) (mant : N) (exp : Z) : N :=
  if mant =? 0 then 0 else
  let bl := Z.of_N (N.log2 mant) in
  let k := if hex then 1%Z else 3%Z in
  if ((0 <? exp) && (2000 <? bl + k * exp))%Z then fmt_inf w
  else if ((exp <? 0) && (bl + 1 + k * exp <? -2000))%Z then 0
  else
    let B := if hex then 2 else 10 in
    if (0 <=? exp)%Z then rne_ratio w (mant * B ^ Z.to_N exp) 1
    else rne_ratio w mant (B ^ Z.to_N (- exp)).

(* ------------------------------------------------------------------ *)
(* parseFloatElement                                                    *)
(* ------------------------------------------------------------------ *)

(* isFloatZero: big.ParseFloat(str, 0, len(str)) compared with zero.  A zero
   mantissa is zero; so is a decimal spelling whose value lies below big.Float's
   exponent range (the division by 5^n underflows to 0 without an error) while
   its first exponent estimate bitlen + exp is still inside that range (outside,
   ParseFloat fails and the listener panics, which is an error either way).
   The binary exponent of mant * 10^exp is estimated as bitlen(mant) +
   floor(exp * log2 10) + 1; the estimate can be off by one, i.e. the model is
   not exact for exponents within a few units of -646456993. *)
Definition log2_10_num : Z := 3321928094887362347870319429%Z.
Definition log2_10_den : Z := 1000000000000000000000000000%Z.
Definition big_underflows (mant : N) (exp : Z) : bool :=
  let bl := (Z.of_N (N.log2 mant) + 1)%Z in
  ((exp <? 0) && (- 2 ^ 31 <=? bl + exp) && (bl + exp * log2_10_num / log2_10_den + 1 <? - 2 ^ 31))%Z.
Definition is_float_zero (hex : bool) (mant : N) (exp : Z) : bool :=
  (mant =? 0) || (negb hex && big_underflows mant exp).

Section FloatElem.
  (* strconv.ParseFloat's conversion: width (32|64) -> hex? -> mant -> exp ->
     magnitude bits, the +inf pattern when out of range *)
  Variable round : N -> bool -> N -> Z -> N.

  Definition float_elem_bits (bits : N) (neg : bool) (hex : bool) (mant : N) (exp : Z) : outcome bytes :=
    let pb := if bits =? 16 then 32 else bits in
    let r := round pb hex mant exp in
    if fmt_inf pb <=? r then Err                               (* ErrRange / "too big" *)
    else if (r =? 0) && negb (is_float_zero hex mant exp) then Err   (* "too small" *)
    else
      let signed := r + (if neg then fmt_signbit pb else 0) in
      Ok (le_bits bits (if bits =? 16 then signed / 65536 else signed)).

  Definition impl_float_elem (base16 : bool) (bits : N) (text : bytes) : outcome bytes :=
    match strip_us text with
    | [] => Err
    | _ =>
      let str := normalize_float text base16 in
      let neg := is_neg_text str in
      let nosign := if neg then tl str else str in
      match go_parse_float_parts nosign with
      | Some (pneg, hex, mant, exp) => float_elem_bits bits (xorb neg pneg) hex mant exp
      | None => Err
      end
    end.
End FloatElem.

(* special elements: nan snan inf -inf (common/consts.go) *)
Definition special_elem (bits : N) (which : N) : outcome bytes :=
  let v32 := match which with
             | 0 => 0x7fe00000 | 1 => 0x7fa00000 | 2 => 0x7f800000 | _ => 0xff800000 end in
  let v64 := match which with
             | 0 => 0x7ffc000000000000 | 1 => 0x7ff4000000000000 | 2 => 0x7ff0000000000000 | _ => 0xfff0000000000000 end in
  if bits =? 64 then Ok (le_bits 64 v64) else if bits =? 32 then Ok (le_bits 32 v32)
  else Ok (le_bits 16 (v32 / 65536)).

(* ------------------------------------------------------------------ *)
(* ExitValueFloat                                                       *)
(* ------------------------------------------------------------------ *)

(* countFloatSignificantDigits *)
Fixpoint count_lead0 (s : bytes) : N :=
  match s with c :: r => if c =? 48 then 1 + count_lead0 r else 0 | [] => 0 end.
Fixpoint count_rest (s : bytes) : N :=
  match s with
  | [] => 0
  | c :: r => if c =? c_dot then count_rest r else if (c =? 112) || (c =? 80) then 0 else 1 + count_rest r
  end.
Definition count_sig_digits (s : bytes) : N :=
  let z := count_lead0 s in z + count_rest (skipn (N.to_nat z) s).

Fixpoint pos_odd_part (p : positive) : N * N :=
  match p with
  | xO q => let '(m, k) := pos_odd_part q in (m, k + 1)
  | _ => (Npos p, 0)
  end.
(* m = odd * 2^k *)
Definition odd_part (m : N) : N * N := match m with 0 => (0, 0) | Npos p => pos_odd_part p end.

(* bit pattern of m * 2^e when it is exactly a binary64 (big.Float.Float64 with accuracy Exact) *)
Definition f64_exact (m : N) (e : Z) : option N :=
  if m =? 0 then Some 0 else
  let '(m', k) := odd_part m in
  let e' := (e + Z.of_N k)%Z in
  let bl := N.log2 m' + 1 in
  let top := (e' + Z.of_N bl - 1)%Z in
  if (bl <=? 53) && (-1074 <=? e')%Z && (top <=? 1023)%Z then
    if (-1022 <=? top)%Z then Some (Z.to_N (top + 1023) * 2 ^ 52 + m' * 2 ^ (53 - bl) - 2 ^ 52)
    else Some (m' * 2 ^ Z.to_N (e' + 1074))
  else None.

Definition impl_hexfloat (neg : bool) (nosign : bytes) : outcome lit_result :=
  let body := skipn 2 nosign in
  let prec := 4 * count_sig_digits body in
  match scan_float true false body with
  | None => Err
  | Some (m, e) =>
    (* big.Float exponent range *)
    let E := (e + Z.of_N (N.log2 m) + 1)%Z in
    if negb (m =? 0) && negb ((- 2 ^ 31 <=? E) && (E <? 2 ^ 31))%Z then Err
    else match f64_exact m e with
         | Some b => Ok (RFloat (b + (if neg then 2 ^ 63 else 0)))
         | None => let '(m', k) := odd_part m in Ok (RBigFloat neg m' (e + Z.of_N k) prec)
         end
  end.

(* compact_float.DFloatFromString (decodeFromString with significantDigits = 0) *)
Definition i63max : N := 2 ^ 63 - 1.
Inductive dfr := DFail | DOk (sig : N) (frac : N) (exp : Z).

Fixpoint df_exp_digits (s : bytes) (e : N) : option N :=
  match s with
  | [] => Some e
  | c :: r => if is_dec c then
                let e' := e * 10 + (c - 48) in
                if 2147483647 <? e' then None else df_exp_digits r e'
              else None
  end.
Definition df_exponent (s : bytes) : option Z :=
  match s with
  | [] => None
  | c :: r =>
    let '(neg, ds) := if c =? c_minus then (true, r) else if c =? c_plus then (false, r) else (false, s) in
    match df_exp_digits ds 0 with
    | Some e => Some (if neg then (- Z.of_N e)%Z else Z.of_N e)
    | None => None
    end
  end.
(* the uint64 product wraps; a value above MaxInt64 enters the rounding path,
   which always ends with RoundingError *)
Definition df_next (sig c : N) : option N :=
  let nx := (sig * 10 + (c - 48)) mod 2 ^ 64 in
  if i63max <? nx then None else Some nx.
Fixpoint df_frac (s : bytes) (sig frac : N) : dfr :=
  match s with
  | [] => DOk sig frac 0
  | c :: r =>
    if is_e c then match df_exponent r with Some e => DOk sig frac e | None => DFail end
    else if is_dec c then match df_next sig c with Some nx => df_frac r nx (frac + 1) | None => DFail end
    else DFail
  end.
Fixpoint df_sig (s : bytes) (sig : N) : dfr :=
  match s with
  | [] => DOk sig 0 0
  | c :: r =>
    if c =? c_dot then df_frac r sig 0
    else if is_e c then match df_exponent r with Some e => DOk sig 0 e | None => DFail end
    else if is_dec c then match df_next sig c with Some nx => df_sig r nx | None => DFail end
    else DFail
  end.

Definition wrap32 (z : Z) : Z := ((z + 2 ^ 31) mod 2 ^ 32 - 2 ^ 31)%Z.
Definition exp_special : Z := (- 2 ^ 31)%Z.
Fixpoint df_minimize (fuel : nat) (coef exp : Z) : Z * Z :=
  match fuel with
  | O => (coef, exp)
  | S f => if (Z.rem coef 10 =? 0)%Z then df_minimize f (Z.quot coef 10) (wrap32 (exp + 1)) else (coef, exp)
  end.
Definition df_minimized (coef exp : Z) : Z * Z :=
  if (exp =? exp_special)%Z then (coef, exp)
  else if (coef =? 0)%Z then (0, 0)%Z
  else df_minimize 20 coef exp.

Definition dfloat_from_string (s : bytes) : option (Z * Z) :=
  let neg := is_neg_text s in
  let s' := if neg then tl s else s in
  match df_sig s' 0 with
  | DFail => None
  | DOk sig frac e =>
    let exponent := (e - Z.of_N frac)%Z in
    if (sig =? 0) && neg then Some (0%Z, exp_special)
    else Some (df_minimized (if neg then (- Z.of_N sig)%Z else Z.of_N sig) (wrap32 exponent))
  end.

(* apd.NewFromString on the unsigned text: exponent by ParseInt(.., 10, 32),
   every exponent term and the adjusted exponent within +-100000 *)
Fixpoint drop_lead0 (s : bytes) : bytes :=
  match s with c :: r => if c =? 48 then drop_lead0 r else s | [] => [] end.
Definition apd_from_string (s : bytes) : option (N * Z) :=
  let '(ms, es) := span (fun c => negb (is_e c)) s in
  let eo := match es with
            | [] => Some 0%Z
            | _ :: r => go_parse_int r 10 32
            end in
  match eo with
  | None => None
  | Some e =>
    let '(ip, r1) := span (fun c => negb (c =? c_dot)) ms in
    let fp := match r1 with _ :: r => r | [] => [] end in
    let ds := ip ++ fp in
    match ds with
    | [] => None
    | _ =>
      if negb (forallb is_dec ds) then None else
      let fl := Z.of_nat (length fp) in
      let lim := 100000%Z in
      if ((lim <? e) || (e <? - lim))%Z then None
      else
        let sum := (e - fl)%Z in
        let nd := Z.max 1 (Z.of_nat (length (drop_lead0 ds))) in
        let adj := (sum + nd - 1)%Z in
        if ((lim <? fl) || (lim <? adj) || (adj <? - lim))%Z then None
        else Some (chars_val 10 ds 0, sum)
    end
  end.

Definition impl_float (text : bytes) : outcome lit_result :=
  match strip_us text with
  | [] => Err
  | _ =>
    let str := normalize_float text false in
    let neg := is_neg_text str in
    let nosign := if neg then tl str else str in
    if hex_prefixed nosign then impl_hexfloat neg nosign
    else match dfloat_from_string str with
         | Some (c, e) => Ok (RDec c e)
         | None => match apd_from_string nosign with
                   | Some (c, e) => Ok (RBigDec neg c e)
                   | None => Err
                   end
         end
  end.

(* ------------------------------------------------------------------ *)
(* Float spelling trees                                                 *)
(* ------------------------------------------------------------------ *)

(* EXPONENT_DEC / EXPONENT_HEX: (E|P) [+-]? DIGITS_DEC *)
Record exp_part := { e_upper : bool; e_sign : option bool; e_digits : dseq }.
(* FLOAT_D, FLOAT_H_PREFIX, FLOAT_OR_INT_*: NEG? [0x] DIGITS [. DIGITS] [exponent];
   f_prefix = None: no "0x" (decimal, and the elements of @fNNx arrays) *)
Record float_lit := { f_neg : bool; f_hex : bool; f_prefix : option bool;
                      f_int : dseq; f_frac : option dseq; f_exp : option exp_part }.

Definition fl_base (l : float_lit) : ibase := if f_hex l then B16 else B10.
Definition float_lit_ok (l : float_lit) : bool :=
  dseq_ok (fl_base l) (f_int l) &&
  match f_frac l with Some d => dseq_ok (fl_base l) d | None => true end &&
  match f_exp l with Some e => dseq_ok B10 (e_digits e) | None => true end &&
  (f_hex l || match f_prefix l with None => true | Some _ => false end).

Definition render_exp (hex : bool) (e : exp_part) : bytes :=
  (if hex then (if e_upper e then 80 else 112) else (if e_upper e then 69 else 101))
  :: match e_sign e with Some true => [c_minus] | Some false => [c_plus] | None => [] end
  ++ render_dseq (e_digits e).
Definition render_float (l : float_lit) : bytes :=
  sign_chars (f_neg l)
  ++ match f_prefix l with Some up => prefix_chars B16 up | None => [] end
  ++ render_dseq (f_int l)
  ++ match f_frac l with Some d => c_dot :: render_dseq d | None => [] end
  ++ match f_exp l with Some e => render_exp (f_hex l) e | None => [] end.

Definition frac_chars (l : float_lit) : bytes := match f_frac l with Some d => dseq_chars d | None => [] end.
Definition float_mant (l : float_lit) : N :=
  chars_val (ibase_n (fl_base l)) (dseq_chars (f_int l) ++ frac_chars l) 0.
Definition exp_value (l : float_lit) : Z :=
  match f_exp l with
  | Some e => let v := Z.of_N (dseq_val B10 (e_digits e)) in
              match e_sign e with Some true => (- v)%Z | _ => v end
  | None => 0%Z
  end.
(* value = float_mant * B^float_exp, B = 10, or 2 for hex spellings *)
Definition float_exp (l : float_lit) : Z :=
  (exp_value l - Z.of_nat (length (frac_chars l)) * (if f_hex l then 4 else 1))%Z.

Section FloatElemSpec.
  Variable round : N -> bool -> N -> Z -> N.
  (* an element of a float array: the spelled value converted to the element
     type; rejected when it does not fit (overflows, or is non-zero and becomes zero) *)
  Definition spec_float_elem (bits : N) (l : float_lit) : outcome bytes :=
    let r := round bits (f_hex l) (float_mant l) (float_exp l) in
    if fmt_inf bits <=? r then Err
    else if (r =? 0) && negb (float_mant l =? 0) then Err
    else Ok (le_bits bits (r + (if f_neg l then fmt_signbit bits else 0))).
End FloatElemSpec.

(* ideal (unbounded) normal form of a decimal: trailing zeros of the
   coefficient moved into the exponent *)
Fixpoint dec_minimize (fuel : nat) (c : N) (e : Z) : N * Z :=
  match fuel with
  | O => (c, e)
  | S f => if (c mod 10 =? 0) && negb (c =? 0) then dec_minimize f (c / 10) (e + 1)%Z else (c, e)
  end.

(* ------------------------------------------------------------------ *)
(* Strings: MODE_STRING .. MODE_CODEPOINT of the lexer and the listener  *)
(* ------------------------------------------------------------------ *)

(* utf8.AppendRune as used by bytes.Buffer.WriteRune: invalid code points
   (surrogates, above U+10FFFF) are written as U+FFFD *)
Definition utf8_enc (r : N) : bytes :=
  if r <? 128 then [r]
  else if r <? 2048 then [192 + r / 64; 128 + r mod 64]
  else if ((55296 <=? r) && (r <=? 57343)) || (1114111 <? r) then [239; 191; 189]
  else if r <? 65536 then [224 + r / 4096; 128 + (r / 64) mod 64; 128 + r mod 64]
  else [240 + r / 262144; 128 + (r / 4096) mod 64; 128 + (r / 64) mod 64; 128 + r mod 64].
Definition utf8_str (l : list N) : bytes := flat_map utf8_enc l.
Definition valid_scalar (r : N) : bool := (r <=? 1114111) && negb ((55296 <=? r) && (r <=? 57343)).

(* Character classes.  Exact on ASCII; beyond ASCII only the listed ranges are
   modelled (all of them assigned letters / symbols / punctuation):
   U+00A0-00FF, Greek capitals U+0391-03A1, CJK U+4E00-9FA5, emoticons U+1F600-1F64F *)
Definition modelled_nonascii (c : N) : bool :=
  ((160 <=? c) && (c <=? 255)) || ((913 <=? c) && (c <=? 929)) ||
  ((19968 <=? c) && (c <=? 40869)) || ((128512 <=? c) && (c <=? 128591)).
(* CHAR_QUOTED_STRING: Cf L M N P S Z, tab, lf, cr *)
Definition char_quoted (c : N) : bool :=
  (c =? 9) || (c =? 10) || (c =? 13) || ((32 <=? c) && (c <=? 126)) || modelled_nonascii c.
(* CHAR_VERBATIM_SENTINEL: L M N P S *)
Definition char_sentinel (c : N) : bool :=
  ((33 <=? c) && (c <=? 126)) || (modelled_nonascii c && negb (c =? 160) && negb (c =? 173)).
Definition is_ws (c : N) : bool := (c =? 32) || (c =? 9) || (c =? 10) || (c =? 13).

(* ExitEscapeChar (the lexer lets exactly these characters through) *)
Definition escape_char (c : N) : option N :=
  if (c =? 114) || (c =? 82) then Some 13
  else if (c =? 110) || (c =? 78) then Some 10
  else if (c =? 116) || (c =? 84) then Some 9
  else if c =? 34 then Some 34
  else if c =? 42 then Some 42
  else if c =? 47 then Some 47
  else if c =? 92 then Some 92
  else if c =? 45 then Some 173      (* soft hyphen *)
  else if c =? 95 then Some 160      (* no-break space *)
  else None.

(* ExitCodepointContents / parseHexCodepoint: ParseUint(hex, 16, 32), surrogates and
   values above U+10FFFF rejected, rune(v), WriteRune *)
Definition impl_codepoint (hex : bytes) : outcome bytes :=
  match go_parse_uint hex 16 32 with
  | Some v => if valid_scalar v then Ok (utf8_enc v) else Err   (* fix 9d7e9c8 *)
  | None => Err
  end.

(* The lexer context: verbatimIndex survives from one verbatim sequence to the
   next; the sentinel is the UTF-8 text of the sentinel token and its BYTES are
   compared with the code points of the input. *)
Definition la_eq (inp : list N) (b : N) : bool := match inp with c :: _ => c =? b | [] => false end.
(* isSentinelChar *)
Definition is_sentinel_char (sb : bytes) (idx : nat) (inp : list N) : bool * nat :=
  if Nat.ltb idx (length sb) then (la_eq inp (nth idx sb 0), S idx) else (false, idx).
Fixpoint starts_with (sb : bytes) (inp : list N) : bool :=
  match sb with
  | [] => true
  | b :: sr => match inp with c :: ir => (c =? b) && starts_with sr ir | [] => false end
  end.
(* isAtVerbatimSentinel *)
Definition is_at (sb : bytes) (idx : nat) (inp : list N) : bool * nat :=
  if starts_with sb inp then (true, O) else (false, idx).

Inductive vtok := VEmpty | VContents.
(* One token in MODE_VERBATIM_CONTENTS.  Both rules are simulated in parallel
   the way the ATN interpreter does: after each character the predicate of
   VERBATIM_EMPTY is evaluated first (if that rule is still alive), then the
   one of VERBATIM_CONTENTS; the longest match wins, VERBATIM_EMPTY on a tie.
   [best] = (rule, consumed characters reversed, remaining input). *)
Fixpoint vc_loop (sb : bytes) (e_alive c_alive : bool) (idx : nat) (inp : list N) (cons_rev : list N)
         (best : option (vtok * list N * list N)) : option (vtok * list N * list N) * nat :=
  match inp with
  | [] => (best, idx)
  | c :: r =>
    let e1 := e_alive && char_sentinel c in
    let c1 := c_alive in
    if negb e1 && negb c1 then (best, idx) else
    let cons' := c :: cons_rev in
    let best' := Some (if e1 then VEmpty else VContents, cons', r) in
    let '(e2, idx1) := if e1 then is_sentinel_char sb idx r else (false, idx) in
    let '(c2, idx2) := if c1 then (let '(a, i2) := is_at sb idx1 r in (negb a, i2)) else (false, idx1) in
    vc_loop sb e2 c2 idx2 r cons' best'
  end.
Definition vc_token (sb : bytes) (idx : nat) (inp : list N) : option (vtok * list N * list N) * nat :=
  let '(e0, idx1) := is_sentinel_char sb idx inp in
  let '(a0, idx2) := is_at sb idx1 inp in
  vc_loop sb e0 (negb a0) idx2 inp [] None.

(* VERBATIM_END: ( {isSentinelChar}? CHAR_VERBATIM_SENTINEL )+ *)
Fixpoint ve_loop (sb : bytes) (alive : bool) (idx : nat) (inp : list N) (some : bool) : option (list N * nat) :=
  match inp with
  | [] => if some then Some ([], idx) else None
  | c :: r =>
    if alive && char_sentinel c then
      let '(a, idx1) := is_sentinel_char sb idx r in ve_loop sb a idx1 r true
    else if some then Some (inp, idx) else None
  end.
Definition ve_token (sb : bytes) (idx : nat) (inp : list N) : option (list N * nat) :=
  let '(a, idx1) := is_sentinel_char sb idx inp in ve_loop sb a idx1 inp false.

(* VERBATIM_SEPARATOR: space, tab, LF or CR LF *)
Definition skip_separator (inp : list N) : option (list N) :=
  match inp with
  | c :: r =>
    if (c =? 32) || (c =? 9) || (c =? 10) then Some r
    else if c =? 13 then match r with d :: r' => if d =? 10 then Some r' else None | [] => None end
    else None
  | [] => None
  end.

(* The body of a string: code points after the opening quote up to the end of
   the document: after the closing quote only white space may follow.
   [idx] = verbatimIndex. *)
Fixpoint lex_string (fuel : nat) (idx : nat) (inp : list N) (acc : bytes) : outcome bytes :=
  match fuel with
  | O => Err
  | S f =>
    match inp with
    | [] => Err
    | c :: r =>
      if c =? 34 then (if forallb is_ws r then Ok acc else Err)      (* value WSL? EOF *)
      else if c =? 92 then
        match r with
        | [] => Err
        | e :: r2 =>
          if e =? 46 then
            let '(sent, r3) := span char_sentinel r2 in
            match sent with
            | [] => Err
            | _ =>
              let sb := utf8_str sent in
              match skip_separator r3 with
              | None => Err
              | Some r4 =>
                match vc_token sb idx r4 with
                | (None, _) => Err
                | (Some (VEmpty, _, rest), idx') => lex_string f idx' rest acc
                | (Some (VContents, cons_rev, rest), idx') =>
                  match ve_token sb idx' rest with
                  | None => Err
                  | Some (rest', idx'') => lex_string f idx'' rest' (acc ++ utf8_str (rev cons_rev))
                  end
                end
              end
            end
          else if e =? 91 then
            let '(hx, r3) := span is_hex r2 in
            match hx, r3 with
            | _ :: _, 93 :: r4 =>
              match impl_codepoint hx with
              | Ok b => lex_string f idx r4 (acc ++ b)
              | _ => Err
              end
            | _, _ => Err
            end
          else if (e =? 10) || (e =? 13) then
            let '(_, r3) := span is_ws r2 in lex_string f idx r3 acc
          else match escape_char e with
               | Some v => lex_string f idx r2 (acc ++ utf8_enc v)
               | None => Err
               end
        end
      else if char_quoted c then lex_string f idx r (acc ++ utf8_enc c)
      else Err
    end
  end.
Definition impl_string (body : list N) : outcome bytes := lex_string (S (length body)) O body [].

(* ---- spelling trees of string bodies ---- *)
Inductive sitem :=
| SChar (c : N)                                  (* STRING_CONTENTS *)
| SEsc (c : N)                                   (* \ ESCAPE_CHAR *)
| SCode (hex : bytes)                            (* \[ HEX+ ] *)
| SCont (nl : N) (ws : list N)                   (* \ newline CHAR_WS* *)
| SVerb (sentinel sep content : list N).         (* \. sentinel separator content sentinel *)

Definition render_item (i : sitem) : list N :=
  match i with
  | SChar c => [c]
  | SEsc c => [92; c]
  | SCode hx => 92 :: 91 :: hx ++ [93]
  | SCont nl ws => 92 :: nl :: ws
  | SVerb s sep ct => 92 :: 46 :: s ++ sep ++ ct ++ s
  end.
Definition hex_val (hx : bytes) : N := chars_val 16 hx 0.
(* the characters an item spells, as UTF-8 *)
Definition item_value (i : sitem) : bytes :=
  match i with
  | SChar c => utf8_enc c
  | SEsc c => match escape_char c with Some v => utf8_enc v | None => [] end
  | SCode hx => utf8_enc (hex_val hx)
  | SCont _ _ => []
  | SVerb _ _ ct => utf8_str ct
  end.
Definition render_body (l : list sitem) : list N := flat_map render_item l ++ [34].
Definition body_value (l : list sitem) : bytes := flat_map item_value l.

(* no occurrence of s in ct ++ s before position |ct| *)
Fixpoint sentinel_free (s ct : list N) : bool :=
  match ct with
  | [] => true
  | _ :: r => negb (starts_with s (ct ++ s)) && sentinel_free s r
  end.
Definition sep_ok (sep : list N) : bool :=
  bytes_eqb sep [32] || bytes_eqb sep [9] || bytes_eqb sep [10] || bytes_eqb sep [13; 10].
Definition item_ok (i : sitem) : bool :=
  match i with
  | SChar c => char_quoted c && negb (c =? 34) && negb (c =? 92)
  | SEsc c => match escape_char c with Some _ => true | None => false end
  | SCode hx => negb (match hx with [] => true | _ => false end) && forallb is_hex hx && valid_scalar (hex_val hx)
  | SCont nl ws => ((nl =? 10) || (nl =? 13)) && forallb is_ws ws
  | SVerb s sep ct =>
    negb (match s with [] => true | _ => false end) && forallb char_sentinel s && sep_ok sep && sentinel_free s ct
  end.
(* a continuation swallows all following white space, so the next item of a
   well-formed tree does not start with white space *)
Definition starts_ws (i : sitem) : bool := match i with SChar c => is_ws c | _ => false end.
Fixpoint items_ok (l : list sitem) : bool :=
  match l with
  | [] => true
  | i :: r => item_ok i &&
              match i, r with SCont _ _, j :: _ => negb (starts_ws j) | _, _ => true end &&
              items_ok r
  end.
(* the fragment on which the verbatim handling is right: one-character ASCII
   sentinels and non-empty contents *)
Definition simple_verbatim (i : sitem) : bool :=
  match i with
  | SVerb [s] _ (_ :: _) => s <? 128
  | SVerb _ _ _ => false
  | _ => true
  end.

(* ------------------------------------------------------------------ *)
(* Correspondence cases                                                 *)
(* ------------------------------------------------------------------ *)

(* kind of integer element mode: base 0 | 2 | 8 | 16 *)
Inductive ctelit_case :=
| CInt (text : bytes) (got : outcome lit_result)                     (* valueInt *)
| CFloat (text : bytes) (got : outcome lit_result)                   (* valueFloat *)
| CIntArr (base bits : N) (elems : list bytes) (got : outcome bytes) (* @iNN / @iNNb|o|x *)
| CUintArr (base bits : N) (elems : list bytes) (got : outcome bytes)
| CFloatArr (base16 : bool) (bits : N) (elems : list bytes) (got : outcome bytes)
| CSpecialArr (bits : N) (which : N) (got : outcome bytes)           (* nan snan inf -inf *)
| CString (body : list N) (got : outcome bytes)                      (* the string body incl. closing quote *)
| CRound (w : N) (hex : bool) (mant : N) (exp : Z) (got : N).        (* strconv.ParseFloat's rounding alone *)

Definition bytes_res_eqb (a b : outcome bytes) : bool :=
  match a, b with Ok x, Ok y => bytes_eqb x y | Err, Err => true | _, _ => false end.

Definition ctelit_case_ok (c : ctelit_case) : bool :=
  match c with
  | CInt t g => res_eqb (impl_int t) g
  | CFloat t g => res_eqb (impl_float t) g
  | CIntArr b w es g => bytes_res_eqb (concat_outcomes (map (impl_int_elem b w) es)) g
  | CUintArr b w es g => bytes_res_eqb (concat_outcomes (map (impl_uint_elem b w) es)) g
  | CFloatArr b16 w es g => bytes_res_eqb (concat_outcomes (map (impl_float_elem rne b16 w) es)) g
  | CSpecialArr w k g => bytes_res_eqb (special_elem w k) g
  | CString body g => bytes_res_eqb (impl_string body) g
  | CRound w hex m e g => rne w hex m e =? g
  end.

(* ------------------------------------------------------------------ *)
(* What a top-level float spelling must produce                         *)
(* ------------------------------------------------------------------ *)

(* the library's encoding of decimal negative zero: DFloat{ExpSpecial, 0} *)
Definition dec_neg_zero : lit_result := RDec 0 exp_special.

(* decimal spelling whose coefficient fits the compact type (int64): the
   value with the trailing zeros of the coefficient moved into the exponent *)
Definition spec_dec_small (l : float_lit) : lit_result :=
  let m := float_mant l in
  if m =? 0 then (if f_neg l then dec_neg_zero else RDec 0 0)
  else let '(c, e) := dec_minimize 20 m (float_exp l) in
       RDec (if f_neg l then (- Z.of_N c)%Z else Z.of_N c) e.

(* decimal spelling with a larger coefficient: the exact coefficient and exponent *)
Definition spec_dec_big (l : float_lit) : lit_result :=
  RBigDec (f_neg l) (float_mant l) (float_exp l).

(* hex spelling: the binary64 holding exactly the value if there is one,
   otherwise a big float with 4 bits of precision per spelled digit *)
Definition float_ndigits (l : float_lit) : N :=
  N.of_nat (length (dseq_chars (f_int l)) + length (frac_chars l)).
Definition spec_hex (l : float_lit) : lit_result :=
  let m := float_mant l in
  let e := float_exp l in
  match f64_exact m e with
  | Some b => RFloat (b + (if f_neg l then 2 ^ 63 else 0))
  | None => let '(m', k) := odd_part m in RBigFloat (f_neg l) m' (e + Z.of_N k) (4 * float_ndigits l)
  end.

(* value of a finite binary64 bit pattern as (mantissa, binary exponent) *)
Definition f64_parts (b : N) : N * Z :=
  let ef := (b / 2 ^ 52) mod 2048 in
  let fr := b mod 2 ^ 52 in
  if ef =? 0 then (fr, (-1074)%Z) else (2 ^ 52 + fr, (Z.of_N ef - 1075)%Z).

(* m1 * 2^e1 = m2 * 2^e2, without fractions *)
Definition same_value (m1 : N) (e1 : Z) (m2 : N) (e2 : Z) : Prop :=
  ((e1 <= e2)%Z /\ m1 = m2 * 2 ^ Z.to_N (e2 - e1)) \/ ((e2 <= e1)%Z /\ m2 = m1 * 2 ^ Z.to_N (e1 - e2)).

(* sign, mantissa and binary exponent denoted by a binary float event *)
Definition result_bin (r : lit_result) : option (bool * N * Z) :=
  match r with
  | RFloat b => let '(M, E) := f64_parts (b mod 2 ^ 63) in Some (2 ^ 63 <=? b, M, E)
  | RBigFloat n m e _ => Some (n, m, e)
  | _ => None
  end.
