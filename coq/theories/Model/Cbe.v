(* Executable model of the CBE codec of /repo/cbe:
     encoder.go + encoder_writer.go  ->  cbe_encode_event / cbe_encode
     decoder.go + decoder_reader.go  ->  cbe_decode
   with the wire format of go-uleb128 (Base/Uleb.v) and go-compact-float
   (compact-float.go: EncodeToBytes / EncodeBigToBytes / DecodeWithByteBuffer)
   modelled concretely.  Type codes, tables and limits come from
   Gen/CbeConsts.v, which `vh gen` regenerates from the code.

   Executable definitions only.  Not modelled (see the notes at the places):
     - times (go-compact-time is bit-packed): ETime encodes to None, the three
       time type codes decode to an error;
     - big floats that are not exactly a float64 (library conversion to decimal);
     - DFloat values that are not one of the six named specials but carry the
       special exponent (not expressible in the event type);
     - the reader's buffer allocation (twice the announced length before any
       byte is read), whose failure kills the process instead of returning an error.

   Document size accounting (Rules.MaxDocumentSizeBytes, [dcfg]): every byte the
   decoder consumes is counted as it is consumed, ULEB128 fields and decimal
   floats included (the Reader is the io.Reader of the field decoders), the
   count starts at zero for every document, and the first read that takes the
   running total above the limit is an error.

   An event whose payload cannot exist on the Go side (a byte above 255, a
   uint64 argument of 2^64 or more, ...) encodes to None. *)
From CE Require Export Base.Prelude Base.LE Base.Uleb Model.Events Model.FloatBits Gen.CbeConsts.
Open Scope N_scope.

(* ------------------------------------------------------------------ *)
(* Small helpers                                                        *)
(* ------------------------------------------------------------------ *)

Definition u64 (n : N) : N := n mod two64.
Definition len (b : bytes) : N := N.of_nat (length b).
Definition is_u64 (n : N) : bool := n <? two64.
Definition is_i32 (z : Z) : bool := ((-2147483648 <=? z) && (z <? 2147483648))%Z.
Definition is_i64 (z : Z) : bool := ((-9223372036854775808 <=? z) && (z <? 9223372036854775808))%Z.
Definition two63 : N := 9223372036854775808.
(* n copies of x; lets generated case files write long runs of a byte compactly *)
Definition nrep (x n : N) : bytes := N.iter n (cons x) [].

(* ------------------------------------------------------------------ *)
(* Encoder: integers (encoder.go OnPositiveInt / OnNegativeInt / OnInt / *)
(* OnBigInt, encoder_writer.go WriteTyped*Bits / WriteTypedInt /         *)
(* WriteTypedBigInt)                                                     *)
(* ------------------------------------------------------------------ *)

Definition enc_pos_int (v : N) : bytes :=
  if v <=? cbeFitsSmallintMax then [v]
  else if v <=? cbeFitsUint8Max then cbeTypePosInt8 :: le_encode 1 v
  else if v <=? cbeFitsUint16Max then cbeTypePosInt16 :: le_encode 2 v
  else if v <=? cbeFitsUint32Max then cbeTypePosInt32 :: le_encode 4 v
  else if v <=? cbeFitsUint48Max then
    cbeTypePosInt :: N.of_nat (min_le_len v) :: le_encode (min_le_len v) v
  else cbeTypePosInt64 :: le_encode 8 v.

Definition enc_neg_int (v : N) : bytes :=
  if v =? 0 then cbeTypeNegInt8 :: le_encode 1 0
  else if v <=? cbeFitsSmallintMax then [256 - v]          (* byte(-int64(value)) *)
  else if v <=? cbeFitsUint8Max then cbeTypeNegInt8 :: le_encode 1 v
  else if v <=? cbeFitsUint16Max then cbeTypeNegInt16 :: le_encode 2 v
  else if v <=? cbeFitsUint32Max then cbeTypeNegInt32 :: le_encode 4 v
  else if v <=? cbeFitsUint48Max then
    cbeTypeNegInt :: N.of_nat (min_le_len v) :: le_encode (min_le_len v) v
  else cbeTypeNegInt64 :: le_encode 8 v.

(* OnInt: -value wraps for the minimum, uint64 of it is 2^63 = |value| *)
Definition enc_int (z : Z) : bytes :=
  if (0 <=? z)%Z then enc_pos_int (Z.to_N z) else enc_neg_int (Z.abs_N z).

(* WriteTypedBigInt: type, ULEB(byte count), magnitude little endian, no leading zero byte *)
Definition enc_big_magnitude (ty m : N) : bytes :=
  ty :: uleb_encode (N.of_nat (min_le_len m)) ++ le_encode (min_le_len m) m.

Definition enc_big_int (z : Z) : bytes :=
  let m := Z.abs_N z in
  if (z <? 0)%Z then (if m <? two64 then enc_neg_int m else enc_big_magnitude cbeTypeNegInt m)
  else (if m <? two64 then enc_pos_int m else enc_big_magnitude cbeTypePosInt m).

(* ------------------------------------------------------------------ *)
(* Encoder: binary floats (OnFloat, OnBigFloat)                          *)
(* ------------------------------------------------------------------ *)

Definition enc_zero (neg : bool) : bytes :=
  if neg then cbeTypeNegInt8 :: le_encode 1 0 else [0].
Definition enc_infinity (neg : bool) : bytes :=
  cbeTypeDecimal :: (if neg then cfNegativeInfinity else cfInfinity).
Definition enc_nan (signaling : bool) : bytes :=
  cbeTypeDecimal :: (if signaling then cfSignalingNan else cfQuietNan).

Definition enc_float (b : N) : bytes :=
  if FloatBits.f64_is_inf b then enc_infinity (f64_sign b =? 1)
  else if FloatBits.f64_is_nan b then enc_nan (negb (FloatBits.f64_quiet_bit b))
  else if f64_is_zero b then enc_zero (f64_sign b =? 1)
  else match float_encode b with
       | (W16, h) => cbeTypeFloat16 :: le_encode 2 h
       | (W32, w) => cbeTypeFloat32 :: le_encode 4 w
       | (W64, x) => cbeTypeFloat64 :: le_encode 8 x
       end.

(* big.Float.Float64() with accuracy Exact: the float64 pattern of
   (-1)^neg * mant * 2^exp when it is exactly representable. *)
Definition bigfloat_to_f64 (neg : bool) (mant : N) (exp : Z) : option N :=
  let s := if neg then 1 else 0 in
  if mant =? 0 then Some (f64_make s 0 0)
  else
    let L := N.size mant in                              (* 2^(L-1) <= mant < 2^L *)
    let E := (exp + Z.of_N L - 1)%Z in                   (* 2^E <= |value| < 2^(E+1) *)
    if (1023 <? E)%Z then None
    else if (-1022 <=? E)%Z then
      let e := Z.to_N (E + 1023) in
      if L <=? 53 then Some (f64_make s e ((mant - 2 ^ (L - 1)) * 2 ^ (53 - L)))
      else let sh := L - 53 in
           if mant mod 2 ^ sh =? 0 then Some (f64_make s e (mant / 2 ^ sh - p2_52)) else None
    else
      let t := (exp + 1074)%Z in                         (* |value| = mant * 2^t * 2^-1074 *)
      if (0 <=? t)%Z then Some (f64_make s 0 (mant * 2 ^ Z.to_N t))
      else let sh := Z.to_N (- t) in
           if mant mod 2 ^ sh =? 0 then
             (if mant / 2 ^ sh =? 0 then None else Some (f64_make s 0 (mant / 2 ^ sh)))
           else None.

Definition enc_big_float (f : bigfloat) : option bytes :=
  match f with
  | BInf neg => Some (enc_infinity neg)
  | BFin neg mant exp _ =>
      match bigfloat_to_f64 neg mant exp with
      | Some b => Some (enc_float b)
      | None => None            (* converted to a decimal by library code: not modelled *)
      end
  end.

(* ------------------------------------------------------------------ *)
(* Encoder: decimal floats (OnDecimalFloat / OnBigDecimalFloat,          *)
(* compact_float.EncodeToBytes / EncodeBigToBytes)                       *)
(* ------------------------------------------------------------------ *)

Definition sign_bit (b : bool) : N := if b then 1 else 0.

(* exponent field of a DFloat: uint64(|exp|)<<2 | expNeg<<1 | coefNeg ; |exp| < 2^31 *)
Definition cf_field (coef_neg : bool) (exp : Z) : N :=
  Z.abs_N exp * 4 + 2 * sign_bit (exp <? 0)%Z + sign_bit coef_neg.

(* the same for an apd.Decimal, whose int32 exponent may be the minimum: the
   negation wraps and uint64() sign-extends *)
Definition cf_field_big (coef_neg : bool) (exp : Z) : N :=
  let a := if (exp =? -2147483648)%Z then two64 - 2147483648 else Z.abs_N exp in
  u64 (a * 4) + 2 * sign_bit (exp <? 0)%Z + sign_bit coef_neg.

(* compact_float.DFloat values expressible as a [dfloat]:
   Coefficient int64, Exponent int32 other than ExpSpecial; negative zero is
   its own special value (printed as DFin true 0 0). *)
Definition dfloat_small_ok (d : dfloat) : bool :=
  match d with
  | DFin neg c e =>
      if c =? 0 then (negb neg || (e =? 0)%Z) && is_i32 e && negb (e =? -2147483648)%Z
      else is_i32 e && negb (e =? -2147483648)%Z && ((c <? two63) || (neg && (c =? two63)))
  | _ => true
  end.

Definition enc_decimal (d : dfloat) : option bytes :=
  if negb (dfloat_small_ok d) then None else
  match d with
  | DFin neg c e =>
      if c =? 0 then Some (enc_zero neg)
      else Some (cbeTypeDecimal :: uleb_encode (cf_field neg e) ++ uleb_encode c)
  | DInf neg => Some (enc_infinity neg)
  | DQNan => Some (enc_nan false)
  | DSNan => Some (enc_nan true)
  end.

Definition enc_big_decimal (d : dfloat) : option bytes :=
  match d with
  | DFin neg c e =>
      if negb (is_i32 e) then None
      else if c =? 0 then Some (enc_zero neg)       (* the same canonical zero as OnDecimalFloat / OnFloat *)
      else Some (cbeTypeDecimal :: uleb_encode (cf_field_big neg e) ++ uleb_encode c)
  | DInf neg => Some (enc_infinity neg)
  | DQNan => Some (enc_nan false)
  | DSNan => Some (enc_nan true)
  end.

(* ------------------------------------------------------------------ *)
(* Encoder: identifiers and arrays                                       *)
(* ------------------------------------------------------------------ *)

Definition enc_identifier (id : bytes) : bytes := uleb_encode (len id) ++ id.

(* WriteArrayChunkHeader: (elementCount << 1) | moreChunksFollow on uint64 *)
Definition chunk_header (count : N) (more : bool) : N := u64 (count * 2) + sign_bit more.

(* WriteArrayHeaderToBytes: indexes isPlane7fArray and arrayTypeToCBEType (a
   run-time panic when out of range) *)
Definition enc_array_header (t : N) : option bytes :=
  match nth_error cbeIsPlane7fArray (N.to_nat t), nth_error cbeArrayTypeToCBEType (N.to_nat t) with
  | Some p7, Some code =>
      Some (if p7 then [cbeTypePlane7f; code mod 256] else [code mod 256])
  | _, _ => None
  end.

(* writeSmallArrayHeader: None = index panic, Some None = "false", Some (Some h) = header written *)
Definition enc_small_header (t count : N) : option (option bytes) :=
  if cbeMaxSmallArrayLength <? count then Some None
  else match nth_error cbeArrayInfo (N.to_nat t) with
       | None => None
       | Some (short, has, p7) =>
           if has then
             Some (Some ((if p7 then [cbeTypePlane7f] else []) ++ [N.lor (short mod 256) (count mod 256)]))
           else Some None
       end.

(* header + chunk header of a complete array (OnArray, OnStringlikeArray) *)
Definition enc_whole_array_header (t count : N) : option bytes :=
  match enc_small_header t count with
  | None => None
  | Some (Some h) => Some h
  | Some None =>
      match enc_array_header t with
      | None => None
      | Some h => Some (h ++ uleb_encode (chunk_header count false))
      end
  end.

Definition enc_media_begin (mt : bytes) : bytes :=
  [cbeTypePlane7f; cbeTypeMedia] ++ uleb_encode (len mt) ++ mt.

Definition enc_custom_begin (ct : N) : bytes := cbeTypeCustomType :: uleb_encode ct.

(* ------------------------------------------------------------------ *)
(* Encoder: events                                                       *)
(* ------------------------------------------------------------------ *)

(* Encoder.arrayType / Encoder.trySmallArrayHeader *)
Record enc_state := { es_array_type : N; es_try_small : bool }.
Definition enc_init : enc_state := {| es_array_type := 0; es_try_small := false |}.

Definition enc_state_eqb (a b : enc_state) : bool :=
  (es_array_type a =? es_array_type b) && Bool.eqb (es_try_small a) (es_try_small b).

Definition opt_map {A B} (f : A -> B) (o : option A) : option B :=
  match o with Some a => Some (f a) | None => None end.

Definition guard {A} (c : bool) (o : option A) : option A := if c then o else None.

Definition cbe_encode_event (st : enc_state) (e : event) : option (enc_state * bytes) :=
  let keep (o : option bytes) := opt_map (fun b => (st, b)) o in
  match e with
  | EBeginDoc => keep (Some [cbeSignatureByte])
  | EEndDoc =>
      (* "only used for generating truncated array data in the unit tests" *)
      if es_try_small st then keep (enc_array_header (es_array_type st)) else keep (Some [])
  | EVersion v => keep (guard (is_u64 v) (Some (uleb_encode v)))
  | EPadding => keep (Some [cbeTypePadding])
  | EComment _ _ => keep (Some [])
  | ENull => keep (Some [cbeTypeNull])
  | EBool b => keep (Some [if b then cbeTypeTrue else cbeTypeFalse])
  | ETrue => keep (Some [cbeTypeTrue])
  | EFalse => keep (Some [cbeTypeFalse])
  | EPosInt n => keep (guard (is_u64 n) (Some (enc_pos_int n)))
  | ENegInt n => keep (guard (is_u64 n) (Some (enc_neg_int n)))
  | EInt z => keep (guard (is_i64 z) (Some (enc_int z)))
  | EBigInt None => keep (Some [cbeTypeNull])
  | EBigInt (Some z) => keep (Some (enc_big_int z))
  | EFloat b => keep (guard (is_u64 b) (Some (enc_float b)))
  | EBigFloat None => keep (Some [cbeTypeNull])
  | EBigFloat (Some f) => keep (enc_big_float f)
  | EDecimal d => keep (enc_decimal d)
  | EBigDecimal None => keep (Some [cbeTypeNull])
  | EBigDecimal (Some d) => keep (enc_big_decimal d)
  | ENan s => keep (Some (enc_nan s))
  | EUid b => keep (guard (bytes_wfb b) (Some (cbeTypeUID :: b)))
  | ETime _ => None                                      (* not modelled *)
  | EList => keep (Some [cbeTypeList])
  | EMap => keep (Some [cbeTypeMap])
  | ERecordType id => keep (guard (bytes_wfb id) (Some ([cbeTypePlane7f; cbeTypeRecordType] ++ enc_identifier id)))
  | ERecord id => keep (guard (bytes_wfb id) (Some (cbeTypeRecord :: enc_identifier id)))
  | EEdge => keep (Some [cbeTypeEdge])
  | ENode => keep (Some [cbeTypeNode])
  | EEnd => keep (Some [cbeTypeEndContainer])
  | EMarker id => keep (guard (bytes_wfb id) (Some ([cbeTypePlane7f; cbeTypeMarker] ++ enc_identifier id)))
  | ERefLocal id => keep (guard (bytes_wfb id) (Some (cbeTypeLocalReference :: enc_identifier id)))
  | EArray t count data =>
      keep (guard ((t <? 256) && is_u64 count && bytes_wfb data)
                  (opt_map (fun h => h ++ data) (enc_whole_array_header t count)))
  | EStringArray t data =>
      keep (guard ((t <? 256) && bytes_wfb data)
                  (opt_map (fun h => h ++ data) (enc_whole_array_header t (len data))))
  | EMedia mt data =>
      guard (bytes_wfb mt && bytes_wfb data)
            (Some ({| es_array_type := cbeAT_Media; es_try_small := false |},
                   enc_media_begin mt ++ uleb_encode (chunk_header (len data) false) ++ data))
  | ECustomBin ct data =>
      keep (guard (is_u64 ct && bytes_wfb data)
                  (Some (enc_custom_begin ct ++ uleb_encode (chunk_header (len data) false) ++ data)))
  | ECustomText _ _ => None                              (* the encoder panics *)
  | EArrayBegin t =>
      guard (t <? 256) (Some ({| es_array_type := t; es_try_small := true |}, []))
  | EMediaBegin mt =>
      guard (bytes_wfb mt)
            (Some ({| es_array_type := cbeAT_Media; es_try_small := false |}, enc_media_begin mt))
  | ECustomBegin t ct =>
      (* custom text is refused here as in OnCustomText *)
      guard ((t <? 256) && negb (t =? cbeAT_CustomText) && is_u64 ct)
            (Some ({| es_array_type := cbeAT_CustomBinary; es_try_small := false |}, enc_custom_begin ct))
  | EArrayChunk n more =>
      let st' := {| es_array_type := es_array_type st; es_try_small := false |} in
      let t := es_array_type st in
      let full := opt_map (fun h => (st', h ++ uleb_encode (chunk_header n more))) (enc_array_header t) in
      guard (is_u64 n)
        (if es_try_small st then
           if more then full
           else match enc_small_header t n with
                | None => None
                | Some (Some h) => Some (st', h)
                | Some None => full
                end
         else Some (st', uleb_encode (chunk_header n more)))
  | EArrayData d => keep (guard (bytes_wfb d) (Some d))
  end.

Fixpoint cbe_encode_from (st : enc_state) (es : list event) : option (enc_state * bytes) :=
  match es with
  | [] => Some (st, [])
  | e :: r =>
      match cbe_encode_event st e with
      | None => None
      | Some (st1, b1) =>
          match cbe_encode_from st1 r with
          | None => None
          | Some (st2, b2) => Some (st2, b1 ++ b2)
          end
      end
  end.

Definition cbe_encode (es : list event) : option bytes := opt_map snd (cbe_encode_from enc_init es).

(* ------------------------------------------------------------------ *)
(* Decoder: reader (decoder_reader.go)                                   *)
(* ------------------------------------------------------------------ *)

Record dcfg := { max_doc_size : N }.                     (* config.Rules.MaxDocumentSizeBytes *)
Definition default_dcfg : dcfg := {| max_doc_size := cbeDefaultMaxDocumentSizeBytes |}.

Inductive dres := DOk | DErr.
Definition dres_is_err (r : dres) : bool := match r with DErr => true | DOk => false end.

(* reader state: Reader.bytesRead (bytes of the current document consumed so far) and the unread input *)
Definition rstate := (N * bytes)%type.

(* markBytesRead *)
Definition mark (cfg : dcfg) (n br : N) : option N :=
  if max_doc_size cfg <? br + n then None else Some (br + n).

(* ReadUint8 / ReadType / ReadTypeOrEOF on non-empty input *)
Definition read_u8 (cfg : dcfg) (s : rstate) : option (N * rstate) :=
  match snd s with
  | [] => None
  | x :: r => match mark cfg 1 (fst s) with Some br => Some (x, (br, r)) | None => None end
  end.

(* ReadBytes / readIntoBuffer: nothing is read (and nothing counted) for a zero count *)
Definition read_bytes (cfg : dcfg) (n : N) (s : rstate) : option (bytes * rstate) :=
  if n =? 0 then Some ([], s)
  else if len (snd s) <? n then None
  else match mark cfg n (fst s) with
       | Some br => Some (firstn (N.to_nat n) (snd s), (br, skipn (N.to_nat n) (snd s)))
       | None => None
       end.

(* fixed-width little-endian fields: ReadUint16/32/64 *)
Definition read_le (cfg : dcfg) (n : nat) (s : rstate) : option (N * rstate) :=
  match read_bytes cfg (N.of_nat n) s with
  | Some (d, s') => Some (le_decode d, s')
  | None => None
  end.

(* A ULEB128 field read through uleb128.DecodeWithByteBuffer: the value, whether the
   library reports it as a big.Int (see Base/Uleb.v), and the reader state afterwards.
   The Reader hands itself to the library as the io.Reader, so every byte of the
   field is counted by markBytesRead as it is consumed. *)
Definition uleb_is_big (b : bytes) (v : N) : bool :=
  let n := uleb_span b in negb ((n <=? 9)%nat || ((n <=? 18)%nat && (v <? two64))).

Definition read_uleb_raw (cfg : dcfg) (s : rstate) : option (N * bool * nat * rstate) :=
  match uleb_decode (snd s) with
  | Some (v, r) =>
      let n := uleb_span (snd s) in
      match mark cfg (N.of_nat n) (fst s) with
      | Some br => Some (v, uleb_is_big (snd s) v, n, (br, r))
      | None => None
      end
  | None => None
  end.

(* readSmallULEB128: big.Int results and values above the limit are errors *)
Definition read_uleb (cfg : dcfg) (maxv : N) (s : rstate) : option (N * rstate) :=
  match read_uleb_raw cfg s with
  | Some (v, big, _, s') => if big || (maxv <? v) then None else Some (v, s')
  | None => None
  end.

Definition max_u64 : N := two64 - 1.

(* ReadIdentifier: the limit is a literal in the code *)
Definition identifier_max_length : N := 100000.
Definition read_identifier (cfg : dcfg) (s : rstate) : option (bytes * rstate) :=
  match read_uleb cfg identifier_max_length s with
  | Some (n, s1) => if n =? 0 then None else read_bytes cfg n s1
  | None => None
  end.

(* ------------------------------------------------------------------ *)
(* Decoder: values                                                       *)
(* ------------------------------------------------------------------ *)

(* decoder.go cbeTypeFloat32: float64(f32) keeps sign and payload of a quiet
   NaN (hardware conversion); a NaN without the quiet bit becomes the
   library's signalling NaN constant. *)
Definition dec_f32 (w : N) : N :=
  if f32_is_nan w then
    (if f32_quiet_bit w then f64_make (f32_sign w) 2047 (f32_mant w * p2_29) else f64_signaling_nan_bits)
  else f32_widen w.

(* decoder.go cbeTypeFloat16 through common.Float32FromFloat16Bits: NaNs become
   the two float32 NaN constants first *)
Definition dec_bf16 (h : N) : N :=
  if bf16_is_nan h then
    (if f32_quiet_bit (h * 65536) then f64_quiet_nan_bits else f64_signaling_nan_bits)
  else bf16_widen h.

(* compact_float.DecodeWithByteBuffer *)
Definition cf_max_encoded_exponent : N := 0x1ffffffff.

Definition dec_decimal (cfg : dcfg) (s : rstate) : option (event * rstate) :=
  match read_uleb_raw cfg s with
  | None => None
  | Some (f, big, n, s1) =>
      if big then None
      else if (n =? 1)%nat && (f =? 2) then Some (EDecimal (DFin false 0 0), s1)
      else if (n =? 1)%nat && (f =? 3) then Some (EDecimal (DFin true 0 0), s1)
      else if (n =? 2)%nat && (f =? 0) then Some (EDecimal DQNan, s1)
      else if (n =? 2)%nat && (f =? 1) then Some (EDecimal DSNan, s1)
      else if (n =? 2)%nat && (f =? 2) then Some (EDecimal (DInf false), s1)
      else if (n =? 2)%nat && (f =? 3) then Some (EDecimal (DInf true), s1)
      else if cf_max_encoded_exponent <? f then None
      else
        let cneg := N.odd f in
        let eneg := N.odd (f / 2) in
        let e := Z.of_N (f / 4) in
        let exp := if eneg then (- e)%Z else e in
        match read_uleb_raw cfg s1 with
        | None => None
        | Some (c, cbig, _, s2) =>
            if cbig || (two63 <=? c) then Some (EBigDecimal (Some (DFin cneg c exp)), s2)
            else Some (EDecimal (DFin (cneg && negb (c =? 0)) c exp), s2)
        end
  end.

(* common.ElementCountToByteCount on uint64 *)
Definition elem_bytes (width count : N) : N :=
  let bc := u64 (count * width) / 8 in
  if (width =? 1) && negb (count mod 8 =? 0) then bc + 1 else bc.

Definition tokres := (list event * option rstate)%type.

(* decodeArrayChunks.  Every iteration consumes at least the chunk header. *)
Fixpoint dec_chunks (cfg : dcfg) (fuel : nat) (width : N) (s : rstate) : tokres :=
  match fuel with
  | O => ([], None)
  | S f =>
      match read_uleb cfg max_u64 s with
      | None => ([], None)
      | Some (h, s1) =>
          let count := h / 2 in
          let more := N.odd h in
          let ev := EArrayChunk count more in
          let nb := elem_bytes width count in
          if nb =? 0 then
            (if more then let '(evs, r) := dec_chunks cfg f width s1 in (ev :: evs, r)
             else ([ev], Some s1))
          else
            match read_bytes cfg nb s1 with
            | None => ([ev], None)
            | Some (d, s2) =>
                if more then let '(evs, r) := dec_chunks cfg f width s2 in (ev :: EArrayData d :: evs, r)
                else ([ev; EArrayData d], Some s2)
            end
      end
  end.

Definition chunks_fuel (s : rstate) : nat := S (length (snd s)).

Definition element_bits (t : N) : N := nth (N.to_nat t) cbeElementBits 0.

(* decodeArray *)
Definition dec_array (cfg : dcfg) (t : N) (s : rstate) : tokres :=
  let '(evs, r) := dec_chunks cfg (chunks_fuel s) (element_bits t) s in (EArrayBegin t :: evs, r).

Definition media_type_max_length : N := 0xffffffff.     (* literals in decodeMedia / decodeCustomType *)
Definition custom_type_max : N := 0xffffffff.

Definition dec_media (cfg : dcfg) (s : rstate) : tokres :=
  match read_uleb cfg media_type_max_length s with
  | None => ([], None)
  | Some (n, s1) =>
      match read_bytes cfg n s1 with
      | None => ([], None)
      | Some (mt, s2) =>
          let '(evs, r) := dec_chunks cfg (chunks_fuel s2) 8 s2 in (EMediaBegin mt :: evs, r)
      end
  end.

Definition dec_custom (cfg : dcfg) (s : rstate) : tokres :=
  match read_uleb cfg custom_type_max s with
  | None => ([], None)
  | Some (ct, s1) =>
      let '(evs, r) := dec_chunks cfg (chunks_fuel s1) 8 s1 in (ECustomBegin cbeAT_CustomBinary ct :: evs, r)
  end.

(* ReadUint + the two callers *)
Definition dec_var_int (cfg : dcfg) (neg : bool) (s : rstate) : tokres :=
  match read_uleb cfg (cbeMaxBigIntBitCount / 8) s with
  | None => ([], None)
  | Some (n, s1) =>
      match read_bytes cfg n s1 with
      | None => ([], None)
      | Some (d, s2) =>
          let v := le_decode d in
          if n <=? 8 then ([if neg then ENegInt v else EPosInt v], Some s2)
          else ([EBigInt (Some (if neg then (- Z.of_N v)%Z else Z.of_N v))], Some s2)
      end
  end.

Definition tok_one (e : event) (s : rstate) : tokres := ([e], Some s).
Definition tok_fail : tokres := ([], None).

(* ------------------------------------------------------------------ *)
(* Decoder: token dispatch                                               *)
(* ------------------------------------------------------------------ *)

(* first byte (runMainDecodeLoop's switch) *)
Inductive tkind :=
| KSmallInt (z : Z) | KBad
| KDecimal | KVarInt (neg : bool) | KFixInt (neg : bool) (width : nat)
| KFloat (w : fwidth) | KUid | KRefLocal | KFalse | KTrue | KNull | KTimeCode
| KPlane7f | KString (n : N) | KChunked (t : N) | KCustom
| KPadding | KRecord | KEdge | KNode | KMap | KList | KEndContainer.

Definition in_list (x : N) (l : list N) : bool := existsb (N.eqb x) l.

Definition classify (ty : N) : tkind :=
  if 256 <=? ty then KBad
  else if ty =? cbeTypeDecimal then KDecimal
  else if ty =? cbeTypePosInt then KVarInt false
  else if ty =? cbeTypeNegInt then KVarInt true
  else if ty =? cbeTypePosInt8 then KFixInt false 1
  else if ty =? cbeTypeNegInt8 then KFixInt true 1
  else if ty =? cbeTypePosInt16 then KFixInt false 2
  else if ty =? cbeTypeNegInt16 then KFixInt true 2
  else if ty =? cbeTypePosInt32 then KFixInt false 4
  else if ty =? cbeTypeNegInt32 then KFixInt true 4
  else if ty =? cbeTypePosInt64 then KFixInt false 8
  else if ty =? cbeTypeNegInt64 then KFixInt true 8
  else if ty =? cbeTypeFloat16 then KFloat W16
  else if ty =? cbeTypeFloat32 then KFloat W32
  else if ty =? cbeTypeFloat64 then KFloat W64
  else if ty =? cbeTypeUID then KUid
  else if ty =? cbeTypeMap then KMap
  else if ty =? cbeTypeList then KList
  else if ty =? cbeTypeRecord then KRecord
  else if ty =? cbeTypeEdge then KEdge
  else if ty =? cbeTypeNode then KNode
  else if ty =? cbeTypeEndContainer then KEndContainer
  else if ty =? cbeTypeFalse then KFalse
  else if ty =? cbeTypeTrue then KTrue
  else if ty =? cbeTypeNull then KNull
  else if ty =? cbeTypePadding then KPadding
  else if ty =? cbeTypeString0 then KString 0
  else if in_list ty cbeShortStringCodes then KString (ty - cbeTypeString0)
  else if ty =? cbeTypeString then KChunked cbeAT_String
  else if ty =? cbeTypeRID then KChunked cbeAT_ResourceID
  else if ty =? cbeTypeCustomType then KCustom
  else if ty =? cbeTypePlane7f then KPlane7f
  else if ty =? cbeTypeArrayBit then KChunked cbeAT_Bit
  else if ty =? cbeTypeArrayUint8 then KChunked cbeAT_Uint8
  else if ty =? cbeTypeLocalReference then KRefLocal
  else if (ty =? cbeTypeDate) || (ty =? cbeTypeTime) || (ty =? cbeTypeTimestamp) then KTimeCode
  else
    let z := if ty <? 128 then Z.of_N ty else (Z.of_N ty - 256)%Z in       (* int64(int8(cbeType)) *)
    if (z <? cbeSmallIntMin)%Z || (cbeSmallIntMax <? z)%Z then KBad else KSmallInt z.

(* second byte after 0x7f (decodePlane7f): the short-array switch on the high
   nibble comes first; the byte multipliers are literals in the code *)
Inductive t7kind :=
| K7Short (t : N) (bytes_per_element : N) (count : N)
| K7Marker | K7RecordType | K7Chunked (t : N) | K7Media | K7Bad.

Definition short_array_table : list (N * (N * N)) :=
  [ (cbeTypeShortArrayInt8,    (cbeAT_Int8, 1));
    (cbeTypeShortArrayUint16,  (cbeAT_Uint16, 2));
    (cbeTypeShortArrayInt16,   (cbeAT_Int16, 2));
    (cbeTypeShortArrayUint32,  (cbeAT_Uint32, 4));
    (cbeTypeShortArrayInt32,   (cbeAT_Int32, 4));
    (cbeTypeShortArrayUint64,  (cbeAT_Uint64, 8));
    (cbeTypeShortArrayInt64,   (cbeAT_Int64, 8));
    (cbeTypeShortArrayFloat16, (cbeAT_Float16, 2));
    (cbeTypeShortArrayFloat32, (cbeAT_Float32, 4));
    (cbeTypeShortArrayFloat64, (cbeAT_Float64, 8));
    (cbeTypeShortArrayUID,     (cbeAT_UID, 16)) ].

Fixpoint assoc (k : N) (l : list (N * (N * N))) : option (N * N) :=
  match l with
  | [] => None
  | (k', v) :: r => if k =? k' then Some v else assoc k r
  end.

Definition classify7f (ty : N) : t7kind :=
  if 256 <=? ty then K7Bad
  else match assoc (N.land ty 0xf0) short_array_table with
       | Some (t, k) => K7Short t k (N.land ty 0x0f)
       | None =>
           if ty =? cbeTypeMarker then K7Marker
           else if ty =? cbeTypeRecordType then K7RecordType
           else if ty =? cbeTypeRemoteReference then K7Chunked cbeAT_ReferenceRemote
           else if ty =? cbeTypeMedia then K7Media
           else let t := nth (N.to_nat ty) cbePlane7fTypeToArrayType 0 in
                if t =? cbeAT_Invalid then K7Bad else K7Chunked t
       end.

Definition dec_plane7f (cfg : dcfg) (s : rstate) : tokres :=
  match read_u8 cfg s with
  | None => tok_fail
  | Some (ty, s1) =>
      match classify7f ty with
      | K7Short t k count =>
          match read_bytes cfg (count * k) s1 with
          | Some (d, s2) => tok_one (EArray t count d) s2
          | None => tok_fail
          end
      | K7Marker => match read_identifier cfg s1 with Some (id, s2) => tok_one (EMarker id) s2 | None => tok_fail end
      | K7RecordType => match read_identifier cfg s1 with Some (id, s2) => tok_one (ERecordType id) s2 | None => tok_fail end
      | K7Chunked t => dec_array cfg t s1
      | K7Media => dec_media cfg s1
      | K7Bad => tok_fail
      end
  end.

(* one iteration of runMainDecodeLoop on non-empty input: the events delivered
   and the reader state afterwards (None = panic, reported as an error) *)
Definition dec_token (cfg : dcfg) (s : rstate) : tokres :=
  match read_u8 cfg s with
  | None => tok_fail
  | Some (ty, s1) =>
      match classify ty with
      | KSmallInt z => tok_one (EInt z) s1
      | KBad => tok_fail
      | KDecimal =>
          match dec_decimal cfg s1 with
          | Some (e, s2) => tok_one e s2
          | None => tok_fail
          end
      | KVarInt neg => dec_var_int cfg neg s1
      | KFixInt neg w =>
          match read_le cfg w s1 with
          | Some (v, s2) => tok_one (if neg then ENegInt v else EPosInt v) s2
          | None => tok_fail
          end
      | KFloat W16 => match read_le cfg 2 s1 with Some (h, s2) => tok_one (EFloat (dec_bf16 h)) s2 | None => tok_fail end
      | KFloat W32 => match read_le cfg 4 s1 with Some (w, s2) => tok_one (EFloat (dec_f32 w)) s2 | None => tok_fail end
      | KFloat W64 => match read_le cfg 8 s1 with Some (x, s2) => tok_one (EFloat x) s2 | None => tok_fail end
      | KUid => match read_bytes cfg 16 s1 with Some (d, s2) => tok_one (EUid d) s2 | None => tok_fail end
      | KRefLocal => match read_identifier cfg s1 with Some (id, s2) => tok_one (ERefLocal id) s2 | None => tok_fail end
      | KFalse => tok_one EFalse s1
      | KTrue => tok_one ETrue s1
      | KNull => tok_one ENull s1
      | KTimeCode => tok_fail                                (* not modelled *)
      | KPlane7f => dec_plane7f cfg s1
      | KString n => match read_bytes cfg n s1 with Some (d, s2) => tok_one (EArray cbeAT_String n d) s2 | None => tok_fail end
      | KChunked t => dec_array cfg t s1
      | KCustom => dec_custom cfg s1
      | KPadding => tok_one EPadding s1
      | KRecord => match read_identifier cfg s1 with Some (id, s2) => tok_one (ERecord id) s2 | None => tok_fail end
      | KEdge => tok_one EEdge s1
      | KNode => tok_one ENode s1
      | KMap => tok_one EMap s1
      | KList => tok_one EList s1
      | KEndContainer => tok_one EEnd s1
      end
  end.

(* runMainDecodeLoop: tokens until the input is exhausted, then OnEndDocument.
   Every iteration on non-empty input consumes at least one byte; running out
   of fuel is reported as an error. *)
Fixpoint dec_loop (cfg : dcfg) (fuel : nat) (s : rstate) : list event * dres :=
  match snd s with
  | [] => ([EEndDoc], DOk)
  | _ :: _ =>
      match fuel with
      | O => ([], DErr)
      | S f =>
          match dec_token cfg s with
          | (evs, None) => (evs, DErr)
          | (evs, Some s') => let '(evs', r) := dec_loop cfg f s' in (evs ++ evs', r)
          end
      end
  end.

(* Decoder.Decode *)
Definition cbe_decode (cfg : dcfg) (doc : bytes) : list event * dres :=
  match read_u8 cfg (0, doc) with
  | None => ([EBeginDoc], DErr)
  | Some (sig, s1) =>
      if negb (sig =? cbeSignatureByte) then ([EBeginDoc], DErr)
      else match read_uleb cfg max_u64 s1 with
           | None => ([EBeginDoc], DErr)
           | Some (v, s2) =>
               let ver := if v =? 1 then 0 else v in
               let '(evs, r) := dec_loop cfg (length (snd s2)) s2 in
               (EBeginDoc :: EVersion ver :: evs, r)
           end
  end.

(* ------------------------------------------------------------------ *)
(* Correspondence cases                                                  *)
(* ------------------------------------------------------------------ *)

(* what the Go encoder produced for the events (None = it panicked) *)
Definition cbe_enc_case := (list event * option bytes)%type.
Definition cbe_enc_case_ok (c : cbe_enc_case) : bool :=
  option_eqb bytes_eqb (cbe_encode (fst c)) (snd c).

Definition events_eqb : list event -> list event -> bool := list_eqb event_eqb.

(* document, events the Go decoder delivered, whether it returned an error *)
Definition cbe_dec_case := (bytes * list event * bool)%type.
Definition cbe_dec_case_ok (c : cbe_dec_case) : bool :=
  let '(doc, evs, err) := c in
  let '(mevs, r) := cbe_decode default_dcfg doc in
  events_eqb mevs evs && Bool.eqb (dres_is_err r) err.

(* the same with Rules.MaxDocumentSizeBytes set *)
Definition cbe_dec_cfg_case := (N * bytes * list event * bool)%type.
Definition cbe_dec_cfg_case_ok (c : cbe_dec_cfg_case) : bool :=
  let '(maxdoc, doc, evs, err) := c in
  let '(mevs, r) := cbe_decode {| max_doc_size := maxdoc |} doc in
  events_eqb mevs evs && Bool.eqb (dres_is_err r) err.
