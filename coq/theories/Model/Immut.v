(* C18 — what marshaling does to the caller's big numbers.

   Source (current /repo):
     iterator/iterators.go  iteratePBigInt / iteratePBigFloat / iteratePBigDecimal
                            hand the caller's pointer to the event receiver;
                            iterateBigInt / iterateBigFloat / iterateBigDecimal
                            (big number held BY VALUE) hand over the address of a
                            local struct copy (vCopy);
     cbe/encoder.go:155     Encoder.OnBigInt      (since d70a630 it negates a fresh copy,
                            magnitude := new(big.Int).Neg(value); before that it
                            negated the caller's value in place and returned early
                            for -2^64 < z < -2^63, leaving the cell negated)
     cbe/encoder.go:110..   OnPositiveInt / OnNegativeInt (width selection)
     cbe/encoder_writer.go  WriteTypedInt, WriteTypedBigInt, WriteTyped{8,16,32,64}Bits
     cte/encoder.go:127     OnBigInt -> cte/encoder_writer.go:291 WriteBigInt
                            (value.Append(buf, 10): read only).

   The caller's big.Int is made explicit as a CELL holding a mathematical integer:
   every handler returns the bytes it writes AND the final content of the cell.
   big.Float / apd.Decimal cells are only ever passed to reading methods
   (Float64, IsInf, Sign, Text, Append, IsZero, Coeff.Bits) by both encoders, so
   they are modelled as opaque cells that a visit leaves alone; that those
   library methods do not write is checked on the implementation by the harness
   (deep snapshot), it is not provable here.

   Executable definitions only. *)
From CE Require Export Base.Prelude Base.LE Base.Uleb.
Open Scope N_scope.

(* ------------------------------------------------------------------ *)
(* Go integer conversions used by the code                              *)
(* ------------------------------------------------------------------ *)

Definition two63z : Z := 9223372036854775808%Z.
Definition two64z : Z := 18446744073709551616%Z.

(* big.Int.IsInt64 / IsUint64 *)
Definition is_int64 (z : Z) : bool := ((- two63z <=? z) && (z <? two63z))%Z.
Definition is_uint64 (z : Z) : bool := ((0 <=? z) && (z <? two64z))%Z.

(* two's complement reinterpretation: the int64 with the same low 64 bits *)
Definition wrap_s64 (z : Z) : Z :=
  let m := (z mod two64z)%Z in if (m <? two63z)%Z then m else (m - two64z)%Z.
(* uint64(x) of an int64 x *)
Definition to_u64 (z : Z) : N := Z.to_N (z mod two64z)%Z.
(* big.Int.Int64(): low 64 bits of |z|, negated (with wrap-around) if z < 0 *)
Definition big_int64 (z : Z) : Z :=
  let lo := (Z.abs z mod two64z)%Z in
  wrap_s64 (if (z <? 0)%Z then (- lo)%Z else lo).
(* big.Int.Uint64(): low 64 bits of |z| *)
Definition big_uint64 (z : Z) : N := Z.to_N (Z.abs z mod two64z)%Z.
(* Go's unary minus on int64 (wraps on MinInt64) *)
Definition neg_s64 (x : Z) : Z := wrap_s64 (- x)%Z.

(* ------------------------------------------------------------------ *)
(* CBE integer encodings (cbe/encoder.go, cbe/encoder_writer.go)        *)
(* ------------------------------------------------------------------ *)

(* cbe/common.go *)
Definition cbeTypePosInt   : N := 102. (* 0x66 *)
Definition cbeTypeNegInt   : N := 103. (* 0x67 *)
Definition cbeTypePosInt8  : N := 104. (* 0x68 *)
Definition cbeTypeNegInt8  : N := 105. (* 0x69 *)
Definition cbeTypePosInt16 : N := 106. (* 0x6a *)
Definition cbeTypeNegInt16 : N := 107. (* 0x6b *)
Definition cbeTypePosInt32 : N := 108. (* 0x6c *)
Definition cbeTypeNegInt32 : N := 109. (* 0x6d *)
Definition cbeTypePosInt64 : N := 110. (* 0x6e *)
Definition cbeTypeNegInt64 : N := 111. (* 0x6f *)
Definition cbeSmallIntMax  : N := 100.

(* WriteTypedInt: type, raw byte count, the minimal little-endian bytes *)
Definition cbe_typed_int (ty v : N) : bytes :=
  ty :: N.of_nat (min_le_len v) :: le_encode (min_le_len v) v.

(* Encoder.OnPositiveInt, v a uint64 *)
Definition cbe_pos_int (v : N) : bytes :=
  if v <=? cbeSmallIntMax then [v]
  else if v <=? 255 then [cbeTypePosInt8; v]
  else if v <=? 65535 then cbeTypePosInt16 :: le_encode 2 v
  else if v <=? 4294967295 then cbeTypePosInt32 :: le_encode 4 v
  else if v <? 281474976710656 then cbe_typed_int cbeTypePosInt v
  else cbeTypePosInt64 :: le_encode 8 v.

(* Encoder.OnNegativeInt, v (a uint64) is the magnitude.  The small-int case
   writes byte(cbeTypeField(-int64(v))) = the low byte of -v. *)
Definition cbe_neg_int (v : N) : bytes :=
  if v =? 0 then [cbeTypeNegInt8; 0]
  else if v <=? cbeSmallIntMax then [256 - v]
  else if v <=? 255 then [cbeTypeNegInt8; v]
  else if v <=? 65535 then cbeTypeNegInt16 :: le_encode 2 v
  else if v <=? 4294967295 then cbeTypeNegInt32 :: le_encode 4 v
  else if v <? 281474976710656 then cbe_typed_int cbeTypeNegInt v
  else cbeTypeNegInt64 :: le_encode 8 v.

(* Writer.WriteTypedBigInt on a non-zero magnitude: type, ULEB byte count,
   minimal little-endian bytes of |value| (value.Bits() ignores the sign). *)
Definition cbe_typed_bigint (ty mag : N) : bytes :=
  ty :: uleb_encode (N.of_nat (min_le_len mag)) ++ le_encode (min_le_len mag) mag.

(* The one big.Int operation of the handler that has a destination:
   dst.Neg(src) stores -src in dst.  The model keeps the destination explicit so
   that a write into the caller's cell cannot go unnoticed: [neg_into] returns
   the new content of the destination. *)
Definition neg_into (src : Z) : Z := (- src)%Z.

(* Encoder.OnBigInt on a non-nil pointer whose cell holds z.
   Result: bytes written, final content of the caller's cell.  Every other
   method called on the caller's value (Cmp, IsInt64, Int64, Bits via
   WriteTypedBigInt) is a reader; the only Neg has a freshly allocated
   destination ([magnitude]), so the cell content returned is the one received. *)
Definition cbe_on_bigint (z : Z) : bytes * Z :=
  let cell := z in
  if (cell <? 0)%Z then                               (* common.IsBigIntNegative *)
    if is_int64 cell then
      (cbe_neg_int (to_u64 (neg_s64 (big_int64 cell))), cell)
    else
      let magnitude := neg_into cell in               (* new(big.Int).Neg(value) *)
      if is_uint64 magnitude then
        (cbe_neg_int (big_uint64 magnitude), cell)
      else
        (cbe_typed_bigint cbeTypeNegInt (Z.abs_N cell), cell)
  else if is_uint64 cell then (cbe_pos_int (big_uint64 cell), cell)
  else (cbe_typed_bigint cbeTypePosInt (Z.abs_N cell), cell).

(* ------------------------------------------------------------------ *)
(* CTE: Writer.WriteBigInt = value.Append(buf, 10)                      *)
(* ------------------------------------------------------------------ *)

Fixpoint dec_digits_fuel (fuel : nat) (n : N) (acc : bytes) : bytes :=
  match fuel with
  | O => acc
  | S f => let acc' := (48 + n mod 10) :: acc in
           if n <? 10 then acc' else dec_digits_fuel f (n / 10) acc'
  end.
Definition dec_digits (n : N) : bytes := dec_digits_fuel (S (N.to_nat (N.log2 n))) n [].

Definition cte_on_bigint (z : Z) : bytes * Z :=
  ((if (z <? 0)%Z then [45] else []) ++ dec_digits (Z.abs_N z), z).

(* ------------------------------------------------------------------ *)
(* Both encoders                                                        *)
(* ------------------------------------------------------------------ *)

Inductive encoder := CBE | CTE.

Definition on_bigint (e : encoder) (z : Z) : bytes * Z :=
  match e with CBE => cbe_on_bigint z | CTE => cte_on_bigint z end.

(* -2^64 < z < -2^63: the integers that take the [magnitude] path with a 64-bit
   result (before d70a630 the encoder left exactly these negated). *)
Definition in_neg_window (z : Z) : bool := ((- two64z <? z) && (z <? - two63z))%Z.

(* ------------------------------------------------------------------ *)
(* A value with several big numbers: heap of cells + order of visits    *)
(* ------------------------------------------------------------------ *)

Inductive cell :=
| CInt (z : Z)        (* a big.Int *)
| CRead (id : N).     (* a big.Float or apd.Decimal with content [id]: only read *)

(* How the iterator reaches a cell: through a pointer held by the value (the
   same cell may be reached several times: shared pointer), or as a struct held
   by value, in which case the handler works on a shallow copy (vCopy) whose
   sign flag is private and whose magnitude words Neg does not write. *)
Inductive visit :=
| ByPtr (i : nat)
| ByVal (i : nat).

Fixpoint set_nth {A} (i : nat) (x : A) (l : list A) : list A :=
  match l, i with
  | [], _ => []
  | _ :: r, O => x :: r
  | y :: r, S k => y :: set_nth k x r
  end.

Definition visit_cell (e : encoder) (h : list cell) (v : visit) : bytes * list cell :=
  match v with
  | ByPtr i =>
      match nth_error h i with
      | Some (CInt z) => let r := on_bigint e z in (fst r, set_nth i (CInt (snd r)) h)
      | _ => ([], h)
      end
  | ByVal i =>
      match nth_error h i with
      | Some (CInt z) => (fst (on_bigint e z), h)
      | _ => ([], h)
      end
  end.

(* Bytes written for the big integers visited, and the final heap. *)
Fixpoint run (e : encoder) (h : list cell) (vs : list visit) : bytes * list cell :=
  match vs with
  | [] => ([], h)
  | v :: r => let s := visit_cell e h v in
              let t := run e (snd s) r in
              (fst s ++ fst t, snd t)
  end.

(* ------------------------------------------------------------------ *)
(* Correspondence cases                                                 *)
(* ------------------------------------------------------------------ *)

Definition cell_eqb (a b : cell) : bool :=
  match a, b with
  | CInt x, CInt y => (x =? y)%Z
  | CRead x, CRead y => x =? y
  | _, _ => false
  end.

Inductive immut_case :=
(* one *big.Int marshaled as the root object: what followed the document header
   and what the caller's big.Int held afterwards *)
| BigIntCase (e : encoder) (z : Z) (impl_bytes : bytes) (impl_after : Z)
(* a slice of pointers/values into a heap of big numbers: the bytes between the
   list opener and the end-of-container ([None] when a non-integer cell is
   visited or for CTE, where separators intervene) and the heap afterwards *)
| HeapCase (e : encoder) (h : list cell) (vs : list visit)
           (impl_bytes : option bytes) (impl_after : list cell).

Definition immut_case_ok (c : immut_case) : bool :=
  match c with
  | BigIntCase e z b a =>
      let r := on_bigint e z in bytes_eqb (fst r) b && (snd r =? a)%Z
  | HeapCase e h vs ob a =>
      let r := run e h vs in
      match ob with Some b => bytes_eqb (fst r) b | None => true end
      && list_eqb cell_eqb (snd r) a
  end.
