(* C16 — reused instances behave like fresh ones.

   Every reusable object of the library is modelled as a state machine with the
   state that survives between two uses, its REAL reset point, and one "call"
   (= one document / value handled, reset point included):

     validator        rules/context.go Context.Reset              -> rules_call
     CBE reader       cbe/decoder_reader.go SetReader              -> reader_call
     CBE encoder      cbe/encoder.go PrepareToEncode (state =
                      Model/Cbe.enc_state)                         -> cbe_enc_call
     CTE encoder      cte/encoder_context.go Begin (run by
                      OnBeginDocument)                             -> cte_call
     type caches      iterator/session.go GetIteratorForType,
                      builder/session.go GetBuilderGeneratorForType -> cache_call
   (the CTE decoder and the universal decoder keep no state between calls).

   [run_reused init call history op] is what one instance answers to [op]
   after it has been used for [history]; [run_fresh init call op] is what a new
   instance answers.  Executable definitions only; the statements are in
   Proofs/ReuseProofs.v and Props/C16.v. *)
From CE Require Export Base.Prelude Model.Events.
From CE Require Import Model.Rules.
From CE Require Model.Cbe.
Open Scope N_scope.

(* ------------------------------------------------------------------ *)
(* Generic: an instance used for a history of operations                *)
(* ------------------------------------------------------------------ *)

Section Machine.
  Context {S Op Obs : Type}.
  Variable init : S.                       (* state of a freshly created instance *)
  Variable call : S -> Op -> S * Obs.      (* one use, reset point included *)

  Fixpoint run_hist (s : S) (h : list Op) : S :=
    match h with
    | [] => s
    | op :: r => run_hist (fst (call s op)) r
    end.

  (* the answers to every operation of a history, in order *)
  Fixpoint run_all (s : S) (h : list Op) : list Obs :=
    match h with
    | [] => []
    | op :: r => snd (call s op) :: run_all (fst (call s op)) r
    end.

  Definition run_reused (h : list Op) (op : Op) : Obs := snd (call (run_hist init h) op).
  Definition run_fresh (op : Op) : Obs := snd (call init op).
End Machine.

(* Two instances owned by one object and used side by side (a marshaler owns a
   type cache and an encoder; an unmarshaler a type cache, a decoder and a
   validator).  What the owner answers is determined by what its parts answer. *)
Section Pair.
  Context {S1 S2 Op1 Op2 Obs1 Obs2 : Type}.
  Variable call1 : S1 -> Op1 -> S1 * Obs1.
  Variable call2 : S2 -> Op2 -> S2 * Obs2.
  Definition call_pair (s : S1 * S2) (op : Op1 * Op2) : (S1 * S2) * (Obs1 * Obs2) :=
    ((fst (call1 (fst s) (fst op)), fst (call2 (snd s) (snd op))),
     (snd (call1 (fst s) (fst op)), snd (call2 (snd s) (snd op)))).
End Pair.

(* ------------------------------------------------------------------ *)
(* 1. The rules validator                                               *)
(* ------------------------------------------------------------------ *)

(* Context.Reset.  It leaves recordTypeName, markerID and the whole array
   sub-state (arrayType, moreChunksFollow, builtArrayBuffer, the byte counters,
   the UTF-8 remainder, the validation function) as they are. *)
Definition reset_rctx (c : rctx) : rctx := {|
  cur := mk_entry RBeginDocument DT_Invalid None;
  stack := []; depth := 0; objects := 0; rectypes := [];
  rectype_name := rectype_name c;
  arr_type := arr_type c; more_chunks := more_chunks c; built := built c; arr_total := arr_total c;
  chunk_expected := chunk_expected c; chunk_actual := chunk_actual c; utf8_rem := utf8_rem c;
  arr_validator := arr_validator c;
  marker_id := marker_id c; marked := []; fwd := []; refcount := 0;
|}.

(* What a user of the validator sees for one document: the events handed on and
   the index of the first rejected event. *)
Definition rules_obs := (list event * option N)%type.

(* Reset, then the events of one document (Unmarshaler.Unmarshal: rules.Reset();
   decoder.Decode(...)). *)
Definition rules_call (cfg : rcfg) (c : rctx) (es : list event) : rctx * rules_obs :=
  let '(c', out, rej) := run_from cfg (reset_rctx c) 0 es [] in (c', (out, rej)).

(* ------------------------------------------------------------------ *)
(* 2. The CBE reader (document size accounting)                         *)
(* ------------------------------------------------------------------ *)

(* Reader.bytesRead and Reader.pendingErr (an error the source returned together
   with data, or the end of the source: it is reported by every later Read); the
   byte buffer is overwritten before it is read. *)
Record reader := { bytes_read : N; pending_err : bool }.
Definition reader_init : reader := {| bytes_read := 0; pending_err := false |}.

(* SetReader: the source is replaced, counting starts again, no error is pending. *)
Definition reader_set_reader (r : reader) : reader := {| bytes_read := 0; pending_err := false |}.

(* For the reader a decode is the sequence of results (n, err) its source gives
   to the successive Read calls.  Reader.Read: a pending error ends the decode;
   data is counted (markBytesRead: uint64 addition, then the limit check, the
   counter keeping the new value when the check fails) and an error that came
   with it is kept for the next call; no data and no error is retried; no data
   and an error ends the decode.  Result: state, number of source reads
   performed, and how the decode stopped. *)
Inductive rstop := RDone | RLimit | RPending.
Definition rstop_eqb (a b : rstop) : bool :=
  match a, b with RDone, RDone | RLimit, RLimit | RPending, RPending => true | _, _ => false end.

Fixpoint reader_reads (max : N) (reads : list (N * bool)) (r : reader) (done : N) : reader * (N * rstop) :=
  match reads with
  | [] => (r, (done, RDone))
  | (n, e) :: rest =>
      if pending_err r then (r, (done, RPending))
      else if n =? 0 then
        (if e then ({| bytes_read := bytes_read r; pending_err := true |}, (N.succ done, RDone))
         else reader_reads max rest r (N.succ done))
      else
        let b := (bytes_read r + n) mod Rules.two64 in
        if b <=? max then reader_reads max rest {| bytes_read := b; pending_err := e |} (N.succ done)
        else ({| bytes_read := b; pending_err := pending_err r |}, (N.succ done, RLimit))
  end.

Definition reader_obs := (N * rstop)%type.

(* Decoder.Decode: SetReader, then the reads of this document. *)
Definition reader_call (max : N) (r : reader) (reads : list (N * bool)) : reader * reader_obs :=
  reader_reads max reads (reader_set_reader r) 0.

(* The same machine without the reset, to show what the reset is needed for
   (SetReader did not restart the count before it was repaired). *)
Definition reader_call_noreset (max : N) (r : reader) (reads : list (N * bool)) : reader * reader_obs :=
  reader_reads max reads r 0.

(* ------------------------------------------------------------------ *)
(* 3. The CBE encoder                                                   *)
(* ------------------------------------------------------------------ *)

(* Encoder.arrayType / trySmallArrayHeader live in Cbe.enc_state.  The reset
   point is PrepareToEncode: it replaces the writer and sets arrayType :=
   ArrayTypeInvalid, trySmallArrayHeader := false, so nothing of a previous
   (possibly aborted) document reaches the next one; OnBeginDocument /
   OnEndDocument do not touch the two fields.  An event the encoder panics on
   ends the document (the caller's recover); the bytes of the events accepted so
   far have been written. *)
Definition enc_obs := (option N * bytes)%type.   (* index of the rejected event, bytes written *)

Definition cbe_enc_prepare (st : Cbe.enc_state) : Cbe.enc_state :=
  {| Cbe.es_array_type := CbeConsts.cbeAT_Invalid; Cbe.es_try_small := false |}.

Fixpoint cbe_enc_run (st : Cbe.enc_state) (i : N) (es : list event) (out : bytes)
  : Cbe.enc_state * enc_obs :=
  match es with
  | [] => (st, (None, out))
  | e :: r =>
      match Cbe.cbe_encode_event st e with
      | Some (st1, b) => cbe_enc_run st1 (N.succ i) r (out ++ b)
      | None => (st, (Some i, out))
      end
  end.

(* PrepareToEncode, then the events of one document *)
Definition cbe_enc_call (st : Cbe.enc_state) (es : list event) : Cbe.enc_state * enc_obs :=
  cbe_enc_run (cbe_enc_prepare st) 0 es [].

(* The same machine without the reset, to show what it is needed for
   (PrepareToEncode did not touch the two fields before it was repaired). *)
Definition cbe_enc_call_noreset (st : Cbe.enc_state) (es : list event) : Cbe.enc_state * enc_obs :=
  cbe_enc_run st 0 es [].

(* a pending OnArrayBegin: the next OnArrayChunk / OnEndDocument writes an array header *)
Definition enc_dangling (st : Cbe.enc_state) : bool := Cbe.es_try_small st.

(* ------------------------------------------------------------------ *)
(* 4. The CTE encoder context                                           *)
(* ------------------------------------------------------------------ *)

(* The structural part of the CTE encoder: indentation, decorator stack,
   ContainerHasObjects, the writer's Column.  Events of the model: *)
Inductive cev :=
| CBegin | CVersion (v : N) | CEndDoc | CPadding
| CComment (multi : bool) (text : bytes)
| CNull | CTrue | CFalse | CPosInt (n : N)
| CList | CMap | CEdge | CNode | CEndContainer
| CMarker (id : bytes) | CRef (id : bytes).

(* encoder_decorators.go (the record, record-type and array decorators belong to
   events outside this model) *)
Inductive deco := DTop | DList | DMapKey | DMapValue | DConcat | DEdge | DNodeValue | DNodeChildren.

Record cte_state := {
  cs_indent : N;            (* len(indenter.indent) / 4 *)
  cs_stack : list deco;     (* head = last element of EncoderContext.stack = Decorator *)
  cs_has_objects : bool;    (* ContainerHasObjects *)
  cs_column : Z;            (* Stream.Column *)
}.

(* zero EncoderContext after Init: no decorator yet *)
Definition cte_init : cte_state :=
  {| cs_indent := 0; cs_stack := []; cs_has_objects := false; cs_column := 0%Z |}.

(* working state while one event is handled: context and the bytes written *)
Definition cw := (cte_state * bytes)%type.

Definition set_indent (s : cte_state) (n : N) : cte_state :=
  {| cs_indent := n; cs_stack := cs_stack s; cs_has_objects := cs_has_objects s; cs_column := cs_column s |}.
Definition set_cstack (s : cte_state) (k : list deco) : cte_state :=
  {| cs_indent := cs_indent s; cs_stack := k; cs_has_objects := cs_has_objects s; cs_column := cs_column s |}.
Definition set_has (s : cte_state) (b : bool) : cte_state :=
  {| cs_indent := cs_indent s; cs_stack := cs_stack s; cs_has_objects := b; cs_column := cs_column s |}.
Definition set_col (s : cte_state) (c : Z) : cte_state :=
  {| cs_indent := cs_indent s; cs_stack := cs_stack s; cs_has_objects := cs_has_objects s; cs_column := c |}.

Definition blen (b : bytes) : Z := Z.of_nat (length b).

(* Writer.WriteBytesNotLF / WriteByteNotLF / WriteStringNotLF: Column advances *)
Definition wr (b : bytes) (w : cw) : cw :=
  (set_col (fst w) (cs_column (fst w) + blen b)%Z, snd w ++ b).
(* FlushBufferNotLF (WritePositiveInt): Column does not move *)
Definition wr_nocol (b : bytes) (w : cw) : cw := (fst w, snd w ++ b).
(* WriteLF *)
Definition wr_lf (w : cw) : cw := (set_col (fst w) 0%Z, snd w ++ [10]).

(* bytes after the last LF, if there is one *)
Fixpoint after_last_lf (b : bytes) : option bytes :=
  match b with
  | [] => None
  | x :: r =>
      match after_last_lf r with
      | Some t => Some t
      | None => if x =? 10 then Some r else None
      end
  end.
(* WriteBytesPossibleLF: Column is only touched when the text holds a LF *)
Definition wr_possible_lf (b : bytes) (w : cw) : cw :=
  match after_last_lf b with
  | Some t => (set_col (fst w) (blen t), snd w ++ b)
  | None => (fst w, snd w ++ b)
  end.

Definition spaces (n : N) : bytes := N.iter n (cons 32) [].

(* indenter.GetOriginPos *)
Definition origin_pos (s : cte_state) : Z := (4 * Z.of_N (cs_indent s) - 4)%Z.
Definition at_origin (s : cte_state) : bool := (cs_column s =? origin_pos s)%Z.
(* indenter.GetOrigin: indent[:originPos], or the whole (empty) indent *)
Definition origin_bytes (s : cte_state) : bytes :=
  if cs_indent s =? 0 then [] else spaces (4 * (cs_indent s - 1)).

Definition newline_origin_indent (w : cw) : cw :=
  let w1 := wr_lf w in wr (spaces (4 * cs_indent (fst w1))) w1.
Definition indent_if_origin (w : cw) : cw :=
  if at_origin (fst w) then wr (spaces 4) w else w.
Definition return_to_origin (w : cw) : cw :=
  if at_origin (fst w) then w else let w1 := wr_lf w in wr (origin_bytes (fst w1)) w1.

Definition top (s : cte_state) : option deco :=
  match cs_stack s with d :: _ => Some d | [] => None end.
Definition push (d : deco) (w : cw) : cw := (set_cstack (fst w) (d :: cs_stack (fst w)), snd w).
(* Unstack: stack[:len-1] then Decorator = stack[len-1]: needs two entries *)
Definition unstack (w : cw) : option cw :=
  match cs_stack (fst w) with
  | _ :: (d :: r) => Some (set_cstack (fst w) (d :: r), snd w)
  | _ => None
  end.
Definition switch (d : deco) (w : cw) : option cw :=
  match cs_stack (fst w) with
  | _ :: r => Some (set_cstack (fst w) (d :: r), snd w)
  | [] => None
  end.
Definition indent_more (w : cw) : cw := (set_indent (fst w) (cs_indent (fst w) + 1), snd w).
Definition indent_less (w : cw) : option cw :=
  if cs_indent (fst w) =? 0 then None else Some (set_indent (fst w) (cs_indent (fst w) - 1), snd w).
Definition mark_has (b : bool) (w : cw) : cw := (set_has (fst w) b, snd w).

Definition before_value (w : cw) : option cw :=
  match top (fst w) with
  | None => None                                   (* nil Decorator *)
  | Some (DList | DMapKey | DEdge | DNodeChildren) => Some (newline_origin_indent w)
  | Some DNodeValue => Some (indent_if_origin w)
  | Some (DTop | DMapValue | DConcat) => Some w
  end.

(* EncoderContext.AfterValue: Decorator.AfterValue, then ContainerHasObjects = true.
   The concatenation decorator unstacks and calls AfterValue of the context again. *)
Fixpoint after_value (fuel : nat) (w : cw) : option cw :=
  match fuel with
  | O => None
  | S f =>
      let done (o : option cw) := match o with Some w1 => Some (mark_has true w1) | None => None end in
      match top (fst w) with
      | None => None
      | Some (DTop | DList | DEdge | DNodeChildren) => done (Some w)
      | Some DMapKey => done (switch DMapValue (wr [32; 61; 32] w))
      | Some DMapValue => done (switch DMapKey w)
      | Some DNodeValue => done (switch DNodeChildren w)
      | Some DConcat => done (match unstack w with Some w1 => after_value f w1 | None => None end)
      end
  end.
Definition after_value_fuel (w : cw) : nat := S (length (cs_stack (fst w))).
Definition after_val (w : cw) : option cw := after_value (after_value_fuel w) w.

Definition before_comment (w : cw) : option cw :=
  match top (fst w) with
  | None => None
  | Some (DList | DMapKey | DEdge | DNodeChildren) => Some (newline_origin_indent w)
  | Some (DTop | DMapValue | DConcat | DNodeValue) => Some w
  end.
Definition after_comment (w : cw) : option cw :=
  match top (fst w) with
  | None => None
  | Some (DTop | DMapValue) => Some (mark_has true (newline_origin_indent w))
  | Some DNodeValue => Some (mark_has true (return_to_origin w))
  | Some (DList | DMapKey | DConcat | DEdge | DNodeChildren) => Some (mark_has true w)
  end.

(* the EndContainer of the list-like decorators *)
Definition close_container (closer : bytes) (w : cw) : option cw :=
  match indent_less w with
  | None => None
  | Some w1 =>
      let w2 := if cs_has_objects (fst w1) then newline_origin_indent w1 else w1 in
      match unstack (wr closer w2) with
      | Some w3 => after_val w3
      | None => None
      end
  end.

Definition end_container (w : cw) : option cw :=
  match top (fst w) with
  | None => None
  | Some (DTop | DMapValue) => Some w               (* EndContainer does nothing *)
  | Some DList => close_container [93] w            (* ] *)
  | Some DMapKey => close_container [125] w         (* } *)
  | Some (DEdge | DNodeChildren) => close_container [41] w   (* ) *)
  | Some (DConcat | DNodeValue) => None             (* errorBadEvent *)
  end.

(* decimal digits of a number (strconv.AppendUint base 10) *)
Fixpoint dec_digits (fuel : nat) (n : N) (acc : bytes) : bytes :=
  match fuel with
  | O => acc
  | S f => let acc' := (48 + n mod 10) :: acc in if n <? 10 then acc' else dec_digits f (n / 10) acc'
  end.
Definition dec (n : N) : bytes := dec_digits (S (N.to_nat (N.size n))) n [].

Definition obind {A B} (o : option A) (f : A -> option B) : option B :=
  match o with Some a => f a | None => None end.

Definition open_container (clear : bool) (opener : bytes) (d : deco) (w : cw) : option cw :=
  obind (before_value w) (fun w1 =>
    let w2 := if clear then mark_has false w1 else w1 in
    Some (push d (indent_more (wr opener w2)))).

(* one event: new context and bytes written; None = the encoder panics *)
Definition cte_event (s : cte_state) (e : cev) : option cw :=
  let w : cw := (s, []) in
  match e with
  | CBegin =>
      (* EncoderContext.Begin: indenter.Reset, stack[:0], Decorator = nil, Stack(topLevel) *)
      Some (wr [99] (set_cstack (set_indent s 0) [DTop], []))
  | CVersion v => Some (newline_origin_indent (wr_nocol (dec v) w))
  | CEndDoc | CPadding => Some w
  | CComment multi text =>
      obind (before_comment w) (fun w1 =>
        let w2 := if multi then wr [42; 47] (wr_possible_lf text (wr [47; 42] w1))
                  else wr text (wr [47; 47] w1) in
        after_comment w2)
  | CNull => obind (before_value w) (fun w1 => after_val (wr [110; 117; 108; 108] w1))
  | CTrue => obind (before_value w) (fun w1 => after_val (wr [116; 114; 117; 101] w1))
  | CFalse => obind (before_value w) (fun w1 => after_val (wr [102; 97; 108; 115; 101] w1))
  | CPosInt n => obind (before_value w) (fun w1 => after_val (wr_nocol (dec n) w1))
  | CList => open_container true [91] DList w
  | CMap => open_container true [123] DMapKey w
  | CEdge => open_container true [64; 40] DEdge w
  | CNode => open_container false [40] DNodeValue w       (* OnNode has no BeginContainer *)
  | CEndContainer => end_container w
  | CMarker id => obind (before_value w) (fun w1 => Some (push DConcat (wr [58] (wr id (wr [38] w1)))))
  | CRef id => obind (before_value w) (fun w1 => after_val (wr id (wr [36] w1)))
  end.

Fixpoint cte_run (s : cte_state) (i : N) (es : list cev) (out : bytes) : cte_state * enc_obs :=
  match es with
  | [] => (s, (None, out))
  | e :: r =>
      match cte_event s e with
      | Some (s1, b) => cte_run s1 (N.succ i) r (out ++ b)
      | None => (s, (Some i, out))
      end
  end.
Definition cte_call (s : cte_state) (es : list cev) : cte_state * enc_obs := cte_run s 0 es [].

(* ------------------------------------------------------------------ *)
(* 5. The per-session type caches                                       *)
(* ------------------------------------------------------------------ *)

(* A Go type as the cache sees it, together with what one operation does with
   it: [TComp] lists the component types the generator asks the cache for (struct
   fields, element, key and value types), each with a flag saying whether this
   operation's value / document reaches that component.  [TBad] is a kind the
   generator panics on (chan, func, complex, unsafe.Pointer).  [TDyn] is an
   interface-typed slot holding a value of type [inner]: the iterator asks the
   cache for [inner] while it runs.  Numbers name the types. *)
Inductive ty :=
| TLeaf (n : N)
| TBad (n : N)
| TComp (n : N) (cs : list (bool * ty))
| TDyn (inner : ty).

(* identity of the Go type: no reach flags, no dynamic contents *)
Fixpoint erase (t : ty) : ty :=
  match t with
  | TLeaf n => TLeaf n
  | TBad n => TBad n
  | TComp n cs => TComp n (map (fun c => (false, erase (snd c))) cs)
  | TDyn _ => TDyn (TLeaf 0)
  end.

Fixpoint ty_eqb (a b : ty) : bool :=
  match a, b with
  | TLeaf x, TLeaf y | TBad x, TBad y => x =? y
  | TComp x cs, TComp y ds =>
      (x =? y) &&
      (fix go (l m : list (bool * ty)) : bool :=
         match l, m with
         | [], [] => true
         | (f, t) :: l', (g, u) :: m' => Bool.eqb f g && ty_eqb t u && go l' m'
         | _, _ => false
         end) cs ds
  | TDyn x, TDyn y => ty_eqb x y
  | _, _ => false
  end.

(* sync.Map of the session beyond the entries inherited from the root session:
   [true] = generated iterator / generator stored (or a placeholder whose
   WaitGroup was released), [false] = placeholder whose WaitGroup is not
   released (yet): whoever calls it blocks. *)
Definition cache := list (ty * bool).
Definition cache_init : cache := [].

Fixpoint lookup (k : ty) (c : cache) : option bool :=
  match c with
  | [] => None
  | (k', st) :: r => if ty_eqb k k' then Some st else lookup k r
  end.
(* sync.Map.Delete *)
Fixpoint remove_key (k : ty) (c : cache) : cache :=
  match c with
  | [] => []
  | (k', st) :: r => if ty_eqb k k' then remove_key k r else (k', st) :: remove_key k r
  end.
Fixpoint set_ready (k : ty) (c : cache) : cache :=
  match c with
  | [] => []
  | (k', st) :: r => if ty_eqb k k' then (k', true) :: r else (k', st) :: set_ready k r
  end.

(* GetIteratorForType / GetBuilderGeneratorForType.  Result: cache afterwards
   and whether the generator panicked.  A cached entry is returned as it is
   (placeholder or not); otherwise a placeholder is stored FIRST, then the
   default generator runs (asking for the component types), and only when it
   returns is the WaitGroup released and the real entry stored.  When the
   generator panics, the deferred handler deletes the placeholder again (and
   releases its WaitGroup with the error) before the panic travels on, so every
   generation in progress removes its own placeholder. *)
Fixpoint gen (c : cache) (t : ty) : cache * bool :=
  match t with
  | TDyn _ => (c, true)                    (* interface{}: inherited from the root session *)
  | _ =>
    let k := erase t in
    match lookup k c with
    | Some _ => (c, true)
    | None =>
        let c1 := (k, false) :: c in
        match t with
        | TLeaf _ => (set_ready k c1, true)
        | TBad _ => (remove_key k c1, false)
        | TComp _ cs =>
            let '(c2, ok) :=
              (fix go (c : cache) (l : list (bool * ty)) : cache * bool :=
                 match l with
                 | [] => (c, true)
                 | (_, u) :: l' => let '(c', ok) := gen c u in if ok then go c' l' else (c', false)
                 end) c1 cs in
            if ok then (set_ready k c2, true) else (remove_key k c2, false)
        | TDyn _ => (c, true)
        end
    end
  end.

Inductive cres := COk | CErr | CHang.
Definition cres_eqb (a b : cres) : bool :=
  match a, b with COk, COk | CErr, CErr | CHang, CHang => true | _, _ => false end.

(* Running the generated iterator / builders over the parts the operation
   reaches.  [dynamic]: a [TDyn] slot asks the cache at run time (iterator); the
   builder side fills an interface-typed slot with the interface builders of the
   root session and never asks the session cache.
   Result: cache, outcome, and the names of the leaves visited (stands for the
   output produced so far). *)
Fixpoint visit (dynamic : bool) (c : cache) (t : ty) (tr : list N) : cache * cres * list N :=
  match t with
  | TDyn inner =>
      if dynamic then
        let '(c1, ok) := gen c inner in
        if ok then visit dynamic c1 inner tr else (c1, CErr, tr)
      else (c, COk, tr)
  | _ =>
    match lookup (erase t) c with
    | Some false => (c, CHang, tr)         (* placeholder never released: wg.Wait() *)
    | None => (c, CErr, tr)                (* cannot happen after gen *)
    | Some true =>
        match t with
        | TLeaf n => (c, COk, tr ++ [n])
        | TBad _ => (c, CErr, tr)
        | TComp n cs =>
            (fix go (c : cache) (l : list (bool * ty)) (tr : list N) : cache * cres * list N :=
               match l with
               | [] => (c, COk, tr)
               | (reach, u) :: l' =>
                   if reach then
                     let '(c', r, tr') := visit dynamic c u tr in
                     match r with COk => go c' l' tr' | _ => (c', r, tr') end
                   else go c l' tr
               end) c cs (tr ++ [n])
        | TDyn _ => (c, CErr, tr)
        end
    end
  end.

(* Marshal (dynamic = true) / Unmarshal (dynamic = false) of a value / template
   of type t: ask the cache for the root type, then run. *)
Definition cache_obs := (cres * list N)%type.
Definition cache_call (dynamic : bool) (c : cache) (t : ty) : cache * cache_obs :=
  let '(c1, ok) := gen c t in
  if ok then let '(c2, r, tr) := visit dynamic c1 t [] in (c2, (r, tr))
  else (c1, (CErr, [])).

(* no unsupported kind anywhere, dynamic contents included *)
Fixpoint supported (t : ty) : bool :=
  match t with
  | TLeaf _ => true
  | TBad _ => false
  | TComp _ cs => forallb (fun c => supported (snd c)) cs
  | TDyn inner => supported inner
  end.

(* ------------------------------------------------------------------ *)
(* 5c. The type caches over type GRAPHS (cycles of types allowed)        *)
(* ------------------------------------------------------------------ *)

(* Section 5 describes a Go type by the TREE of its component types, which a
   self-referential type does not have.  Here a program's types are a finite
   table: every type is a number, and a composite type lists the numbers of its
   component types (struct fields, element, key and value types), so the table
   may contain cycles (type T struct { Next *T; ... }).

   What the tree model cannot show: the generators CAPTURE the iterators of
   their component types when they run (newPointerIterator, newStructIterator,
   ... call GetIteratorForType once and keep the function).  While T is being
   generated its placeholder is what GetIteratorForType(T) returns, so the
   iterator of *T, generated inside the generation of T, captures T's
   placeholder and is stored in the sync.Map as a finished iterator.  Each
   generation attempt is a CELL; a finished iterator keeps the cells of its
   components. *)
Inductive gnode :=
| GLeaf                    (* supported, no components the session has to generate *)
| GBad                     (* a kind the generator panics on *)
| GComp (cs : list N)      (* component types *)
| GDyn.                    (* interface type: the iterator asks the cache at run time *)
Definition gtable := list (N * gnode).

Fixpoint gnode_of (t : N) (tb : gtable) : gnode :=
  match tb with
  | [] => GLeaf
  | (t', n) :: r => if t =? t' then n else gnode_of t r
  end.

(* a value, seen from its type: per component the part of the value that is
   reached (None: nil pointer, empty slice / map); an interface slot holds a
   value of a concrete type, or nothing *)
Inductive vtree :=
| VT (kids : list (option vtree))
| VDyn (t : N) (inner : vtree)
| VNil.

Inductive cstat := SProg | SDone | SFail.
Record gcell := { gc_ty : N; gc_stat : cstat; gc_links : list N }.

Record gcache := {
  g_map : list (N * N);        (* the sync.Map: type -> cell *)
  g_cells : list (N * gcell);  (* every placeholder / iterator created so far, by cell number (from 1) *)
  g_next : N;
}.
Definition gcache_init : gcache := {| g_map := []; g_cells := []; g_next := 1 |}.

Fixpoint assocN {A} (k : N) (l : list (N * A)) : option A :=
  match l with
  | [] => None
  | (k', v) :: r => if k =? k' then Some v else assocN k r
  end.
Fixpoint removeN {A} (k : N) (l : list (N * A)) : list (N * A) :=
  match l with
  | [] => []
  | (k', v) :: r => if k =? k' then removeN k r else (k', v) :: removeN k r
  end.

Definition g_new_cell (c : gcache) (t : N) : gcache * N :=
  let id := g_next c in
  ({| g_map := (t, id) :: g_map c;
      g_cells := (id, {| gc_ty := t; gc_stat := SProg; gc_links := [] |}) :: g_cells c;
      g_next := N.succ id |}, id).
Definition g_set_cell (c : gcache) (id : N) (cell : gcell) : gcache :=
  {| g_map := g_map c; g_cells := (id, cell) :: g_cells c; g_next := g_next c |}.
(* generation finished: wg.Done(); Store(t, iterator) *)
Definition g_finish (c : gcache) (t id : N) (links : list N) : gcache :=
  g_set_cell c id {| gc_ty := t; gc_stat := SDone; gc_links := links |}.
(* generation failed: Delete(t); the placeholder re-raises the error from now on; wg.Done() *)
Definition g_fail (c : gcache) (t id : N) : gcache :=
  let c1 := g_set_cell c id {| gc_ty := t; gc_stat := SFail; gc_links := [] |} in
  {| g_map := removeN t (g_map c1); g_cells := g_cells c1; g_next := g_next c1 |}.

(* the interface iterator belongs to the root session: cell 0, never stored here *)
Definition dyn_cell : N := 0.

(* GetIteratorForType.  [fuel] bounds the NESTING of generations: a type whose
   generation is in progress is found in the map, so the nesting never exceeds
   the number of types.  Result: the cell handed to the caller, None = panic. *)
Fixpoint ggen (fuel : nat) (tb : gtable) (c : gcache) (t : N) : gcache * option N :=
  match fuel with
  | O => (c, None)
  | S f =>
    match gnode_of t tb with
    | GDyn => (c, Some dyn_cell)
    | node =>
      match assocN t (g_map c) with
      | Some id => (c, Some id)              (* stored: a placeholder or a finished iterator *)
      | None =>
          let '(c1, id) := g_new_cell c t in
          match node with
          | GLeaf => (g_finish c1 t id [], Some id)
          | GBad => (g_fail c1 t id, None)
          | GComp cs =>
              let '(c2, links) :=
                (fix go (c : gcache) (l : list N) (acc : list N) : gcache * option (list N) :=
                   match l with
                   | [] => (c, Some (rev acc))
                   | u :: l' =>
                       match ggen f tb c u with
                       | (c', Some k) => go c' l' (k :: acc)
                       | (c', None) => (c', None)
                       end
                   end) c1 cs [] in
              match links with
              | Some ls => (g_finish c2 t id ls, Some id)
              | None => (g_fail c2 t id, None)
              end
          | GDyn => (c, Some dyn_cell)
          end
      end
    end
  end.

Definition gfuel (tb : gtable) : nat := S (S (length tb)).

(* running an iterator (a cell) over a value *)
Fixpoint gvisit (tb : gtable) (c : gcache) (cell : N) (v : vtree) : gcache * cres :=
  match v with
  | VNil => (c, COk)
  | VDyn t inner =>
      (* iterateInterface: GetIteratorForType(elem.Type()) at run time *)
      match ggen (gfuel tb) tb c t with
      | (c1, Some k) => gvisit tb c1 k inner
      | (c1, None) => (c1, CErr)
      end
  | VT kids =>
      match assocN cell (g_cells c) with
      | None => (c, CErr)
      | Some cl =>
          match gc_stat cl with
          | SProg => (c, CHang)          (* wg.Wait() on a placeholder nobody will release *)
          | SFail => (c, CErr)           (* the placeholder re-raises the generation error *)
          | SDone =>
              (fix go (c : gcache) (ks : list (option vtree)) (ls : list N) : gcache * cres :=
                 match ks, ls with
                 | Some k :: ks', l :: ls' =>
                     match gvisit tb c l k with
                     | (c', COk) => go c' ks' ls'
                     | (c', r) => (c', r)
                     end
                 | None :: ks', _ :: ls' => go c ks' ls'
                 | _, _ => (c, COk)
                 end) c kids (gc_links cl)
          end
      end
  end.

(* Marshal of a value of type t *)
Definition gcache_call (tb : gtable) (c : gcache) (op : N * vtree) : gcache * cres :=
  match ggen (gfuel tb) tb c (fst op) with
  | (c1, Some k) => gvisit tb c1 k (snd op)
  | (c1, None) => (c1, CErr)
  end.

Fixpoint gcache_run_all (tb : gtable) (c : gcache) (ops : list (N * vtree)) : list cres :=
  match ops with
  | [] => []
  | op :: r =>
      let '(c', res) := gcache_call tb c op in
      match res with
      | CHang => [CHang]
      | _ => res :: gcache_run_all tb c' r
      end
  end.

(* ------------------------------------------------------------------ *)
(* 5d. Marker names of the root iterator (Iterator.RecursionSupport)     *)
(* ------------------------------------------------------------------ *)

(* iterator/iterator_root.go: RootObjectIterator.nextMarkerName is the name the
   next marked object gets (getNamedLocalReference: names 0, 1, 2 ... in the
   order in which the iteration meets the shared / cyclic objects).  Iterate
   renews the two reference maps but does not touch the counter; the reset
   point is Marshal itself: Session.NewIterator builds a NEW RootObjectIterator
   for every call, so every document starts at 0.
   Operation: the number of objects of the value that get a marker.
   Observation: the names handed out, in document order. *)
Fixpoint names_from (start : N) (k : nat) : list N :=
  match k with
  | O => []
  | S k' => start :: names_from (N.succ start) k'
  end.

Definition marker_init : N := 0.
(* Marshal: session.NewIterator(...) (counter 0), then Iterate *)
Definition marker_call (next : N) (k : N) : N * list N :=
  (0 + k, names_from 0 (N.to_nat k)).
(* the same with ONE root iterator kept by the marshaler (what the reset is needed for) *)
Definition marker_call_noreset (next : N) (k : N) : N * list N :=
  (next + k, names_from next (N.to_nat k)).

(* ------------------------------------------------------------------ *)
(* 5b. Marshaler and unmarshaler as owners of their parts                *)
(* ------------------------------------------------------------------ *)

(* cbe.Marshaler: iterator session + CBE encoder; op = (type of the value, events it is iterated into) *)
Definition cbe_marshaler_call := call_pair (cache_call true) cbe_enc_call.
Definition cbe_marshaler_init := (cache_init, Cbe.enc_init).
(* cte.Marshaler: iterator session + CTE encoder *)
Definition cte_marshaler_call := call_pair (cache_call true) cte_call.
Definition cte_marshaler_init := (cache_init, cte_init).
(* cbe.Unmarshaler: builder session + (CBE reader + validator); op = (template type, (reads of the document, its events)) *)
Definition cbe_unmarshaler_call (max : N) (cfg : rcfg) :=
  call_pair (cache_call false) (call_pair (reader_call max) (rules_call cfg)).
Definition cbe_unmarshaler_init := (cache_init, (reader_init, init_rctx)).

(* ------------------------------------------------------------------ *)
(* 6. Correspondence cases                                              *)
(* ------------------------------------------------------------------ *)

(* Each case is a history given to ONE implementation instance together with
   what that instance answered, call by call. *)
Inductive reuse_case :=
| RulesHist (cfg : rcfg) (docs : list (list event)) (seen : list (list event * option N))
    (* per document: the events handed to the next receiver and the index of the first rejected event *)
| ReaderHist (max : N) (docs : list (list (N * bool) * bool)) (seen : list (list (N * bool) * bool))
    (* per document: the source reads (n, err) an unlimited decoder performs and whether it fails;
       observed: the source reads the limited, reused decoder performed and whether it failed *)
| CbeEncHist (docs : list (list event)) (seen : list (option N * bytes))
| CteEncHist (docs : list (list cev)) (seen : list (option N * bytes))
| CacheHist (dynamic : bool) (ops : list ty) (seen : list cres)
    (* a hang ends the history: the instance is never used again *)
| CacheGraphHist (tb : gtable) (ops : list (N * vtree)) (seen : list cres)
    (* marshaler histories over a table of (possibly self-referential) types *)
| MarkerHist (ks : list N) (seen : list (list N)).
    (* per marshaled value: how many of its objects are marked; observed: the marker names in the document, in order *)

Definition rules_obs_eqb (a b : list event * option N) : bool :=
  list_eqb event_eqb (fst a) (fst b) && option_eqb N.eqb (snd a) (snd b).
Definition enc_obs_eqb (a b : option N * bytes) : bool :=
  option_eqb N.eqb (fst a) (fst b) && bytes_eqb (snd a) (snd b).

(* what the limited decoder does with a document whose unlimited read plan is [plan] *)
Definition reader_expect (max : N) (r : reader) (doc : list (N * bool) * bool) : reader * (list (N * bool) * bool) :=
  let '(plan, fails) := doc in
  let '(r', (done, stop)) := reader_call max r plan in
  (r', (firstn (N.to_nat done) plan, match stop with RDone => fails | _ => true end)).

Definition read_eqb (a b : N * bool) : bool := (fst a =? fst b) && Bool.eqb (snd a) (snd b).
Definition reads_obs_eqb (a b : list (N * bool) * bool) : bool :=
  list_eqb read_eqb (fst a) (fst b) && Bool.eqb (snd a) (snd b).

(* the cache history stops at the first hang *)
Fixpoint cache_run_all (dynamic : bool) (c : cache) (ops : list ty) : list cres :=
  match ops with
  | [] => []
  | t :: r =>
      let '(c', (res, _)) := cache_call dynamic c t in
      match res with
      | CHang => [CHang]
      | _ => res :: cache_run_all dynamic c' r
      end
  end.

Definition reuse_case_ok (k : reuse_case) : bool :=
  match k with
  | RulesHist cfg docs seen =>
      list_eqb rules_obs_eqb (run_all (rules_call cfg) init_rctx docs) seen
  | ReaderHist max docs seen =>
      list_eqb reads_obs_eqb (run_all (reader_expect max) reader_init docs) seen
  | CbeEncHist docs seen =>
      list_eqb enc_obs_eqb (run_all cbe_enc_call Cbe.enc_init docs) seen
  | CteEncHist docs seen =>
      list_eqb enc_obs_eqb (run_all cte_call cte_init docs) seen
  | CacheHist dynamic ops seen =>
      list_eqb cres_eqb (cache_run_all dynamic cache_init ops) seen
  | CacheGraphHist tb ops seen =>
      list_eqb cres_eqb (gcache_run_all tb gcache_init ops) seen
  | MarkerHist ks seen =>
      list_eqb (list_eqb N.eqb) (run_all marker_call marker_init ks) seen
  end.
