(* C09 - truncated documents.  The pipeline behind ce.UnmarshalFromCBEDocument
   (cbe/marshal.go Unmarshaler.Unmarshal) with the untyped template:

     decoder (Model/Cbe.v: cbe_decode = Decoder.Decode / runMainDecodeLoop)
       -> validator (Model/Rules.v: run = RulesEventReceiver, EndDocument only in the
          end-of-document state)
       -> builder (Model/Build.v: BuilderEventReceiver over the interface builder)

   and what Unmarshal does when Decode returns an error: receiver.OnError(), which
   reaches builder/context.go ArtificiallyTerminate

     for len(builderStack) > 1 { CurrentBuilder.BuildArtificiallyEndContainer(ctx) }

   (plus, since the fix commit, dropping a builder that did not end itself) and then
   builder.GetBuiltObject().  Slice / map / record builders end their container on
   BuildArtificiallyEndContainer; the node, edge, interface and top-level builders
   do nothing; the marker builder forwards to the builder below it, which then
   unstacks the MARKER and hands its own unfinished container to itself.

   Two builder models are used.  The general one is Model/Build.v (every kind of event:
   markers, references, records, nodes, edges ...), run here behind the decoder and the
   validator and completed by the artificial termination.  The plain one (second half of
   this file) is the same receiver restricted to lists, maps, scalars and arrays, written
   as the stack of open containers only; the theorems about partial values are proved on
   it.  The correspondence cases compare BOTH with the implementation at every cut point.

   Executable definitions only (plus the specification predicate [vprefix]).  Not modelled:
   typed templates, the CTE decoder (ANTLR's behaviour on a truncated text is observed by
   the harness only), times (Model/Cbe.v decodes the three time codes to an error). *)
From CE Require Export Model.Build.
From CE Require Model.Cbe Model.Rules.
Open Scope N_scope.

Inductive tresult :=
| TOk (v : uval)        (* err == nil, decoded = v *)
| TErr (v : uval)       (* err != nil, decoded = v ("whatever was successfully decoded thus far") *)
| THang.                (* the call never returns *)

Section Lib.
  (* the two library conversions the untyped builder calls (see Model/Build.v) *)
  Variable url_conv : bytes -> option bytes.
  Variable time_conv : bytes -> option (bytes * bytes).

  (* builder/context.go ArtificiallyTerminate (after the fix "artificial termination of open
     containers always makes progress"):

       for len(builderStack) > 1 {
         depth := len(builderStack)
         CurrentBuilder.BuildArtificiallyEndContainer(ctx)
         if len(builderStack) >= depth { UnstackBuilder() }
       }

     BuildArtificiallyEndContainer: slice / map / record / record-type builders end their
     container (Build.recv_end), the marker builder forwards to the builder below it, every
     other builder does nothing. *)
  Definition art_end (st : mstate) : res :=
    match stack st with
    | fr :: below =>
        match art_end_target fr below with
        | Some _ => recv_end [] fr below st
        | None => ROk st
        end
    | [] => ROk st
    end.

  (* Some (true, st) = returned normally in state st; Some (false, st) = a panic escaped
     from OnError; None = out of fuel (never happens with terminate_fuel, see
     TruncProofs.terminate_st_total). *)
  Fixpoint terminate_st (fuel : nat) (st : mstate) : option (bool * mstate) :=
    match fuel with
    | O => None
    | S f =>
      match stack st with
      | [] | [_] => Some (true, st)
      | _ =>
        match art_end st with
        | ROk st1 =>
            terminate_st f (if (length (stack st) <=? length (stack st1))%nat
                            then set_stack st1 (tl (stack st1)) else st1)
        | RPanic st1 => Some (false, st1)
        end
      end
    end.

  Definition terminate_fuel (st : mstate) : nat := 2 * length (stack st) + 4.

  (* Unmarshal after Decode returned an error: OnError, then GetBuiltObject.  When a panic
     escapes from OnError the deferred recover of Unmarshal turns it into the error and the
     named result [decoded] is still nil. *)
  Definition on_error (st : mstate) : tresult :=
    match terminate_st (terminate_fuel st) st with
    | None => THang
    | Some (true, st1) => TErr (built st1)
    | Some (false, _) => TErr UNil
    end.

  (* the events the decoder delivers, and whether it stopped with an error of its own *)
  Definition unmarshal_events (evs : list event) (decode_err : bool) : tresult :=
    let '(_, fwd, rej) := Rules.run Rules.default_rcfg evs in
    match Build.run url_conv time_conv init_state fwd 0 with
    | (RPanic st, _) => on_error st                       (* the builder refused an event *)
    | (ROk st, _) =>
        match decode_err, rej with
        | false, None => TOk (built st)
        | _, _ => on_error st
        end
    end.

  Definition unmarshal_cbe (doc : bytes) : tresult :=
    let '(evs, r) := Cbe.cbe_decode Cbe.default_dcfg doc in
    unmarshal_events evs (Cbe.dres_is_err r).

  Definition is_err (r : tresult) : bool := match r with TOk _ => false | _ => true end.
End Lib.

(* ------------------------------------------------------------------ *)
(* The verdict alone: decoder + validator (what the first half of C09  *)
(* is about; the builder cannot turn an error into a success)          *)
(* ------------------------------------------------------------------ *)

(* Decode returned nil: the decoder had no error of its own and the validator accepted every event *)
Definition decode_accepts (dcfg : Cbe.dcfg) (rcfg : Rules.rcfg) (doc : bytes) : bool :=
  let '(evs, r) := Cbe.cbe_decode dcfg doc in
  negb (Cbe.dres_is_err r) && Rules.accepts rcfg evs.

(* ------------------------------------------------------------------ *)
(* The prefix order on built values (specification)                     *)
(* ------------------------------------------------------------------ *)

(* [vprefix p f]: p is what f looks like when only a prefix of it has been built:
   lists: the completed elements unchanged, the last one possibly itself partial;
   maps (entries in insertion order): the completed entries unchanged, the value of the
   last one possibly partial; everything else unchanged.  Nothing that is not in f
   appears in p. *)
Inductive vprefix : uval -> uval -> Prop :=
| VP_refl v : vprefix v v
| VP_list lp lf : lprefix lp lf -> vprefix (UList lp) (UList lf)
| VP_map id lp lf : mprefix lp lf -> vprefix (UMap id lp) (UMap id lf)
with lprefix : list uval -> list uval -> Prop :=
| LP_nil lf : lprefix [] lf
| LP_last x y lf : vprefix x y -> lprefix [x] (y :: lf)
| LP_cons x lp lf : lprefix lp lf -> lprefix (x :: lp) (x :: lf)
with mprefix : list (uval * uval) -> list (uval * uval) -> Prop :=
| MP_nil lf : mprefix [] lf
| MP_last k x y lf : vprefix x y -> mprefix [(k, x)] ((k, y) :: lf)
| MP_cons e lp lf : mprefix lp lf -> mprefix (e :: lp) (e :: lf).

(* partial results: nothing built yet (None; the entry point returns nil), or a prefix *)
Definition ple (p f : option uval) : Prop :=
  match p, f with
  | None, _ => True
  | Some a, Some b => vprefix a b
  | Some _, None => False
  end.

(* ------------------------------------------------------------------ *)
(* The builder on plain data: lists, maps, scalars, arrays              *)
(* ------------------------------------------------------------------ *)
(* The same receiver as Model/Build.v restricted to the events of plain data (no markers,
   references, records, nodes, edges), written as the stack of open containers only:
   builder_slice.go / builder_map.go at []interface{} / map[interface{}]interface{},
   builder_top_level.go, the chunk reassembly of context.go.  None = the events leave this
   fragment (another kind of event, a builder panic, a key that is already in its map).
   The correspondence cases compare this model with the implementation on every cut point
   of the documents of the fragment, so the theorems about it (TruncProofs.partial_is_prefix)
   are tied to the code by the same run as the general model. *)
Inductive pframe :=
| PList (elems : list uval)                              (* sliceBuilder: **ppContainer *)
| PMap (kvs : list (uval * uval)) (key : option uval).   (* mapBuilder: container, key (Some = a value is expected next) *)

Record pstate := PS {
  pstack : list pframe;              (* open containers, innermost first (builderStack without the top-level builder) *)
  presult : option uval;             (* BuilderEventReceiver.object once the top-level value is complete *)
  pnext : N;                         (* fresh pointer identities *)
  pdata : bytes; prem : N; pmore : bool; pcb : cbkind; pbits : N
                                     (* chunkedData, chunkRemainingLength, moreChunksFollow, callback, arrayElementBitWidth *)
}.

Definition pinit : pstate := PS [] None 1 [] 0 false CBNone 0.

Definition fval (fr : pframe) : uval :=
  match fr with PList l => UList l | PMap kvs _ => UMap 0 kvs end.

(* storeValue / storeKey / NotifyChildContainerFinished *)
Definition absorb (x : uval) (fr : pframe) : pframe :=
  match fr with
  | PList l => PList (l ++ [x])
  | PMap kvs None => PMap kvs (Some x)
  | PMap kvs (Some k) => PMap (kvs ++ [(k, x)]) None
  end.

(* a key must be hashable (SetMapIndex panics otherwise) and, to stay in the fragment, new *)
Definition absorb_ok (x : uval) (fr : pframe) : bool :=
  match fr with
  | PMap kvs None => hashable x && negb (existsb (fun kv => key_eqb (fst kv) x) kvs)
  | _ => true
  end.

Definition set_pstack (st : pstate) (s : list pframe) : pstate :=
  PS s (presult st) (pnext st) (pdata st) (prem st) (pmore st) (pcb st) (pbits st).
Definition set_pchunk (st : pstate) (d : bytes) (r : N) (m : bool) (cb : cbkind) (bits : N) : pstate :=
  PS (pstack st) (presult st) (pnext st) d r m cb bits.

Definition pdeliver (x : uval) (st : pstate) : option pstate :=
  match pstack st with
  | [] => match presult st with
          | None => Some (PS [] (Some x) (pnext st) (pdata st) (prem st) (pmore st) (pcb st) (pbits st))
          | Some _ => None
          end
  | fr :: below => if absorb_ok x fr then Some (set_pstack st (absorb x fr :: below)) else None
  end.

(* the top-level value is complete (a second one is outside the fragment; the validator refuses it) *)
Definition pdone (st : pstate) : bool :=
  match pstack st, presult st with [], Some _ => true | _, _ => false end.

Section Plain.
  Variable url_conv : bytes -> option bytes.
  Variable time_conv : bytes -> option (bytes * bytes).

  Definition pscalar (sc : scalar) (st : pstate) : option pstate :=
    match conv url_conv time_conv (pnext st) sc with
    | Some x => pdeliver x (PS (pstack st) (presult st) (pnext st + 1) (pdata st) (prem st) (pmore st) (pcb st) (pbits st))
    | None => None
    end.

  Definition pfire (st : pstate) : option pstate :=
    match pcb st with
    | CBNone => None
    | CBArray t => if elem_bits t =? 0 then None else pscalar (SArr t (pdata st)) st
    | CBMedia mt => pscalar (SMedia mt (pdata st)) st
    | CBCustom _ _ => None
    end.

  Definition pstep (st : pstate) (e : event) : option pstate :=
    match e with
    | EBeginDoc | EEndDoc | EVersion _ | EPadding | EComment _ _ => Some st
    | EList => if pdone st then None else Some (set_pstack st (PList [] :: pstack st))
    | EMap => if pdone st then None else Some (set_pstack st (PMap [] None :: pstack st))
    | EEnd =>
        match pstack st with
        | fr :: below => pdeliver (fval fr) (set_pstack st below)
        | [] => None
        end
    | EArrayBegin t =>
        if t <? AT_Count then Some (set_pchunk st [] (prem st) (pmore st) (CBArray t) (elem_bits t)) else None
    | EMediaBegin mt => Some (set_pchunk st [] (prem st) (pmore st) (CBMedia mt) 8)
    | EArrayChunk n more =>
        (* the chunk length is in elements, the data arrives in bytes *)
        let st1 := set_pchunk st (pdata st) (elem_byte_count (pbits st) n) more (pcb st) (pbits st) in
        if negb more && (elem_byte_count (pbits st) n =? 0) then pfire st1 else Some st1
    | EArrayData d =>
        let r := (prem st + Build.two64 - (N.of_nat (length d)) mod Build.two64) mod Build.two64 in
        let st1 := set_pchunk st (pdata st ++ d) r (pmore st) (pcb st) (pbits st) in
        if negb (pmore st) && (r =? 0) then pfire st1 else Some st1
    | ENode | EEdge | EMarker _ | ERefLocal _ | ERecordType _ | ERecord _ | ECustomBegin _ _ => None
    | _ => match event_scalar e with Some sc => pscalar sc st | None => None end
    end.

  Fixpoint prun (st : pstate) (es : list event) : option pstate :=
    match es with
    | [] => Some st
    | e :: r => match pstep st e with Some st1 => prun st1 r | None => None end
    end.
End Plain.

(* ArtificiallyTerminate on a stack of slice and map builders, then GetBuiltObject: every open
   container is ended, innermost first, and handed to the one around it (a key that still
   waits for its value is dropped with its builder). *)
Fixpoint close_up (v : uval) (below : list pframe) : uval :=
  match below with
  | [] => v
  | fr :: r => close_up (fval (absorb v fr)) r
  end.

Definition pclose (st : pstate) : option uval :=
  match pstack st with
  | [] => presult st
  | fr :: below => Some (close_up (fval fr) below)
  end.

Definition opt_val (o : option uval) : uval := match o with Some v => v | None => UNil end.

Inductive presult_t := POk (v : uval) | PErr (v : option uval) | PNone.

(* the plain pipeline: decoder, validator, plain builder; PNone = outside the fragment *)
Definition punmarshal (uc : bytes -> option bytes) (tc : bytes -> option (bytes * bytes)) (doc : bytes) : presult_t :=
  let '(evs, r) := Cbe.cbe_decode Cbe.default_dcfg doc in
  let '(_, fwd, rej) := Rules.run Rules.default_rcfg evs in
  match prun uc tc pinit fwd with
  | None => PNone
  | Some st =>
      match Cbe.dres_is_err r, rej with
      | false, None => match pstack st, presult st with [], Some v => POk v | _, _ => PNone end
      | _, _ => PErr (pclose st)
      end
  end.

(* ------------------------------------------------------------------ *)
(* Correspondence cases                                                 *)
(* ------------------------------------------------------------------ *)

(* what the implementation did with doc[:k] *)
Inductive obs :=
| OOk (v : uval)          (* no error, value v *)
| OErr (v : uval)         (* error, partial value v *)
| OHang                   (* no answer *)
| OFlag (err : bool).     (* returned; the value is not representable as a uval term (cyclic) *)

Inductive trunc_case :=
| TruncCase (doc : bytes)
            (urls : list (bytes * option bytes)) (times : list (bytes * option (bytes * bytes)))
            (whole : option uval)            (* the value of the whole document, when representable *)
            (cuts : list (N * obs)).         (* cut points k and the observation for firstn k doc *)

Definition obs_matches (r : tresult) (o : obs) : bool :=
  match r, o with
  | TOk v, OOk w | TErr v, OErr w => uval_eqb v w
  | THang, OHang => true
  | TOk _, OFlag false | TErr _, OFlag true => true
  | _, _ => false
  end.

Definition trunc_case_ok (c : trunc_case) : bool :=
  match c with
  | TruncCase doc urls times whole cuts =>
    let uc := url_of_table urls in
    let tc := time_of_table times in
    match unmarshal_cbe uc tc doc, whole with
    | TOk v, Some w => uval_eqb v w
    | TOk _, None => true
    | _, _ => false                          (* the harness only records documents that are accepted as a whole *)
    end &&
    forallb (fun '(k, o) => obs_matches (unmarshal_cbe uc tc (firstn (N.to_nat k) doc)) o) cuts &&
    (* the plain builder, on the documents of its fragment *)
    match punmarshal uc tc doc with
    | POk v =>
        match whole with Some w => uval_eqb v w | None => true end &&
        forallb (fun '(k, o) =>
                   match punmarshal uc tc (firstn (N.to_nat k) doc), o with
                   | PErr p, OErr w => uval_eqb (opt_val p) w
                   | PErr _, OFlag true => true
                   | _, _ => false
                   end) cuts
    | _ => true
    end
  end.
