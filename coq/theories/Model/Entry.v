(* C07 — the public entry points of package ce: which of them can let a panic
   escape, and which can fail to return.

   Sources modelled (current tree):
     ce/api.go, ce/decoder.go, ce/unmarshaler.go   one-shot functions, universal dispatch
     cbe/decoder.go, cte/decoder.go                Decode / DecodeDocument (recover wrappers)
     cbe/marshal.go, cte/marshal.go                Marshaler.Marshal, Unmarshaler.Unmarshal
                                                   (recover wrapper; `if err != nil { receiver.OnError() }`)
     builder/context.go                            ArtificiallyTerminate
                                                   `for len(stack) > 1 { top.BuildArtificiallyEndContainer }`
     builder/builder_{top_level,slice,map,edge,node}.go   stack discipline of the builders of an
                                                   interface{} destination (template nil)
     builder/session.go, iterator/session.go       type cache with a placeholder that waits
                                                   on a WaitGroup (GetBuilderGeneratorForType,
                                                   GetIteratorForType); since commit d2cf257 a
                                                   failed build removes its placeholder
     iterator/iterator_root.go                     Iterate (recursion over the value)
     iterator/session.go, iterator/iterators.go    GetIteratorForType over a GRAPH of types: iterators of
                                                   composite types capture what the lookups of their
                                                   children returned (for a type still being generated:
                                                   its placeholder); what the failure path does with the
                                                   placeholder is a parameter (fail_policy)
     cbe/decoder.go Decode, runMainDecodeLoop      main decode loop with its byte-consumption
                                                   measure, on a fragment of the type codes
   Not modelled: the chunk loop of decodeArrayChunks, the CTE parser, typed destinations,
   markers / references / records, memory exhaustion (the CBE reader allocates twice an
   announced length before reading it).

   Gen/ApiShape.v (regenerated from the source text on every run) supplies, for
   every exported function, whether its body runs under a deferred recover(),
   the partial operations found outside it, and the names it calls.

   Executable definitions only. *)
From Coq Require Import String Ascii.
From CE Require Export Base.Prelude Gen.ApiConsts Gen.ApiShape.
From CE Require Import Model.Api.
Open Scope N_scope.

(* ------------------------------------------------------------------------- *)
(** * Loops with an explicit measure *)

(* [step s = None]: the loop condition is false, the loop exits.
   An iteration that does not decrease the measure is reported as [Hang]; with
   [fuel >= mu s] the fuel can never be the reason (EntryProofs.loop_fuel). *)
Fixpoint loop {S : Type} (mu : S -> nat) (step : S -> option S) (fuel : nat) (s : S) : outcome S :=
  match step s with
  | None => Ok s
  | Some s' =>
      if Nat.ltb (mu s') (mu s) then
        match fuel with
        | O => Hang
        | S k => loop mu step k s'
        end
      else Hang
  end.

Definition run_loop {S : Type} (mu : S -> nat) (step : S -> option S) (s : S) : outcome S :=
  loop mu step (mu s) s.

(* ------------------------------------------------------------------------- *)
(** * Builder stack of an interface{} destination *)

(* What reaches the builder, reduced to what moves the builder stack.
   [SVal]: any complete non-container value (scalars, complete arrays). *)
Inductive sevent := SVal | SList | SMap | SEdge | SNode | SEnd.

(* Builders that can be on the stack when the destination type is interface{}:
   topLevelBuilder ([closed] = a finished container has replaced the receiver's
   object: its containerFinishedCallback stored an unaddressable value, and a
   later top-level value panics in reflect.Value.Set), sliceBuilder ([]interface{}), mapBuilder
   (map[interface{}]interface{}; [key_next] = the next object is a key),
   edgeBuilder (number of components already stored, 0..2),
   nodeBuilder ([children] = isBuildingChildren). *)
Inductive frame :=
| FTop (closed : bool)
| FSlice
| FMap (key_next : bool)
| FEdge (have : nat)
| FNode (children : bool).

Definition stack := list frame.   (* head = CurrentBuilder *)

(* A finished container (NotifyChildContainerFinished) is handed to the builder on
   top of [st]; a plain value has the same effect except at the top level
   ([deliver_value]).
   edgeBuilder.tryFinish: the third component unstacks the edge and notifies the
   builder below; nodeBuilder: the value stacks the children slice builder, the
   finished children slice unstacks the node and notifies the builder below. *)
Fixpoint deliver (st : stack) : stack :=
  match st with
  | [] => []
  | FTop _ :: r => FTop true :: r
  | FSlice :: r => FSlice :: r
  | FMap k :: r => FMap (negb k) :: r
  | FEdge n :: r => if Nat.leb 2 n then deliver r else FEdge (S n) :: r
  | FNode false :: r => FSlice :: FNode true :: r
  | FNode true :: r => deliver r
  end.

(* A non-container value at the builder on top of [st]; [None]: refused. *)
Definition deliver_value (st : stack) : option stack :=
  match st with
  | FTop false :: r => Some (FTop false :: r)
  | FTop true :: _ => None
  | _ => Some (deliver st)
  end.

(* One event at the builder. [Refused]: the builder panics (PanicBadEvent, or
   reflect.Value.Set on the closed top level) and its stack is unchanged;
   [Unmodelled]: outside this model (a container in map-key position). *)
Inductive ev_result := Moved (st : stack) | Refused | Unmodelled.

Definition key_position (st : stack) : bool :=
  match st with FMap true :: _ => true | _ => false end.

Definition on_event (e : sevent) (st : stack) : ev_result :=
  match e with
  | SVal => match deliver_value st with Some st' => Moved st' | None => Refused end
  | SList => if key_position st then Unmodelled else Moved (FSlice :: st)
  | SMap => if key_position st then Unmodelled else Moved (FMap true :: st)
  | SEdge => if key_position st then Unmodelled else Moved (FEdge 0 :: st)
  | SNode => if key_position st then Unmodelled else Moved (FNode false :: st)
  | SEnd =>
      match st with
      | FSlice :: r => Moved (deliver r)
      | FMap _ :: r => Moved (deliver r)
      | _ => Refused               (* topLevel / edge / node: BuildEndContainer = PanicBadEvent *)
      end
  end.

(* Result of feeding a list of events: the stack when the feeding stopped and why. *)
Inductive feed_stop := AllConsumed | StoppedRefused | StoppedUnmodelled.

Fixpoint feed (evs : list sevent) (st : stack) : stack * feed_stop :=
  match evs with
  | [] => (st, AllConsumed)
  | e :: r =>
      match on_event e st with
      | Moved st' => feed r st'
      | Refused => (st, StoppedRefused)
      | Unmodelled => (st, StoppedUnmodelled)
      end
  end.

(* builder/context.go ArtificiallyTerminate:

     for len(builderStack) > 1 {
         depth := len(builderStack)
         CurrentBuilder.BuildArtificiallyEndContainer(ctx)
         if len(builderStack) >= depth { UnstackBuilder() }
     }

   BuildArtificiallyEndContainer is BuildEndContainer for slice and map builders
   and an EMPTY method for topLevel, edge and node builders; since commit
   5799b55 a builder that did not shrink the stack is dropped by the loop. *)
Definition artificially_end (st : stack) : stack :=
  match st with
  | FSlice :: r => deliver r
  | FMap _ :: r => deliver r
  | _ => st                       (* no-op: nothing changes *)
  end.

Definition terminate_step (st : stack) : option stack :=
  match st with
  | [] | [_] => None              (* len(builderStack) > 1 is false *)
  | _ =>
      let st' := artificially_end st in
      Some (if Nat.ltb (length st') (length st) then st' else tl st')
  end.

(* The loop as it was before commit 5799b55 (no forced unstacking); kept to state
   what the repair changed (EntryProofs.old_terminate_spins). *)
Definition terminate_step_old (st : stack) : option stack :=
  match st with
  | [] | [_] => None
  | _ => Some (artificially_end st)
  end.

(* Measure: the stack depth. *)
Definition artificially_terminate (st : stack) : outcome stack :=
  run_loop (@length frame) terminate_step st.

(* ------------------------------------------------------------------------- *)
(** * Type caches of a session (builder.Session / iterator.Session) *)

(* GetBuilderGeneratorForType / GetIteratorForType: a miss stores a placeholder
   that waits on a WaitGroup, then builds the real entry.  When building panics
   (unsupported kind) the deferred function deletes the placeholder and releases
   the WaitGroup (commit d2cf257): the cache is left as it was. *)
Inductive slot := Ready | Placeholder.
Definition cache := list (N * slot).          (* type id -> slot *)

Fixpoint cache_find (c : cache) (t : N) : option slot :=
  match c with
  | [] => None
  | (t', s) :: r => if t =? t' then Some s else cache_find r t
  end.

Inductive lookup := Found | Waits | BuildPanics.

(* [supported]: defaultBuilderGeneratorForType / getDefaultIteratorForType has a
   case for every kind reachable from the type.  [Waits]: calling a stored
   placeholder blocks on its WaitGroup; no sequence of calls from an empty cache
   stores one (EntryProofs.run_call_cache). *)
Definition cache_get (c : cache) (t : N) (supported : bool) : cache * lookup :=
  match cache_find c t with
  | Some Ready => (c, Found)
  | Some Placeholder => (c, Waits)
  | None => if supported then ((t, Ready) :: c, Found) else (c, BuildPanics)
  end.

(* The protocol before commit d2cf257: the placeholder of a failed build stayed
   in the cache with its WaitGroup never released; kept to state what the repair
   changed (EntryProofs.old_cache_poisoned). *)
Definition cache_get_old (c : cache) (t : N) (supported : bool) : cache * lookup :=
  match cache_find c t with
  | Some Ready => (c, Found)
  | Some Placeholder => (c, Waits)
  | None => if supported then ((t, Ready) :: c, Found) else ((t, Placeholder) :: c, BuildPanics)
  end.

(* ------------------------------------------------------------------------- *)
(** * Function shapes and recover wrappers *)

Definition default_shape (name : string) : fn_shape :=
  {| fn_name := name; fn_recover := false; fn_unguarded := [OpOther "function not found in Gen/ApiShape"%string]; fn_calls := [] |}.

Fixpoint find_shape (l : list fn_shape) (name : string) : fn_shape :=
  match l with
  | [] => default_shape name
  | s :: r => if String.eqb (fn_name s) name then s else find_shape r name
  end.
Definition shape_of (name : string) : fn_shape := find_shape api_fns name.

(* Does a partial operation fire on a document of this length?  Anything the
   generator could not classify is assumed to fire. *)
Definition op_fires (doc_len : N) (op : partial_op) : bool :=
  match op with
  | OpIndexParam k => doc_len <=? k
  | OpOther _ => true
  end.

(* One function of the call chain.  [fn_unguarded] are the partial operations of
   its body that are NOT under its own deferred recover() (all of them when it
   has none, those before the `defer` otherwise): when one fires the panic
   leaves this function.  Otherwise the rest of the body ([inner]) runs, and a
   panic coming out of it is turned into an error iff the function has a
   deferred recover(). *)
Definition wrap {R} (s : fn_shape) (doc_len : N) (inner : outcome R) : outcome R :=
  if existsb (op_fires doc_len) (fn_unguarded s) then Panic
  else match inner with
       | Panic => if fn_recover s then Err else Panic
       | o => o
       end.

Fixpoint wrap_chain {R} (chain : list string) (doc_len : N) (inner : outcome R) : outcome R :=
  match chain with
  | [] => inner
  | f :: r => wrap (shape_of f) doc_len (wrap_chain r doc_len inner)
  end.

(* ------------------------------------------------------------------------- *)
(** * Entry points *)

Inductive entry_point :=
| UnmarshalCE | UnmarshalFromCEDocument
| UnmarshalCBE | UnmarshalFromCBEDocument
| UnmarshalCTE | UnmarshalFromCTEDocument
| CBEUnmarshaler_Unmarshal | CBEUnmarshaler_UnmarshalFromDocument
| CTEUnmarshaler_Unmarshal | CTEUnmarshaler_UnmarshalFromDocument
| CEDecoder_Decode | CEDecoder_DecodeDocument
| CBEDecoder_Decode | CBEDecoder_DecodeDocument
| CTEDecoder_Decode | CTEDecoder_DecodeDocument
| MarshalCBE | MarshalToCBEDocument
| MarshalCTE | MarshalToCTEDocument
| CBEMarshaler_Marshal | CBEMarshaler_MarshalToDocument
| CTEMarshaler_Marshal | CTEMarshaler_MarshalToDocument.

Definition all_entry_points : list entry_point :=
  [UnmarshalCE; UnmarshalFromCEDocument; UnmarshalCBE; UnmarshalFromCBEDocument;
   UnmarshalCTE; UnmarshalFromCTEDocument; CBEUnmarshaler_Unmarshal; CBEUnmarshaler_UnmarshalFromDocument;
   CTEUnmarshaler_Unmarshal; CTEUnmarshaler_UnmarshalFromDocument; CEDecoder_Decode; CEDecoder_DecodeDocument;
   CBEDecoder_Decode; CBEDecoder_DecodeDocument; CTEDecoder_Decode; CTEDecoder_DecodeDocument;
   MarshalCBE; MarshalToCBEDocument; MarshalCTE; MarshalToCTEDocument;
   CBEMarshaler_Marshal; CBEMarshaler_MarshalToDocument; CTEMarshaler_Marshal; CTEMarshaler_MarshalToDocument].

Inductive ep_kind := KUnmarshal | KDecode | KMarshal.
Definition kind_of (e : entry_point) : ep_kind :=
  match e with
  | UnmarshalCE | UnmarshalFromCEDocument | UnmarshalCBE | UnmarshalFromCBEDocument
  | UnmarshalCTE | UnmarshalFromCTEDocument | CBEUnmarshaler_Unmarshal | CBEUnmarshaler_UnmarshalFromDocument
  | CTEUnmarshaler_Unmarshal | CTEUnmarshaler_UnmarshalFromDocument => KUnmarshal
  | CEDecoder_Decode | CEDecoder_DecodeDocument | CBEDecoder_Decode | CBEDecoder_DecodeDocument
  | CTEDecoder_Decode | CTEDecoder_DecodeDocument => KDecode
  | _ => KMarshal
  end.

(* Format-specific call chains, outermost function first (names as in
   Gen/ApiShape).  [from_doc]: the ...Document / ...FromDocument variant. *)
Definition unmarshal_chain (f : fmt) (from_doc : bool) : list string :=
  match f, from_doc with
  | FCbe, true => ["cbe.Unmarshaler.UnmarshalFromDocument"; "cbe.Unmarshaler.Unmarshal"]
  | FCbe, false => ["cbe.Unmarshaler.Unmarshal"]
  | FCte, true => ["cte.Unmarshaler.UnmarshalFromDocument"; "cte.Unmarshaler.Unmarshal"]
  | FCte, false => ["cte.Unmarshaler.Unmarshal"]
  | FNone, _ => []
  end%string.

Definition decode_chain (f : fmt) (from_doc : bool) : list string :=
  match f, from_doc with
  | FCbe, true => ["cbe.Decoder.DecodeDocument"; "cbe.Decoder.Decode"]
  | FCbe, false => ["cbe.Decoder.Decode"]
  | FCte, true => ["cte.Decoder.DecodeDocument"]
  | FCte, false => ["cte.Decoder.Decode"]
  | FNone, _ => []
  end%string.

Definition marshal_chain (f : fmt) (to_doc : bool) : list string :=
  match f, to_doc with
  | FCbe, true => ["cbe.Marshaler.MarshalToDocument"; "cbe.Marshaler.Marshal"]
  | FCbe, false => ["cbe.Marshaler.Marshal"]
  | FCte, true => ["cte.Marshaler.MarshalToDocument"; "cte.Marshaler.Marshal"]
  | FCte, false => ["cte.Marshaler.Marshal"]
  | FNone, _ => []
  end%string.

(* How an entry point reaches the format-specific chain. *)
Inductive route :=
| Direct (outer : list string) (f : fmt) (doc_variant : bool)   (* fixed format *)
| Universal (outer : string) (unmarshal : bool) (doc_variant : bool).  (* first-byte dispatch *)

Definition route_of (e : entry_point) : route :=
  match e with
  | UnmarshalCE => Universal "ce.UnmarshalCE" true false
  | UnmarshalFromCEDocument => Universal "ce.UnmarshalFromCEDocument" true true
  | UnmarshalCBE => Direct ["ce.UnmarshalCBE"] FCbe false
  | UnmarshalFromCBEDocument => Direct ["ce.UnmarshalFromCBEDocument"] FCbe true
  | UnmarshalCTE => Direct ["ce.UnmarshalCTE"] FCte false
  | UnmarshalFromCTEDocument => Direct ["ce.UnmarshalFromCTEDocument"] FCte true
  | CBEUnmarshaler_Unmarshal => Direct [] FCbe false
  | CBEUnmarshaler_UnmarshalFromDocument => Direct [] FCbe true
  | CTEUnmarshaler_Unmarshal => Direct [] FCte false
  | CTEUnmarshaler_UnmarshalFromDocument => Direct [] FCte true
  | CEDecoder_Decode => Universal "ce.UniversalDecoder.Decode" false false
  | CEDecoder_DecodeDocument => Universal "ce.UniversalDecoder.DecodeDocument" false true
  | CBEDecoder_Decode => Direct [] FCbe false
  | CBEDecoder_DecodeDocument => Direct [] FCbe true
  | CTEDecoder_Decode => Direct [] FCte false
  | CTEDecoder_DecodeDocument => Direct [] FCte true
  | MarshalCBE => Direct ["ce.MarshalCBE"] FCbe false
  | MarshalToCBEDocument => Direct ["ce.MarshalToCBEDocument"] FCbe true
  | MarshalCTE => Direct ["ce.MarshalCTE"] FCte false
  | MarshalToCTEDocument => Direct ["ce.MarshalToCTEDocument"] FCte true
  | CBEMarshaler_Marshal => Direct [] FCbe false
  | CBEMarshaler_MarshalToDocument => Direct [] FCbe true
  | CTEMarshaler_Marshal => Direct [] FCte false
  | CTEMarshaler_MarshalToDocument => Direct [] FCte true
  end%string.

(* Consistency of the hand-written chains with the extracted call graph: every
   function of a chain calls a method with the name of the next one. *)
Fixpoint last_segment (s cur : string) : string :=
  match s with
  | EmptyString => cur
  | String c r => if Ascii.eqb c "."%char then last_segment r EmptyString
                  else last_segment r (cur ++ String c EmptyString)
  end.
Definition method_name (f : string) : string := ("." ++ last_segment f EmptyString)%string.

Fixpoint chain_in_callgraph (chain : list string) : bool :=
  match chain with
  | f :: ((g :: _) as r) =>
      existsb (String.eqb (method_name g)) (fn_calls (shape_of f)) && chain_in_callgraph r
  | _ => true
  end.

Definition specific_chain (k : ep_kind) (f : fmt) (doc_variant : bool) : list string :=
  match k with
  | KUnmarshal => unmarshal_chain f doc_variant
  | KDecode => decode_chain f doc_variant
  | KMarshal => marshal_chain f doc_variant
  end.

(* The whole chain for a document whose first bytes are [head]; [None]: the entry
   point returns an error before reaching a format (empty reader: Peek fails;
   length check; unknown first byte). The unguarded operations of the outer
   function are accounted for by [wrap], BEFORE this decision (see [run_chain]). *)
Definition chain_of (e : entry_point) (head : bytes) : option (list string) :=
  match route_of e with
  | Direct outer f dv => Some (outer ++ specific_chain (kind_of e) f dv)
  | Universal outer unm dv =>
      match head with
      | [] => None
      | b :: _ =>
          match table_lookup (if unm then unmarshaler_table else decoder_table) b with
          | FNone => None
          | f => Some (outer :: specific_chain (kind_of e) f dv)
          end
      end
  end.

Definition outer_of (e : entry_point) : option string :=
  match route_of e with Universal outer _ _ => Some outer | _ => None end.

(* Run entry point [e] on a document with first bytes [head] and length
   [doc_len]; [inner f] is the outcome of the innermost body for format [f]. *)
Definition run_chain {R} (e : entry_point) (head : bytes) (doc_len : N) (inner : fmt -> outcome R) : outcome R :=
  match route_of e with
  | Direct outer f dv => wrap_chain (outer ++ specific_chain (kind_of e) f dv) doc_len (inner f)
  | Universal outer unm dv =>
      let f := match head with
               | [] => FNone
               | b :: _ => table_lookup (if unm then unmarshaler_table else decoder_table) b
               end in
      wrap (shape_of outer) doc_len
           (match f with
            | FNone => Err
            | _ => wrap_chain (specific_chain (kind_of e) f dv) doc_len (inner f)
            end)
  end.

(* ------------------------------------------------------------------------- *)
(** * Innermost bodies *)

(* What the decoder (with or without the validator) did with the document, as
   far as the builder is concerned: the events that reached the builder before
   decoding stopped, and whether Decode returned an error.  Inside Decode every
   failure is a panic under Decode's own recover. *)
Record dec_obs := { d_trace : list sevent; d_fails : bool }.

(* Body of Decoder.Decode: decoder failures are panics. *)
Definition decode_body (fails : bool) : outcome unit := if fails then Panic else Ok tt.

(* Body of Unmarshaler.Unmarshal for destination interface{}.
     builder := session.NewBuilderFor(template)        cache lookup of the type
     err = decoder.Decode(reader, receiver)            own recover: never panics here
     if err != nil { receiver.OnError() }              ArtificiallyTerminate
     decoded = builder.GetBuiltObject()
   [c]: the session's cache before the call, [t]: id of the template type.
   A stored placeholder would only be waited on when the first object arrives
   (topLevelBuilder calls its generator on every object). *)
Definition has_object (tr : list sevent) : bool :=
  match tr with [] => false | SEnd :: _ => false | _ => true end.

Definition unmarshal_body (c : cache) (t : N) (supported : bool) (obs : dec_obs) : cache * outcome unit :=
  match cache_get c t supported with
  | (c', BuildPanics) => (c', Panic)
  | (c', Waits) =>
      if has_object (d_trace obs) then (c', Hang)
      else (c', if d_fails obs then Err else Ok tt)
  | (c', Found) =>
      let '(st, stop) := feed (d_trace obs) [FTop false] in
      let failed := d_fails obs || match stop with AllConsumed => false | _ => true end in
      if failed then
        match artificially_terminate st with
        | Hang => (c', Hang)
        | _ => (c', Err)
        end
      else (c', Ok tt)
  end.

(* Body of Marshaler.Marshal.
     iterate := GetIteratorForType(type of object)      cache
     iterate(object)                                    recursion over the value
   [cyclic]: the value reaches itself through pointers / slices / maps; with
   recursion support off (the default) the recursion has no measure (the real
   process dies of stack exhaustion; the model says it does not return). *)
Record value_desc := { v_type : N; v_supported : bool; v_cyclic : bool }.

Definition marshal_body (c : cache) (v : value_desc) : cache * outcome unit :=
  match cache_get c (v_type v) (v_supported v) with
  | (c', BuildPanics) => (c', Panic)
  | (c', Waits) => (c', Hang)
  | (c', Found) => (c', if v_cyclic v then Hang else Ok tt)
  end.

(* ------------------------------------------------------------------------- *)
(** * Calls and sessions *)

(* One call of an entry point. [head]: first bytes of the document (at most the
   first one is inspected), [len]: its length. *)
Inductive call :=
| CallDecode (head : bytes) (len : N) (fails : fmt -> bool)
| CallUnmarshal (head : bytes) (len : N) (t : N) (supported : bool) (obs : fmt -> dec_obs)
| CallMarshal (v : value_desc).

(* The one-shot functions create a fresh Marshaler / Unmarshaler per call; the
   method entry points keep theirs, and with it the session cache. *)
Definition fresh_per_call (e : entry_point) : bool :=
  match route_of e with
  | Direct [] _ _ => false
  | _ => true
  end.

Definition run_call (e : entry_point) (c : cache) (cl : call) : cache * outcome unit :=
  match kind_of e, cl with
  | KDecode, CallDecode head len fails =>
      (c, run_chain e head len (fun f => decode_body (fails f)))
  | KUnmarshal, CallUnmarshal head len t sup obs =>
      (* the cache is only touched when the chain is reached *)
      match chain_of e head with
      | None => (c, run_chain e head len (fun _ => Ok tt))
      | Some _ =>
          let f := match route_of e with
                   | Direct _ f _ => f
                   | Universal _ _ _ => match head with b :: _ => table_lookup unmarshaler_table b | [] => FNone end
                   end in
          let '(c', o) := unmarshal_body c t sup (obs f) in
          (c', run_chain e head len (fun _ => o))
      end
  | KMarshal, CallMarshal v =>
      let '(c', o) := marshal_body c v in
      (c', run_chain e [] 0 (fun _ => o))
  | _, _ => (c, Err)            (* call of the wrong kind for this entry point: not a run *)
  end.

(* Successive calls on the same object; the outcomes in order.  A call that
   hangs is never followed by another one. *)
Fixpoint run_session (e : entry_point) (c : cache) (calls : list call) : list (outcome unit) :=
  match calls with
  | [] => []
  | cl :: r =>
      let '(c', o) := run_call e (if fresh_per_call e then [] else c) cl in
      match o with
      | Hang => [Hang]
      | _ => o :: run_session e c' r
      end
  end.

Definition run (e : entry_point) (calls : list call) : list (outcome unit) := run_session e [] calls.

(* ------------------------------------------------------------------------- *)
(** * The sessions on which the property is claimed *)

Definition ep_eqb (a b : entry_point) : bool :=
  match a, b with
  | UnmarshalCE, UnmarshalCE | UnmarshalFromCEDocument, UnmarshalFromCEDocument
  | UnmarshalCBE, UnmarshalCBE | UnmarshalFromCBEDocument, UnmarshalFromCBEDocument
  | UnmarshalCTE, UnmarshalCTE | UnmarshalFromCTEDocument, UnmarshalFromCTEDocument
  | CBEUnmarshaler_Unmarshal, CBEUnmarshaler_Unmarshal
  | CBEUnmarshaler_UnmarshalFromDocument, CBEUnmarshaler_UnmarshalFromDocument
  | CTEUnmarshaler_Unmarshal, CTEUnmarshaler_Unmarshal
  | CTEUnmarshaler_UnmarshalFromDocument, CTEUnmarshaler_UnmarshalFromDocument
  | CEDecoder_Decode, CEDecoder_Decode | CEDecoder_DecodeDocument, CEDecoder_DecodeDocument
  | CBEDecoder_Decode, CBEDecoder_Decode | CBEDecoder_DecodeDocument, CBEDecoder_DecodeDocument
  | CTEDecoder_Decode, CTEDecoder_Decode | CTEDecoder_DecodeDocument, CTEDecoder_DecodeDocument
  | MarshalCBE, MarshalCBE | MarshalToCBEDocument, MarshalToCBEDocument
  | MarshalCTE, MarshalCTE | MarshalToCTEDocument, MarshalToCTEDocument
  | CBEMarshaler_Marshal, CBEMarshaler_Marshal
  | CBEMarshaler_MarshalToDocument, CBEMarshaler_MarshalToDocument
  | CTEMarshaler_Marshal, CTEMarshaler_Marshal
  | CTEMarshaler_MarshalToDocument, CTEMarshaler_MarshalToDocument => true
  | _, _ => false
  end.

(* The inputs on which the model claims the property: marshaled values do not
   reach themselves. *)
Definition call_acyclic (cl : call) : bool :=
  match cl with CallMarshal v => negb (v_cyclic v) | _ => true end.

Definition good (o : outcome unit) : Prop := o <> Panic /\ o <> Hang.

Definition benign (calls : list call) : Prop := forallb call_acyclic calls = true.

(* Witness values for the refutations. *)
Definition unsupported_value : value_desc := {| v_type := 7; v_supported := false; v_cyclic := false |}.
Definition cyclic_value : value_desc := {| v_type := 7; v_supported := true; v_cyclic := true |}.

(* ------------------------------------------------------------------------- *)
(** * Iterator session over a graph of types (marshaling) *)

(* iterator/session.go GetIteratorForType + getDefaultIteratorForType, iterator/iterators.go
   newPointerIterator / newSliceOrArrayAsListIterator / newMapIterator / newStructIterator /
   iterateInterface, at the level of WHICH iterator is looked up WHEN and what a lookup returns.
   [cache_get] above sees one type at a time; here a type has children, the iterator of a
   composite type CAPTURES what the lookups of its children returned while it was generated,
   and for a type that is still being generated (a cycle) that is the PLACEHOLDER
       func(ctx, v) { wg.Wait(); iterator(ctx, v) }
   of that type.  When the generation of a type fails (a child of an unsupported kind) the
   iterators of children generated before the failure STAY in the cache, with the captured
   placeholder inside. *)

(* A type as getDefaultIteratorForType sees it.  Type ids are positions in the environment. *)
Inductive tdesc :=
| TScalar                        (* a kind / type with a fixed iterator *)
| TBad                           (* chan, func, complex, unsafe.Pointer, uintptr: "BUG: Unhandled type" (panic) *)
| TIface                         (* interface: iterateInterface looks the dynamic type up while iterating *)
| TComp (children : list nat).   (* pointer [elem], slice / array [elem], map [key; elem], struct [exported fields]:
                                    the iterators of the children are looked up, in this order, during generation *)
Definition tyenv := list tdesc.

(* A value as the iterators walk it. *)
Inductive vshape :=
| VLeaf                                  (* scalar; nil pointer / slice / map / interface *)
| VNode (kids : list (nat * vshape))     (* (position of the child type in [children], child value), in iteration
                                            order: pointer [(0,elem)]; slice [(0,e1);(0,e2)..]; map [(0,k);(1,v)..];
                                            struct: the fields that are not omitted (empty fields are) *)
| VDyn (t : nat) (v : vshape).           (* interface holding a value of dynamic type t *)

(* What a lookup returns: a generated iterator, or the placeholder of a type being generated. *)
Inductive iref := RIter (i : nat) | RPh (p : nat).
Inductive iter := IScalar | IIface | IComp (children : list iref).
(* A placeholder: its WaitGroup not released; released with the generated iterator; released
   with `func(..) { panic(err) }` (failed generation, since commit d2cf257). *)
Inductive ph_state := PhPending | PhDone (i : nat) | PhDead.

Record isession := { is_cache : list (nat * iref); is_iters : list iter; is_phs : list ph_state }.
Definition isession_empty : isession := {| is_cache := []; is_iters := []; is_phs := [] |}.

(* What the deferred function of GetIteratorForType does when generation failed. *)
Record fail_policy := { fp_delete : bool;      (* iteratorFuncs.Delete(t) *)
                        fp_release : bool }.   (* iterator = func{panic(err)}; wg.Done() *)
Definition policy_current : fail_policy := {| fp_delete := true; fp_release := true |}.
Definition policy_before_d2cf257 : fail_policy := {| fp_delete := false; fp_release := false |}.
Definition policy_delete_only : fail_policy := {| fp_delete := true; fp_release := false |}.

Fixpoint icache_find (c : list (nat * iref)) (t : nat) : option iref :=
  match c with
  | [] => None
  | (t', r) :: rest => if Nat.eqb t t' then Some r else icache_find rest t
  end.

Fixpoint icache_remove (c : list (nat * iref)) (t : nat) : list (nat * iref) :=
  match c with
  | [] => []
  | (t', r) :: rest => if Nat.eqb t t' then icache_remove rest t else (t', r) :: icache_remove rest t
  end.

Fixpoint upd {A} (n : nat) (x : A) (l : list A) : list A :=
  match l, n with
  | [], _ => []
  | _ :: r, O => x :: r
  | y :: r, S k => y :: upd k x r
  end.

Inductive bres := BRef (r : iref) | BPanic | BGiveUp.      (* BGiveUp: the model's fuel ran out / ill-formed input *)
Inductive lres := LRefs (rs : list iref) | LPanic | LGiveUp.

(* completed = true; wg.Done(); iteratorFuncs.Store(t, iterator) *)
Definition ifinish (s : isession) (t p : nat) (it : iter) : isession * bres :=
  let i := length (is_iters s) in
  ({| is_cache := (t, RIter i) :: icache_remove (is_cache s) t;
      is_iters := is_iters s ++ [it];
      is_phs := upd p (PhDone i) (is_phs s) |}, BRef (RIter i)).

Definition ifail (pol : fail_policy) (s : isession) (t p : nat) : isession * bres :=
  ({| is_cache := if fp_delete pol then icache_remove (is_cache s) t else is_cache s;
      is_iters := is_iters s;
      is_phs := if fp_release pol then upd p PhDead (is_phs s) else is_phs s |}, BPanic).

Fixpoint build_list (b : nat -> isession -> isession * bres) (ts : list nat) (s : isession) : isession * lres :=
  match ts with
  | [] => (s, LRefs [])
  | t :: r =>
      match b t s with
      | (s1, BRef x) =>
          match build_list b r s1 with
          | (s2, LRefs xs) => (s2, LRefs (x :: xs))
          | other => other
          end
      | (s1, BPanic) => (s1, LPanic)
      | (s1, BGiveUp) => (s1, LGiveUp)
      end
  end.

(* GetIteratorForType(t).  Fuel: nesting depth of generations in progress (each is a distinct
   type of the environment, so [S (length env)] is enough; running out is reported as BGiveUp
   and counts as a disagreement in the correspondence cases). *)
Fixpoint ibuild (pol : fail_policy) (env : tyenv) (fuel : nat) (t : nat) (s : isession) : isession * bres :=
  match icache_find (is_cache s) t with
  | Some r => (s, BRef r)                       (* Load / LoadOrStore found something *)
  | None =>
      match fuel with
      | O => (s, BGiveUp)
      | S k =>
          match nth_error env t with
          | None => (s, BGiveUp)
          | Some d =>
              let p := length (is_phs s) in
              let s1 := {| is_cache := (t, RPh p) :: is_cache s; is_iters := is_iters s;
                           is_phs := is_phs s ++ [PhPending] |} in
              match d with
              | TScalar => ifinish s1 t p IScalar
              | TIface => ifinish s1 t p IIface
              | TBad => ifail pol s1 t p
              | TComp ts =>
                  match build_list (ibuild pol env k) ts s1 with
                  | (s2, LRefs rs) => ifinish s2 t p (IComp rs)
                  | (s2, LPanic) => ifail pol s2 t p
                  | (s2, LGiveUp) => (s2, BGiveUp)
                  end
              end
          end
      end
  end.

Definition build_fuel (env : tyenv) : nat := S (length env).

(* Calling what a lookup returned. *)
Inductive resolved := RsIter (it : iter) | RsWait | RsDead | RsNone.
Definition resolve (s : isession) (r : iref) : resolved :=
  match r with
  | RIter i => match nth_error (is_iters s) i with Some it => RsIter it | None => RsNone end
  | RPh p =>
      match nth_error (is_phs s) p with
      | Some PhPending => RsWait            (* wg.Wait() in the only goroutine there is *)
      | Some PhDead => RsDead               (* re-raises the error of the failed generation *)
      | Some (PhDone i) => match nth_error (is_iters s) i with Some it => RsIter it | None => RsNone end
      | None => RsNone
      end
  end.

Inductive tres := TOk | TPanic | THang | TGiveUp.

Fixpoint call_kids (callf : iref -> vshape -> isession -> isession * tres) (rs : list iref)
         (kids : list (nat * vshape)) (s : isession) : isession * tres :=
  match kids with
  | [] => (s, TOk)
  | (i, v) :: rest =>
      match nth_error rs i with
      | None => (s, TGiveUp)
      | Some r =>
          match callf r v s with
          | (s1, TOk) => call_kids callf rs rest s1
          | other => other
          end
      end
  end.

(* iterate(context, value).  Fuel: depth of the value (a finite tree: cyclic VALUES are the
   business of [marshal_body]). *)
Fixpoint icall (pol : fail_policy) (env : tyenv) (fuel : nat) (r : iref) (v : vshape) (s : isession) : isession * tres :=
  match fuel with
  | O => (s, TGiveUp)
  | S k =>
      match resolve s r with
      | RsWait => (s, THang)
      | RsDead => (s, TPanic)
      | RsNone => (s, TGiveUp)
      | RsIter it =>
          match it, v with
          | IScalar, VLeaf => (s, TOk)
          | IIface, VLeaf => (s, TOk)
          | IIface, VDyn t v' =>
              match ibuild pol env (build_fuel env) t s with
              | (s1, BRef r') => icall pol env k r' v' s1
              | (s1, BPanic) => (s1, TPanic)
              | (s1, BGiveUp) => (s1, TGiveUp)
              end
          | IComp _, VLeaf => (s, TOk)
          | IComp rs, VNode kids => call_kids (icall pol env k) rs kids s
          | _, _ => (s, TGiveUp)
          end
      end
  end.

(* Body of Marshaler.Marshal on a typed value: RootObjectIterator.Iterate.  [None]: the model gave up. *)
Definition tmarshal_body (pol : fail_policy) (env : tyenv) (fuel : nat) (s : isession) (t : nat) (v : vshape)
  : isession * option (outcome unit) :=
  match ibuild pol env (build_fuel env) t s with
  | (s1, BRef r) =>
      match icall pol env fuel r v s1 with
      | (s2, TOk) => (s2, Some (Ok tt))
      | (s2, TPanic) => (s2, Some Panic)
      | (s2, THang) => (s2, Some Hang)
      | (s2, TGiveUp) => (s2, None)
      end
  | (s1, BPanic) => (s1, Some Panic)
  | (s1, BGiveUp) => (s1, None)
  end.

(* Successive Marshal calls on one object (a fresh session per call for the one-shot functions).
   A call that does not return is never followed by another one; neither is one the model gave up on. *)
Fixpoint run_typed_session (pol : fail_policy) (e : entry_point) (env : tyenv) (fuel : nat) (s : isession)
         (calls : list (nat * vshape)) : list (option (outcome unit)) :=
  match calls with
  | [] => []
  | (t, v) :: r =>
      let '(s', o) := tmarshal_body pol env fuel (if fresh_per_call e then isession_empty else s) t v in
      match o with
      | None => [None]
      | Some o' =>
          match run_chain e [] 0 (fun _ => o') with
          | Hang => [Some Hang]
          | w => Some w :: run_typed_session pol e env fuel s' r
          end
      end
  end.

Definition run_typed (pol : fail_policy) (e : entry_point) (env : tyenv) (fuel : nat) (calls : list (nat * vshape))
  : list (option (outcome unit)) :=
  run_typed_session pol e env fuel isession_empty calls.

(* type T struct { Next *T; Ch chan int }: T = 0, *T = 1, chan int = 2.
   [T{}] by value, then [&T{}]. *)
Definition rec_env : tyenv := [TComp [1; 2]; TComp [0]; TBad]%nat.
Definition rec_calls : list (nat * vshape) := [(0, VNode []); (1, VNode [(0, VNode [])])]%nat.

(* ------------------------------------------------------------------------- *)
(** * Byte-level model of a CBE fragment (decoder -> builder, validator off) *)

(* cbe/decoder.go Decode + runMainDecodeLoop restricted to the type codes whose
   effect on the builder of an interface{} destination is fully modelled:
   small ints, fixed-width ints and floats, uid, bool, null, padding, short
   strings, list, map, edge, node, end-container, and the reserved codes (which
   fail).  [None] = the document uses something outside the fragment. *)

Definition fixed_payload (code : N) : option nat :=
  if (code <=? 100) || (156 <=? code) then Some 0%nat          (* small int -100..100 *)
  else if (code =? 120) || (code =? 121) || (code =? 125) then Some 0%nat   (* false true null *)
  else if (code =? 104) || (code =? 105) then Some 1%nat       (* int8 *)
  else if (code =? 106) || (code =? 107) || (code =? 112) then Some 2%nat   (* int16 float16 *)
  else if (code =? 108) || (code =? 109) || (code =? 113) then Some 4%nat   (* int32 float32 *)
  else if (code =? 110) || (code =? 111) || (code =? 114) then Some 8%nat   (* int64 float64 *)
  else if code =? 101 then Some 16%nat                         (* uid *)
  else if (128 <=? code) && (code <=? 143) then Some (N.to_nat (code - 128))  (* short string *)
  else None.

Definition reserved_code (code : N) : bool :=
  (code =? 115) || (code =? 116) || (code =? 117) || (code =? 126).

(* One iteration of runMainDecodeLoop: ReadTypeOrEOF consumes one byte (or ends
   the loop at EOF), then the payload is consumed. *)
Inductive frag_step :=
| FsEnd                                   (* EOF: loop exits normally *)
| FsEvent (e : option sevent) (rest : bytes)   (* an event (or none: padding) *)
| FsFail                                  (* decoder panics: EOF inside a value, reserved code *)
| FsOutside.                              (* code outside the fragment *)

Definition frag_next (d : bytes) : frag_step :=
  match d with
  | [] => FsEnd
  | code :: rest =>
      if code =? 149 then FsEvent None rest                    (* padding *)
      else if code =? 154 then FsEvent (Some SList) rest
      else if code =? 153 then FsEvent (Some SMap) rest
      else if code =? 151 then FsEvent (Some SEdge) rest
      else if code =? 152 then FsEvent (Some SNode) rest
      else if code =? 155 then FsEvent (Some SEnd) rest
      else if reserved_code code then FsFail
      else match fixed_payload code with
           | Some n => if Nat.leb n (length rest) then FsEvent (Some SVal) (skipn n rest) else FsFail
           | None => FsOutside
           end
  end.

(* The main loop with its measure (remaining bytes): every iteration consumes at
   least the type byte.  Result: stack, decode failed?, or outside the fragment. *)
Inductive frag_result := FragDone (st : stack) (failed : bool) | FragOutside.

Fixpoint frag_loop (fuel : nat) (d : bytes) (st : stack) : outcome frag_result :=
  match frag_next d with
  | FsEnd => Ok (FragDone st false)
  | FsFail => Ok (FragDone st true)
  | FsOutside => Ok FragOutside
  | FsEvent oe rest =>
      if Nat.ltb (length rest) (length d) then
        match fuel with
        | O => Hang
        | S k =>
            match oe with
            | None => frag_loop k rest st
            | Some e =>
                match on_event e st with
                | Moved st' => frag_loop k rest st'
                | Refused => Ok (FragDone st true)        (* builder panics inside Decode's recover *)
                | Unmodelled => Ok FragOutside
                end
            end
        end
      else Hang
  end.

(* Decode: signature byte, version (one-byte ULEB128 only in the fragment), main loop. *)
Definition frag_decode (d : bytes) : outcome frag_result :=
  match d with
  | [] => Ok (FragDone [FTop false] true)                      (* ReadUint8: EOF *)
  | sig :: r =>
      if negb (sig =? cbe_signature_byte) then Ok (FragDone [FTop false] true)
      else match r with
           | [] => Ok (FragDone [FTop false] true)             (* version: EOF *)
           | v :: body => if v <? 128 then frag_loop (length body) body [FTop false] else Ok FragOutside
           end
  end.

(* UnmarshalFromCBEDocument(doc, nil, config with EnforceRules = false), fresh unmarshaler. *)
Definition reaches_cbe (e : entry_point) (d : bytes) : bool :=
  match route_of e with
  | Direct _ FCbe _ => true
  | Direct _ _ _ => false
  | Universal _ unm _ =>
      match d with
      | [] => true                 (* error before any format is chosen *)
      | b :: _ => match table_lookup (if unm then unmarshaler_table else decoder_table) b with
                  | FCte => false
                  | _ => true
                  end
      end
  end.

Definition frag_unmarshal (e : entry_point) (d : bytes) : option (outcome unit) :=
  if negb (reaches_cbe e d) then None else
  match frag_decode d with
  | Ok (FragDone st failed) =>
      let o := if failed then match artificially_terminate st with Hang => Hang | _ => Err end else Ok tt in
      Some (run_chain e (firstn 1 d) (N.of_nat (length d)) (fun _ => o))
  | Ok FragOutside => None
  | _ => Some Hang
  end.

(* ------------------------------------------------------------------------- *)
(** * Correspondence cases *)

(* What the harness observed in the child process. *)
Inductive cls := COk | CErr | CPanic | CHang | CKilled.

(* The model's [Hang] stands for "does not return": the watchdog fires, or the Go
   runtime ends the process (deadlock detector, stack exhaustion). *)
Definition cls_matches (o : outcome unit) (c : cls) : bool :=
  match o, c with
  | Ok _, COk | Err, CErr | Panic, CPanic | Hang, CHang | Hang, CKilled => true
  | _, _ => false
  end.

Definition letter_event (l : N) : option sevent :=
  if l =? 86 then Some SVal        (* V *)
  else if l =? 76 then Some SList  (* L *)
  else if l =? 77 then Some SMap   (* M *)
  else if l =? 69 then Some SEdge  (* E *)
  else if l =? 78 then Some SNode  (* N *)
  else if l =? 101 then Some SEnd  (* e *)
  else None.

Fixpoint letters_events (l : list N) : option (list sevent) :=
  match l with
  | [] => Some []
  | x :: r => match letter_event x, letters_events r with
              | Some e, Some es => Some (e :: es)
              | _, _ => None
              end
  end.

Inductive entry_case :=
(* decode entry point; [spec_fails]: the format-specific decoder (same receiver)
   returned an error on the same document *)
| DecodeCase (e : entry_point) (head : bytes) (len : N) (spec_fails : bool) (impl : cls)
(* unmarshal entry point, destination interface{}, [repeat] calls on the same
   object (the class of the last one is [impl]); [letters]: the events the
   builder consumed (ASCII letters V L M E N e), [fails]: decoding returned an error *)
| UnmarshalCase (e : entry_point) (head : bytes) (len : N) (supported : bool) (repeat : nat)
                (letters : list N) (fails : bool) (impl : cls)
(* marshal entry point, [repeat] calls with the same value *)
| MarshalCase (e : entry_point) (supported cyclic : bool) (repeat : nat) (impl : cls)
(* CBE fragment, validator off, destination interface{}; the harness only sends
   documents inside the fragment (the model answering None counts as a mismatch) *)
| FragCase (e : entry_point) (doc : bytes) (impl : cls)
(* marshal entry point, successive calls on one object with values described over a type graph
   (the harness derives [env] and the value shapes from the Go types / values by reflection);
   [impl]: the class of every call that was made (the sequence ends at a call that does not return) *)
| TypedMarshalCase (e : entry_point) (env : tyenv) (calls : list (nat * vshape)) (impl : list cls).

Definition last_outcome (l : list (outcome unit)) : outcome unit := last l Err.

Fixpoint outs_match (outs : list (option (outcome unit))) (impl : list cls) : bool :=
  match outs, impl with
  | [], [] => true
  | Some o :: r, c :: r' => cls_matches o c && outs_match r r'
  | _, _ => false                     (* different number of calls, or the model gave up *)
  end.

Definition typed_case_fuel : nat := 64.

Definition entry_case_ok (c : entry_case) : bool :=
  match c with
  | DecodeCase e head len sf impl =>
      match kind_of e with
      | KDecode => cls_matches (last_outcome (run e [CallDecode head len (fun _ => sf)])) impl
      | _ => false
      end
  | UnmarshalCase e head len sup rep letters fails impl =>
      match kind_of e, letters_events letters with
      | KUnmarshal, Some tr =>
          let cl := CallUnmarshal head len 1 sup (fun _ => {| d_trace := tr; d_fails := fails |}) in
          let outs := run e (repeat cl rep) in
          (* a refused / unmodelled event among those the builder consumed is a disagreement *)
          (match feed tr [FTop false] with (_, AllConsumed) => true | _ => negb sup end)
          && cls_matches (last_outcome outs) impl
      | _, _ => false
      end
  | MarshalCase e sup cyc rep impl =>
      match kind_of e with
      | KMarshal =>
          let cl := CallMarshal {| v_type := 1; v_supported := sup; v_cyclic := cyc |} in
          cls_matches (last_outcome (run e (repeat cl rep))) impl
      | _ => false
      end
  | FragCase e doc impl =>
      match kind_of e, frag_unmarshal e doc with
      | KUnmarshal, Some o => cls_matches o impl
      | _, _ => false
      end
  | TypedMarshalCase e env calls impl =>
      match kind_of e with
      | KMarshal => outs_match (run_typed policy_current e env typed_case_fuel calls) impl
      | _ => false
      end
  end.
