(* C08 — cost model of the CBE decoder (/repo/cbe/decoder.go, decoder_reader.go)
   and of the validator's array accounting (/repo/rules/context_array.go,
   rules_array.go).

   The model walks a document exactly as Decoder.Decode does, but instead of
   producing events it keeps the quantities that determine the cost:

     buf    len(Reader.buffer)
     nread  Reader.bytesRead            (every byte pulled from the source)
     al     bytes allocated for reader buffers during the walk (the initial
            127-byte buffer belongs to NewDecoder and is not counted)
     rwork  bytes copied by growBuffer
     nev    number of events delivered to the receiver so far
     atot   Context.arrayTotalByteCount (validator; uint64 arithmetic)
     vcap, vlen, val, vwork
            cap / len of Context.builtArrayBuffer, the bytes allocated for it
            (append growth, Go 1.23 runtime.nextslicecap WITHOUT the final
            size-class rounding, which belongs to the allocator) and the bytes
            copied into it

   What is modelled as the code does it:
     - ReadBytes / readIntoBuffer / growBuffer (repaired policy, commit 8884bbf
       of /repo): the buffer is filled as data ARRIVES; only when it is full
       and more is wanted is a new one allocated, of twice the current length
       (at least the start size, at most twice the wanted length), and what was
       read is copied over.  The announced length alone allocates nothing;
     - make([]byte, n) panics (recoverable, nothing allocated) when n exceeds the
       runtime's maxAlloc = 2^48 (linux/amd64);
     - the length limits that exist: ReadUint 1024, identifiers 100000, media
       type 2^32-1, chunk headers 2^64-1 (element count < 2^63);
     - common.ElementCountToByteCount in uint64 arithmetic (elem_bytes);
     - the validator's size check, markUpcomingChunkByteCount, run when an
       array-chunk event arrives (before the chunk's bytes are read) and only
       when a validator is in the pipeline; a limit of 0 means "no limit";
     - Rules.MaxDocumentSizeBytes (markBytesRead: add, then compare).

   Everything else a validator or receiver may do is represented by [stop]: the
   index of the first event that is refused (None = none is).  A refusal can
   only end the walk earlier.

   External decoders that are not modelled (go-compact-time: the three time
   type codes) are the Section variable [ext]: given the type code and the
   unread input it says how many bytes the library pulls (None = it reports an
   error).  They use the reader's buffer without growing it.

   Not modelled: the Go allocator (size classes, GC), allocations of the
   event values themselves (big.Int words, the media type string copy, map
   bookkeeping of the validator, error values): these are proportional to bytes
   actually read and are covered by the slack of the comparison with
   runtime.MemStats in [cost_case_ok].  CTE is not modelled (measured only by
   the harness).

   Executable definitions only. *)
From Coq Require Import List NArith ZArith Bool.
From CE Require Export Base.Prelude Gen.CbeConsts.
Import ListNotations.
Open Scope N_scope.

(* This file deliberately does not depend on Model/Cbe.v (the full codec model):
   it needs only the LENGTH structure of the tokens, restated below from
   decoder.go with the type codes and tables of Gen/CbeConsts.v. *)

(* ------------------------------------------------------------------ *)
(* Token structure (lengths only)                                       *)
(* ------------------------------------------------------------------ *)

Definition two64 : N := 18446744073709551616.
Definition u64 (n : N) : N := n mod two64.
Definition max_u64 : N := two64 - 1.
(* n copies of x; lets generated case files write long runs of a byte compactly *)
Definition nrep (x n : N) : bytes := N.iter n (cons x) [].

(* literals in decoder.go / decoder_reader.go / compact-float.go *)
Definition media_type_max_length : N := 0xffffffff.
Definition custom_type_max : N := 0xffffffff.
Definition identifier_max_length : N := 100000.
Definition cf_max_encoded_exponent : N := 0x1ffffffff.

(* common.ElementCountToByteCount on uint64 *)
Definition elem_bytes (width count : N) : N :=
  let bc := u64 (count * width) / 8 in
  if (width =? 1) && negb (count mod 8 =? 0) then bc + 1 else bc.

Definition element_bits (t : N) : N := nth (N.to_nat t) cbeElementBits 0.

Definition in_list (x : N) (l : list N) : bool := existsb (N.eqb x) l.

(* what follows the type byte (runMainDecodeLoop's switch), as far as cost goes *)
Inductive ckind :=
| CEmit               (* nothing follows: one event *)
| CBad                (* unsupported type: panic *)
| CDecimal            (* compact_float field *)
| CVarInt             (* ReadUint: length field, then that many bytes *)
| CByte               (* ReadUint8 *)
| CFixed (n : N)      (* ReadBytes(n), n fixed by the type code *)
| CIdent              (* ReadIdentifier *)
| CExt                (* go-compact-time *)
| CPlane              (* 0x7f: second type byte *)
| CArray (t : N)      (* decodeArray *)
| CMedia              (* decodeMedia (plane 7f only) *)
| CCustom.            (* decodeCustomType *)

Definition classify (ty : N) : ckind :=
  if 256 <=? ty then CBad
  else if ty =? cbeTypeDecimal then CDecimal
  else if (ty =? cbeTypePosInt) || (ty =? cbeTypeNegInt) then CVarInt
  else if (ty =? cbeTypePosInt8) || (ty =? cbeTypeNegInt8) then CByte
  else if (ty =? cbeTypePosInt16) || (ty =? cbeTypeNegInt16) || (ty =? cbeTypeFloat16) then CFixed 2
  else if (ty =? cbeTypePosInt32) || (ty =? cbeTypeNegInt32) || (ty =? cbeTypeFloat32) then CFixed 4
  else if (ty =? cbeTypePosInt64) || (ty =? cbeTypeNegInt64) || (ty =? cbeTypeFloat64) then CFixed 8
  else if ty =? cbeTypeUID then CFixed 16
  else if (ty =? cbeTypeMap) || (ty =? cbeTypeList) || (ty =? cbeTypeEdge) || (ty =? cbeTypeNode)
          || (ty =? cbeTypeEndContainer) || (ty =? cbeTypeFalse) || (ty =? cbeTypeTrue) || (ty =? cbeTypeNull)
          || (ty =? cbeTypePadding) || (ty =? cbeTypeString0) then CEmit
  else if (ty =? cbeTypeRecord) || (ty =? cbeTypeLocalReference) then CIdent
  else if in_list ty cbeShortStringCodes then CFixed (ty - cbeTypeString0)
  else if ty =? cbeTypeString then CArray cbeAT_String
  else if ty =? cbeTypeRID then CArray cbeAT_ResourceID
  else if ty =? cbeTypeCustomType then CCustom
  else if ty =? cbeTypePlane7f then CPlane
  else if ty =? cbeTypeArrayBit then CArray cbeAT_Bit
  else if ty =? cbeTypeArrayUint8 then CArray cbeAT_Uint8
  else if (ty =? cbeTypeDate) || (ty =? cbeTypeTime) || (ty =? cbeTypeTimestamp) then CExt
  else
    let z := if ty <? 128 then Z.of_N ty else (Z.of_N ty - 256)%Z in       (* int64(int8(cbeType)) *)
    if (z <? cbeSmallIntMin)%Z || (cbeSmallIntMax <? z)%Z then CBad else CEmit.

(* decodePlane7f: the short-array switch on the high nibble comes first; the byte
   multipliers are literals in the code *)
Definition short_array_table : list (N * N) :=
  [ (cbeTypeShortArrayInt8, 1); (cbeTypeShortArrayUint16, 2); (cbeTypeShortArrayInt16, 2);
    (cbeTypeShortArrayUint32, 4); (cbeTypeShortArrayInt32, 4); (cbeTypeShortArrayUint64, 8);
    (cbeTypeShortArrayInt64, 8); (cbeTypeShortArrayFloat16, 2); (cbeTypeShortArrayFloat32, 4);
    (cbeTypeShortArrayFloat64, 8); (cbeTypeShortArrayUID, 16) ].

Fixpoint assoc (k : N) (l : list (N * N)) : option N :=
  match l with
  | [] => None
  | (k', v) :: r => if k =? k' then Some v else assoc k r
  end.

Definition classify7f (ty : N) : ckind :=
  if 256 <=? ty then CBad
  else match assoc (N.land ty 0xf0) short_array_table with
       | Some k => CFixed (N.land ty 0x0f * k)
       | None =>
           if (ty =? cbeTypeMarker) || (ty =? cbeTypeRecordType) then CIdent
           else if ty =? cbeTypeRemoteReference then CArray cbeAT_ReferenceRemote
           else if ty =? cbeTypeMedia then CMedia
           else let t := nth (N.to_nat ty) cbePlane7fTypeToArrayType 0 in
                if t =? cbeAT_Invalid then CBad else CArray t
       end.

(* ------------------------------------------------------------------ *)
(* Configuration, state, results                                        *)
(* ------------------------------------------------------------------ *)

Record ccfg := {
  rules_on  : bool;   (* a rules.RulesEventReceiver sits between decoder and receiver *)
  max_array : N;      (* config.Rules.MaxArraySizeBytes (0 = unlimited)               *)
  max_doc   : N       (* config.Rules.MaxDocumentSizeBytes                            *)
}.

(* runtime.maxAlloc on linux/amd64: make([]byte, n) panics with "len out of range" when n exceeds it *)
Definition go_max_alloc : N := 281474976710656.           (* 2^48 *)

Record cst := mkst {
  buf : N; nread : N; al : N; rwork : N; nev : N;
  atot : N; vcap : N; vlen : N; val : N; vwork : N
}.

Definition st0 : cst :=
  {| buf := cbeDecoderStartBufferSize; nread := 0; al := 0; rwork := 0; nev := 0;
     atot := 0; vcap := 0; vlen := 0; val := 0; vwork := 0 |}.

Inductive why :=
| WEof          (* source exhausted where a byte was required (no announced length involved) *)
| WSyntax       (* bad signature / type code / field value *)
| WDocLimit     (* MaxDocumentSizeBytes exceeded *)
| WArrayLimit   (* validator: MaxArraySizeBytes exceeded at a chunk header *)
| WTooLarge     (* make: len out of range *)
| WShort        (* source exhausted inside a ReadBytes *)
| WStopped      (* the receiver / validator refused event number [stop] *)
| WExt          (* an external field decoder reported an error *)
| WFuel.        (* never happens: fuel is the input length *)

Definition why_eqb (a b : why) : bool :=
  match a, b with
  | WEof, WEof | WSyntax, WSyntax | WDocLimit, WDocLimit | WArrayLimit, WArrayLimit | WTooLarge, WTooLarge
  | WShort, WShort | WStopped, WStopped | WExt, WExt | WFuel, WFuel => true
  | _, _ => false
  end.

(* result of a step: value, state, unread input; or failure with the state reached *)
Inductive res (A : Type) :=
| ROk (a : A) (s : cst) (rest : bytes)
| RFail (w : why) (s : cst).
Arguments ROk {A}. Arguments RFail {A}.

Definition M (A : Type) := cst -> bytes -> res A.

Definition ret {A} (a : A) : M A := fun s r => ROk a s r.
Definition fail {A} (w : why) : M A := fun s _ => RFail w s.
Definition bind {A B} (m : M A) (f : A -> M B) : M B :=
  fun s r => match m s r with
             | ROk a s' r' => f a s' r'
             | RFail w s' => RFail w s'
             end.
Notation "x <- m ;; f" := (bind m (fun x => f)) (at level 61, m at next level, right associativity).
Notation "m ;;; f" := (bind m (fun _ => f)) (at level 61, right associativity).

(* ------------------------------------------------------------------ *)
(* State updates                                                        *)
(* ------------------------------------------------------------------ *)

Definition add_nread (n : N) (s : cst) : cst :=
  {| buf := buf s; nread := nread s + n; al := al s; rwork := rwork s; nev := nev s;
     atot := atot s; vcap := vcap s; vlen := vlen s; val := val s; vwork := vwork s |}.

(* growBuffer: buffer = make([]byte, n), then copy of the [filled] bytes read so far *)
Definition grow_buf (n filled : N) (s : cst) : cst :=
  {| buf := n; nread := nread s; al := al s + n; rwork := rwork s + filled; nev := nev s;
     atot := atot s; vcap := vcap s; vlen := vlen s; val := val s; vwork := vwork s |}.

Definition add_nev (s : cst) : cst :=
  {| buf := buf s; nread := nread s; al := al s; rwork := rwork s; nev := nev s + 1;
     atot := atot s; vcap := vcap s; vlen := vlen s; val := val s; vwork := vwork s |}.

Definition set_atot (n : N) (s : cst) : cst :=
  {| buf := buf s; nread := nread s; al := al s; rwork := rwork s; nev := nev s;
     atot := n; vcap := vcap s; vlen := vlen s; val := val s; vwork := vwork s |}.

Definition set_v (cap len alloc wk : N) (s : cst) : cst :=
  {| buf := buf s; nread := nread s; al := al s; rwork := rwork s; nev := nev s;
     atot := atot s; vcap := cap; vlen := len; val := alloc; vwork := wk |}.

(* ------------------------------------------------------------------ *)
(* Go's append growth (runtime/slice.go nextslicecap, element size 1)    *)
(* ------------------------------------------------------------------ *)

(* the loop  newcap += (newcap + 3*256) >> 2  until newcap >= newLen *)
Fixpoint grow_loop (fuel : nat) (c need : N) : option N :=
  match fuel with
  | O => None
  | S f => let c' := c + (c + 768) / 4 in
           if need <=? c' then Some c' else grow_loop f c' need
  end.

(* capacity after append when old capacity [old] < needed length [need] *)
Definition go_grow (old need : N) : N :=
  if 2 * old <? need then need
  else if old <? 256 then 2 * old
  else match grow_loop 256 old need with
       | Some c => c
       | None => N.max need (2 * old)      (* unreachable for need < 2^64: each round multiplies by 5/4 *)
       end.

(* ------------------------------------------------------------------ *)
(* Section: the walk                                                    *)
(* ------------------------------------------------------------------ *)

Section Walk.

Variable cfg : ccfg.
(* external field decoder (go-compact-time): type code, unread input -> bytes pulled, or None for an error *)
Variable ext : N -> bytes -> option nat.
(* index of the first event refused downstream of the decoder (None: all accepted) *)
Variable stop : option N.

(* markBytesRead: add, then compare with the limit *)
Definition mark (n : N) : M unit := fun s r =>
  let s' := add_nread n s in
  if max_doc cfg <? nread s' then RFail WDocLimit s' else ROk tt s' r.

(* ReadUint8 / ReadType: one byte, never through the growing buffer *)
Definition take1 : M N := fun s r =>
  match r with
  | [] => RFail WEof s
  | x :: r' => match mark 1 s r' with
               | ROk _ s' _ => ROk x s' r'
               | RFail w s' => RFail w s'
               end
  end.

(* uleb128.DecodeWithByteBuffer reading through Reader.Read: one byte at a time,
   each counted as it is pulled.  Value, number of bytes. *)
Fixpoint uleb_raw (s : cst) (r : bytes) : res (N * nat) :=
  match r with
  | [] => RFail WEof s
  | x :: r' =>
      match mark 1 s r' with
      | RFail w s' => RFail w s'
      | ROk _ s' _ =>
          if x <? 128 then ROk (x, 1%nat) s' r'
          else match uleb_raw s' r' with
               | ROk (v, n) s'' r'' => ROk (x mod 128 + 128 * v, S n) s'' r''
               | RFail w s'' => RFail w s''
               end
      end
  end.

(* whether the library hands the value back as a big.Int (see Base/Uleb.v) *)
Definition is_big (v : N) (n : nat) : bool :=
  negb ((n <=? 9)%nat || ((n <=? 18)%nat && (v <? two64))).

(* readSmallULEB128 *)
Definition read_uleb (maxv : N) : M N :=
  p <- uleb_raw ;;
  (if is_big (fst p) (snd p) || (maxv <? fst p) then fail WSyntax else ret (fst p)).

(* readIntoBuffer(count) over a bytes.Buffer source ([filled] bytes of it already in the buffer).
   Each round: grow if the buffer is full, then one Read into buffer[filled:min(len(buffer),count)],
   which hands over min(space, what the source has) bytes, or reports EOF when it has none.
   Every round that goes on consumes at least one byte: the input length is enough fuel. *)
Fixpoint fill (fuel : nat) (count filled : N) : M unit := fun s r =>
  match fuel with
  | O => RFail WFuel s
  | S f =>
      if count <=? filled then ROk tt s r
      else
        let grown :=
          if filled =? buf s then
            (* growBuffer(filled, count) *)
            let n := N.min (N.max (2 * buf s) cbeDecoderStartBufferSize) (2 * count) in
            if go_max_alloc <? n then None else Some (grow_buf n filled s)
          else Some s in
        match grown with
        | None => RFail WTooLarge s
        | Some s1 =>
            let space := N.min (buf s1) count - filled in
            let avail := N.of_nat (length r) in
            if avail =? 0 then RFail WShort s1
            else
              let n := N.min space avail in
              match mark n s1 (skipn (N.to_nat n) r) with
              | ROk _ s2 r2 => fill f count (filled + n) s2 r2
              | RFail w s2 => RFail w s2
              end
        end
  end.

(* ReadBytes(count) *)
Definition read_buf (count : N) : M unit := fun s r => fill (S (length r)) count 0 s r.

(* delivery of one event *)
Definition emit : M unit := fun s r =>
  match stop with
  | Some k => if nev s =? k then RFail WStopped s else ROk tt (add_nev s) r
  | None => ROk tt (add_nev s) r
  end.

(* validator, beginArray: arrayTotalByteCount = 0, builtArrayBuffer = builtArrayBuffer[:0] *)
Definition rules_begin : M unit := fun s r =>
  if rules_on cfg then ROk tt (set_v (vcap s) 0 (val s) (vwork s) (set_atot 0 s)) r else ROk tt s r.

(* array types handled by StringRule (chunk byte count = element count; data is accumulated) *)
Definition stringlike (t : N) : bool :=
  (t =? cbeAT_String) || (t =? cbeAT_ResourceID) || (t =? cbeAT_ReferenceRemote) || (t =? cbeAT_CustomText).

(* validator, OnArrayChunk -> BeginChunkAnyType / BeginChunkString -> markUpcomingChunkByteCount *)
Definition rules_chunk (t count nb : N) : M unit := fun s r =>
  if rules_on cfg && negb (count =? 0) then
    let tot := u64 (atot s + (if stringlike t then count else nb)) in
    let s' := set_atot tot s in
    if (max_array cfg <? tot) && (0 <? max_array cfg) then RFail WArrayLimit s' else ROk tt s' r
  else ROk tt s r.

(* validator, StringChunkRule.OnArrayData -> AddBuiltArrayBytes (upper bound: the
   incomplete trailing UTF-8 sequence is kept aside, at most 3 bytes) *)
Definition rules_data (t nb : N) : M unit := fun s r =>
  if rules_on cfg && stringlike t then
    let need := vlen s + nb in
    if vcap s <? need then
      let c := go_grow (vcap s) need in
      ROk tt (set_v c need (val s + c) (vwork s + need) s) r
    else ROk tt (set_v (vcap s) need (val s) (vwork s + nb) s) r
  else ROk tt s r.

(* the data of one chunk: ReadBytes, then OnArrayData reaches the validator *)
Definition read_data (t nb : N) : M unit := read_buf nb ;;; rules_data t nb.

(* decodeArrayChunks *)
Fixpoint chunks (fuel : nat) (t : N) : M unit :=
  match fuel with
  | O => fail WFuel
  | S f =>
      h <- read_uleb max_u64 ;;
      let count := h / 2 in
      let more := N.odd h in
      let nb := elem_bytes (element_bits t) count in
      rules_chunk t count nb ;;;
      emit ;;;
      (if nb =? 0 then ret tt else (read_data t nb ;;; emit)) ;;;
      (if more then chunks f t else ret tt)
  end.

Definition with_fuel {A} (f : nat -> M A) : M A := fun s r => f (S (length r)) s r.

(* decodeArray *)
Definition array (t : N) : M unit :=
  emit ;;; rules_begin ;;; with_fuel (fun f => chunks f t).

(* decodeMedia *)
Definition media : M unit :=
  n <- read_uleb media_type_max_length ;;
  read_buf n ;;;
  emit ;;; rules_begin ;;; with_fuel (fun f => chunks f cbeAT_Media).

(* decodeCustomType *)
Definition custom : M unit :=
  _ <- read_uleb custom_type_max ;;
  emit ;;; rules_begin ;;; with_fuel (fun f => chunks f cbeAT_CustomBinary).

(* ReadIdentifier *)
Definition ident : M unit :=
  n <- read_uleb identifier_max_length ;;
  (if n =? 0 then fail WSyntax else read_buf n).

(* compact_float.DecodeWithByteBuffer *)
Definition decimal : M unit :=
  p <- uleb_raw ;;
  let f := fst p in
  let n := snd p in
  if is_big f n then fail WSyntax
  else if (n =? 1)%nat && ((f =? 2) || (f =? 3)) then ret tt
  else if (n =? 2)%nat && (f <? 4) then ret tt
  else if cf_max_encoded_exponent <? f then fail WSyntax
  else (_ <- uleb_raw ;; ret tt).

(* external decoder: pulls [n] bytes through Reader.Read *)
Definition external (ty : N) : M unit := fun s r =>
  match ext ty r with
  | None => RFail WExt s
  | Some n => if (n <=? length r)%nat then mark (N.of_nat n) s (skipn n r) else RFail WExt s
  end.

(* decodePlane7f *)
Definition plane7f : M unit :=
  ty <- take1 ;;
  match classify7f ty with
  | CFixed n => read_buf n ;;; emit
  | CIdent => ident ;;; emit
  | CArray t => array t
  | CMedia => media
  | _ => fail WSyntax
  end.

(* one iteration of runMainDecodeLoop after the type byte *)
Definition token (ty : N) : M unit :=
  match classify ty with
  | CEmit => emit
  | CBad => fail WSyntax
  | CDecimal => decimal ;;; emit
  | CVarInt => n <- read_uleb (cbeMaxBigIntBitCount / 8) ;; read_buf n ;;; emit
  | CByte => _ <- take1 ;; emit
  | CFixed n => read_buf n ;;; emit
  | CIdent => ident ;;; emit
  | CExt => external ty ;;; emit
  | CPlane => plane7f
  | CArray t => array t
  | CMedia => fail WSyntax                              (* not produced by [classify] *)
  | CCustom => custom
  end.

(* runMainDecodeLoop *)
Fixpoint loop (fuel : nat) : M unit := fun s r =>
  match r with
  | [] => emit s r                                     (* ReadTypeOrEOF = EOF: OnEndDocument *)
  | _ :: _ =>
      match fuel with
      | O => RFail WFuel s
      | S f => (ty <- take1 ;; token ty ;;; loop f) s r
      end
  end.

(* Decoder.Decode *)
Definition decode : M unit :=
  emit ;;;
  sig <- take1 ;;
  (if sig =? cbeSignatureByte then ret tt else fail WSyntax) ;;;
  _ <- read_uleb max_u64 ;;
  emit ;;;
  with_fuel loop.

End Walk.

(* ------------------------------------------------------------------ *)
(* Observables of one decode                                            *)
(* ------------------------------------------------------------------ *)

Record outcome := {
  o_why  : option why;   (* None: Decode returned nil *)
  o_st   : cst
}.

Definition run (cfg : ccfg) (ext : N -> bytes -> option nat) (stop : option N) (d : bytes) : outcome :=
  match decode cfg ext stop st0 d with
  | ROk _ s _ => {| o_why := None; o_st := s |}
  | RFail w s => {| o_why := Some w; o_st := s |}
  end.

(* bytes allocated by the reader and the validator while decoding d *)
Definition alloc (cfg : ccfg) ext stop (d : bytes) : N :=
  let s := o_st (run cfg ext stop d) in al s + val s.

(* the decoder's own work: bytes pulled, events delivered, bytes copied by growBuffer, bytes copied / checked by the validator *)
Definition steps (cfg : ccfg) ext stop (d : bytes) : N :=
  let s := o_st (run cfg ext stop d) in nread s + nev s + rwork s + vwork s.

(* work including the zero-filling of what make() hands out *)
Definition time (cfg : ccfg) ext stop (d : bytes) : N := steps cfg ext stop d + alloc cfg ext stop d.

(* the external decoder used for execution: every time field is an error (not modelled) *)
Definition no_ext : N -> bytes -> option nat := fun _ _ => None.

Definition default_ccfg (rules : bool) : ccfg :=
  {| rules_on := rules; max_array := 1073741824; max_doc := cbeDefaultMaxDocumentSizeBytes |}.

(* ------------------------------------------------------------------ *)
(* The reader alone: a sequence of ReadBytes calls                      *)
(* ------------------------------------------------------------------ *)

(* buffer lengths after each ReadBytes(count) on a fresh Reader over [input]; stops at the first failure *)
Fixpoint reader_trace (cfg : ccfg) (counts : list N) (s : cst) (r : bytes) : list N :=
  match counts with
  | [] => []
  | c :: cs => match read_buf cfg c s r with
               | ROk _ s' r' => buf s' :: reader_trace cfg cs s' r'
               | RFail _ s' => [buf s']
               end
  end.

(* ------------------------------------------------------------------ *)
(* CTE: accumulation of ONE string-like value (/repo/cte/parser.go)     *)
(* ------------------------------------------------------------------ *)

(* The ANTLR front end (lexer, token stream, parse tree) is not modelled.  What is
   modelled is what the listener itself does with the body of a string-like value
   (string, resource ID, remote reference, custom text, media text: the same
   grammar  (stringContents | stringEscape)* STRING_END  and the same listener
   methods), namely how cteListener.arrayData grows:

     ExitStringContents      arrayData = append(arrayData, text...)   one character
     ExitEscapeChar,
     ExitCodepointContents   appendCodepoint: bytes.NewBuffer(arrayData).WriteRune(r);
                             arrayData = buff.Bytes()
     CONTINUATION            nothing is appended

   [c_len] / [c_cap] = len / cap of arrayData, [c_al] the bytes allocated for it
   (append: runtime.nextslicecap as [go_grow]; bytes.Buffer.grow: the 64-byte
   first buffer, then growSlice = max(len+n, 2*cap); both WITHOUT the allocator's
   size-class rounding), [c_work] the bytes copied or written.
   Verbatim sequences (\.) are outside this model: [cte_body] answers None on them,
   as it does on every body the lexer / listener refuse. *)

(* n copies of a list; lets generated case files write long bodies compactly *)
Definition lrep (u : list N) (n : N) : list N := N.iter n (app u) [].

(* bytes of the UTF-8 form of a code point (token text, utf8.AppendRune: U+FFFD, 3 bytes,
   for anything that is not a Unicode scalar value; since /repo 9d7e9c8 no such value
   reaches appendCodepoint any more, see [cte_scalar_ok]) *)
Definition rune_len (c : N) : N :=
  if c <? 128 then 1
  else if c <? 2048 then 2
  else if ((55296 <=? c) && (c <=? 57343)) || (1114111 <? c) then 3
  else if c <? 65536 then 3
  else 4.

(* parseHexCodepoint since /repo commit 9d7e9c8: a code point escape whose value is a
   surrogate (U+D800..DFFF) or lies beyond U+10FFFF makes the listener panic (before
   that fix such values were appended as U+FFFD) *)
Definition cte_scalar_ok (v : N) : bool :=
  (v <=? 1114111) && negb ((55296 <=? v) && (v <=? 57343)).

Record cacc := { c_len : N; c_cap : N; c_al : N; c_work : N }.
(* a fresh listener: arrayData is nil *)
Definition cacc0 : cacc := {| c_len := 0; c_cap := 0; c_al := 0; c_work := 0 |}.

(* append(arrayData, text...), k = len(text) *)
Definition acc_text (k : N) (s : cacc) : cacc :=
  let need := c_len s + k in
  if c_cap s <? need then
    let c := go_grow (c_cap s) need in
    {| c_len := need; c_cap := c; c_al := c_al s + c; c_work := c_work s + need |}
  else {| c_len := need; c_cap := c_cap s; c_al := c_al s; c_work := c_work s + k |}.

(* appendCodepoint, k = UTF-8 length of the rune.  WriteRune: one byte goes through
   WriteByte (grow(1)), anything else asks for utf8.UTFMax = 4 spare bytes. *)
Definition acc_rune (k : N) (s : cacc) : cacc :=
  let n := if k =? 1 then 1 else 4 in
  if c_len s + n <=? c_cap s then                       (* tryGrowByReslice *)
    {| c_len := c_len s + k; c_cap := c_cap s; c_al := c_al s; c_work := c_work s + k |}
  else if c_cap s =? 0 then                             (* buf == nil && n <= smallBufferSize: make([]byte, n, 64) *)
    {| c_len := c_len s + k; c_cap := 64; c_al := c_al s + 64; c_work := c_work s + k |}
  else                                                  (* growSlice: one new buffer of max(len+n, 2*cap), copy *)
    let c := N.max (c_len s + n) (2 * c_cap s) in
    {| c_len := c_len s + k; c_cap := c; c_al := c_al s + c; c_work := c_work s + c_len s + k |}.

(* ExitEscapeChar (the lexer's ESCAPE_CHAR lets exactly these through) *)
Definition cte_escape (c : N) : option N :=
  if (c =? 114) || (c =? 82) then Some 13
  else if (c =? 110) || (c =? 78) then Some 10
  else if (c =? 116) || (c =? 84) then Some 9
  else if c =? 34 then Some 34
  else if c =? 42 then Some 42
  else if c =? 47 then Some 47
  else if c =? 92 then Some 92
  else if c =? 45 then Some 173
  else if c =? 95 then Some 160
  else None.

Definition cte_ws (c : N) : bool := (c =? 32) || (c =? 9) || (c =? 10) || (c =? 13).
(* STRING_CONTENTS = CHAR_QUOTED_STRING.  Exact on ASCII; beyond ASCII only these ranges
   are modelled: U+00A0-00FF, U+0391-03A1, U+4E00-9FA5, U+1F600-1F64F *)
Definition cte_char_ok (c : N) : bool :=
  (c =? 9) || (c =? 10) || (c =? 13) || ((32 <=? c) && (c <=? 126)) ||
  ((160 <=? c) && (c <=? 255)) || ((913 <=? c) && (c <=? 929)) ||
  ((19968 <=? c) && (c <=? 40869)) || ((128512 <=? c) && (c <=? 128591)).
Definition cte_hexd (c : N) : bool :=
  ((48 <=? c) && (c <=? 57)) || ((65 <=? c) && (c <=? 70)) || ((97 <=? c) && (c <=? 102)).
Definition cte_hexv (c : N) : N := if c <=? 57 then c - 48 else if c <=? 70 then c - 55 else c - 87.

(* CODEPOINT: HEX+ ']' ; value as strconv.ParseUint(text, 16, 32) (inner None: out of range, the listener panics) *)
Fixpoint cte_hex (inp : list N) (some : bool) (v : option N) : option (option N * list N) :=
  match inp with
  | c :: r =>
    if cte_hexd c then
      cte_hex r true (match v with
                      | Some x => let y := 16 * x + cte_hexv c in if y <? 4294967296 then Some y else None
                      | None => None
                      end)
    else if (c =? 93) && some then Some (v, r) else None
  | [] => None
  end.

Fixpoint cte_skip_ws (inp : list N) : list N :=
  match inp with
  | c :: r => if cte_ws c then cte_skip_ws r else inp
  | [] => []
  end.

(* The body: the code points after the opening token up to the end of a document
   whose top-level value this is (after the closing quote only white space). *)
Fixpoint cte_body (fuel : nat) (inp : list N) (s : cacc) : option cacc :=
  match fuel with
  | O => None
  | S f =>
    match inp with
    | [] => None
    | c :: r =>
      if c =? 34 then (if forallb cte_ws r then Some s else None)
      else if c =? 92 then
        match r with
        | [] => None
        | e :: r2 =>
          if e =? 91 then
            match cte_hex r2 false (Some 0) with
            | Some (Some v, r3) =>
                if cte_scalar_ok v then cte_body f r3 (acc_rune (rune_len v) s)
                else None                                  (* parseHexCodepoint panics: the decode ends in an error here *)
            | _ => None
            end
          else if (e =? 10) || (e =? 13) then cte_body f (cte_skip_ws r2) s
          else match cte_escape e with
               | Some v => cte_body f r2 (acc_rune (rune_len v) s)
               | None => None
               end
        end
      else if cte_char_ok c then cte_body f r (acc_text (rune_len c) s)
      else None
    end
  end.

Definition cte_string (body : list N) : option cacc := cte_body (S (length body)) body cacc0.

(* slack of the comparison with runtime.MemStats.TotalAlloc for a CTE decode: what the
   ANTLR front end allocates (a token and a parse-tree node per character; measured
   0.3-0.7 KiB per document byte once the prediction tables are warm) *)
Definition cte_slack_per_byte : N := 1024.
Definition cte_slack_const : N := 1048576.

(* ------------------------------------------------------------------ *)
(* Correspondence cases                                                 *)
(* ------------------------------------------------------------------ *)

(* slack of the comparison with runtime.MemStats.TotalAlloc: allocations that are
   not reader / validator buffers (event values, validator bookkeeping) *)
Definition slack_per_byte : N := 1024.
Definition slack_const : N := 65536.

Definition kill_margin : N := 268435456.               (* 256 MiB *)

Inductive cost_case :=
(* one Decode in a child process that survived: configuration, refused event
   (None when Decode returned nil, or when the document is known to be refused
   by nothing but the modelled checks), document, error?, len(buffer), bytesRead,
   events delivered, TotalAlloc delta around the call *)
| CostRun (cfg : ccfg) (stop : option N) (doc : bytes) (err : bool) (obuf onread onev : N) (measured : N)
(* the child died (out of memory under the address-space cap [cap]) while decoding doc; [base] is its
   address-space size before the first document, [req] the size of the block the runtime reported it
   could not allocate (0 if the message was not understood).  With the repaired reader no generated
   document does this any more; a death the model cannot explain is a mismatch. *)
| CostKilled (cfg : ccfg) (doc : bytes) (cap base req : N)
(* cbe.Reader alone: ReadBytes(counts...) over [input]: len(buffer) after each call (up to the first panic) *)
| ReaderRun (counts : list N) (input : bytes) (bufs : list N)
(* CTE: a document of [doclen] bytes whose top-level value is one string-like value with the
   body [body] (code points after the opening token, to the end of the document), decoded with a
   validator under MaxArraySizeBytes = max_array: error?, events delivered, bytes of the value
   handed to the receiver, TotalAlloc delta around the call *)
| CteStrRun (max_array doclen : N) (body : list N) (err : bool) (onev payload measured : N).

Definition nlist_eqb : list N -> list N -> bool := list_eqb N.eqb.

Definition cost_case_ok (c : cost_case) : bool :=
  match c with
  | CostRun cfg stop doc err obuf onread onev measured =>
      let o := run cfg no_ext stop doc in
      let s := o_st o in
      Bool.eqb (match o_why o with Some _ => true | None => false end) err
      && (buf s =? obuf) && (nread s =? onread) && (nev s =? onev)
      && (al s <=? measured)
      && (measured <=? al s + val s + slack_per_byte * N.of_nat (length doc) + slack_const)
  | CostKilled cfg doc cap base req =>
      (* the model explains the death: what the reader requested does not fit under the cap (up to the
         runtime's own growth, kill_margin), and the block that could not be had is the reader's last
         request (the runtime rounds it up to its 8 KiB pages, and asks the OS in 4 MiB units) *)
      let s := o_st (run cfg no_ext None doc) in
      (cap <=? base + al s + kill_margin)
      && ((req =? 0) || ((buf s <=? req) && (req <? buf s + 4202496)))
  | ReaderRun counts input bufs =>
      nlist_eqb (reader_trace (default_ccfg false) counts st0 input) bufs
  | CteStrRun ma doclen body err onev payload measured =>
      match cte_string body with
      | None => err
      | Some s =>
          if (0 <? ma) && (ma <? c_len s) then err       (* refused by the validator's length limit *)
          else negb err && (onev =? 4) && (payload =? c_len s)
               && (c_len s <=? measured)
               && (measured <=? c_al s + cte_slack_per_byte * doclen + cte_slack_const)
      end
  end.
