(* C21 — struct fields, tags and the naming configuration.

   Executable model of
     internal/common/go_tags.go   DecodeGoTags
     internal/common/common.go    CamelCaseToSnakeCase (two regexes), ToStructFieldIdentifier
     iterator/iterators.go        newStructField, extractFields, isValueEmpty/isValueZero,
                                  shouldIncludeField, newStructIterator
     builder/builder_struct.go    makeGeneratorDescs, newStructBuilderGenerator (alias table),
                                  structBuilder key lookup and value routing
     builder/builder_ignore.go    ignoreBuilder, ignoreContainerBuilder, ignoreXTimesBuilder
   written from the code as it is (defects included).  Definitions only.

   Strings are lists of Unicode code points ([str]).  Everything the code does
   with ASCII is modelled concretely (regex classes [A-Z] [a-z] \d, the ASCII
   half of strings.ToLower, strings.TrimSpace/Split, strconv.ParseInt base 10).
   The one external table is Go's unicode.ToLower on non-ASCII runes: it is the
   Section variable [ulower]; correspondence cases carry the finite part of
   that table they need ([utab]).

   Outside the model: reflect.StructTag.Get (the model starts from the value of
   the "ce" key), the iterators/builders of the field types themselves (a field
   value is an opaque token; a container value built by another builder is the
   frame [FReal]), Go's map iteration order (see [cands]). *)
From Coq Require Import String Ascii.
From CE Require Export Base.Prelude.
Open Scope N_scope.

Definition str := list N.
Definition path := list N.

Definition lit (s : string) : str := map N_of_ascii (list_ascii_of_string s).

Definition str_eqb : str -> str -> bool := list_eqb N.eqb.
Definition path_eqb : path -> path -> bool := list_eqb N.eqb.

(* ------------------------------------------------------------------------- *)
(* Character classes (regexp: ASCII only)                                     *)

Definition is_upper (c : N) : bool := (65 <=? c) && (c <=? 90).     (* [A-Z] *)
Definition is_lower (c : N) : bool := (97 <=? c) && (c <=? 122).    (* [a-z] *)
Definition is_digit (c : N) : bool := (48 <=? c) && (c <=? 57).     (* \d    *)
Definition underscore : N := 95.
Definition space : N := 32.

(* unicode.IsSpace *)
Definition is_space (c : N) : bool :=
  ((9 <=? c) && (c <=? 13)) || (c =? 32) || (c =? 133) || (c =? 160) || (c =? 5760)
  || ((8192 <=? c) && (c <=? 8202)) || (c =? 8232) || (c =? 8233) || (c =? 8239)
  || (c =? 8287) || (c =? 12288).

(* ------------------------------------------------------------------------- *)
(* strings.TrimSpace, strings.Split (one-rune separator), strconv.ParseInt    *)

Fixpoint drop_while (p : N -> bool) (s : str) : str :=
  match s with
  | [] => []
  | c :: r => if p c then drop_while p r else s
  end.

Definition trim_space (s : str) : str :=
  rev (drop_while is_space (rev (drop_while is_space s))).

Fixpoint split_aux (sep : N) (s : str) (cur : str) : list str :=
  match s with
  | [] => [rev cur]
  | c :: r => if c =? sep then rev cur :: split_aux sep r [] else split_aux sep r (c :: cur)
  end.
Definition split (sep : N) (s : str) : list str := split_aux sep s [].

Fixpoint parse_digits (s : str) (acc : N) : option N :=
  match s with
  | [] => Some acc
  | c :: r => if is_digit c then parse_digits r (acc * 10 + (c - 48)) else None
  end.

Definition max_int64 : Z := 9223372036854775807%Z.
Definition min_int64 : Z := (-9223372036854775808)%Z.

(* strconv.ParseInt(s, 10, 64): optional sign, at least one digit, digits only
   (no underscores in base 10), range error is an error. *)
Definition parse_int (s : str) : option Z :=
  let '(neg, ds) := match s with
                    | 43 :: r => (false, r)
                    | 45 :: r => (true, r)
                    | _ => (false, s)
                    end in
  match ds with
  | [] => None
  | _ => match parse_digits ds 0 with
         | None => None
         | Some n => let z := if neg then (- Z.of_N n)%Z else Z.of_N n in
                     if ((min_int64 <=? z) && (z <=? max_int64))%Z then Some z else None
         end
  end.

(* ------------------------------------------------------------------------- *)
(* DecodeGoTags                                                               *)

Inductive omit := ODefault | ONever | OAlways | OEmpty | OZero.
Definition omit_eqb (a b : omit) : bool :=
  match a, b with
  | ODefault, ODefault | ONever, ONever | OAlways, OAlways | OEmpty, OEmpty | OZero, OZero => true
  | _, _ => false
  end.

Record tags := mkTags { t_name : str; t_omit : omit; t_order : Z }.

(* One comma-separated entry.  None = the panic of DecodeGoTags (missing value,
   index out of range on kv[1], ParseInt error, unknown key). *)
Definition apply_entry (t : tags) (entry : str) : option tags :=
  let kv := split 61 entry in
  let key := trim_space (hd [] kv) in
  if str_eqb key (lit "omit") then Some (mkTags (t_name t) OAlways (t_order t))
  else if str_eqb key (lit "omit_empty") then Some (mkTags (t_name t) OEmpty (t_order t))
  else if str_eqb key (lit "omit_zero") then Some (mkTags (t_name t) OZero (t_order t))
  else if str_eqb key (lit "omit_never") then Some (mkTags (t_name t) ONever (t_order t))
  else if str_eqb key (lit "name") then
    match kv with
    | [_; v] => Some (mkTags (trim_space v) (t_omit t) (t_order t))
    | _ => None
    end
  else if str_eqb key (lit "order") then
    match kv with
    | _ :: v :: _ => match parse_int (trim_space v) with
                     | Some z => Some (mkTags (t_name t) (t_omit t) z)
                     | None => None
                     end
    | _ => None
    end
  else None.

Fixpoint apply_entries (t : tags) (es : list str) : option tags :=
  match es with
  | [] => Some t
  | e :: r => match apply_entry t e with
              | Some t' => apply_entries t' r
              | None => None
              end
  end.

(* [tag] is the value of the "ce" key of the struct tag ("" when absent). *)
Definition decode_tags (fname tag : str) : option tags :=
  let t0 := mkTags fname ODefault max_int64 in
  match trim_space tag with
  | [] => Some t0
  | ts => apply_entries t0 (split 44 ts)
  end.

(* ------------------------------------------------------------------------- *)
(* Struct types as the code sees them through reflect                         *)

(* [exported] is the result of common.IsFieldExported (first rune upper case);
   for compiled Go types it coincides with reflect's IsExported used by the
   builder.  An embedded field is flattened only when its type's Kind is
   Struct ([FEmbStruct]).  An embedded field of any other type (pointer to
   struct, named scalar/slice/map) is [FEmbOther]: an ordinary field whose Go
   name is the name of its type (reflect's StructField.Name), with its tags
   applied as for any field. *)
Inductive fdecl :=
| FLeaf (name : str) (exported : bool) (tag : str)
| FEmbStruct (name : str) (exported : bool) (tag : str) (fs : list fdecl)
| FEmbOther (name : str) (exported : bool) (tag : str).

(* What shouldIncludeField looks at. *)
Inductive vkind := KNilable    (* Interface, Pointer *)
                 | KMapSlice   (* Map, Slice *)
                 | KArrStr     (* Array, String *)
                 | KOther.
Record vinfo := mkV { v_kind : vkind; v_nil : bool; v_len0 : bool; v_zero : bool (* reflect IsZero *) }.

Definition is_value_empty (v : vinfo) : bool :=
  match v_kind v with
  | KNilable => v_nil v
  | KMapSlice => v_nil v || v_len0 v
  | KArrStr => v_len0 v
  | KOther => false
  end.
Definition is_value_zero (v : vinfo) : bool := v_zero v || is_value_empty v.

(* shouldIncludeField; a default that is itself "choose default" (or any other
   number) falls out of the switch: the field is kept. *)
Definition should_include (field_omit default_omit : omit) (v : vinfo) : bool :=
  let o := match field_omit with ODefault => default_omit | o => o end in
  match o with
  | OAlways => false
  | ONever => true
  | OEmpty => negb (is_value_empty v)
  | OZero => negb (is_value_zero v)
  | ODefault => true
  end.

(* structField of the iterator *)
Record sfield := mkSF { sf_name : str;      (* emitted key *)
                        sf_path : path;     (* IndexPath *)
                        sf_omit : omit;
                        sf_order : Z }.

(* sort.SliceStable(fields, Order <): stable insertion sort *)
Fixpoint ins (x : sfield) (l : list sfield) : list sfield :=
  match l with
  | [] => [x]
  | y :: r => if (sf_order y <? sf_order x)%Z then y :: ins x r else x :: l
  end.
Definition sort_fields (l : list sfield) : list sfield := fold_right ins [] l.


Section Lower.
  (* unicode.ToLower restricted to runes >= 128 *)
  Variable ulower : N -> N.

  Definition lower_rune (c : N) : N :=
    if c <? 128 then (if is_upper c then c + 32 else c) else ulower c.
  (* strings.ToLower *)
  Definition str_lower (s : str) : str := map lower_rune s.

  (* ----------------------------------------------------------------------- *)
  (* CamelCaseToSnakeCase: the two regexes with Go's leftmost-first,
     greedy-with-backtracking, non-overlapping ReplaceAllString semantics.   *)

  (* ([A-Z]+)([A-Z][a-z]) anchored at the start of s: group 1 is taken as long
     as possible first; returns (group1, group2, rest). *)
  Fixpoint m1 (s : str) : option (str * str * str) :=
    match s with
    | a :: t =>
      if is_upper a then
        match m1 t with
        | Some (g1, g2, r) => Some (a :: g1, g2, r)
        | None =>
          match t with
          | b :: c :: r => if is_upper b && is_lower c then Some ([a], [b; c], r) else None
          | _ => None
          end
        end
      else None
    | [] => None
    end.

  (* ReplaceAllString(s, "${1}_${2}") for the first regex; [fuel] >= length s *)
  Fixpoint snake1_fuel (fuel : nat) (s : str) : str :=
    match fuel with
    | O => s
    | S k =>
      match s with
      | [] => []
      | a :: t =>
        match m1 s with
        | Some (g1, g2, r) => g1 ++ underscore :: g2 ++ snake1_fuel k r
        | None => a :: snake1_fuel k t
        end
      end
    end.
  Definition snake1 (s : str) : str := snake1_fuel (length s) s.

  (* ([a-z\d])([A-Z]) -> ${1}_${2}; after a match the scan resumes behind it *)
  Fixpoint snake2 (s : str) : str :=
    match s with
    | a :: (b :: r) as t =>
      if (is_lower a || is_digit a) && is_upper b then a :: underscore :: b :: snake2 r
      else a :: snake2 t
    | _ => s
    end.

  Definition camel_to_snake (s : str) : str := str_lower (snake2 (snake1 s)).

  (* ToStructFieldIdentifier: lower-case, then drop ' ' and '_' *)
  Definition keep_ident (c : N) : bool := negb ((c =? space) || (c =? underscore)).
  Definition ident (s : str) : str := filter keep_ident (str_lower s).

  (* ----------------------------------------------------------------------- *)
  (* Iterator: newStructField / extractFields / newStructIterator            *)

  Definition emitted_name (snake : bool) (n : str) : str :=
    if snake then camel_to_snake n else n.

  Definition new_struct_field (snake : bool) (t : tags) (p : path) : sfield :=
    mkSF (emitted_name snake (t_name t)) p (t_omit t) (t_order t).

  (* extractFields.  [p] is the field's own index path (localPath).  The list
     accumulated so far is re-sorted at the end of every (nested) call, as in
     the code.  None = panic (tag error). *)
  Fixpoint extract_decl (snake : bool) (d : fdecl) (p : path) (acc : list sfield)
    : option (list sfield) :=
    match d with
    | FLeaf name exp tag =>
      if exp then
        match decode_tags name tag with
        | None => None
        | Some t => if omit_eqb (t_omit t) OAlways then Some acc
                    else Some (acc ++ [new_struct_field snake t p])
        end
      else Some acc
    | FEmbOther name exp tag =>
      if exp then
        match decode_tags name tag with
        | None => None
        | Some t => if omit_eqb (t_omit t) OAlways then Some acc
                    else Some (acc ++ [new_struct_field snake t p])
        end
      else Some acc
    | FEmbStruct name exp tag fs =>
      if exp then
        match decode_tags name tag with
        | None => None
        | Some t =>
          if omit_eqb (t_omit t) OAlways then Some acc
          else
            option_map sort_fields
              ((fix go (fs : list fdecl) (i : N) (acc : list sfield) : option (list sfield) :=
                  match fs with
                  | [] => Some acc
                  | d' :: r => match extract_decl snake d' (p ++ [i]) acc with
                               | None => None
                               | Some acc' => go r (N.succ i) acc'
                               end
                  end) fs 0 acc)
        end
      else Some acc
    end.

  Fixpoint extract_list (snake : bool) (fs : list fdecl) (i : N) (p : path) (acc : list sfield)
    : option (list sfield) :=
    match fs with
    | [] => Some acc
    | d :: r => match extract_decl snake d (p ++ [i]) acc with
                | None => None
                | Some acc' => extract_list snake r (N.succ i) p acc'
                end
    end.

  (* extractFields(ctx, structType, [], []) of newStructIterator *)
  Definition extract_fields (snake : bool) (fs : list fdecl) : option (list sfield) :=
    option_map sort_fields (extract_list snake fs 0 [] []).

  (* The specification-side reading: declaration-order flattening, no sort. *)
  Fixpoint flat_decl (snake : bool) (d : fdecl) (p : path) : option (list sfield) :=
    match d with
    | FLeaf name exp tag =>
      if exp then
        match decode_tags name tag with
        | None => None
        | Some t => if omit_eqb (t_omit t) OAlways then Some [] else Some [new_struct_field snake t p]
        end
      else Some []
    | FEmbOther name exp tag =>
      if exp then
        match decode_tags name tag with
        | None => None
        | Some t => if omit_eqb (t_omit t) OAlways then Some [] else Some [new_struct_field snake t p]
        end
      else Some []
    | FEmbStruct name exp tag fs =>
      if exp then
        match decode_tags name tag with
        | None => None
        | Some t =>
          if omit_eqb (t_omit t) OAlways then Some []
          else
            (fix go (fs : list fdecl) (i : N) : option (list sfield) :=
               match fs with
               | [] => Some []
               | d' :: r => match flat_decl snake d' (p ++ [i]) with
                            | None => None
                            | Some l => match go r (N.succ i) with
                                        | None => None
                                        | Some l' => Some (l ++ l')
                                        end
                            end
               end) fs 0
        end
      else Some []
    end.

  Fixpoint flat_list (snake : bool) (fs : list fdecl) (i : N) (p : path) : option (list sfield) :=
    match fs with
    | [] => Some []
    | d :: r => match flat_decl snake d (p ++ [i]) with
                | None => None
                | Some l => match flat_list snake r (N.succ i) p with
                            | None => None
                            | Some l' => Some (l ++ l')
                            end
                end
    end.
  Definition flat_fields (snake : bool) (fs : list fdecl) : option (list sfield) :=
    flat_list snake fs 0 [] .

  (* Field values: what reflect reports for the leaf at an index path. *)
  Definition valuation := path -> vinfo.

  Definition kept (default_omit : omit) (val : valuation) (f : sfield) : bool :=
    should_include (sf_omit f) default_omit (val (sf_path f)).

  (* The struct iterator: OnMap, then for every kept field (in the order of the
     extracted list) its key and its value, then OnEndContainer.  The result
     lists (key, index path of the value). *)
  Definition iterate_struct (snake : bool) (default_omit : omit) (fs : list fdecl) (val : valuation)
    : option (list (str * path)) :=
    match extract_fields snake fs with
    | None => None
    | Some l => Some (map (fun f => (sf_name f, sf_path f)) (filter (kept default_omit val) l))
    end.

  (* newRecordIterators: the record type lists the keys of the extracted
     fields that shouldIncludeField keeps for the dummy value reflect.ValueOf(1)
     (never empty, never zero: only the omit flag and the default matter); every
     record lists the values of exactly those fields, whatever they hold. *)
  Definition dummy_valuation : valuation := fun _ => mkV KOther false false false.
  Definition record_fields (snake : bool) (default_omit : omit) (fs : list fdecl)
    : option (list (str * path)) :=
    iterate_struct snake default_omit fs dummy_valuation.

  (* ----------------------------------------------------------------------- *)
  (* Builder: makeGeneratorDescs and the alias table                         *)

  (* Every exported field is entered under its tag name (whatever its omit
     flag); embedded structs are flattened whatever their tags (their tags are
     not even parsed); an embedded field of a non-struct type is an ordinary
     entry; later entries with the same name replace earlier ones. *)
  Fixpoint btable_decl (d : fdecl) (p : path) : option (list (str * path)) :=
    match d with
    | FLeaf name exp tag =>
      if exp then
        match decode_tags name tag with
        | None => None
        | Some t => Some [(t_name t, p)]
        end
      else Some []
    | FEmbOther name exp tag =>
      if exp then
        match decode_tags name tag with
        | None => None
        | Some t => Some [(t_name t, p)]
        end
      else Some []
    | FEmbStruct name exp tag fs =>
      if exp then
        (fix go (fs : list fdecl) (i : N) : option (list (str * path)) :=
           match fs with
           | [] => Some []
           | d' :: r => match btable_decl d' (p ++ [i]) with
                        | None => None
                        | Some l => match go r (N.succ i) with
                                    | None => None
                                    | Some l' => Some (l ++ l')
                                    end
                        end
           end) fs 0
      else Some []
    end.
  Fixpoint btable_list (fs : list fdecl) (i : N) (p : path) : option (list (str * path)) :=
    match fs with
    | [] => Some []
    | d :: r => match btable_decl d (p ++ [i]) with
                | None => None
                | Some l => match btable_list r (N.succ i) p with
                            | None => None
                            | Some l' => Some (l ++ l')
                            end
                end
    end.
  Definition btable (fs : list fdecl) : option (list (str * path)) := btable_list fs 0 [].

  (* generatorDescs[name] after makeGeneratorDescs: the last entry wins *)
  Fixpoint exact_lookup (tbl : list (str * path)) (k : str) : option path :=
    match tbl with
    | [] => None
    | (n, p) :: r => match exact_lookup r k with
                     | Some q => Some q
                     | None => if str_eqb n k then Some p else None
                     end
    end.

  (* entries that survive in the Go map (not replaced by a later same name) *)
  Fixpoint surviving (tbl : list (str * path)) : list (str * path) :=
    match tbl with
    | [] => []
    | (n, p) :: r => match exact_lookup r n with
                     | Some _ => surviving r
                     | None => (n, p) :: surviving r
                     end
    end.

  (* The fields a key can resolve to in the finished table.  An exact name wins.
     Otherwise the alias ToStructFieldIdentifier(name) -> field was added for
     the first field the Go map iteration visited among those with that
     identifier: every such field is a candidate (the only place where the
     model is a relation; a singleton result is deterministic). *)
  Definition cands (tbl : list (str * path)) (k : str) : list path :=
    match exact_lookup tbl k with
    | Some p => [p]
    | None => map snd (filter (fun e => str_eqb (ident (fst e)) k) (surviving tbl))
    end.

  (* BuildFromStringlikeArray at a key position *)
  Definition norm_key (ci : bool) (k : str) : str := if ci then ident k else k.
  Definition lookup (tbl : list (str * path)) (ci : bool) (k : str) : option path :=
    match cands tbl (norm_key ci k) with
    | [] => None
    | p :: _ => Some p
    end.
  Definition ambiguous (tbl : list (str * path)) (ci : bool) (k : str) : bool :=
    match cands tbl (norm_key ci k) with
    | _ :: _ :: _ => true
    | _ => false
    end.

  (* ----------------------------------------------------------------------- *)
  (* Builder: the stack machine around one struct                            *)

  Inductive ckind := CList | CMap | CNode.
  (* Events between OnMap and the struct's own OnEndContainer, as the decoders
     deliver them (an edge is Edge, three values, EndContainer). *)
  Inductive bev :=
  | BStr (s : str)              (* string: a key, or a string value *)
  | BScalar (id : N)            (* any other non-container value (null, numbers, typed arrays, media, ...) *)
  | BBegin (k : ckind) (id : N)
  | BEdge
  | BEnd.

  Inductive aval := AStr (s : str) | AScalar (id : N) | ACont (id : N).
  Definition fieldvals := list (path * aval).   (* most recent assignment first *)

  Inductive frame :=
  | FStruct (next_is_key : bool) (target : option path)   (* nextIsKey, nextValue/nextBuilderGenerator *)
  | FIgnore                                               (* ignoreBuilder *)
  | FIgnoreC                                              (* ignoreContainerBuilder *)
  | FXTimes (index : nat)                                 (* ignoreXTimesBuilder, maxIndex 3 *)
  | FReal (id : N) (depth : nat).                         (* builders of a matched field's container value *)

  Inductive bres :=
  | BDone (fv : fieldvals) (rest : list bev)   (* the struct's BuildEndContainer ran; [rest] goes to the parent *)
  | BFail (fv : fieldvals)                     (* a builder panicked (PanicBadEvent, reflect on a zero Value) *)
  | BEof (fv : fieldvals)                      (* events ran out *)
  | BUnmodelled.

  (* NotifyChildContainerFinished delivered to the top of [stk].  Some (stk', fv') or None = panic *)
  Fixpoint notify (stk : list frame) (fv : fieldvals) (v : aval) : option (list frame * fieldvals) :=
    match stk with
    | [] => None
    | FStruct k (Some p) :: r => Some (FStruct (negb k) (Some p) :: r, (p, v) :: fv)
    | FStruct _ None :: _ => None
    | FIgnore :: r => Some (r, fv)
    | FIgnoreC :: r => Some (stk, fv)
    | FXTimes n :: r => if (3 <=? S n)%nat then notify r fv v else Some (FXTimes (S n) :: r, fv)
    | FReal _ _ :: _ => None
    end.

  (* a non-container value delivered to an ignoreXTimesBuilder *)
  Definition xtimes_value (n : nat) (r : list frame) (fv : fieldvals) : option (list frame * fieldvals) :=
    if (3 <=? S n)%nat then notify r fv (AScalar 0) else Some (FXTimes (S n) :: r, fv).

  Fixpoint run (tbl : list (str * path)) (ci : bool) (stk : list frame) (fv : fieldvals) (evs : list bev)
    : bres :=
    match evs with
    | [] => BEof fv
    | e :: rest =>
      match stk with
      | [] => BUnmodelled
      | FStruct is_key tgt :: below =>
        match e with
        | BStr s =>
          if is_key then
            match lookup tbl ci s with
            | Some p => run tbl ci (FStruct false (Some p) :: below) fv rest
            | None => run tbl ci (FIgnore :: stk) fv rest
            end
          else
            match tgt with
            | Some p => run tbl ci (FStruct true tgt :: below) ((p, AStr s) :: fv) rest
            | None => BFail fv
            end
        | BScalar id =>
          (* no check of nextIsKey: the value goes to the builder and slot of
             the most recently matched field *)
          match tgt with
          | Some p => run tbl ci (FStruct (negb is_key) tgt :: below) ((p, AScalar id) :: fv) rest
          | None => BFail fv
          end
        | BBegin _ id =>
          match tgt with
          | Some p => run tbl ci (FReal id 0 :: stk) fv rest
          | None => BFail fv
          end
        | BEdge => BUnmodelled
        | BEnd => BDone fv rest
        end
      | FIgnore :: below =>
        match e with
        | BStr _ | BScalar _ => run tbl ci below fv rest
        | BBegin _ _ => run tbl ci (FIgnoreC :: stk) fv rest
        | BEdge => run tbl ci (FXTimes 0 :: stk) fv rest
        | BEnd => BFail fv
        end
      | FIgnoreC :: below =>
        match e with
        | BStr _ | BScalar _ => run tbl ci stk fv rest
        | BBegin _ _ => run tbl ci (FIgnoreC :: stk) fv rest
        | BEdge => run tbl ci (FXTimes 0 :: stk) fv rest
        | BEnd => match notify below fv (AScalar 0) with
                  | Some (stk', fv') => run tbl ci stk' fv' rest
                  | None => BFail fv
                  end
        end
      | FXTimes n :: below =>
        match e with
        | BStr _ | BScalar _ => match xtimes_value n below fv with
                                | Some (stk', fv') => run tbl ci stk' fv' rest
                                | None => BFail fv
                                end
        | BBegin _ _ | BEdge => run tbl ci (FIgnoreC :: stk) fv rest
        | BEnd => BFail fv
        end
      | FReal id depth :: below =>
        match e with
        | BStr _ | BScalar _ => run tbl ci stk fv rest
        | BBegin _ _ => run tbl ci (FReal id (S depth) :: below) fv rest
        | BEdge => BUnmodelled
        | BEnd => match depth with
                  | S d => run tbl ci (FReal id d :: below) fv rest
                  | O => match notify below fv (ACont id) with
                         | Some (stk', fv') => run tbl ci stk' fv' rest
                         | None => BFail fv
                         end
                  end
        end
      end
    end.

  (* a struct builder that has just been stacked by BuildBeginMapContents *)
  Definition build_struct (tbl : list (str * path)) (ci : bool) (evs : list bev) : bres :=
    run tbl ci [FStruct true None] [] evs.

  (* final value of a field: the most recent assignment *)
  Fixpoint field_value (fv : fieldvals) (p : path) : option aval :=
    match fv with
    | [] => None
    | (q, v) :: r => if path_eqb q p then Some v else field_value r p
    end.

  (* Document values as trees, and their event sequences. *)
  Inductive bval :=
  | VStr (s : str)
  | VScalar (id : N)
  | VCont (k : ckind) (id : N) (items : list bval)    (* list, map (keys and values alternate), node *)
  | VEdge (a b c : bval).
  Fixpoint flatten (v : bval) : list bev :=
    match v with
    | VStr s => [BStr s]
    | VScalar id => [BScalar id]
    | VCont k id items => BBegin k id :: flat_map flatten items ++ [BEnd]
    | VEdge a b c => BEdge :: flatten a ++ flatten b ++ flatten c ++ [BEnd]
    end.
  Fixpoint edge_free (v : bval) : bool :=
    match v with
    | VStr _ | VScalar _ => true
    | VCont _ _ items => forallb edge_free items
    | VEdge _ _ _ => false
    end.
End Lower.

(* ------------------------------------------------------------------------- *)
(* Correspondence cases                                                       *)

Definition tab_lower (utab : list (N * N)) (c : N) : N :=
  match find (fun e => fst e =? c) utab with
  | Some (_, l) => l
  | None => c
  end.

Definition vinfo_default : vinfo := mkV KOther false false false.
Definition val_of (vals : list (path * vinfo)) (p : path) : vinfo :=
  match find (fun e => path_eqb (fst e) p) vals with
  | Some (_, v) => v
  | None => vinfo_default
  end.

Definition aval_eqb (a b : aval) : bool :=
  match a, b with
  | AStr s, AStr t => str_eqb s t
  | AScalar x, AScalar y => x =? y
  | ACont x, ACont y => x =? y
  | _, _ => false
  end.

Definition mem_path (p : path) (l : list path) : bool := existsb (path_eqb p) l.

(* emitted (key, candidate paths) against the model's (key, path) *)
Fixpoint emitted_match (model : list (str * path)) (impl : list (str * list path)) : bool :=
  match model, impl with
  | [], [] => true
  | (k, p) :: m, (k', ps) :: i => str_eqb k k' && mem_path p ps && emitted_match m i
  | _, _ => false
  end.

Inductive lookup_obs :=
| LErr                 (* the call failed *)
| LNone                (* no field was set *)
| LField (p : path).   (* exactly this field was set *)

Inductive fields_case :=
(* CamelCaseToSnakeCase(name) as observed through the iterator *)
| SnakeCase (utab : list (N * N)) (name impl : str)
(* one struct value iterated: impl = None when Iterate failed, else the emitted
   keys in order, each with the index paths of the fields whose value it could be *)
| IterCase (utab : list (N * N)) (snake : bool) (default_omit : omit) (fs : list fdecl)
           (vals : list (path * vinfo)) (impl : option (list (str * list path)))
(* the same struct type registered as a record type: impl = None when Iterate
   failed, else the keys of the record type and, per value of the record, the
   index paths of the fields whose value it could be *)
| RecordCase (utab : list (N * N)) (snake : bool) (default_omit : omit) (fs : list fdecl)
             (impl : option (list str * list (list path)))
(* a one-entry document {key = v} built into the struct type *)
| LookupCase (utab : list (N * N)) (fs : list fdecl) (ci : bool) (key : str) (impl : lookup_obs)
(* a whole document; impl_ok = no error; impl_fields = final value of every set field *)
| BuildCase (utab : list (N * N)) (fs : list fdecl) (ci : bool) (evs : list bev)
            (impl_ok : bool) (impl_fields : list (path * aval)).

Definition all_paths (tbl : list (str * path)) : list path := map snd tbl.

Definition fields_agree (tbl : list (str * path)) (fv : fieldvals) (impl : list (path * aval)) : bool :=
  forallb (fun p => option_eqb aval_eqb (field_value fv p)
                      (match find (fun e => path_eqb (fst e) p) impl with
                       | Some (_, v) => Some v
                       | None => None
                       end)) (all_paths tbl)
  && forallb (fun e => mem_path (fst e) (all_paths tbl)) impl.

Definition fields_case_ok (c : fields_case) : bool :=
  match c with
  | SnakeCase utab name impl => str_eqb (camel_to_snake (tab_lower utab) name) impl
  | IterCase utab snake dflt fs vals impl =>
    match iterate_struct (tab_lower utab) snake dflt fs (val_of vals), impl with
    | None, None => true
    | Some m, Some i => emitted_match m i
    | _, _ => false
    end
  | RecordCase utab snake dflt fs impl =>
    match record_fields (tab_lower utab) snake dflt fs, impl with
    | None, None => true
    | Some m, Some (keys, vals) =>
      list_eqb str_eqb (map fst m) keys
      && (length vals =? length m)%nat
      && forallb (fun pv => mem_path (fst pv) (snd pv)) (combine (map snd m) vals)
    | _, _ => false
    end
  | LookupCase utab fs ci key impl =>
    match btable fs, impl with
    | None, LErr => true
    | Some tbl, LNone => match cands (tab_lower utab) tbl (norm_key (tab_lower utab) ci key) with
                         | [] => true
                         | _ => false
                         end
    | Some tbl, LField p => mem_path p (cands (tab_lower utab) tbl (norm_key (tab_lower utab) ci key))
    | _, _ => false
    end
  | BuildCase utab fs ci evs impl_ok impl_fields =>
    match btable fs with
    | None => negb impl_ok
    | Some tbl =>
      match build_struct (tab_lower utab) tbl ci evs with
      | BDone fv [] => impl_ok && fields_agree tbl fv impl_fields
      | BDone fv (_ :: _) => fields_agree tbl fv impl_fields   (* what the parent does next is not modelled *)
      | BFail fv => negb impl_ok && fields_agree tbl fv impl_fields
      | BEof _ => false
      | BUnmodelled => false
      end
    end
  end.
