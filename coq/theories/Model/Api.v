(* Entry-point dispatch of package ce (ce/decoder.go chooseDecoder,
   ce/unmarshaler.go chooseUnmarshaler, ce/api.go) and the version handling of
   the two decoders (cbe/decoder.go Decode, cte/parser.go ExitVersion,
   rules/rules_other.go VersionRule).  Executable definitions only. *)
From CE Require Export Base.Prelude Gen.ApiConsts.
Open Scope N_scope.

Definition fmt_eqb (a b : fmt) : bool :=
  match a, b with FCte, FCte | FCbe, FCbe | FNone, FNone => true | _, _ => false end.

(* What the property calls the "detected format": the CTE header letter in
   either case, or the CBE signature byte. *)
Definition detect_spec (b : N) : fmt :=
  if (b =? 99) || (b =? 67) then FCte        (* 'c' 'C' *)
  else if b =? 129 then FCbe                  (* 0x81 *)
  else FNone.

(* The dispatchers as tables regenerated from the code. *)
Definition table_lookup (tbl : list fmt) (b : N) : fmt := nth (N.to_nat b) tbl FNone.

Section Dispatch.
  Context {R : Type}.
  (* The format-specific entry points, abstract: any functions of the document. *)
  Variables (cte_entry cbe_entry : bytes -> outcome R).

  Definition specific (f : fmt) (d : bytes) : outcome R :=
    match f with FCte => cte_entry d | FCbe => cbe_entry d | FNone => Err end.

  (* [on_empty] is what the entry point does with an empty document: an error
     for UnmarshalFromCEDocument / Decode / UnmarshalCE (length check or failed
     Peek), a panic for UniversalDecoder.DecodeDocument (unguarded index). *)
  Definition universal (tbl : list fmt) (on_empty : outcome R) (d : bytes) : outcome R :=
    match d with
    | [] => on_empty
    | b :: _ => specific (table_lookup tbl b) d
    end.
End Dispatch.

(* Version numbers.  The CBE decoder maps 1 to 0 before the event is emitted;
   the CTE listener does the same; the validator then demands the library's
   version constant. *)
Definition cbe_version_map (v : N) : N := if v =? 1 then 0 else v.
Definition cte_version_map (v : N) : N := if v =? 1 then 0 else v.
Definition rules_version_ok (v : N) : bool := v =? ce_version.
Definition version_accepted (f : fmt) (v : N) : bool :=
  match f with
  | FCbe => rules_version_ok (cbe_version_map v)
  | FCte => rules_version_ok (cte_version_map v)
  | FNone => false
  end.
(* The version every marshaler / iterator announces (iterator_root.go). *)
Definition written_version : N := ce_version.

(* Correspondence cases. *)
Inductive api_case :=
| VersionCase (f : fmt) (v : N) (impl_accepts : bool)
| DispatchCase (unmarshal : bool) (b : N) (impl_choice : fmt).

Definition api_case_ok (c : api_case) : bool :=
  match c with
  | VersionCase f v a => Bool.eqb (version_accepted f v) a
  | DispatchCase u b ch => fmt_eqb (table_lookup (if u then unmarshaler_table else decoder_table) b) ch
  end.
