(* C02 — the CTE reader: what cte.Decoder (cte/decoder.go -> cte/parser.go
   ParseDocument) delivers to its receiver for a document.

   The implementation is an ANTLR lexer + parser generated from
   /repo/codegen/cte/CTELexer.g4 and CTEParser.g4 (18k generated lines, not
   modelled line by line) and the listener /repo/cte/parser.go that turns the
   parse tree into events.  This file is a hand-written reader of the same
   language:

   - [runes]: antlr.NewInputStream turns the document into code points the way
     Go's []rune(string) does (an invalid byte becomes U+FFFD);
   - [next_tok]: one token of MODE_NORMAL under ANTLR's rule "longest match,
     first rule on a tie", computed per first character (the candidate rules
     for a first character are enumerated, each candidate's longest match is
     computed, the longest wins).  The pushed modes (strings, typed arrays,
     media / custom payloads) are lexer-internal: such a literal is consumed as
     a whole and becomes one value token carrying the event the listener emits
     at the end of the literal (Exit* callbacks);
   - [parse_doc]: recursive descent over the tokens for CTEParser.g4
     (cte, value, separator, containers, kvPair, marker);
   - the listener's conversions: integers and floats through Model/CteLit.v
     (impl_int, impl_float, impl_*_elem), escapes and verbatim sequences as in
     Model/CteLit.v but with the lexer's real character classes
     (Gen/CteReadTables.v, read off the generated lexer), UIDs, bit arrays,
     times ([read_time]: the regular expressions of parseTime / parseDate /
     parseDateTime / parseTimezone, compact_time's Validate and String —
     the event carries String(), see Model/Events.v).

   Outcome: [Some events] when DecodeDocument returns nil, [None] when it
   returns an error (token recognition error, syntax error, or a panic of the
   listener, which the decoder turns into an error).  What was delivered
   before an error is not modelled.

   Library behaviour that is assumed rather than modelled: the decimal
   coordinates of a latitude/longitude zone go through strconv.ParseFloat,
   *100 and math.Round; the model computes the hundredths exactly (the harness
   checks every coordinate text the grammar allows, exhaustively).
   int16 conversions of compact_time are modelled ([wrap16]).

   Executable definitions only; proofs are in Proofs/CteReadProofs.v. *)
From CE Require Export Base.Prelude Base.Utf8 Model.Events Gen.RulesConsts Gen.CteReadTables.
From CE Require Model.CteLit Model.CteEnc Model.Denote.
Require Coq.Strings.String.
Import String.StringSyntax.
Delimit Scope string_scope with string.
Open Scope N_scope.

Definition inp := list N.       (* code points *)

(* ------------------------------------------------------------------ *)
(** * Characters *)

Fixpoint in_iv (iv : list (N * N)) (r : N) : bool :=
  match iv with
  | [] => false
  | (lo, hi) :: rest => if r <? lo then false else if r <=? hi then true else in_iv rest r
  end.
Definition ch_quoted (r : N) : bool := in_iv cte_quoted_intervals r.      (* CHAR_QUOTED_STRING *)
Definition ch_ident (r : N) : bool := in_iv cte_ident_intervals r.        (* CHAR_IDENTIFIER *)
Definition ch_sentinel (r : N) : bool := in_iv cte_sentinel_intervals r.  (* CHAR_VERBATIM_SENTINEL *)

Definition is_ws (c : N) : bool := (c =? 32) || (c =? 9) || (c =? 10) || (c =? 13).
Definition is_dec (c : N) : bool := (48 <=? c) && (c <=? 57).
Definition is_bit (c : N) : bool := (c =? 48) || (c =? 49).
Definition is_oct (c : N) : bool := (48 <=? c) && (c <=? 55).
Definition lower (c : N) : N := if (65 <=? c) && (c <=? 90) then c + 32 else c.
Definition is_hex (c : N) : bool := is_dec c || ((97 <=? lower c) && (lower c <=? 102)).
Definition is_upper (c : N) : bool := (65 <=? c) && (c <=? 90).
Definition is_alpha (c : N) : bool := (97 <=? lower c) && (lower c <=? 122).
(* CHAR_AREA_LOC_NEXT *)
Definition ch_area_next (c : N) : bool :=
  is_alpha c || is_dec c || (c =? 95) || (c =? 45) || (c =? 46) || (c =? 47) || (c =? 43).
(* CHAR_MEDIA_TYPE_NEXT: [a-zA-Z0-9!#$%&'*+.^_`|~] | '{' | '}' | '-' *)
Definition ch_media_next (c : N) : bool :=
  is_alpha c || is_dec c || (c =? 33) || ((35 <=? c) && (c <=? 39)) || (c =? 42) || (c =? 43) || (c =? 46) ||
  (c =? 94) || (c =? 95) || (c =? 96) || (c =? 124) || (c =? 126) || (c =? 123) || (c =? 125) || (c =? 45).

Definition u8 (l : inp) : bytes := CteLit.utf8_str l.

Fixpoint span (p : N -> bool) (s : inp) : inp * inp :=
  match s with
  | [] => ([], [])
  | c :: r => if p c then let '(a, b) := span p r in (c :: a, b) else ([], s)
  end.

(* the text of a token: what was consumed between [s] and its suffix [rest] *)
Definition consumed (s rest : inp) : inp := firstn (length s - length rest) s.

Definition obind {A B} (o : option A) (f : A -> option B) : option B :=
  match o with Some a => f a | None => None end.

(* ------------------------------------------------------------------ *)
(** * Matchers: the longest match of a lexer fragment at the head of the
      input; the result is the remaining input *)

(* '_'* D ? *)
Fixpoint us_then (isd : N -> bool) (s : inp) : bool :=
  match s with c :: r => if c =? 95 then us_then isd r else isd c | [] => false end.
(* ('_'* D)* *)
Fixpoint dm (isd : N -> bool) (s : inp) : inp :=
  match s with
  | c :: r => if isd c then dm isd r else if (c =? 95) && us_then isd r then dm isd r else s
  | [] => []
  end.
(* DIGITS_x: D ('_'* D)* *)
Definition m_digits (isd : N -> bool) (s : inp) : option inp :=
  match s with c :: r => if isd c then Some (dm isd r) else None | [] => None end.

Definition m_char (p : N -> bool) (s : inp) : option inp :=
  match s with c :: r => if p c then Some r else None | [] => None end.
Definition m_lit (c : N) : inp -> option inp := m_char (N.eqb c).
Definition m_opt (m : inp -> option inp) (s : inp) : inp := match m s with Some r => r | None => s end.
Definition m_neg : inp -> inp := m_opt (m_lit 45).
(* case-insensitive keyword, given in lower case *)
Fixpoint m_word (w : list N) (s : inp) : option inp :=
  match w with
  | [] => Some s
  | x :: w' => match s with c :: r => if lower c =? x then m_word w' r else None | [] => None end
  end.

(* PREFIX_x DIGITS_x *)
Definition m_prefixed (letter : N) (isd : N -> bool) (s : inp) : option inp :=
  match s with
  | z :: c :: r => if (z =? 48) && (lower c =? letter) then m_digits isd r else None
  | _ => None
  end.
(* FRACTION_x *)
Definition m_frac (isd : N -> bool) (s : inp) : option inp :=
  match s with c :: r => if c =? 46 then m_digits isd r else None | [] => None end.
(* EXPONENT_x: letter [+-]? DIGITS_DEC *)
Definition m_exp (letter : N) (s : inp) : option inp :=
  match s with
  | c :: r => if lower c =? letter then m_digits is_dec (m_opt (m_char (fun c => (c =? 43) || (c =? 45))) r) else None
  | [] => None
  end.
(* ( FRACTION | EXPONENT | FRACTION EXPONENT ), optional when [required] is false *)
Definition m_float_tail (isd : N -> bool) (letter : N) (required : bool) (s : inp) : option inp :=
  match m_frac isd s with
  | Some r1 => Some (m_opt (m_exp letter) r1)
  | None => match m_exp letter s with
            | Some r2 => Some r2
            | None => if required then None else Some s
            end
  end.

(* FLOAT_D / FLOAT_OR_INT_D *)
Definition m_float_dec (required : bool) (s : inp) : option inp :=
  obind (m_digits is_dec (m_neg s)) (m_float_tail is_dec 101 required).
(* FLOAT_H_PREFIX / FLOAT_OR_INT_H_PREFIX *)
Definition m_float_hex (required : bool) (s : inp) : option inp :=
  obind (m_prefixed 120 is_hex (m_neg s)) (m_float_tail is_hex 112 required).
(* FLOAT_OR_INT_H_NOPREFIX *)
Definition m_float_hex_nop (s : inp) : option inp :=
  obind (m_digits is_hex (m_neg s)) (m_float_tail is_hex 112 false).

(* n characters of class p *)
Fixpoint m_n (n : nat) (p : N -> bool) (s : inp) : option inp :=
  match n with O => Some s | S k => obind (m_char p s) (m_n k p) end.
(* UID *)
Definition m_uid (s : inp) : option inp :=
  obind (m_n 8 is_hex s) (fun s => obind (m_lit 45 s) (fun s =>
  obind (m_n 4 is_hex s) (fun s => obind (m_lit 45 s) (fun s =>
  obind (m_n 4 is_hex s) (fun s => obind (m_lit 45 s) (fun s =>
  obind (m_n 4 is_hex s) (fun s => obind (m_lit 45 s) (fun s => m_n 12 is_hex s)))))))).

(* DEC DEC? ... up to [k] further optional digits *)
Fixpoint m_upto (k : nat) (p : N -> bool) (s : inp) : inp :=
  match k with O => s | S k' => match m_char p s with Some r => m_upto k' p r | None => s end end.
Definition m_1to (k : nat) (p : N -> bool) (s : inp) : option inp :=
  obind (m_char p s) (fun r => Some (m_upto (k - 1) p r)).

(* (RADIX DEC DEC?)? *)
Definition m_opt_hundredths (s : inp) : inp :=
  m_opt (fun s => obind (m_lit 46 s) (m_1to 2 is_dec)) s.
(* TZ_LATLONG *)
Definition m_tz_latlong (s : inp) : option inp :=
  obind (m_lit 47 s) (fun s => obind (m_1to 2 is_dec (m_neg s)) (fun s =>
  obind (m_lit 47 (m_opt_hundredths s)) (fun s => obind (m_1to 3 is_dec (m_neg s)) (fun s =>
  Some (m_opt_hundredths s))))).
(* TZ_AREALOC *)
Definition m_tz_area (s : inp) : option inp :=
  obind (m_lit 47 s) (fun s => obind (m_char is_upper s) (fun s => Some (snd (span ch_area_next s)))).
(* TZ_OFFSET *)
Definition m_tz_offset (s : inp) : option inp :=
  obind (m_char (fun c => (c =? 43) || (c =? 45)) s) (m_n 4 is_dec).
(* TIME_ZONE?  (the three forms start differently, so at most one applies) *)
Definition m_opt_tz (s : inp) : inp :=
  match m_tz_area s with
  | Some r => r
  | None => match m_tz_latlong s with
            | Some r => r
            | None => m_opt m_tz_offset s
            end
  end.
(* TIME_PORTION *)
Definition m_time (s : inp) : option inp :=
  obind (m_1to 2 is_dec s) (fun s => obind (m_lit 58 s) (fun s =>
  obind (m_n 2 is_dec s) (fun s => obind (m_lit 58 s) (fun s =>
  obind (m_n 2 is_dec s) (fun s =>
  Some (m_opt_tz (m_opt (fun s => obind (m_lit 46 s) (m_1to 9 is_dec)) s))))))).
(* DATE: DATE_PORTION ('/' TIME_PORTION)? *)
Definition m_date (s : inp) : option inp :=
  obind (m_digits is_dec (m_neg s)) (fun s => obind (m_lit 45 s) (fun s =>
  obind (m_1to 2 is_dec s) (fun s => obind (m_lit 45 s) (fun s =>
  obind (m_1to 2 is_dec s) (fun s =>
  Some (m_opt (fun s => obind (m_lit 47 s) m_time) s)))))).

(* ------------------------------------------------------------------ *)
(** * Times: parseTime / parseDate / parseDateTime / parseTimezone,
      compact_time Validate and String *)

Definition dval (s : inp) : N := CteLit.chars_val 10 s 0.
Definition pad2 (n : N) : bytes := if n <? 10 then [48; 48 + n] else CteEnc.dec n.
Fixpoint strip_trailing0 (fuel : nat) (l : bytes) : bytes :=    (* on the reversed digit list *)
  match fuel with
  | O => l
  | S f => match l with c :: r => if c =? 48 then strip_trailing0 f r else l | [] => [] end
  end.

(* int16(v) *)
Definition wrap16 (z : Z) : Z := ((z + 2 ^ 15) mod 2 ^ 16 - 2 ^ 15)%Z.

(* a coordinate -?D+(.D+)? in hundredths *)
Definition coord100 (s : inp) : Z :=
  let neg := match s with 45 :: _ => true | _ => false end in
  let s1 := if neg then tl s else s in
  let '(ip, r) := span is_dec s1 in
  let fp := match r with _ :: f => f | [] => [] end in
  let h := match fp with
           | [] => 0
           | [a] => (a - 48) * 10
           | a :: b :: _ => (a - 48) * 10 + (b - 48)
           end in
  let v := Z.of_N (dval ip * 100 + h) in
  if neg then (- v)%Z else v.

Definition str (s : String.string) : bytes := CteEnc.s2b s.

(* compact_time: areaLocationToTimezoneType *)
Definition area_utc : list bytes :=
  Eval cbv in map str ["Etc/UTC"; "Z"; "Zero"]%string.
Definition area_utc_preserve : list bytes :=
  Eval cbv in map str ["Etc/GMT"; "Etc/GMT+0"; "Etc/GMT-0"; "Etc/GMT0"; "Etc/Greenwich"; "Etc/UCT"; "Etc/Universal";
                       "Etc/Zulu"; "Factory"; "GMT"; "GMT+0"; "GMT-0"; "GMT0"; "Greenwich"; "UCT"; "Universal"; "UTC"; "Zulu"]%string.
Definition area_local : list bytes := Eval cbv in map str ["L"; "Local"]%string.
(* shortAreaToArea *)
Definition short_areas : list (N * bytes) :=
  Eval cbv in [(70, str "Africa"); (77, str "America"); (78, str "Antarctica"); (82, str "Arctic"); (83, str "Asia");
               (84, str "Atlantic"); (85, str "Australia"); (67, str "Etc"); (69, str "Europe"); (73, str "Indian");
               (80, str "Pacific"); (76, str "Local"); (90, str "Zero")]%string.
Fixpoint assoc (k : N) (l : list (N * bytes)) : option bytes :=
  match l with [] => None | (a, v) :: r => if a =? k then Some v else assoc k r end.
Definition mem_bytes (x : bytes) (l : list bytes) : bool := existsb (bytes_eqb x) l.

(* the text Timezone.String() gives for TZAtAreaLocation(name); None: Validate fails *)
Definition tz_area_text (name : bytes) : option bytes :=
  if mem_bytes name area_utc || mem_bytes name area_utc_preserve then Some []
  else if mem_bytes name area_local then Some (47 :: str "Local"%string)
  else
    (* splitAreaLocation: a one-letter area is expanded *)
    let long := match name with
                | a :: 47 :: loc => match assoc a short_areas with Some area => area ++ 47 :: loc | None => name end
                | _ => name
                end in
    if (length long =? 0)%nat || (127 <? length long)%nat then None else Some (47 :: long).

(* parseTimezone on the text after the seconds / fraction; [] is UTC *)
Definition tz_text (s : inp) : option bytes :=
  match s with
  | [] => Some []
  | 47 :: r =>
      match r with
      | c :: _ =>
          if is_dec c || (c =? 45) then
            let '(lat, r2) := span (fun c => negb (c =? 47)) r in
            let lon := tl r2 in
            let la := wrap16 (coord100 lat) in
            let lo := wrap16 (coord100 lon) in
            if ((lo <? -18000) || (18000 <? lo) || (la <? -9000) || (9000 <? la))%Z then None
            else
              let fmt := fun (z : Z) =>
                (if (z <? 0)%Z then [45] else []) ++ CteEnc.dec (Z.abs_N z / 100) ++ [46] ++ pad2 (Z.abs_N z mod 100) in
              Some (47 :: fmt la ++ 47 :: fmt lo)
          else tz_area_text r
      | [] => None
      end
  | sg :: r =>
      (* [+-]hhmm *)
      let m := dval (firstn 2 r) * 60 + dval (skipn 2 r) in
      if m =? 0 then Some []
      else if 1439 <? m then None
      else Some (sg :: pad2 (m / 60) ++ pad2 (m mod 60))
  end.

(* hh:mm:ss[.fff][tz] (the TIME token, or the part of a DATE token after '/') *)
Definition time_text (s : inp) : option bytes :=
  let '(hh, r1) := span is_dec s in
  let mm := firstn 2 (tl r1) in
  let r2 := skipn 3 r1 in
  let ss := firstn 2 (tl r2) in
  let r3 := skipn 3 r2 in
  let '(frac, r4) := match r3 with
                     | 46 :: f => let '(d, r) := span is_dec f in (d, r)
                     | _ => ([], r3)
                     end in
  let h := dval hh in let m := dval mm in let sec := dval ss in
  if (23 <? h) || (59 <? m) || (60 <? sec) then None
  else
    let ns := dval frac * 10 ^ (9 - N.of_nat (length frac)) in
    let fr := if ns =? 0 then []
              else 46 :: rev (strip_trailing0 9 (rev (CteEnc.pad_left 48 9 (CteEnc.dec ns)))) in
    match tz_text r4 with
    | Some tz => Some (pad2 h ++ [58] ++ pad2 m ++ [58] ++ pad2 sec ++ fr ++ tz)
    | None => None
    end.

Definition day_max (m : N) : N :=
  if m =? 2 then 29 else if (m =? 4) || (m =? 6) || (m =? 9) || (m =? 11) then 30 else 31.

(* the year the (unanchored) regular expressions find: the digits after the
   last '_' of the spelled year, without the sign when there is a '_' *)
Fixpoint after_last_us (s acc : inp) : inp :=
  match s with
  | [] => acc
  | c :: r => if c =? 95 then after_last_us r r else after_last_us r acc
  end.

(* the DATE token; [None]: the listener panics *)
Definition date_text (s : inp) : option bytes :=
  let neg0 := match s with 45 :: _ => true | _ => false end in
  let s1 := if neg0 then tl s else s in
  let '(yraw, r1) := span (fun c => is_dec c || (c =? 95)) s1 in
  let has_us := existsb (N.eqb 95) yraw in
  let ydigits := after_last_us yraw yraw in
  let neg := neg0 && negb has_us in
  let y := dval ydigits in
  let '(mo, r2) := span is_dec (tl r1) in
  let '(dd, r3) := span is_dec (tl r2) in
  let m := dval mo in let d := dval dd in
  (* strconv.ParseInt(.., 10, 64) of the year *)
  if (if neg then 2 ^ 63 <? y else 2 ^ 63 <=? y) then None
  else if (y =? 0) || (m <? 1) || (12 <? m) || (d <? 1) || (day_max m <? d) then None
  else
    let datepart := (if neg then [45] else []) ++ CteEnc.dec y ++ [45] ++ pad2 m ++ [45] ++ pad2 d in
    match r3 with
    | [] => Some datepart
    | _ :: t =>
        (* parseDateTime wants two-digit month and day *)
        if negb ((length mo =? 2)%nat && (length dd =? 2)%nat) then None
        else match time_text t with
             | Some tx => Some (datepart ++ 47 :: tx)
             | None => None
             end
    end.

(* ------------------------------------------------------------------ *)
(** * Tokens *)

Inductive tok :=
| TWs
| TComment (multi : bool) (text : bytes)
| TListB | TListE | TMapB | TBraceE | TEq | TNodeB | TParenE | TGt | TEdgeB
| TRecTypeB (id : bytes) | TRecB (id : bytes)
| TMarker (id : bytes)
| TVal (e : event).

(* ---- comments ---- *)

(* '//' .*? LINE_END: up to the first line feed; ExitCommentLine drops a carriage return before it *)
Fixpoint line_comment (s : inp) (acc : inp) : option (inp * inp) :=
  match s with
  | [] => None
  | c :: r => if c =? 10
              then Some (match acc with a :: acc' => if a =? 13 then rev acc' else rev acc | [] => [] end, r)
              else line_comment r (c :: acc)
  end.


(* BLOCK_COMMENT after the opening "/*".  A "/*" nests, a "*/" closes, scanning
   left to right (the '*' of an opener is not available to a closer and vice
   versa); the token ends when the depth returns to zero.  [acc]: consumed
   characters, reversed.  Result: the comment text and the rest. *)
Inductive pend := PNone | PSlash | PStar.
Fixpoint block_comment (s : inp) (depth : nat) (p : pend) (acc : inp) : option (inp * inp) :=
  match s with
  | [] => None
  | c :: r =>
    match p with
    | PSlash => if c =? 42 then block_comment r (S depth) PNone (c :: acc)
                else block_comment r depth (if c =? 47 then PSlash else PNone) (c :: acc)
    | PStar => if c =? 47
               then match depth with
                    | O => Some (rev (tl acc), r)
                    | S d => block_comment r d PNone (c :: acc)
                    end
               else block_comment r depth (if c =? 42 then PStar else PNone) (c :: acc)
    | PNone => block_comment r depth (if c =? 47 then PSlash else if c =? 42 then PStar else PNone) (c :: acc)
    end
  end.

(* ---- strings (MODE_STRING and the modes below it), as Model/CteLit.v lex_string
        but with the generated lexer's character classes and returning the rest ---- *)

Fixpoint vc_loop (sb : bytes) (e_alive c_alive : bool) (idx : nat) (s : inp) (cons_rev : inp)
         (best : option (CteLit.vtok * inp * inp)) : option (CteLit.vtok * inp * inp) * nat :=
  match s with
  | [] => (best, idx)
  | c :: r =>
    let e1 := e_alive && ch_sentinel c in
    let c1 := c_alive in
    if negb e1 && negb c1 then (best, idx) else
    let cons' := c :: cons_rev in
    let best' := Some (if e1 then CteLit.VEmpty else CteLit.VContents, cons', r) in
    let '(e2, idx1) := if e1 then CteLit.is_sentinel_char sb idx r else (false, idx) in
    let '(c2, idx2) := if c1 then (let '(a, i2) := CteLit.is_at sb idx1 r in (negb a, i2)) else (false, idx1) in
    vc_loop sb e2 c2 idx2 r cons' best'
  end.
Definition vc_token (sb : bytes) (idx : nat) (s : inp) : option (CteLit.vtok * inp * inp) * nat :=
  let '(e0, idx1) := CteLit.is_sentinel_char sb idx s in
  let '(a0, idx2) := CteLit.is_at sb idx1 s in
  vc_loop sb e0 (negb a0) idx2 s [] None.

Fixpoint ve_loop (sb : bytes) (alive : bool) (idx : nat) (s : inp) (some : bool) : option (inp * nat) :=
  match s with
  | [] => if some then Some ([], idx) else None
  | c :: r =>
    if alive && ch_sentinel c then
      let '(a, idx1) := CteLit.is_sentinel_char sb idx r in ve_loop sb a idx1 r true
    else if some then Some (s, idx) else None
  end.
Definition ve_token (sb : bytes) (idx : nat) (s : inp) : option (inp * nat) :=
  let '(a, idx1) := CteLit.is_sentinel_char sb idx s in ve_loop sb a idx1 s false.

(* after the opening quote: (contents, rest after the closing quote, verbatimIndex) *)
Fixpoint lex_str (fuel : nat) (idx : nat) (s : inp) (acc : bytes) : option (bytes * inp * nat) :=
  match fuel with
  | O => None
  | S f =>
    match s with
    | [] => None
    | c :: r =>
      if c =? 34 then Some (acc, r, idx)
      else if c =? 92 then
        match r with
        | [] => None
        | e :: r2 =>
          if e =? 46 then
            let '(sent, r3) := span ch_sentinel r2 in
            match sent with
            | [] => None
            | _ =>
              let sb := u8 sent in
              match CteLit.skip_separator r3 with
              | None => None
              | Some r4 =>
                match vc_token sb idx r4 with
                | (None, _) => None
                | (Some (CteLit.VEmpty, _, rest), idx') => lex_str f idx' rest acc
                | (Some (CteLit.VContents, cons_rev, rest), idx') =>
                  match ve_token sb idx' rest with
                  | None => None
                  | Some (rest', idx'') => lex_str f idx'' rest' (acc ++ u8 (rev cons_rev))
                  end
                end
              end
            end
          else if e =? 91 then
            let '(hx, r3) := span is_hex r2 in
            match hx, r3 with
            | _ :: _, 93 :: r4 =>
              match CteLit.impl_codepoint hx with
              | Ok b => lex_str f idx r4 (acc ++ b)
              | _ => None
              end
            | _, _ => None
            end
          else if (e =? 10) || (e =? 13) then
            let '(_, r3) := span is_ws r2 in lex_str f idx r3 acc
          else match CteLit.escape_char e with
               | Some v => lex_str f idx r2 (acc ++ CteLit.utf8_enc v)
               | None => None
               end
        end
      else if ch_quoted c then lex_str f idx r (acc ++ CteLit.utf8_enc c)
      else None
    end
  end.
Definition lex_string (idx : nat) (s : inp) : option (bytes * inp * nat) := lex_str (S (length s)) idx s [].

(* ---- typed array bodies ---- *)

(* the body of an array mode up to ']' as maximal runs of characters that are
   neither white space nor ']': (runs, leading white space, white space before ']', rest) *)
Fixpoint arr_runs (s : inp) (cur : inp) (runs : list inp) (lead trail : bool) : option (list inp * bool * bool * inp) :=
  match s with
  | [] => None
  | c :: r =>
    if c =? 93 then
      Some (rev (match cur with [] => runs | _ => rev cur :: runs end), lead,
            match cur with [] => trail | _ => false end, r)
    else if is_ws c then
      match cur with
      | [] => arr_runs r [] runs (match runs with [] => true | _ => lead end) true
      | _ => arr_runs r [] (rev cur :: runs) lead true
      end
    else arr_runs r (c :: cur) runs lead false
  end.

Definition full (m : inp -> option inp) (s : inp) : bool :=
  match m s with Some [] => true | _ => false end.

(* element syntax of the integer modes: base 0 = implicit (prefix decides) *)
Definition int_elem_ok (signed : bool) (base : N) (s : inp) : bool :=
  let s1 := if signed then m_neg s else s in
  if base =? 0 then
    full (m_prefixed 98 is_bit) s1 || full (m_prefixed 111 is_oct) s1 || full (m_prefixed 120 is_hex) s1 ||
    full (m_digits is_dec) s1
  else if base =? 2 then full (m_digits is_bit) s1
  else if base =? 8 then full (m_digits is_oct) s1
  else full (m_digits is_hex) s1.

Definition oc_opt {A} (o : outcome A) : option A := match o with Ok a => Some a | _ => None end.

Fixpoint concat_opt (l : list (option bytes)) : option bytes :=
  match l with
  | [] => Some []
  | Some b :: r => match concat_opt r with Some b' => Some (b ++ b') | None => None end
  | None :: _ => None
  end.

Definition int_elem (signed : bool) (base bits : N) (s : inp) : option bytes :=
  if int_elem_ok signed base s
  then oc_opt (if signed then CteLit.impl_int_elem base bits s else CteLit.impl_uint_elem base bits s)
  else None.

Definition special_which (s : inp) : option N :=
  if full (m_word [110; 97; 110]) s then Some 0
  else if full (m_word [115; 110; 97; 110]) s then Some 1
  else if full (m_word [105; 110; 102]) s then Some 2
  else if full (m_word [45; 105; 110; 102]) s then Some 3
  else None.

Definition float_elem (hexmode : bool) (bits : N) (s : inp) : option bytes :=
  match special_which s with
  | Some w => oc_opt (CteLit.special_elem bits w)
  | None =>
      if (if hexmode then full m_float_hex_nop s else full (m_float_dec false) s || full (m_float_hex false) s)
      then oc_opt (CteLit.impl_float_elem CteLit.rne hexmode bits s)
      else None
  end.

Definition hexval (c : N) : N := match CteLit.digit_val c with Some d => d | None => 0 end.
Fixpoint hex_pairs (s : inp) : bytes :=
  match s with a :: b :: r => (hexval a * 16 + hexval b) :: hex_pairs r | _ => [] end.
(* appendUID on a matched UID token *)
Definition uid_bytes (s : inp) : bytes := hex_pairs (filter (fun c => negb (c =? 45)) s).
Definition uid_elem (s : inp) : option bytes := if full m_uid s then Some (uid_bytes s) else None.

(* BYTE_HEX *)
Definition byte_elem (s : inp) : option bytes :=
  match s with [a; b] => if is_hex a && is_hex b then Some [hexval a * 16 + hexval b] else None | _ => None end.

(* numeric array: header already consumed *)
Definition num_array (t : arrty) (width : N) (elem : inp -> option bytes) (s : inp) : option (event * inp) :=
  match arr_runs s [] [] false false with
  | None => None
  | Some (runs, _, _, rest) =>
      match concat_opt (map elem runs) with
      | Some data => Some (EArray t (N.of_nat (length data) / width) data, rest)
      | None => None
      end
  end.

(* media / custom binary payload: ( BYTE (WS BYTE)* )? ']' *)
Definition bytes_body (s : inp) : option (bytes * inp) :=
  match arr_runs s [] [] false false with
  | None => None
  | Some (runs, lead, trail, rest) =>
      if lead || trail then None
      else match concat_opt (map byte_elem runs) with
           | Some data => Some (data, rest)
           | None => None
           end
  end.

(* bit array: BIT+ runs, white space skipped *)
Fixpoint bit_body (s : inp) (acc : list bool) : option (list bool * inp) :=
  match s with
  | [] => None
  | c :: r => if c =? 93 then Some (rev acc, r)
              else if is_ws c then bit_body r acc
              else if c =? 48 then bit_body r (false :: acc)
              else if c =? 49 then bit_body r (true :: acc)
              else None
  end.
Fixpoint pack_byte (l : list bool) (i : N) : N :=
  match l with [] => 0 | b :: r => (if b then 2 ^ i else 0) + pack_byte r (i + 1) end.
Fixpoint pack_bits (fuel : nat) (l : list bool) : bytes :=
  match fuel with
  | O => []
  | S f => match l with [] => [] | _ => pack_byte (firstn 8 l) 0 :: pack_bits f (skipn 8 l) end
  end.

(* the array type names after '@', lower case *)
Definition arr_header (name : inp) : option (inp -> option (event * inp)) :=
  let nm := map lower name in
  let '(kind, r) := match nm with c :: r => (c, r) | [] => (0, []) end in
  let '(digs, sfx) := span is_dec r in
  let bits := dval digs in
  let width_ok := (bits =? 8) || (bits =? 16) || (bits =? 32) || (bits =? 64) in
  let base := match sfx with
              | [] => Some 0 | [98] => Some 2 | [111] => Some 8 | [120] => Some 16 | _ => None
              end in
  let canonical := match digs with [56] | [49; 54] | [51; 50] | [54; 52] => true | _ => false end in
  if kind =? 105 then        (* i *)
    match base with
    | Some b => if width_ok && canonical then
        Some (num_array (if bits =? 8 then AT_Int8 else if bits =? 16 then AT_Int16 else if bits =? 32 then AT_Int32 else AT_Int64)
                        (bits / 8) (int_elem true b bits))
      else None
    | None => None
    end
  else if (kind =? 117) && negb (match digs with [] => true | _ => false end) then     (* u *)
    match base with
    | Some b => if width_ok && canonical then
        Some (num_array (if bits =? 8 then AT_Uint8 else if bits =? 16 then AT_Uint16 else if bits =? 32 then AT_Uint32 else AT_Uint64)
                        (bits / 8) (int_elem false b bits))
      else None
    | None => None
    end
  else if kind =? 102 then   (* f *)
    if canonical && negb (bits =? 8) then
      match sfx with
      | [] => Some (num_array (if bits =? 16 then AT_Float16 else if bits =? 32 then AT_Float32 else AT_Float64) (bits / 8)
                              (float_elem false bits))
      | [120] => Some (num_array (if bits =? 16 then AT_Float16 else if bits =? 32 then AT_Float32 else AT_Float64) (bits / 8)
                                 (float_elem true bits))
      | _ => None
      end
    else None
  else if CteLit.bytes_res_eqb (Ok nm) (Ok [117; 105; 100]) then    (* uid *)
    Some (num_array AT_UID 16 uid_elem)
  else if CteLit.bytes_res_eqb (Ok nm) (Ok [98]) then               (* b *)
    Some (fun s => match bit_body s [] with
                   | Some (bits, rest) =>
                       Some (EArray AT_Bit (N.of_nat (length bits)) (pack_bits (length bits) bits), rest)
                   | None => None
                   end)
  else None.

(* MEDIA_TYPE then '[' or a double quote: (media type, terminator, rest) *)
Definition m_media (s : inp) : option (inp * N * inp) :=
  match s with
  | c :: r =>
      if is_alpha c then
        let '(run1, r1) := span ch_media_next r in
        match r1 with
        | 47 :: r2 =>
            let '(run2, r3) := span ch_media_next r2 in
            match run2, r3 with
            | _ :: _, t :: r4 => if (t =? 91) || (t =? 34) then Some (c :: run1 ++ 47 :: run2, t, r4) else None
            | _, _ => None
            end
        | _ => None
        end
      else None
  | [] => None
  end.

(* a token that starts with '@' ([s]: after the '@'); result: token, rest, verbatimIndex *)
Definition at_token (idx : nat) (s : inp) : option (tok * inp * nat) :=
  match m_media s with
  | Some (mt, t, r) =>
      if t =? 91 then
        match bytes_body r with
        | Some (data, rest) => Some (TVal (EMedia (u8 mt) data), rest, idx)
        | None => None
        end
      else
        match lex_string idx r with
        | Some (data, rest, idx') => Some (TVal (EMedia (u8 mt) data), rest, idx')
        | None => None
        end
  | None =>
      match s with
      | 34 :: r =>
          match lex_string idx r with
          | Some (data, rest, idx') => Some (TVal (EArray AT_ResourceID (N.of_nat (length data)) data), rest, idx')
          | None => None
          end
      | 40 :: r => Some (TEdgeB, r, idx)
      | _ =>
          let '(idr, after) := span ch_ident s in
          match idr, after with
          | _ :: _, 60 :: r => Some (TRecTypeB (u8 idr), r, idx)
          | _ :: _, 123 :: r => Some (TRecB (u8 idr), r, idx)
          | _ :: _, 91 :: r =>
              if forallb is_dec idr then
                (* custom binary: parseSmallUint = ParseUint(text, 10, 64) (fix 601f9e0; was base 0) *)
                match CteLit.go_parse_uint idr 10 64, bytes_body r with
                | Some ct, Some (data, rest) => Some (TVal (ECustomBin ct data), rest, idx)
                | _, _ => None
                end
              else
                match arr_header idr with
                | Some body => match body r with Some (e, rest) => Some (TVal e, rest, idx) | None => None end
                | None => None
                end
          | _ :: _, 34 :: r =>
              if forallb is_dec idr then
                match CteLit.go_parse_uint idr 10 64, lex_string idx r with
                | Some ct, Some (data, rest, idx') => Some (TVal (ECustomText ct data), rest, idx')
                | _, _ => None
                end
              else None
          | _, _ => None
          end
      end
  end.

(* ---- numbers, keywords, UIDs, dates and times: longest match over the candidate rules ---- *)

Inductive wkind := WNull | WTrue | WFalse | WInt | WFloat | WInf | WNinf | WNan | WSnan | WDate | WTime | WUid.

Definition m_int (s : inp) : option inp :=
  let s1 := m_neg s in
  match m_prefixed 98 is_bit s1 with
  | Some r => Some r
  | None => match m_prefixed 111 is_oct s1 with
            | Some r => Some r
            | None => match m_prefixed 120 is_hex s1 with
                      | Some r => Some r
                      | None => m_digits is_dec s1
                      end
            end
  end.

(* candidates in the order of the lexer rules; for one first character the
   integer rules are mutually exclusive except that "0b1" also starts with the
   decimal integer "0": the prefixed forms are tried first because they are longer *)
Definition word_candidates (s : inp) : list (wkind * option inp) :=
  [(WNull, m_word [110; 117; 108; 108] s); (WTrue, m_word [116; 114; 117; 101] s);
   (WFalse, m_word [102; 97; 108; 115; 101] s); (WInt, m_int s);
   (WFloat, m_float_dec true s); (WFloat, m_float_hex true s);
   (WInf, m_word [105; 110; 102] s); (WNinf, m_word [45; 105; 110; 102] s);
   (WNan, m_word [110; 97; 110] s); (WSnan, m_word [115; 110; 97; 110] s);
   (WDate, m_date s); (WTime, m_time s); (WUid, m_uid s)].

Fixpoint best_match (l : list (wkind * option inp)) (best : option (wkind * inp)) : option (wkind * inp) :=
  match l with
  | [] => best
  | (k, Some r) :: l' =>
      best_match l' (match best with
                     | Some (_, rb) => if (length r <? length rb)%nat then Some (k, r) else best
                     | None => Some (k, r)
                     end)
  | (_, None) :: l' => best_match l' best
  end.

Definition lit_event (r : CteLit.lit_result) : event :=
  match r with
  | CteLit.RInt z => EInt z
  | CteLit.RNegInt n => ENegInt n
  | CteLit.RBigInt z => EBigInt (Some z)
  | CteLit.RFloat b => EFloat b
  | CteLit.RBigFloat n m e p => EBigFloat (Some (BFin n m e p))
  | CteLit.RDec c e => if (e =? CteLit.exp_special)%Z then EDecimal (DFin true 0 0)
                       else EDecimal (DFin (c <? 0)%Z (Z.abs_N c) e)
  | CteLit.RBigDec n c e => EBigDecimal (Some (DFin n c e))
  | CteLit.RBytes d => EArrayData d
  end.

Definition word_token (s : inp) : option (tok * inp) :=
  match best_match (word_candidates s) None with
  | None => None
  | Some (k, rest) =>
      let text := consumed s rest in
      let ev := match k with
                | WNull => Some ENull
                | WTrue => Some (EBool true)
                | WFalse => Some (EBool false)
                | WInt => option_map lit_event (oc_opt (CteLit.impl_int text))
                | WFloat => option_map lit_event (oc_opt (CteLit.impl_float text))
                | WInf => Some (EDecimal (DInf false))
                | WNinf => Some (EDecimal (DInf true))
                | WNan => Some (EDecimal DQNan)
                | WSnan => Some (EDecimal DSNan)
                | WDate => option_map ETime (date_text text)
                | WTime => option_map ETime (time_text text)
                | WUid => Some (EUid (uid_bytes text))
                end in
      match ev with Some e => Some (TVal e, rest) | None => None end
  end.

(* ---- one token of MODE_NORMAL ---- *)

Definition next_tok (idx : nat) (s : inp) : option (tok * inp * nat) :=
  match s with
  | [] => None
  | c :: r =>
    if is_ws c then Some (TWs, snd (span is_ws r), idx)
    else if c =? 47 then
      match r with
      | 47 :: r2 => match line_comment r2 [] with Some (t, rest) => Some (TComment false (u8 t), rest, idx) | None => None end
      | 42 :: r2 => match block_comment r2 O PNone [] with Some (t, rest) => Some (TComment true (u8 t), rest, idx) | None => None end
      | _ => None
      end
    else if c =? 91 then Some (TListB, r, idx)
    else if c =? 93 then Some (TListE, r, idx)
    else if c =? 123 then Some (TMapB, r, idx)
    else if c =? 125 then Some (TBraceE, r, idx)
    else if c =? 61 then Some (TEq, r, idx)
    else if c =? 40 then Some (TNodeB, r, idx)
    else if c =? 41 then Some (TParenE, r, idx)
    else if c =? 62 then Some (TGt, r, idx)
    else if c =? 34 then
      match lex_string idx r with
      | Some (data, rest, idx') => Some (TVal (EArray AT_String (N.of_nat (length data)) data), rest, idx')
      | None => None
      end
    else if c =? 36 then
      match r with
      | 34 :: r2 =>
          match lex_string idx r2 with
          | Some (data, rest, idx') => Some (TVal (EArray AT_ReferenceRemote (N.of_nat (length data)) data), rest, idx')
          | None => None
          end
      | _ => let '(idr, rest) := span ch_ident r in
             match idr with [] => None | _ => Some (TVal (ERefLocal (u8 idr)), rest, idx) end
      end
    else if c =? 38 then
      let '(idr, rest) := span ch_ident r in
      match idr, rest with
      | _ :: _, 58 :: rest' => Some (TMarker (u8 idr), rest', idx)
      | _, _ => None
      end
    else if c =? 64 then at_token idx r
    else match word_token s with Some (t, rest) => Some (t, rest, idx) | None => None end
  end.

Fixpoint lex (fuel : nat) (idx : nat) (s : inp) : option (list tok) :=
  match s with
  | [] => Some []
  | _ =>
    match fuel with
    | O => None
    | S f => match next_tok idx s with
             | Some (t, rest, idx') => option_map (cons t) (lex f idx' rest)
             | None => None
             end
    end
  end.

(* ------------------------------------------------------------------ *)
(** * Parser (CTEParser.g4) and the order of the listener's callbacks *)

(* separator*: the comment events, the remaining tokens, and whether anything was skipped *)
Fixpoint skip_seps (ts : list tok) : list event * list tok * bool :=
  match ts with
  | TWs :: r => let '(es, r', _) := skip_seps r in (es, r', true)
  | TComment m t :: r => let '(es, r', _) := skip_seps r in (EComment m t :: es, r', true)
  | _ => ([], ts, false)
  end.

Inductive ckind := CList | CRecord | CRecType | CNode | CEdge.
Definition closes (k : ckind) (t : tok) : bool :=
  match k, t with
  | CList, TListE | CRecord, TBraceE | CRecType, TGt | CNode, TParenE | CEdge, TParenE => true
  | _, _ => false
  end.
Definition count_ok (k : ckind) (n : nat) : bool :=
  match k with CNode => (1 <=? n)%nat | CEdge => (n =? 3)%nat | _ => true end.

Fixpoint p_value (f : nat) (ts : list tok) : option (list event * list tok) :=
  match f with
  | O => None
  | S f' =>
    match ts with
    | TVal e :: r => Some ([e], r)
    | TMarker id :: r => match p_value f' r with Some (es, r') => Some (EMarker id :: es, r') | None => None end
    | TListB :: r => match p_items f' CList O r with Some (es, r') => Some (EList :: es, r') | None => None end
    | TRecB id :: r => match p_items f' CRecord O r with Some (es, r') => Some (ERecord id :: es, r') | None => None end
    | TNodeB :: r => match p_items f' CNode O r with Some (es, r') => Some (ENode :: es, r') | None => None end
    | TEdgeB :: r => match p_items f' CEdge O r with Some (es, r') => Some (EEdge :: es, r') | None => None end
    | TMapB :: r => match p_pairs f' true r with Some (es, r') => Some (EMap :: es, r') | None => None end
    | _ => None
    end
  end
(* items of a list-like container up to its closer (separators before, between and after); [n] values read so far *)
with p_items (f : nat) (k : ckind) (n : nat) (ts : list tok) : option (list event * list tok) :=
  match f with
  | O => None
  | S f' =>
    let '(cs, ts1, sep) := skip_seps ts in
    match ts1 with
    | [] => None
    | t :: r =>
      if closes k t then (if count_ok k n then Some (cs ++ [EEnd], r) else None)
      else if (0 <? n)%nat && negb sep then None
      else match p_value f' ts1 with
           | Some (es, ts2) =>
               match p_items f' k (S n) ts2 with
               | Some (es2, ts3) => Some (cs ++ es ++ es2, ts3)
               | None => None
               end
           | None => None
           end
    end
  end
(* key = value pairs of a map up to the closing brace *)
with p_pairs (f : nat) (first : bool) (ts : list tok) : option (list event * list tok) :=
  match f with
  | O => None
  | S f' =>
    let '(cs, ts1, sep) := skip_seps ts in
    match ts1 with
    | [] => None
    | TBraceE :: r => Some (cs ++ [EEnd], r)
    | _ =>
      if negb first && negb sep then None
      else match p_value f' ts1 with
           | Some (kes, ts2) =>
               let '(cs2, ts3, _) := skip_seps ts2 in
               match ts3 with
               | TEq :: ts4 =>
                   let '(cs3, ts5, _) := skip_seps ts4 in
                   match p_value f' ts5 with
                   | Some (ves, ts6) =>
                       match p_pairs f' false ts6 with
                       | Some (es2, ts7) => Some (cs ++ kes ++ cs2 ++ cs3 ++ ves ++ es2, ts7)
                       | None => None
                       end
                   | None => None
                   end
               | _ => None
               end
           | None => None
           end
    end
  end.

(* record types and separators, then the top-level value, optional white space, end of input *)
Fixpoint p_top (f : nat) (ts : list tok) : option (list event) :=
  match f with
  | O => None
  | S f' =>
    let '(cs, ts1, _) := skip_seps ts in
    match ts1 with
    | TRecTypeB id :: r =>
        match p_items f' CRecType O r with
        | Some (es, r') => option_map (fun tl => cs ++ ERecordType id :: es ++ tl) (p_top f' r')
        | None => None
        end
    | _ =>
        match p_value f' ts1 with
        | Some (es, r) =>
            match r with
            | [] | [TWs] => Some (cs ++ es)
            | _ => None
            end
        | None => None
        end
    end
  end.

(* cte: version WSL ... ; the version token is 'c' or 'C' and one of '0' '1';
   ExitVersion reports 1 as 0 *)
Definition read_runes (s : inp) : option (list event) :=
  match s with
  | c :: v :: r =>
      if (lower c =? 99) && ((v =? 48) || (v =? 49)) then
        match lex (S (length r)) O r with
        | Some (TWs :: ts) =>
            option_map (fun body => EBeginDoc :: EVersion 0 :: body ++ [EEndDoc]) (p_top (2 * length ts + 4) ts)
        | _ => None
        end
      else None
  | _ => None
  end.

Definition cte_read (doc : bytes) : option (list event) := read_runes (runes doc).

(* ------------------------------------------------------------------ *)
(** * Correspondence cases *)

Definition events_eqb : list event -> list event -> bool := list_eqb event_eqb.

Inductive cteread_case :=
(* a document and what cte.Decoder delivered to a recording receiver (no validator in between);
   [None]: DecodeDocument returned an error *)
| CRDoc (doc : bytes) (impl : option (list event))
(* verdict only *)
| CRVerdict (doc : bytes) (impl_ok : bool)
(* a rules-valid stream, the text ce.NewCTEEncoder wrote for it and what the decoder made of that text:
   the encoder model writes the same text, the reader model reads the same events, and they denote
   the input without its padding *)
| CRRound (es : list event) (text : bytes) (impl : option (list event)) (same_data : bool)
(* the time token alone *)
| CRTime (date : bool) (text : bytes) (impl : option bytes).

Definition cteread_case_ok (c : cteread_case) : bool :=
  match c with
  | CRDoc doc impl => option_eqb events_eqb (cte_read doc) impl
  | CRVerdict doc ok => Bool.eqb (match cte_read doc with Some _ => true | None => false end) ok
  | CRRound es text impl same =>
      option_eqb bytes_eqb (CteEnc.cte_encode CteEnc.default_ccfg es) (Some text) &&
      option_eqb events_eqb (cte_read text) impl &&
      match impl with
      | Some out => Bool.eqb (list_eqb Denote.dev_eqb (Denote.den out) (Denote.no_padding (Denote.den es))) same
      | None => negb same
      end
  | CRTime date text impl =>
      option_eqb bytes_eqb (if date then date_text text else time_text text) impl
  end.
