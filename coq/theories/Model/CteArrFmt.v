(* CTE typed-array element formats: what the CTE encoder writes for a numeric
   array under every configuration.Encoder.CTE.DefaultNumericFormats.Array.<Kind>
   setting, and what the CTE decoder reads back from such text.

   Encoder side   /repo/cte/encoder_array.go  beginArrayUint8 .. beginArrayFloat64,
                  EncodeArray / BeginChunk / AddArrayData (whole-element data),
                  tables arrayFormats*, arrayHeaders* (regenerated: Gen/CteTables.v)
                  /repo/cte/encoder_writer.go WriteFmtNotLF (fmt.Sprintf),
                  WriteFloatUsingFormat, WriteFloatHexNoPrefix
                  Go library behaviour that is modelled concretely: fmt integer
                  verbs %v %d %b %o %x with the 0 flag and a width, the
                  "%!(EXTRA type=value)" and "%!verb(type=value)" error texts,
                  strconv.AppendFloat formats 'x' and 'b', strconv.AppendUint.
   Decoder side   /repo/codegen/cte/CTELexer.g4 (array header tokens -- the token
                  names are regenerated from the generated lexer --, the element
                  token shapes of the array modes), /repo/cte/parser.go
                  parseUintElement, parseIntElement (with stripDecimalLeadingZeros),
                  parseFloatElement, normalizeFloatString, ExitArrayElemNan/Snan/Inf/Ninf,
                  strconv.ParseUint / ParseInt (base 0 prefixes, underscores,
                  range checks) and strconv.ParseFloat on hexadecimal input
                  (correct rounding, closed form).
   NOT modelled concretely (explicit parameters): the shortest decimal rendering
                  of a float64 (strconv 'g', -1: [fmt_g]) and strconv.ParseFloat
                  on decimal input ([parse_dec]).
   Platform note: WriteFloatHexNoPrefix converts with int64(value); the model
                  follows amd64 (out-of-range conversions give MinInt64, so they
                  never compare equal to the value).

   Executable definitions only; proofs are in Proofs/CteArrFmtProofs.v. *)
From CE Require Export Base.Prelude Base.LE Model.FloatBits Gen.CteTables.
Require Coq.Strings.String Coq.Strings.Ascii.
Import String.StringSyntax.
Delimit Scope string_scope with string.
Open Scope N_scope.

Definition s2b (s : String.string) : bytes :=
  List.map Ascii.N_of_ascii (String.list_ascii_of_string s).

(* ------------------------------------------------------------------ *)
(** * Kinds *)

Inductive kind := KU8 | KU16 | KU32 | KU64 | KI8 | KI16 | KI32 | KI64 | KF16 | KF32 | KF64.
Inductive kclass := CUint | CInt | CFloat.

Definition kind_eqb (a b : kind) : bool :=
  match a, b with
  | KU8, KU8 | KU16, KU16 | KU32, KU32 | KU64, KU64
  | KI8, KI8 | KI16, KI16 | KI32, KI32 | KI64, KI64
  | KF16, KF16 | KF32, KF32 | KF64, KF64 => true
  | _, _ => false
  end.

Definition kind_class (k : kind) : kclass :=
  match k with
  | KU8 | KU16 | KU32 | KU64 => CUint
  | KI8 | KI16 | KI32 | KI64 => CInt
  | KF16 | KF32 | KF64 => CFloat
  end.

Definition kind_bits (k : kind) : N :=
  match k with
  | KU8 | KI8 => 8
  | KU16 | KI16 | KF16 => 16
  | KU32 | KI32 | KF32 => 32
  | KU64 | KI64 | KF64 => 64
  end.

Definition kind_bytes (k : kind) : nat :=
  match k with
  | KU8 | KI8 => 1
  | KU16 | KI16 | KF16 => 2
  | KU32 | KI32 | KF32 => 4
  | KU64 | KI64 | KF64 => 8
  end%nat.

Definition all_kinds : list kind := [KU8; KU16; KU32; KU64; KI8; KI16; KI32; KI64; KF16; KF32; KF64].

(* The eight settings the property quantifies over: the four bases, each
   optionally or-ed with CTEEncodingFormatFlagZeroFilled. *)
Definition all_formats : list N :=
  [cfg_CTEEncodingFormatDecimal; cfg_CTEEncodingFormatDecimal + cfg_CTEEncodingFormatFlagZeroFilled;
   cfg_CTEEncodingFormatBinary; cfg_CTEEncodingFormatBinaryZeroFilled;
   cfg_CTEEncodingFormatOctal; cfg_CTEEncodingFormatOctalZeroFilled;
   cfg_CTEEncodingFormatHexadecimal; cfg_CTEEncodingFormatHexadecimalZeroFilled].

(* encoder_array.go: which tables each begin function indexes *)
Definition headers_of (k : kind) : list bytes :=
  match k with
  | KU8 => arrayHeadersUint8 | KU16 => arrayHeadersUint16 | KU32 => arrayHeadersUint32 | KU64 => arrayHeadersUint64
  | KI8 => arrayHeadersInt8 | KI16 => arrayHeadersInt16 | KI32 => arrayHeadersInt32 | KI64 => arrayHeadersInt64
  | KF16 => arrayHeadersFloat16 | KF32 => arrayHeadersFloat32 | KF64 => arrayHeadersFloat64
  end.

Definition verbs_of (k : kind) : list bytes :=
  match k with
  | KU8 | KI8 => arrayFormats8
  | KU16 | KI16 => arrayFormats16
  | KU32 | KI32 => arrayFormats32
  | KU64 | KI64 => arrayFormats64
  | KF16 | KF32 | KF64 => arrayFormatsGeneral
  end.

(* ------------------------------------------------------------------ *)
(** * Characters and digit strings *)

Definition ch_sp : N := 32.
Definition ch_minus : N := 45.
Definition ch_plus : N := 43.
Definition ch_dot : N := 46.
Definition ch_0 : N := 48.
Definition ch_us : N := 95.      (* '_' *)
Definition ch_rbr : N := 93.     (* ']' *)
Definition ch_lbr : N := 91.     (* '[' *)
Definition ch_at : N := 64.
Definition ch_pct : N := 37.

Definition is_ws (c : N) : bool := (c =? 32) || (c =? 9) || (c =? 10) || (c =? 13).

(* strconv lower(c) = c | 0x20, used only to test for ASCII letters *)
Definition lower (c : N) : N := if (65 <=? c) && (c <=? 90) then c + 32 else c.
Definition upper (c : N) : N := if (97 <=? c) && (c <=? 122) then c - 32 else c.
Definition is_dec (c : N) : bool := (48 <=? c) && (c <=? 57).
Definition is_letter (c : N) : bool := (97 <=? lower c) && (lower c <=? 122).

(* lower-case digit characters (fmt ldigits, strconv digits) *)
Definition digit_char (d : N) : N := if d <? 10 then 48 + d else 87 + d.

(* value of a digit character as strconv.ParseUint computes it *)
Definition digit_val (c : N) : option N :=
  if is_dec c then Some (c - 48)
  else if is_letter c then Some (lower c - 97 + 10)
  else None.

Definition is_digit_of (base : N) (c : N) : bool :=
  match digit_val c with Some d => d <? base | None => false end.

Fixpoint to_digits_aux (fuel : nat) (base n : N) (acc : bytes) : bytes :=
  match fuel with
  | O => acc
  | S f => let acc' := digit_char (n mod base) :: acc in
           if n / base =? 0 then acc' else to_digits_aux f base (n / base) acc'
  end.

(* digits of [n] in [base], most significant first, "0" for 0 *)
Definition to_digits (base n : N) : bytes := to_digits_aux (S (N.to_nat (N.size n))) base n [].

(* accumulate digits; None on a character that is not a digit of the base *)
Fixpoint of_digits_from (base : N) (a : N) (s : bytes) : option N :=
  match s with
  | [] => Some a
  | c :: r => match digit_val c with
              | Some d => if d <? base then of_digits_from base (a * base + d) r else None
              | None => None
              end
  end.
Definition of_digits (base : N) (s : bytes) : option N := of_digits_from base 0 s.

Definition strip_us (s : bytes) : bytes := filter (fun c => negb (c =? ch_us)) s.

Fixpoint span (p : N -> bool) (s : bytes) : bytes * bytes :=
  match s with
  | [] => ([], [])
  | c :: r => if p c then let (a, b) := span p r in (c :: a, b) else ([], s)
  end.

Fixpoint has_prefix (p s : bytes) : bool :=
  match p, s with
  | [], _ => true
  | x :: p', y :: s' => (x =? y) && has_prefix p' s'
  | _ :: _, [] => false
  end.

Definition has_suffix (p s : bytes) : bool := has_prefix (rev p) (rev s).

Fixpoint join_sp (l : list bytes) : bytes :=
  match l with
  | [] => []
  | [x] => x
  | x :: r => x ++ ch_sp :: join_sp r
  end.

Fixpoint map_opt {A B} (f : A -> option B) (l : list A) : option (list B) :=
  match l with
  | [] => Some []
  | x :: r => match f x, map_opt f r with
              | Some y, Some ys => Some (y :: ys)
              | _, _ => None
              end
  end.

(* split little-endian data into element bit patterns *)
Fixpoint elems_of_bytes_aux (fuel : nat) (w : nat) (data : bytes) : list N :=
  match fuel with
  | O => []
  | S f => match data with
           | [] => []
           | _ => le_decode (firstn w data) :: elems_of_bytes_aux f w (skipn w data)
           end
  end.
Definition elems_of_bytes (k : kind) (data : bytes) : list N :=
  elems_of_bytes_aux (length data) (kind_bytes k) data.

Definition bytes_of_elems (k : kind) (xs : list N) : bytes :=
  concat (map (le_encode (kind_bytes k)) xs).

(* ------------------------------------------------------------------ *)
(** * fmt.Sprintf with one verb *)

Inductive directive :=
| DEmpty                                   (* ""           -> %!(EXTRA type=value) *)
| DVerb (zero : bool) (width : N) (c : N)  (* %[0][width]c                          *)
| DOther.                                  (* any other shape: not modelled         *)

Fixpoint eat_dec (s : bytes) (a : N) : N * bytes :=
  match s with
  | c :: r => if is_dec c then eat_dec r (a * 10 + (c - 48)) else (a, s)
  | [] => (a, [])
  end.

Definition parse_directive (v : bytes) : directive :=
  match v with
  | [] => DEmpty
  | c0 :: r =>
      if c0 =? ch_pct then
        let (zero, r1) := match r with
                          | c :: r' => if c =? ch_0 then (true, r') else (false, r)
                          | [] => (false, r)
                          end in
        let (w, r2) := eat_dec r1 0 in
        match r2 with
        | [c] => if is_letter c then DVerb zero w c else DOther
        | _ => DOther
        end
      else DOther
  end.

Definition pad_left (c : N) (width : N) (s : bytes) : bytes :=
  repeat c (N.to_nat width - length s) ++ s.

(* fmt's fmtInteger for an operand of [bits] bits with pattern [x]:
   magnitude digits, zero padding to the width (one less when negative), sign,
   then space padding to the width. *)
Definition go_int_text (signed : bool) (bits x base : N) (zero : bool) (width : N) : bytes :=
  let neg := signed && (2 ^ (bits - 1) <=? x) in
  let mag := if neg then (2 ^ bits - x) mod 2 ^ 64 else x in
  let ds := to_digits base mag in
  let prec := if zero then (if neg then width - 1 else width) else 0 in
  let body := (if neg then [ch_minus] else []) ++ pad_left ch_0 prec ds in
  pad_left ch_sp width body.

Definition int_type_name (k : kind) : bytes :=
  match k with
  | KU8 => s2b "uint8" | KU16 | KU32 => s2b "uint" | KU64 => s2b "uint64"
  | KI8 => s2b "int8" | KI16 => s2b "int16" | KI32 => s2b "int32" | KI64 => s2b "int64"
  | _ => s2b "float64"
  end%string.

Definition verb_base (c : N) : option N :=
  if (c =? 118) || (c =? 100) then Some 10      (* v d *)
  else if c =? 98 then Some 2                     (* b *)
  else if c =? 111 then Some 8                    (* o *)
  else if c =? 120 then Some 16                   (* x *)
  else None.

Definition t_extra_open : bytes := Eval cbv in s2b "%!(EXTRA "%string.

(* Sprintf(verb, integer operand of kind k) *)
Definition go_sprintf_int (k : kind) (d : directive) (x : N) : option bytes :=
  let signed := match kind_class k with CInt => true | _ => false end in
  match d with
  | DEmpty => Some (t_extra_open ++ int_type_name k ++ [61] ++ go_int_text signed (kind_bits k) x 10 false 0 ++ [41])
  | DVerb zero w c => match verb_base c with
                      | Some b => Some (go_int_text signed (kind_bits k) x b zero w)
                      | None => None
                      end
  | DOther => None
  end.

(* ------------------------------------------------------------------ *)
(** * strconv.AppendFloat 'x' / 'b' on float64 bits *)

(* mantissa with the implicit bit and unbiased exponent: value = mant * 2^(exp-52) *)
Definition f64_parts (b : N) : N * Z :=
  let e := f64_expo b in
  let m := f64_mant b in
  if e =? 0 then (m, (-1022)%Z) else (m + p2_52, (Z.of_N e - 1023)%Z).

Definition z_dec_digits (z : Z) : bytes := to_digits 10 (Z.abs_N z).

(* fmtB: mant 'p' sign exp-52 *)
Definition fmt_b (b : N) : bytes :=
  let (mant, exp) := f64_parts b in
  let e := (exp - 52)%Z in
  (if f64_sign b =? 1 then [ch_minus] else []) ++ to_digits 10 mant ++ [112] ++
  (if (0 <=? e)%Z then [ch_plus] else [ch_minus]) ++ z_dec_digits e.

Fixpoint fmtx_norm (fuel : nat) (mant : N) (exp : Z) : N * Z :=
  match fuel with
  | O => (mant, exp)
  | S f => if (mant =? 0) || N.testbit mant 60 then (mant, exp)
           else fmtx_norm f (mant * 2) (exp - 1)%Z
  end.

Fixpoint fmtx_frac (fuel : nat) (mant : N) : bytes :=
  match fuel with
  | O => []
  | S f => if mant =? 0 then []
           else digit_char ((mant / 2 ^ 60) mod 16) :: fmtx_frac f ((mant * 16) mod 2 ^ 64)
  end.

Definition fmtx_exp_digits (e : N) : bytes :=
  if e <? 100 then [48 + e / 10; 48 + e mod 10]
  else if e <? 1000 then [48 + e / 100; 48 + (e / 10) mod 10; 48 + e mod 10]
  else [48 + e / 1000; 48 + (e / 100) mod 10; 48 + (e / 10) mod 10; 48 + e mod 10].

(* fmtX with precision -1: [-]0x1.hhhp+dd, 0x0p+00 for zero *)
Definition fmt_x (b : N) : bytes :=
  let (mant0, exp0) := f64_parts b in
  let exp1 := if mant0 =? 0 then 0%Z else exp0 in
  let (mant, exp) := fmtx_norm 64 (mant0 * 2 ^ 8) exp1 in
  let lead := 48 + (mant / 2 ^ 60) mod 2 in
  let fr := (mant * 16) mod 2 ^ 64 in
  (if f64_sign b =? 1 then [ch_minus] else []) ++ [48; 120; lead] ++
  (if fr =? 0 then [] else ch_dot :: fmtx_frac 16 fr) ++
  [112] ++ (if (exp <? 0)%Z then [ch_minus] else [ch_plus]) ++ fmtx_exp_digits (Z.abs_N exp).

(* ------------------------------------------------------------------ *)
(** * encoder_writer.go: float element writers *)

Definition t_nan : bytes := Eval cbv in s2b "nan"%string.
Definition t_snan : bytes := Eval cbv in s2b "snan"%string.
Definition t_inf : bytes := Eval cbv in s2b "inf"%string.
Definition t_ninf : bytes := Eval cbv in s2b "-inf"%string.
Definition t_p00 : bytes := Eval cbv in s2b "p+00"%string.
Definition t_f64_eq : bytes := Eval cbv in s2b "(float64="%string.
Definition t_f64_eq0 : bytes := Eval cbv in s2b "float64="%string.

Definition write_special (b : N) : option bytes :=
  if f64_is_nan b then Some (if f64_quiet_bit b then t_nan else t_snan)
  else if f64_is_inf b then Some (if f64_sign b =? 1 then t_ninf else t_inf)
  else None.

(* float64(int64(v)) == v on amd64: v is an integer with -2^63 <= v < 2^63 *)
Definition f64_as_int (b : N) : option Z :=
  let (mant, exp) := f64_parts b in
  let sh := (exp - 52)%Z in
  let mag := if (0 <=? sh)%Z then Some (mant * 2 ^ Z.to_N sh)
             else let d := 2 ^ Z.to_N (- sh) in
                  if mant mod d =? 0 then Some (mant / d) else None in
  match mag with
  | Some a => let z := if f64_sign b =? 1 then (- Z.of_N a)%Z else Z.of_N a in
              if ((- 2 ^ 63 <=? z) && (z <? 2 ^ 63))%Z then Some z else None
  | None => None
  end.

(* Writer.WriteInt(v, 16) *)
Definition write_int_hex (z : Z) : bytes :=
  if (0 <=? z)%Z then to_digits 16 (Z.to_N z)
  else ch_minus :: to_digits 16 (Z.to_N (- z) mod 2 ^ 64).

Section FloatText.
  (* strconv.FormatFloat(v, 'g', -1, 64) on the bits of a finite float64 *)
  Variable fmt_g : N -> bytes.

  Definition go_sprintf_float (d : directive) (b : N) : option bytes :=
    match d with
    | DEmpty => Some (t_extra_open ++ t_f64_eq0 ++ fmt_g b ++ [41])
    | DVerb false 0 c =>
        if c =? 118 then Some (fmt_g b)
        else if c =? 98 then Some (fmt_b b)
        else if c =? 120 then Some (fmt_x b)
        else if c =? 111 then Some ([ch_pct; 33; c] ++ t_f64_eq ++ fmt_g b ++ [41])
        else None
    | _ => None
    end.

  (* Writer.WriteFloatUsingFormat *)
  Definition write_float_using_format (d : directive) (b : N) : option bytes :=
    match write_special b with
    | Some t => Some t
    | None => go_sprintf_float d b
    end.

  (* Writer.WriteFloatHexNoPrefix *)
  Definition write_float_hex_noprefix (b : N) : bytes :=
    match write_special b with
    | Some t => t
    | None =>
        if f64_is_zero b then (if f64_sign b =? 1 then [ch_minus; 48] else [48])
        else match f64_as_int b with
             | Some z => write_int_hex z
             | None =>
                 let used := fmt_x b in
                 let used := if has_suffix t_p00 used then firstn (length used - 4) used else used in
                 match used with
                 | c0 :: _ :: _ :: r => if c0 =? ch_minus then ch_minus :: r else skipn 2 used
                 | _ => skipn 2 used
                 end
             end
    end.

  Definition widen (k : kind) (x : N) : N :=
    match k with KF16 => bf16_widen x | KF32 => f32_widen x | _ => x end.

  (* one element as the addElementsFunc of the kind writes it *)
  Definition print_elem (k : kind) (f : N) (x : N) : option bytes :=
    match kind_class k with
    | CFloat =>
        if f =? cfg_CTEEncodingFormatHexadecimal then Some (write_float_hex_noprefix (widen k x))
        else write_float_using_format (parse_directive (nth (N.to_nat f) (verbs_of k) [])) (widen k x)
    | _ => go_sprintf_int k (parse_directive (nth (N.to_nat f) (verbs_of k) [])) x
    end.

  (* EncodeArray with whole-element data: header, elements separated by one
     space, ']'.  Indexing a table beyond its length panics. *)
  Definition print_elems (k : kind) (f : N) (xs : list N) : outcome bytes :=
    if (N.of_nat (length (headers_of k)) <=? f) || (N.of_nat (length (verbs_of k)) <=? f) then Panic
    else match map_opt (print_elem k f) xs with
         | Some ts => Ok (nth (N.to_nat f) (headers_of k) [] ++ join_sp ts ++ [ch_rbr])
         | None => Err   (* a verb shape this model does not cover *)
         end.

  Definition print_array (k : kind) (f : N) (data : bytes) : outcome bytes :=
    print_elems k f (elems_of_bytes k data).
End FloatText.

(* ------------------------------------------------------------------ *)
(** * Lexer: array header and body *)

Inductive amode := MDec | MBin | MOct | MHex.

Definition mode_suffix (m : amode) : bytes :=
  match m with MDec => [] | MBin => [66] | MOct => [79] | MHex => [88] end.

Definition kind_token (k : kind) : bytes :=
  match k with
  | KU8 => s2b "U8" | KU16 => s2b "U16" | KU32 => s2b "U32" | KU64 => s2b "U64"
  | KI8 => s2b "I8" | KI16 => s2b "I16" | KI32 => s2b "I32" | KI64 => s2b "I64"
  | KF16 => s2b "F16" | KF32 => s2b "F32" | KF64 => s2b "F64"
  end%string.

Definition token_exists (k : kind) (m : amode) : bool :=
  existsb (bytes_eqb (kind_token k ++ mode_suffix m)) lexer_array_type_tokens.

Definition all_modes : list amode := [MDec; MBin; MOct; MHex].

(* '@' <kind letters, either case> <base letter, either case>? '[' *)
Definition header_matches (k : kind) (m : amode) (h : bytes) : bool :=
  bytes_eqb (map upper h) ([ch_at] ++ kind_token k ++ mode_suffix m ++ [ch_lbr]).

Definition find_header (h : bytes) : option (kind * amode) :=
  find (fun km => token_exists (fst km) (snd km) && header_matches (fst km) (snd km) h)
       (list_prod all_kinds all_modes).

(* text up to and including the first '[' *)
Fixpoint split_header (s : bytes) : option (bytes * bytes) :=
  match s with
  | [] => None
  | c :: r => if c =? ch_lbr then Some ([c], r)
              else match split_header r with Some (h, b) => Some (c :: h, b) | None => None end
  end.

Definition lex_header (t : bytes) : option (kind * amode * bytes) :=
  match split_header t with
  | Some (h, body) => match find_header h with Some km => Some (km, body) | None => None end
  | None => None
  end.

Definition is_run_char (c : N) : bool := negb (is_ws c || (c =? ch_rbr)).

Fixpoint drop_ws (s : bytes) : bytes :=
  match s with
  | c :: r => if is_ws c then drop_ws r else s
  | [] => []
  end.

(* element tokens (maximal runs without white space and ']') up to the closing
   bracket; the remainder after the bracket is returned *)
Fixpoint tokenize (fuel : nat) (s : bytes) : option (list bytes * bytes) :=
  match fuel with
  | O => None
  | S f =>
      match drop_ws s with
      | [] => None
      | c :: r =>
          if c =? ch_rbr then Some ([], r)
          else let (run, rest) := span is_run_char (c :: r) in
               match tokenize f rest with
               | Some (l, t) => Some (run :: l, t)
               | None => None
               end
      end
  end.

(* DIGITS_x: d ('_'* d)*  *)
Definition digits_ok (isd : N -> bool) (s : bytes) : bool :=
  match s with
  | [] => false
  | c :: _ => isd c && isd (last s 0) && forallb (fun x => isd x || (x =? ch_us)) s
  end.

(* ------------------------------------------------------------------ *)
(** * strconv.ParseUint / ParseInt *)

(* strconv.underscoreOK on a string without sign *)
Fixpoint underscore_ok_loop (hex : bool) (saw : N) (s : bytes) : bool :=
  (* saw: 0 = '^', 1 = digit, 2 = '_', 3 = other *)
  match s with
  | [] => negb (saw =? 2)
  | c :: r =>
      if is_dec c || (hex && (97 <=? lower c) && (lower c <=? 102)) then underscore_ok_loop hex 1 r
      else if c =? ch_us then (if saw =? 1 then underscore_ok_loop hex 2 r else false)
      else if saw =? 2 then false
      else underscore_ok_loop hex 3 r
  end.

Definition underscore_ok (s : bytes) : bool :=
  let s := match s with c :: r => if (c =? ch_minus) || (c =? ch_plus) then r else s | [] => s end in
  match s with
  | c0 :: c1 :: r =>
      if (c0 =? 48) && ((lower c1 =? 98) || (lower c1 =? 111) || (lower c1 =? 120))
      then underscore_ok_loop (lower c1 =? 120) 1 r
      else underscore_ok_loop false 0 s
  | _ => underscore_ok_loop false 0 s
  end.

(* digits with '_' skipped when [base0] *)
Fixpoint parse_uint_digits (base : N) (base0 : bool) (a : N) (s : bytes) : option N :=
  match s with
  | [] => Some a
  | c :: r =>
      if (c =? ch_us) && base0 then parse_uint_digits base base0 a r
      else match digit_val c with
           | Some d => if d <? base then parse_uint_digits base base0 (a * base + d) r else None
           | None => None
           end
  end.

Definition parse_uint_go (s : bytes) (base bits : N) : option N :=
  match s with
  | [] => None
  | c0 :: r0 =>
      let base0 := base =? 0 in
      let '(b, digits) :=
        if base0 then
          if c0 =? 48 then
            match r0 with
            | c1 :: ((_ :: _) as r1) =>
                if lower c1 =? 98 then (2, r1)
                else if lower c1 =? 111 then (8, r1)
                else if lower c1 =? 120 then (16, r1)
                else (8, r0)
            | _ => (8, r0)
            end
          else (10, s)
        else (base, s) in
      match parse_uint_digits b base0 0 digits with
      | Some n => if (n <? 2 ^ bits) && (negb (existsb (N.eqb ch_us) s) || underscore_ok s) then Some n else None
      | None => None
      end
  end.

(* ParseInt, result as the two's complement pattern stored in the array *)
Definition parse_int_go (s : bytes) (base bits : N) : option N :=
  match s with
  | [] => None
  | c :: r =>
      let neg := c =? ch_minus in
      let s' := if neg || (c =? ch_plus) then r else s in
      match parse_uint_go s' base bits with
      | Some un =>
          let cutoff := 2 ^ (bits - 1) in
          if neg then (if cutoff <? un then None else Some ((2 ^ bits - un) mod 2 ^ bits))
          else (if cutoff <=? un then None else Some un)
      | None => None
      end
  end.

Definition mode_base (m : amode) : N := match m with MDec => 0 | MBin => 2 | MOct => 8 | MHex => 16 end.

(* token shape of an integer element in the given mode *)
Definition int_token_ok (signed : bool) (m : amode) (s : bytes) : bool :=
  let s := match s with c :: r => if signed && (c =? ch_minus) then r else s | [] => s end in
  match m with
  | MBin => digits_ok (is_digit_of 2) s
  | MOct => digits_ok (is_digit_of 8) s
  | MHex => digits_ok (is_digit_of 16) s
  | MDec =>
      digits_ok is_dec s ||
      match s with
      | c0 :: c1 :: r =>
          (c0 =? 48) &&
          (((lower c1 =? 98) && digits_ok (is_digit_of 2) r) ||
           ((lower c1 =? 111) && digits_ok (is_digit_of 8) r) ||
           ((lower c1 =? 120) && digits_ok (is_digit_of 16) r))
      | _ => false
      end
  end.

(* parser.go stripDecimalLeadingZeros: after an optional sign, a zero is dropped
   together with the separators that follow it while a decimal digit comes next
   ("010" -> "10", "0_10" -> "10", "00_8" -> "8", "00" -> "0"; "0x1f", "0" and
   "0_" unchanged), so that strconv's base-0 mode does not read a decimal
   element as legacy octal *)
Fixpoint drop_us (s : bytes) : bytes :=
  match s with
  | c :: r => if c =? ch_us then drop_us r else s
  | [] => []
  end.

Fixpoint strip_zeros_aux (fuel : nat) (s : bytes) : bytes :=
  match fuel with
  | O => s
  | S f =>
      match s with
      | c0 :: r =>
          if c0 =? ch_0 then
            match drop_us r with
            | c1 :: r1 => if is_dec c1 then strip_zeros_aux f (c1 :: r1) else s
            | [] => s
            end
          else s
      | [] => s
      end
  end.

Definition strip_zeros (s : bytes) : bytes := strip_zeros_aux (length s) s.

Definition strip_dec_leading_zeros (s : bytes) : bytes :=
  match s with
  | c :: r => if (c =? ch_minus) || (c =? ch_plus) then c :: strip_zeros r else strip_zeros s
  | [] => []
  end.

(* parseUintElement / parseIntElement: only arrays without a base letter in the
   header (base 0) strip leading zeros *)
Definition elem_text (m : amode) (s : bytes) : bytes :=
  match m with MDec => strip_dec_leading_zeros s | _ => s end.

Definition read_int_elem (k : kind) (m : amode) (s : bytes) : option N :=
  match kind_class k with
  | CUint => if int_token_ok false m s then parse_uint_go (elem_text m s) (mode_base m) (kind_bits k) else None
  | CInt => if int_token_ok true m s then parse_int_go (elem_text m s) (mode_base m) (kind_bits k) else None
  | CFloat => None
  end.

(* ------------------------------------------------------------------ *)
(** * Float elements *)

Record fnum := { fn_neg : bool; fn_int : bytes; fn_frac : bytes; fn_exp : option (bool * bytes) }.

(* NEG? [0x]? DIGITS ('.' DIGITS)? (expchar [+-]? DIGITS_DEC)?  -- whole string *)
Definition scan_float (hex prefixed : bool) (s : bytes) : option fnum :=
  let isd := if hex then is_digit_of 16 else is_dec in
  let isdu := fun c => isd c || (c =? ch_us) in
  let expc := if hex then 112 else 101 in
  let '(neg, s1) := match s with c :: r => if c =? ch_minus then (true, r) else (false, s) | [] => (false, s) end in
  let s2 := if prefixed then
              match s1 with
              | c0 :: c1 :: r => if (c0 =? 48) && (lower c1 =? 120) then Some r else None
              | _ => None
              end
            else Some s1 in
  match s2 with
  | None => None
  | Some s2 =>
      let (ip, s3) := span isdu s2 in
      if negb (digits_ok isd ip) then None else
      let '(fp, s4, fok) :=
        match s3 with
        | c :: r => if c =? ch_dot then let (fp, s4) := span isdu r in (fp, s4, digits_ok isd fp)
                    else ([], s3, true)
        | [] => ([], s3, true)
        end in
      if negb fok then None else
      match s4 with
      | [] => Some {| fn_neg := neg; fn_int := ip; fn_frac := fp; fn_exp := None |}
      | c :: r =>
          if lower c =? expc then
            let '(eneg, r1) := match r with
                               | c' :: r' => if c' =? ch_minus then (true, r')
                                             else if c' =? ch_plus then (false, r') else (false, r)
                               | [] => (false, r)
                               end in
            if digits_ok is_dec r1
            then Some {| fn_neg := neg; fn_int := ip; fn_frac := fp; fn_exp := Some (eneg, r1) |}
            else None
          else None
      end
  end.

(* strconv.readFloat exponent accumulation: stops growing at 10000 *)
Fixpoint exp_accum (a : N) (s : bytes) : N :=
  match s with
  | [] => a
  | c :: r => exp_accum (if a <? 10000 then a * 10 + (c - 48) else a) r
  end.

Record ffmt := { ff_p : N; ff_emin : Z; ff_expbits : N }.
Definition ff64 : ffmt := {| ff_p := 53; ff_emin := (-1022)%Z; ff_expbits := 11 |}.
Definition ff32 : ffmt := {| ff_p := 24; ff_emin := (-126)%Z; ff_expbits := 8 |}.

(* round-to-nearest-even of M / 2^s, s > 0 *)
Definition rne_shift (M s : N) : N :=
  let q := M / 2 ^ s in
  let r := M mod 2 ^ s in
  let half := 2 ^ (s - 1) in
  if r <? half then q else if half <? r then q + 1 else if N.even q then q else q + 1.

(* M * 2^E correctly rounded: (mantissa m, exponent q of its last bit) *)
Definition round_bin (F : ffmt) (M : N) (E : Z) : N * Z :=
  let p := Z.of_N (ff_p F) in
  let qmin := (ff_emin F - (p - 1))%Z in
  let l := Z.of_N (N.log2 M) in
  let q := Z.max (l + E - (p - 1)) qmin in
  let sh := (q - E)%Z in
  let m := if (sh <=? 0)%Z then M * 2 ^ Z.to_N (- sh) else rne_shift M (Z.to_N sh) in
  if m =? 2 ^ ff_p F then (2 ^ (ff_p F - 1), (q + 1)%Z) else (m, q).

(* magnitude bit pattern; None on overflow (strconv range error) *)
Definition assemble (F : ffmt) (m : N) (q : Z) : option N :=
  if m <? 2 ^ (ff_p F - 1) then Some m
  else let field := (q + (Z.of_N (ff_p F) - 1) - ff_emin F + 1)%Z in
       if (Z.of_N (2 ^ ff_expbits F - 1) <=? field)%Z then None
       else Some (Z.to_N field * 2 ^ (ff_p F - 1) + (m - 2 ^ (ff_p F - 1))).

(* strconv.ParseFloat on "0x<int>.<frac>p<exp>" (sign stripped) *)
Definition parse_hex_mag (F : ffmt) (n : fnum) : option N :=
  let ip := strip_us (fn_int n) in
  let fp := strip_us (fn_frac n) in
  match of_digits 16 (ip ++ fp) with
  | None => None
  | Some M =>
      let e := match fn_exp n with
               | Some (eneg, ds) => let a := Z.of_N (exp_accum 0 (strip_us ds)) in if eneg then (- a)%Z else a
               | None => 0%Z
               end in
      let E := (e - 4 * Z.of_nat (length fp))%Z in
      let (m, q) := round_bin F M E in
      assemble F m q
  end.

Definition all_zero_digits (s : bytes) : bool := forallb (fun c => (c =? 48) || (c =? ch_us)) s.

(* the text denotes zero (parser.go isFloatZero) *)
Definition fnum_is_zero (n : fnum) : bool := all_zero_digits (fn_int n) && all_zero_digits (fn_frac n).

(* text parser.go hands to strconv for a decimal element: sign and '_' removed *)
Definition dec_text (s : bytes) : bytes :=
  strip_us (match s with c :: r => if c =? ch_minus then r else s | [] => s end).

(* canonical special values written by ExitArrayElemNan / Snan / Inf / Ninf *)
Definition special_bits (k : kind) (which : N) : N :=
  (* which: 0 nan, 1 snan, 2 inf, 3 -inf *)
  match k with
  | KF16 => nth (N.to_nat which) [0x7fe0; 0x7fa0; 0x7f80; 0xff80] 0
  | KF32 => nth (N.to_nat which) [0x7fe00000; 0x7fa00000; 0x7f800000; 0xff800000] 0
  | _ => nth (N.to_nat which) [0x7ffc000000000000; 0x7ff4000000000000; 0x7ff0000000000000; 0xfff0000000000000] 0
  end.

Section FloatRead.
  (* strconv.ParseFloat(text, bits) on decimal text without sign: the float32 /
     float64 bit pattern, None when it reports an error *)
  Variable parse_dec : N -> bytes -> option N.

  (* parser.go parseFloatElement after the strconv call: zero result for
     non-zero text is rejected; sign applied; float16 keeps the top half *)
  Definition finish_float (k : kind) (neg : bool) (is_zero_text : bool) (mag : option N) : option N :=
    match mag with
    | None => None
    | Some v =>
        if (v =? 0) && negb is_zero_text then None
        else match k with
             | KF16 => Some ((if neg then v + p2_31 else v) / 65536)
             | KF32 => Some (if neg then v + p2_31 else v)
             | _ => Some (if neg then v + p2_63 else v)
             end
    end.

  Definition float_ffmt (k : kind) : ffmt := match k with KF64 => ff64 | _ => ff32 end.
  Definition float_parse_bits (k : kind) : N := match k with KF64 => 64 | _ => 32 end.

  Definition read_hex_float (k : kind) (n : fnum) : option N :=
    finish_float k (fn_neg n) (fnum_is_zero n) (parse_hex_mag (float_ffmt k) n).

  Definition read_float_elem (k : kind) (m : amode) (s : bytes) : option N :=
    let ls := map lower s in
    if bytes_eqb ls t_nan then Some (special_bits k 0)
    else if bytes_eqb ls t_snan then Some (special_bits k 1)
    else if bytes_eqb ls t_inf then Some (special_bits k 2)
    else if bytes_eqb ls t_ninf then Some (special_bits k 3)
    else match m with
         | MHex => match scan_float true false s with
                   | Some n => read_hex_float k n
                   | None => None
                   end
         | MDec => match scan_float false false s with
                   | Some n => finish_float k (fn_neg n) (fnum_is_zero n) (parse_dec (float_parse_bits k) (dec_text s))
                   | None => match scan_float true true s with
                             | Some n => read_hex_float k n
                             | None => None
                             end
                   end
         | _ => None
         end.

  Definition read_elem (k : kind) (m : amode) (s : bytes) : option N :=
    match kind_class k with
    | CFloat => read_float_elem k m s
    | _ => read_int_elem k m s
    end.

  (* The decoder on the text of one typed array: kind and element patterns. *)
  Definition read_elems (t : bytes) : outcome (kind * list N) :=
    match lex_header t with
    | None => Err
    | Some (k, m, body) =>
        match tokenize (S (length body)) body with
        | Some (runs, []) =>
            match map_opt (read_elem k m) runs with
            | Some xs => Ok (k, xs)
            | None => Err
            end
        | _ => Err
        end
    end.

  (* ... as the OnArray event reports it: kind and little-endian data *)
  Definition read_array (t : bytes) : outcome (kind * bytes) :=
    match read_elems t with
    | Ok (k, xs) => Ok (k, bytes_of_elems k xs)
    | Err => Err | Panic => Panic | Hang => Hang
    end.
End FloatRead.

(* ------------------------------------------------------------------ *)
(** * The property's vocabulary *)

(* What "the same element" means: NaNs keep only their quiet/signalling kind,
   because CTE text has exactly the two spellings nan and snan. *)
Definition canon_elem (k : kind) (x : N) : N :=
  match k with
  | KF16 => if bf16_is_nan x then (if f32_quiet_bit (x * 65536) then special_bits k 0 else special_bits k 1) else x
  | KF32 => if f32_is_nan x then (if f32_quiet_bit x then special_bits k 0 else special_bits k 1) else x
  | KF64 => if f64_is_nan x then (if f64_quiet_bit x then special_bits k 0 else special_bits k 1) else x
  | _ => x
  end.

(* settings under which the written text is read back (see Proofs) *)
Definition supported_fmt (k : kind) (f : N) : bool :=
  match kind_class k with
  | CFloat => (f =? cfg_CTEEncodingFormatDecimal) || (f =? cfg_CTEEncodingFormatHexadecimal)
  | _ => (f =? cfg_CTEEncodingFormatDecimal) ||
         (f =? cfg_CTEEncodingFormatBinary) || (f =? cfg_CTEEncodingFormatBinaryZeroFilled) ||
         (f =? cfg_CTEEncodingFormatOctal) || (f =? cfg_CTEEncodingFormatOctalZeroFilled) ||
         (f =? cfg_CTEEncodingFormatHexadecimal) || (f =? cfg_CTEEncodingFormatHexadecimalZeroFilled)
  end.

(* write, then read *)
Definition roundtrip (fmt_g : N -> bytes) (parse_dec : N -> bytes -> option N)
           (k : kind) (f : N) (xs : list N) : outcome (kind * list N) :=
  outcome_bind (print_elems fmt_g k f xs) (read_elems parse_dec).

Definition elems_wf (k : kind) (xs : list N) : Prop := Forall (fun x => x < 2 ^ kind_bits k) xs.
Definition elems_wfb (k : kind) (xs : list N) : bool := forallb (fun x => x <? 2 ^ kind_bits k) xs.

(* ------------------------------------------------------------------ *)
(** * Correspondence cases *)

Fixpoint lookup_g (tab : list (N * bytes)) (b : N) : bytes :=
  match tab with
  | [] => []
  | (b', t) :: r => if b' =? b then t else lookup_g r b
  end.

Fixpoint lookup_p (tab : list (N * bytes * option N)) (bits : N) (t : bytes) : option N :=
  match tab with
  | [] => None
  | (bits', t', v) :: r => if (bits' =? bits) && bytes_eqb t' t then v else lookup_p r bits t
  end.

Definition outcome_eqb {A} (eqb : A -> A -> bool) (a b : outcome A) : bool :=
  match a, b with
  | Ok x, Ok y => eqb x y
  | Err, Err | Panic, Panic | Hang, Hang => true
  | _, _ => false
  end.

Inductive ctearrfmt_case :=
(* encoder: kind, format setting, array data, what strconv 'g' gives for the
   float64 values involved (recorded by the harness from strconv itself), and
   the text the encoder wrote after the document header (Panic when it panicked) *)
| EncCase (k : kind) (f : N) (data : bytes) (gtab : list (N * bytes)) (impl : outcome bytes)
(* decoder: array text, what strconv.ParseFloat gives for the decimal element
   texts involved, and the array event delivered (Err when decoding failed) *)
| DecCase (text : bytes) (ptab : list (N * bytes * option N)) (impl : outcome (kind * bytes))
(* the two strconv functions the model keeps abstract, on one finite float of
   kind k: 'g' text of the widened value, ParseFloat of that text *)
| StrconvCase (k : kind) (x : N) (gtext : bytes) (parsed : option N).

(* hypotheses of the decimal-float theorem, checked on one sample *)
Definition strconv_sample_ok (k : kind) (x : N) (gtext : bytes) (parsed : option N) : bool :=
  let neg := 2 ^ (kind_bits k - 1) <=? x in
  let body := match gtext with c :: r => if c =? ch_minus then r else gtext | [] => gtext end in
  Bool.eqb (has_prefix [ch_minus] gtext) neg &&
  match scan_float false false gtext with
  | Some n => Bool.eqb (fn_neg n) neg && negb (existsb (N.eqb ch_us) gtext) &&
              Bool.eqb (fnum_is_zero n) (x mod 2 ^ (kind_bits k - 1) =? 0)
  | None => false
  end &&
  forallb is_run_char gtext &&
  negb (bytes_eqb body []) &&
  negb (existsb (bytes_eqb (map lower gtext)) [t_nan; t_snan; t_inf; t_ninf]) &&
  option_eqb N.eqb parsed (Some (match k with KF16 => (x mod 2 ^ 15) * 65536 | _ => x mod 2 ^ (kind_bits k - 1) end)).

(* an element that is written as a number (not nan / snan / inf / -inf) *)
Definition float_finite (k : kind) (x : N) : bool :=
  match kind_class k with
  | CFloat => match write_special (widen k x) with None => true | Some _ => false end
  | _ => false
  end.

(* "on the finite elements of this array the two strconv functions behave as
   they do on every sample": the hypothesis of the decimal-float theorem *)
Definition strconv_ok_on (fmt_g : N -> bytes) (parse_dec : N -> bytes -> option N) (k : kind) (xs : list N) : Prop :=
  Forall (fun x => float_finite k x = true ->
                   strconv_sample_ok k x (fmt_g (widen k x))
                     (parse_dec (float_parse_bits k) (dec_text (fmt_g (widen k x)))) = true) xs.

Definition ctearrfmt_case_ok (c : ctearrfmt_case) : bool :=
  match c with
  | EncCase k f data gtab impl => outcome_eqb bytes_eqb (print_array (lookup_g gtab) k f data) impl
  | DecCase text ptab impl =>
      outcome_eqb (fun a b => kind_eqb (fst a) (fst b) && bytes_eqb (snd a) (snd b))
                  (read_array (lookup_p ptab) text) impl
  | StrconvCase k x gtext parsed => strconv_sample_ok k x gtext parsed
  end.
