(* Denotation of event streams: the formal reading of "an equivalent stream carrying the same data"
   used by the round-trip properties (C01, C02, C03, C06, C09, C22, C23); DESIGN.md section 3.
   - integers and decimal floats denote the same kind of number: sign, coefficient without trailing
     decimal zeros, decimal exponent (equal by value whatever the event form);
   - a finite non-zero binary float denotes its bit pattern; zero of any numeric kind denotes the
     number 0 (resp. negative 0) — the one cross-kind identification the codecs make;
   - NaN keeps only quiet/signalling; infinities are shared by binary and decimal floats;
   - nil big numbers denote null; boolean events of either form denote the boolean;
   - an array denotes its type, element count and complete contents however it was delivered
     (whole event, string-like event, or begin / chunk / data events with any chunking);
   - everything structural denotes itself. *)
From CE Require Export Model.Events Gen.RulesConsts.
Open Scope N_scope.

Inductive dev :=
| DBeginDoc | DEndDoc | DVersion (v : N) | DPadding | DComment (multi : bool) (text : bytes)
| DNull | DBool (b : bool)
| DNum (neg : bool) (coef : N) (exp : Z)
| DBin (bits : N)
| DBigBin (neg : bool) (mant : N) (exp : Z)        (* big float that is not a float64: odd mantissa *)
| DInfinity (neg : bool) | DNan (signaling : bool)
| DUid (b : bytes) | DTime (s : bytes)
| DList | DMap | DRecordType (id : bytes) | DRecord (id : bytes) | DEdge | DNode | DEnd
| DMarker (id : bytes) | DRef (id : bytes)
| DArr (t : arrty) (count : N) (data : bytes)
| DMedia (mt : bytes) (data : bytes)
| DCustom (text : bool) (ct : N) (data : bytes)
| DMalformed.                                     (* chunk / data events outside an array etc. *)

(* strip trailing decimal zeros: fuel bounds the number of divisions (log10 coef < size coef) *)
Fixpoint strip10 (fuel : nat) (c : N) (e : Z) : N * Z :=
  match fuel with
  | O => (c, e)
  | S f => if (c =? 0) then (0, 0%Z)
           else if (c mod 10 =? 0) then strip10 f (c / 10) (e + 1)%Z else (c, e)
  end.
Definition dnum (neg : bool) (c : N) (e : Z) : dev :=
  if c =? 0 then DNum neg 0 0%Z
  else let '(c', e') := strip10 (N.to_nat (N.size c)) c e in DNum neg c' e'.

Definition dfloat_den (d : dfloat) : dev :=
  match d with
  | DFin neg c e => dnum neg c e
  | DInf neg => DInfinity neg
  | DQNan => DNan false
  | DSNan => DNan true
  end.

(* strip trailing binary zeros of a big-float mantissa *)
Fixpoint strip2 (fuel : nat) (m : N) (e : Z) : N * Z :=
  match fuel with
  | O => (m, e)
  | S f => if (m =? 0) then (0, 0%Z) else if N.even m then strip2 f (m / 2) (e + 1)%Z else (m, e)
  end.

Definition f64_den (bits : N) : dev :=
  if f64_is_nan bits then DNan (negb (f64_quiet_bit bits))
  else if (f64_exp bits =? 2047) then DInfinity (N.testbit bits 63)
  else if (N.land bits (2 ^ 63 - 1) =? 0) then DNum (N.testbit bits 63) 0 0%Z
  else DBin bits.

(* the float64 bit pattern of (-1)^neg * m * 2^e for odd m, when that value is exactly a float64 *)
Definition bigfloat_to_f64 (neg : bool) (m : N) (e : Z) : option N :=
  let sz := Z.of_N (N.size m) in                       (* m has sz bits, sz >= 1 *)
  let ex := (e + sz - 1)%Z in                          (* unbiased exponent of the leading bit *)
  let sign := if neg then 2 ^ 63 else 0 in
  if (53 <? sz)%Z then None
  else if (1023 <? ex)%Z then None
  else if (-1022 <=? ex)%Z then
    (* normal: mantissa field = m shifted so that its leading bit is bit 52, minus that bit *)
    Some (sign + Z.to_N (ex + 1023) * 2 ^ 52 + (N.shiftl m (Z.to_N (53 - sz)) - 2 ^ 52))
  else if (e <? -1074)%Z then None
  else Some (sign + N.shiftl m (Z.to_N (e + 1074))).  (* subnormal *)

Definition bigfloat_den (b : bigfloat) : dev :=
  match b with
  | BInf neg => DInfinity neg
  | BFin neg m e _ =>
      if m =? 0 then DNum neg 0 0%Z
      else let '(m', e') := strip2 (N.to_nat (N.size m)) m e in
           match bigfloat_to_f64 neg m' e' with
           | Some bits => DBin bits
           | None => DBigBin neg m' e'
           end
  end.

(* array in progress: what the begin event announced, and the bytes / elements so far *)
Inductive akind := AkArr (t : arrty) | AkMedia (mt : bytes) | AkCustom (text : bool) (ct : N).
Record apart := { ap_kind : akind; ap_count : N; ap_data : bytes; ap_remaining : N; ap_last : bool; ap_inchunk : bool }.

Definition finish_array (a : apart) : dev :=
  match ap_kind a with
  | AkArr t => DArr t (ap_count a) (ap_data a)
  | AkMedia mt => DMedia mt (ap_data a)
  | AkCustom tx ct => DCustom tx ct (ap_data a)
  end.

Definition elem_bits_of (k : akind) : N :=
  match k with
  | AkArr t => nth (N.to_nat t) array_elem_bits 8
  | _ => 8
  end.
Definition chunk_bytes_of (k : akind) (n : N) : N :=
  let bits := elem_bits_of k in
  if bits =? 1 then (n + 7) / 8 else n * bits / 8.

Definition whole_count (t : arrty) (count : N) (data : bytes) : N :=
  (* string-like and byte arrays are counted in bytes *)
  if (nth (N.to_nat t) array_elem_bits 8 =? 8) then N.of_nat (length data) else count.

Fixpoint den_go (a : option apart) (es : list event) : list dev :=
  match es with
  | [] => match a with Some _ => [DMalformed] | None => [] end
  | e :: r =>
    match a with
    | Some ap =>
      match e with
      | EArrayChunk n more =>
          if ap_inchunk ap then DMalformed :: den_go None r
          else if n =? 0 then
            (if more then den_go (Some ap) r else finish_array ap :: den_go None r)
          else den_go (Some {| ap_kind := ap_kind ap; ap_count := ap_count ap + n; ap_data := ap_data ap;
                               ap_remaining := chunk_bytes_of (ap_kind ap) n; ap_last := negb more; ap_inchunk := true |}) r
      | EArrayData d =>
          if negb (ap_inchunk ap) || (ap_remaining ap <? N.of_nat (length d)) then DMalformed :: den_go None r
          else
            let rem := ap_remaining ap - N.of_nat (length d) in
            let ap' := {| ap_kind := ap_kind ap; ap_count := ap_count ap; ap_data := ap_data ap ++ d;
                          ap_remaining := rem; ap_last := ap_last ap; ap_inchunk := negb (rem =? 0) |} in
            if (rem =? 0) && ap_last ap then finish_array ap' :: den_go None r else den_go (Some ap') r
      | EComment m t => DComment m t :: den_go (Some ap) r
      | _ => DMalformed :: den_go None r
      end
    | None =>
      let one d := d :: den_go None r in
      let start k := den_go (Some {| ap_kind := k; ap_count := 0; ap_data := []; ap_remaining := 0; ap_last := false; ap_inchunk := false |}) r in
      match e with
      | EBeginDoc => one DBeginDoc | EEndDoc => one DEndDoc | EVersion v => one (DVersion v)
      | EPadding => one DPadding | EComment m t => one (DComment m t)
      | ENull | EBigInt None | EBigFloat None | EBigDecimal None => one DNull
      | EBool b => one (DBool b) | ETrue => one (DBool true) | EFalse => one (DBool false)
      | EPosInt n => one (dnum false n 0)
      | ENegInt n => one (dnum true n 0)
      | EInt z => one (dnum (z <? 0)%Z (Z.abs_N z) 0)
      | EBigInt (Some z) => one (dnum (z <? 0)%Z (Z.abs_N z) 0)
      | EFloat bits => one (f64_den bits)
      | EBigFloat (Some b) => one (bigfloat_den b)
      | EDecimal d => one (dfloat_den d)
      | EBigDecimal (Some d) => one (dfloat_den d)
      | ENan s => one (DNan s)
      | EUid b => one (DUid b) | ETime s => one (DTime s)
      | EList => one DList | EMap => one DMap | ERecordType id => one (DRecordType id) | ERecord id => one (DRecord id)
      | EEdge => one DEdge | ENode => one DNode | EEnd => one DEnd
      | EMarker id => one (DMarker id) | ERefLocal id => one (DRef id)
      | EArray t count data => one (DArr t (whole_count t count data) data)
      | EStringArray t data => one (DArr t (N.of_nat (length data)) data)
      | EMedia mt data => one (DMedia mt data)
      | ECustomBin ct data => one (DCustom false ct data)
      | ECustomText ct data => one (DCustom true ct data)
      | EArrayBegin t => start (AkArr t)
      | EMediaBegin mt => start (AkMedia mt)
      | ECustomBegin t ct => start (AkCustom (t =? AT_CustomText) ct)
      | EArrayChunk _ _ | EArrayData _ => one DMalformed
      end
    end
  end.

Definition den (es : list event) : list dev := den_go None es.

Definition is_comment (d : dev) : bool := match d with DComment _ _ => true | _ => false end.
Definition is_padding (d : dev) : bool := match d with DPadding => true | _ => false end.
Definition no_comments (l : list dev) : list dev := filter (fun d => negb (is_comment d)) l.
Definition no_padding (l : list dev) : list dev := filter (fun d => negb (is_padding d)) l.

Definition dev_eqb (a b : dev) : bool :=
  match a, b with
  | DBeginDoc, DBeginDoc | DEndDoc, DEndDoc | DPadding, DPadding | DNull, DNull | DList, DList | DMap, DMap
  | DEdge, DEdge | DNode, DNode | DEnd, DEnd | DMalformed, DMalformed => true
  | DVersion x, DVersion y | DBin x, DBin y => x =? y
  | DComment m1 t1, DComment m2 t2 => Bool.eqb m1 m2 && bytes_eqb t1 t2
  | DBool x, DBool y | DInfinity x, DInfinity y | DNan x, DNan y => Bool.eqb x y
  | DNum n1 c1 e1, DNum n2 c2 e2 | DBigBin n1 c1 e1, DBigBin n2 c2 e2 => Bool.eqb n1 n2 && (c1 =? c2) && (e1 =? e2)%Z
  | DUid x, DUid y | DTime x, DTime y | DRecordType x, DRecordType y | DRecord x, DRecord y
  | DMarker x, DMarker y | DRef x, DRef y => bytes_eqb x y
  | DArr t1 c1 d1, DArr t2 c2 d2 => (t1 =? t2) && (c1 =? c2) && bytes_eqb d1 d2
  | DMedia m1 d1, DMedia m2 d2 => bytes_eqb m1 m2 && bytes_eqb d1 d2
  | DCustom x1 c1 d1, DCustom x2 c2 d2 => Bool.eqb x1 x2 && (c1 =? c2) && bytes_eqb d1 d2
  | _, _ => false
  end.

(* correspondence case: the Go twin of [den] (harness den.go) must agree with this function *)
Definition den_case := (list event * list dev)%type.
Definition den_case_ok (k : den_case) : bool := list_eqb dev_eqb (den (fst k)) (snd k).

Example bigfloat_to_f64_examples :
  bigfloat_to_f64 false 1 0 = Some 4607182418800017408 /\        (* 1.0 *)
  bigfloat_to_f64 true 3 (-1) = Some 13832806255468478464 /\     (* -1.5 *)
  bigfloat_to_f64 false 1 (-1074) = Some 1 /\                    (* smallest subnormal *)
  bigfloat_to_f64 false 1 (-1022) = Some 4503599627370496 /\     (* smallest normal *)
  bigfloat_to_f64 false 1 1024 = None /\ bigfloat_to_f64 false 1 (-1075) = None /\
  bigfloat_to_f64 false (2 ^ 53 + 1) 0 = None.
Proof. vm_compute. repeat split. Qed.
