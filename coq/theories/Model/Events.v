(* Events: one constructor per DataEventReceiver method (ce/events/events.go),
   with the payload the method receives.  Binary floats are their 64-bit
   patterns; a time is represented by its canonical string (compact_time
   Time.String()), which is what the validator keys on; array types are the
   numeric values of events.ArrayType (named constants in Gen/RulesConsts.v). *)
From CE Require Export Base.Prelude.
Open Scope N_scope.

Definition arrty := N.

(* compact_float.DFloat / apd.Decimal: finite = (-1)^neg * coef * 10^exp *)
Inductive dfloat :=
| DFin (neg : bool) (coef : N) (exp : Z)
| DInf (neg : bool)
| DQNan
| DSNan.

(* big.Float: (-1)^neg * mant * 2^exp with precision prec, or infinity *)
Inductive bigfloat :=
| BFin (neg : bool) (mant : N) (exp : Z) (prec : N)
| BInf (neg : bool).

Inductive event :=
| EBeginDoc | EEndDoc | EVersion (v : N) | EPadding | EComment (multi : bool) (text : bytes)
| ENull | EBool (b : bool) | ETrue | EFalse
| EPosInt (n : N) | ENegInt (n : N) | EInt (z : Z) | EBigInt (v : option Z)
| EFloat (bits : N) | EBigFloat (v : option bigfloat)
| EDecimal (d : dfloat) | EBigDecimal (v : option dfloat)
| ENan (signaling : bool) | EUid (b : bytes) | ETime (s : bytes)
| EList | EMap | ERecordType (id : bytes) | ERecord (id : bytes) | EEdge | ENode | EEnd
| EMarker (id : bytes) | ERefLocal (id : bytes)
| EArray (t : arrty) (count : N) (data : bytes)
| EStringArray (t : arrty) (data : bytes)
| EMedia (mediatype : bytes) (data : bytes)
| ECustomBin (ct : N) (data : bytes)
| ECustomText (ct : N) (data : bytes)
| EArrayBegin (t : arrty) | EMediaBegin (mediatype : bytes) | ECustomBegin (t : arrty) (ct : N)
| EArrayChunk (n : N) (more : bool) | EArrayData (data : bytes).

Definition dfloat_eqb (a b : dfloat) : bool :=
  match a, b with
  | DFin n1 c1 e1, DFin n2 c2 e2 => Bool.eqb n1 n2 && (c1 =? c2) && (e1 =? e2)%Z
  | DInf n1, DInf n2 => Bool.eqb n1 n2
  | DQNan, DQNan | DSNan, DSNan => true
  | _, _ => false
  end.

Definition bigfloat_eqb (a b : bigfloat) : bool :=
  match a, b with
  | BFin n1 m1 e1 p1, BFin n2 m2 e2 p2 => Bool.eqb n1 n2 && (m1 =? m2) && (e1 =? e2)%Z && (p1 =? p2)
  | BInf n1, BInf n2 => Bool.eqb n1 n2
  | _, _ => false
  end.

Definition event_eqb (a b : event) : bool :=
  match a, b with
  | EBeginDoc, EBeginDoc | EEndDoc, EEndDoc | EPadding, EPadding | ENull, ENull
  | ETrue, ETrue | EFalse, EFalse | EList, EList | EMap, EMap | EEdge, EEdge
  | ENode, ENode | EEnd, EEnd => true
  | EVersion x, EVersion y | EPosInt x, EPosInt y | ENegInt x, ENegInt y | EFloat x, EFloat y => x =? y
  | EComment m1 t1, EComment m2 t2 => Bool.eqb m1 m2 && bytes_eqb t1 t2
  | EBool x, EBool y | ENan x, ENan y => Bool.eqb x y
  | EInt x, EInt y => (x =? y)%Z
  | EBigInt x, EBigInt y => option_eqb Z.eqb x y
  | EBigFloat x, EBigFloat y => option_eqb bigfloat_eqb x y
  | EDecimal x, EDecimal y => dfloat_eqb x y
  | EBigDecimal x, EBigDecimal y => option_eqb dfloat_eqb x y
  | EUid x, EUid y | ETime x, ETime y | ERecordType x, ERecordType y | ERecord x, ERecord y
  | EMarker x, EMarker y | ERefLocal x, ERefLocal y | EMediaBegin x, EMediaBegin y
  | EArrayData x, EArrayData y => bytes_eqb x y
  | EArray t1 c1 d1, EArray t2 c2 d2 => (t1 =? t2) && (c1 =? c2) && bytes_eqb d1 d2
  | EStringArray t1 d1, EStringArray t2 d2 => (t1 =? t2) && bytes_eqb d1 d2
  | EMedia m1 d1, EMedia m2 d2 => bytes_eqb m1 m2 && bytes_eqb d1 d2
  | ECustomBin c1 d1, ECustomBin c2 d2 | ECustomText c1 d1, ECustomText c2 d2 => (c1 =? c2) && bytes_eqb d1 d2
  | EArrayBegin x, EArrayBegin y => x =? y
  | ECustomBegin t1 c1, ECustomBegin t2 c2 => (t1 =? t2) && (c1 =? c2)
  | EArrayChunk n1 m1, EArrayChunk n2 m2 => (n1 =? n2) && Bool.eqb m1 m2
  | _, _ => false
  end.

(* IEEE-754 binary64 classification on bit patterns *)
Definition f64_exp (b : N) : N := N.land (N.shiftr b 52) 2047.
Definition f64_mant (b : N) : N := N.land b (2 ^ 52 - 1).
Definition f64_is_nan (b : N) : bool := (f64_exp b =? 2047) && negb (f64_mant b =? 0).
Definition f64_quiet_bit (b : N) : bool := N.testbit b 51.
