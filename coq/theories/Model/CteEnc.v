(* The CTE encoder as an event-stream consumer: what text
   cte.EncoderEventReceiver writes for a sequence of DataEventReceiver calls.

   Transliterated from the current tree:
     /repo/cte/encoder.go             one case of [step] per On* method
     /repo/cte/encoder_context.go     indenter, decorator stack, ContainerHasObjects,
                                      IsAtOrigin & co, array begin / completion glue
     /repo/cte/encoder_decorators.go  the eleven decorators ([deco])
     /repo/cte/encoder_writer.go      Writer: which writes advance Writer.Column and
                                      which do not (FlushBuffer* based ones do not),
                                      integer / float / UID / quoted-string / hex writers
     /repo/cte/encoder_array.go       arrayEncoderEngine: reset, begin ops, BeginChunk,
                                      AddArrayData (partial element kept in
                                      arrayChunkLeftover until the next data event),
                                      addBooleanArrayData (bits rendered per data event),
                                      string buffer, media / custom begin ops
     /repo/cte/escapes.go             escapeCharQuoted, unicodeEscape
     /repo/internal/chars             IsRuneSafeFor(r, SafetyString): regenerated table
                                      Gen/CteCharTables.v [string_unsafe_intervals]
     strconv.AppendFloat(v,'x',-1,64) [fmt_x] (concrete), strconv.AppendUint, fmt %v %b %o %x
                                      with zero fill for the integer array elements.

   The engine state is kept even when no array is open (the Go fields are never
   cleared either), so stray chunk / data events do what the code does; uint64
   counters wrap with an explicit [mod 2^64]; a Go panic (nil decorator, nil
   addElementsFunc, slice bounds, unknown array type, UID length) is [None].

   NOT modelled concretely, text supplied with the configuration ([cf_text], an
   association list keyed by the event; absent key = [None]):
     finite non-zero big.Float (text of value.Append(buf,'x',-1) of math/big; the
     encoder's exponent stripping is modelled), finite compact_float.DFloat
     (value.Text('g')) and finite apd.Decimal (value.Append(buf,'g')).
   A time is the text of compact_time.Time.String() carried by the event; the
   encoder's WriteTime is compared against it by the correspondence run.
   Float array elements are modelled for the hexadecimal format only (the
   default); integer array elements for all seven valid formats.

   Two ghost fields that do not influence the text: [dirty] is set when a
   media / custom-binary array begins (WriteHexBytes does not advance Column, the
   separator written between two data events does, so Column after such an
   array depends on how the data was split) and cleared by the next line feed;
   [bad] records that IsAtOrigin was evaluated while [dirty].

   Executable definitions only; proofs are in Proofs/CteEncProofs.v. *)
From CE Require Export Base.Prelude Base.Utf8 Base.LE Model.Events Gen.RulesConsts Gen.CteCharTables.
From CE Require Model.FloatBits.
Require Coq.Strings.String Coq.Strings.Ascii.
Import String.StringSyntax.
Delimit Scope string_scope with string.
Open Scope N_scope.

Definition s2b (s : String.string) : bytes :=
  List.map Ascii.N_of_ascii (String.list_ascii_of_string s).

(* ------------------------------------------------------------------ *)
(** * Digits *)

Definition digit_char (d : N) : N := if d <? 10 then 48 + d else 87 + d.

Fixpoint to_digits_aux (fuel : nat) (base n : N) (acc : bytes) : bytes :=
  match fuel with
  | O => acc
  | S f => let acc' := digit_char (n mod base) :: acc in
           if n / base =? 0 then acc' else to_digits_aux f base (n / base) acc'
  end.
(* strconv.AppendUint(n, base) *)
Definition to_digits (base n : N) : bytes := to_digits_aux (S (N.to_nat (N.size n))) base n [].
Definition dec (n : N) : bytes := to_digits 10 n.

(* Writer.WriteHexByte / WriteHexBytes *)
Definition hex2 (b : N) : bytes := [digit_char (b / 16); digit_char (b mod 16)].
Fixpoint hexbytes (d : bytes) : bytes :=
  match d with
  | [] => []
  | [b] => hex2 b
  | b :: r => hex2 b ++ 32 :: hexbytes r
  end.

Definition t_null : bytes := Eval cbv in s2b "null"%string.
Definition t_true : bytes := Eval cbv in s2b "true"%string.
Definition t_false : bytes := Eval cbv in s2b "false"%string.
Definition t_nan : bytes := Eval cbv in s2b "nan"%string.
Definition t_snan : bytes := Eval cbv in s2b "snan"%string.
Definition t_inf : bytes := Eval cbv in s2b "inf"%string.
Definition t_ninf : bytes := Eval cbv in s2b "-inf"%string.
Definition t_p00 : bytes := Eval cbv in s2b "p+00"%string.
Definition t_uidhdr : bytes := Eval cbv in s2b "@uid["%string.
Definition t_bithdr : bytes := Eval cbv in s2b "@b["%string.
Definition sp4 : bytes := [32; 32; 32; 32].

(* ------------------------------------------------------------------ *)
(** * Configuration *)

Inductive nkind := NU8 | NU16 | NU32 | NU64 | NI8 | NI16 | NI32 | NI64 | NF16 | NF32 | NF64 | NUID.

Record ccfg := {
  cf_fmts : list N;                 (* DefaultNumericFormats.Array: u8 u16 u32 u64 i8 i16 i32 i64 f16 f32 f64 *)
  cf_text : list (event * bytes)    (* text of the scalars that are not modelled concretely *)
}.
Definition default_ccfg : ccfg := {| cf_fmts := cte_default_array_formats; cf_text := [] |}.

Definition nk_index (k : nkind) : nat :=
  match k with
  | NU8 => 0 | NU16 => 1 | NU32 => 2 | NU64 => 3 | NI8 => 4 | NI16 => 5 | NI32 => 6 | NI64 => 7
  | NF16 => 8 | NF32 => 9 | NF64 => 10 | NUID => 11
  end%nat.
Definition cfg_fmt (c : ccfg) (k : nkind) : N := nth (nk_index k) (cf_fmts c) 0.

Fixpoint lookup_text (tab : list (event * bytes)) (e : event) : option bytes :=
  match tab with
  | [] => None
  | (k, t) :: r => if event_eqb k e then Some t else lookup_text r e
  end.

Definition nkind_of (t : N) : option nkind :=
  if t =? AT_Uint8 then Some NU8 else if t =? AT_Uint16 then Some NU16
  else if t =? AT_Uint32 then Some NU32 else if t =? AT_Uint64 then Some NU64
  else if t =? AT_Int8 then Some NI8 else if t =? AT_Int16 then Some NI16
  else if t =? AT_Int32 then Some NI32 else if t =? AT_Int64 then Some NI64
  else if t =? AT_Float16 then Some NF16 else if t =? AT_Float32 then Some NF32
  else if t =? AT_Float64 then Some NF64 else if t =? AT_UID then Some NUID
  else None.

Definition nk_width (k : nkind) : nat :=
  match k with
  | NU8 | NI8 => 1 | NU16 | NI16 | NF16 => 2 | NU32 | NI32 | NF32 => 4 | NU64 | NI64 | NF64 => 8 | NUID => 16
  end%nat.

(* ------------------------------------------------------------------ *)
(** * Integer array elements: fmt.Sprintf(verb, value) *)

Definition pad_left (c : N) (width : nat) (s : bytes) : bytes := repeat c (width - length s) ++ s.

(* fmt's fmtInteger on an operand of [bits] bits with bit pattern [x] *)
Definition go_int_text (signed : bool) (bits x base : N) (zero_width : nat) : bytes :=
  let neg := signed && (2 ^ (bits - 1) <=? x) in
  let mag := if neg then (2 ^ bits - x) mod 2 ^ 64 else x in
  let prec := if neg then (zero_width - 1)%nat else zero_width in
  (if neg then [45] else []) ++ pad_left 48 prec (to_digits base mag).

(* arrayFormats8/16/32/64: base and zero-fill width for a format setting *)
Definition int_verb (bits : N) (f : N) : option (N * nat) :=
  if f =? cte_fmt_decimal then Some (10, O)
  else if f =? cte_fmt_binary then Some (2, O)
  else if f =? cte_fmt_binary_zf then Some (2, N.to_nat bits)
  else if f =? cte_fmt_octal then Some (8, O)
  else if f =? cte_fmt_octal_zf then Some (8, N.to_nat ((bits + 2) / 3))
  else if f =? cte_fmt_hex then Some (16, O)
  else if f =? cte_fmt_hex_zf then Some (16, N.to_nat (bits / 4))
  else None.

(* arrayHeaders*: the letter after the element type *)
Definition fmt_suffix (f : N) : option bytes :=
  if f =? cte_fmt_decimal then Some []
  else if (f =? cte_fmt_binary) || (f =? cte_fmt_binary_zf) then Some [98]
  else if (f =? cte_fmt_octal) || (f =? cte_fmt_octal_zf) then Some [111]
  else if (f =? cte_fmt_hex) || (f =? cte_fmt_hex_zf) then Some [120]
  else None.

Definition nk_name (k : nkind) : bytes :=
  match k with
  | NU8 => s2b "@u8"%string | NU16 => s2b "@u16"%string | NU32 => s2b "@u32"%string | NU64 => s2b "@u64"%string
  | NI8 => s2b "@i8"%string | NI16 => s2b "@i16"%string | NI32 => s2b "@i32"%string | NI64 => s2b "@i64"%string
  | NF16 => s2b "@f16"%string | NF32 => s2b "@f32"%string | NF64 => s2b "@f64"%string | NUID => s2b "@uid"%string
  end.

Definition num_header (c : ccfg) (k : nkind) : option bytes :=
  match k with
  | NUID => Some t_uidhdr
  | _ => match fmt_suffix (cfg_fmt c k) with
         | Some sfx => Some (nk_name k ++ sfx ++ [91])
         | None => None
         end
  end.

(* ------------------------------------------------------------------ *)
(** * Binary floats: strconv 'x' and the two float writers *)

(* mantissa with the implicit bit and unbiased exponent: value = mant * 2^(exp-52) *)
Definition f64_parts (b : N) : N * Z :=
  let e := FloatBits.f64_expo b in
  let m := FloatBits.f64_mant b in
  if e =? 0 then (m, (-1022)%Z) else (m + FloatBits.p2_52, (Z.of_N e - 1023)%Z).

Fixpoint fmtx_norm (fuel : nat) (mant : N) (exp : Z) : N * Z :=
  match fuel with
  | O => (mant, exp)
  | S f => if (mant =? 0) || N.testbit mant 60 then (mant, exp)
           else fmtx_norm f (mant * 2) (exp - 1)%Z
  end.

Fixpoint fmtx_frac (fuel : nat) (mant : N) : bytes :=
  match fuel with
  | O => []
  | S f => if mant =? 0 then []
           else digit_char ((mant / 2 ^ 60) mod 16) :: fmtx_frac f ((mant * 16) mod 2 ^ 64)
  end.

Definition fmtx_exp_digits (e : N) : bytes :=
  if e <? 100 then [48 + e / 10; 48 + e mod 10]
  else if e <? 1000 then [48 + e / 100; 48 + (e / 10) mod 10; 48 + e mod 10]
  else [48 + e / 1000; 48 + (e / 100) mod 10; 48 + (e / 10) mod 10; 48 + e mod 10].

(* strconv.AppendFloat(v, 'x', -1, 64): [-]0x1.hhhp±dd *)
Definition fmt_x (b : N) : bytes :=
  let (mant0, exp0) := f64_parts b in
  let exp1 := if mant0 =? 0 then 0%Z else exp0 in
  let (mant, exp) := fmtx_norm 64 (mant0 * 2 ^ 8) exp1 in
  let lead := 48 + (mant / 2 ^ 60) mod 2 in
  let fr := (mant * 16) mod 2 ^ 64 in
  (if FloatBits.f64_sign b =? 1 then [45] else []) ++ [48; 120; lead] ++
  (if fr =? 0 then [] else 46 :: fmtx_frac 16 fr) ++
  [112] ++ (if (exp <? 0)%Z then [45] else [43]) ++ fmtx_exp_digits (Z.abs_N exp).

(* text and Column advance of the nan / inf cases shared by the float writers *)
Definition float_special (b : N) : option bytes :=
  if FloatBits.f64_is_nan b then Some (if FloatBits.f64_quiet_bit b then t_nan else t_snan)
  else if FloatBits.f64_is_inf b then Some (if FloatBits.f64_sign b =? 1 then t_ninf else t_inf)
  else None.

Definition zlen (b : bytes) : Z := Z.of_nat (length b).

(* Writer.WriteFloat: (text, Column advance) *)
Definition write_float (b : N) : bytes * Z :=
  match float_special b with
  | Some t => (t, zlen t)
  | None => if FloatBits.f64_is_zero b then ((if FloatBits.f64_sign b =? 1 then [45; 48] else [48]), 0%Z)
            else (fmt_x b, 0%Z)
  end.

(* float64(int64(v)) == v on amd64: v is an integer with -2^63 <= v < 2^63 *)
Definition f64_as_int (b : N) : option Z :=
  let (mant, exp) := f64_parts b in
  let sh := (exp - 52)%Z in
  let mag := if (0 <=? sh)%Z then (if (sh <? 64)%Z then Some (mant * 2 ^ Z.to_N sh) else None)
             else let d := 2 ^ Z.to_N (- sh) in
                  if mant mod d =? 0 then Some (mant / d) else None in
  match mag with
  | Some a => let z := if FloatBits.f64_sign b =? 1 then (- Z.of_N a)%Z else Z.of_N a in
              if ((- 2 ^ 63 <=? z) && (z <? 2 ^ 63))%Z then Some z else None
  | None => None
  end.

Fixpoint has_prefix (p s : bytes) : bool :=
  match p, s with
  | [], _ => true
  | x :: p', y :: s' => (x =? y) && has_prefix p' s'
  | _, [] => false
  end.
Definition has_suffix (p s : bytes) : bool := has_prefix (rev p) (rev s).

(* Writer.WriteFloatHexNoPrefix: (text, Column advance) *)
Definition write_float_hex_noprefix (b : N) : bytes * Z :=
  match float_special b with
  | Some t => (t, zlen t)
  | None =>
      if FloatBits.f64_is_zero b then ((if FloatBits.f64_sign b =? 1 then [45; 48] else [48]), 0%Z)
      else match f64_as_int b with
           | Some z => if (0 <=? z)%Z then (to_digits 16 (Z.to_N z), 0%Z)
                       else (45 :: to_digits 16 (Z.to_N (- z) mod 2 ^ 64), 1%Z)
           | None =>
               let used := fmt_x b in
               let used := if has_suffix t_p00 used then firstn (length used - 4) used else used in
               (match used with
                | c0 :: _ :: _ :: r => if c0 =? 45 then 45 :: r else skipn 2 used
                | _ => skipn 2 used
                end, 0%Z)
           end
  end.

(* ------------------------------------------------------------------ *)
(** * One numeric array element: (text, Column advance) *)

Definition uid_text (u : bytes) : bytes :=
  let h := fun i => hex2 (nth i u 0) in
  h 0%nat ++ h 1%nat ++ h 2%nat ++ h 3%nat ++ [45] ++ h 4%nat ++ h 5%nat ++ [45] ++ h 6%nat ++ h 7%nat ++ [45] ++
  h 8%nat ++ h 9%nat ++ [45] ++ h 10%nat ++ h 11%nat ++ h 12%nat ++ h 13%nat ++ h 14%nat ++ h 15%nat.

Definition num_elem (c : ccfg) (k : nkind) (e : bytes) : option (bytes * Z) :=
  let x := le_decode e in
  let int := fun (signed : bool) (bits : N) =>
    match int_verb bits (cfg_fmt c k) with
    | Some (base, zw) => let t := go_int_text signed bits x base zw in Some (t, zlen t)
    | None => None
    end in
  let flt := fun (w : N) =>
    if cfg_fmt c k =? cte_fmt_hex then Some (write_float_hex_noprefix w) else None in
  match k with
  | NU8 => int false 8 | NU16 => int false 16 | NU32 => int false 32 | NU64 => int false 64
  | NI8 => int true 8 | NI16 => int true 16 | NI32 => int true 32 | NI64 => int true 64
  | NF16 => flt (FloatBits.bf16_widen x)
  | NF32 => flt (FloatBits.f32_widen x)
  | NF64 => flt x
  | NUID => Some (uid_text e, 4%Z)
  end.

(* ------------------------------------------------------------------ *)
(** * Quoted strings *)

Fixpoint in_intervals (iv : list (N * N)) (r : N) : bool :=
  match iv with
  | [] => false
  | (lo, hi) :: rest => if r <? lo then false else if r <=? hi then true else in_intervals rest r
  end.
(* chars.IsRuneSafeFor(r, chars.SafetyString) *)
Definition rune_safe (r : N) : bool := negb (in_intervals string_unsafe_intervals r).

(* utf8.EncodeRune on a valid code point *)
Definition encode_rune (r : N) : bytes :=
  if r <? 128 then [r]
  else if r <? 2048 then [192 + r / 64; 128 + r mod 64]
  else if r <? 65536 then [224 + r / 4096; 128 + (r / 64) mod 64; 128 + r mod 64]
  else [240 + r / 262144; 128 + (r / 4096) mod 64; 128 + (r / 64) mod 64; 128 + r mod 64].

(* escapeCharQuoted *)
Definition escape_rune (r : N) : bytes :=
  if r =? 9 then [92; 116] else if r =? 13 then [92; 114] else if r =? 10 then [92; 110]
  else if r =? 34 then [92; 34] else if r =? 42 then [92; 42] else if r =? 47 then [92; 47]
  else if r =? 92 then [92; 92]
  else [92; 91] ++ to_digits 16 r ++ [93].

(* ------------------------------------------------------------------ *)
(** * Encoder state *)

Inductive deco := DTop | DList | DMapKey | DMapValue | DRecordType | DRecord | DConcat | DEdge
                | DNodeValue | DNodeChildren | DNSArray.

(* what addElementsFunc / arrayElementBitWidth currently are *)
Inductive akind := KNil | KBit | KStr | KHex | KNum (k : nkind).
(* what onComplete currently does before calling the context's completion *)
Inductive acomp := CNil | CEnd | CQuoted (lf : bool).
(* the context's completion *)
Inductive aouter := ONone | OAfter | OUnstackAfter.

Record eng := {
  ek : akind; erem : N; ehw : bool; emore : bool; eleft : bytes; ebuf : bytes; ecomp : acomp; eouter : aouter
}.

Record est := {
  rout : bytes;          (* bytes written so far, last first *)
  col : Z;               (* Writer.Column *)
  ind : N;               (* len(indenter.indent) *)
  stack : list deco;     (* decorator stack, current first *)
  cho : bool;            (* ContainerHasObjects *)
  en : eng;              (* arrayEncoderEngine *)
  dirty : bool;          (* ghost *)
  bad : bool             (* ghost *)
}.

Definition eng0 : eng :=
  {| ek := KNil; erem := 0; ehw := false; emore := false; eleft := []; ebuf := []; ecomp := CNil; eouter := ONone |}.
Definition est0 : est :=
  {| rout := []; col := 0; ind := 0; stack := []; cho := false; en := eng0; dirty := false; bad := false |}.

Definition set_stack (st : list deco) (s : est) : est :=
  {| rout := rout s; col := col s; ind := ind s; stack := st; cho := cho s; en := en s; dirty := dirty s; bad := bad s |}.
Definition set_ind (i : N) (s : est) : est :=
  {| rout := rout s; col := col s; ind := i; stack := stack s; cho := cho s; en := en s; dirty := dirty s; bad := bad s |}.
Definition set_cho (b : bool) (s : est) : est :=
  {| rout := rout s; col := col s; ind := ind s; stack := stack s; cho := b; en := en s; dirty := dirty s; bad := bad s |}.
Definition set_en (e : eng) (s : est) : est :=
  {| rout := rout s; col := col s; ind := ind s; stack := stack s; cho := cho s; en := e; dirty := dirty s; bad := bad s |}.
Definition set_dirty (s : est) : est :=
  {| rout := rout s; col := col s; ind := ind s; stack := stack s; cho := cho s; en := en s; dirty := true; bad := bad s |}.
Definition push (d : deco) (s : est) : est := set_stack (d :: stack s) s.

(* ---- Writer primitives ---- *)

(* write [bs]; Column advances by [d] *)
Definition emit_cd (bs : bytes) (d : Z) (s : est) : est :=
  {| rout := rev_append bs (rout s); col := (col s + d)%Z; ind := ind s; stack := stack s; cho := cho s; en := en s;
     dirty := dirty s; bad := bad s |}.
(* WriteByteNotLF / WriteBytesNotLF / WriteStringNotLF / WriteFmtNotLF *)
Definition emit_nolf (bs : bytes) (s : est) : est := emit_cd bs (zlen bs) s.
(* FlushBufferNotLF and friends: Column untouched *)
Definition emit_raw (bs : bytes) (s : est) : est := emit_cd bs 0 s.
(* write [bs]; Column becomes [c] *)
Definition emit_setcol (bs : bytes) (c : Z) (s : est) : est :=
  {| rout := rev_append bs (rout s); col := c; ind := ind s; stack := stack s; cho := cho s; en := en s;
     dirty := false; bad := bad s |}.
Definition emit_lf (s : est) : est := emit_setcol [10] 0 s.

(* number of bytes after the last line feed, if there is one *)
Fixpoint plf_col (bs : bytes) : option Z :=
  match bs with
  | [] => None
  | b :: r => match plf_col r with
              | Some k => Some k
              | None => if b =? 10 then Some (zlen r) else None
              end
  end.
(* WriteBytesPossibleLF / WriteStringPossibleLF: Column changes only when a line feed is present *)
Definition emit_plf (bs : bytes) (s : est) : est :=
  match plf_col bs with
  | Some k => emit_setcol bs k s
  | None => emit_raw bs s
  end.
(* WriteRunePossibleLF / WriteRuneNotLF *)
Definition emit_rune (lf : bool) (r : N) (s : est) : est :=
  if lf && (r =? 10) then emit_setcol [10] 0 s else emit_nolf (encode_rune r) s.

(* ---- Column readers ---- *)
Definition note_read (s : est) : est :=
  {| rout := rout s; col := col s; ind := ind s; stack := stack s; cho := cho s; en := en s; dirty := dirty s;
     bad := bad s || dirty s |}.
Definition at_origin (s : est) : bool := (col s =? Z.of_N (ind s) - 4)%Z.

Definition spaces (n : N) : bytes := repeat 32 (N.to_nat n).
Definition newline_indent (s : est) : est := emit_nolf (spaces (ind s)) (emit_lf s).
Definition indent_if_origin (s : est) : est :=
  let s := note_read s in if at_origin s then emit_nolf sp4 s else s.
Definition return_to_origin (s : est) : est :=
  let s := note_read s in if at_origin s then s else emit_nolf (spaces (ind s - 4)) (emit_lf s).

(* Writer.WriteQuotedString / WriteQuotedStringBytes (same behaviour) *)
Definition write_quoted (lf : bool) (v : bytes) (s : est) : est :=
  match v with
  | [] => emit_nolf [34; 34] s
  | _ =>
      let rs := runes v in
      if forallb rune_safe rs
      then emit_nolf [34] ((if lf then emit_plf v else emit_nolf v) (emit_nolf [34] s))
      else emit_nolf [34]
             (fold_left (fun s r => if rune_safe r then emit_rune lf r s else emit_nolf (escape_rune r) s)
                        rs (emit_nolf [34] s))
  end.

(* ---- Decorators ---- *)

Definition before_value (s : est) : option est :=
  match stack s with
  | [] => None
  | d :: _ => Some match d with
                   | DTop | DMapValue | DConcat => s
                   | DNodeValue => indent_if_origin s
                   | _ => newline_indent s
                   end
  end.

Definition before_comment (s : est) : option est :=
  match stack s with
  | [] => None
  | d :: _ => Some match d with
                   | DTop | DMapValue | DConcat | DNodeValue => s
                   | _ => newline_indent s
                   end
  end.

Definition after_comment (s : est) : option est :=
  match stack s with
  | [] => None
  | d :: _ => Some (set_cho true match d with
                                 | DTop | DMapValue | DNSArray => newline_indent s
                                 | DNodeValue => return_to_origin s
                                 | _ => s
                                 end)
  end.

(* Decorator.AfterValue on the stack: new stack, and whether " = " is written *)
Fixpoint after_stack (st : list deco) : option (list deco * bool) :=
  match st with
  | [] => None
  | DConcat :: r => match r with [] => None | _ => after_stack r end
  | DMapKey :: r => Some (DMapValue :: r, true)
  | DMapValue :: r => Some (DMapKey :: r, false)
  | DNodeValue :: r => Some (DNodeChildren :: r, false)
  | _ => Some (st, false)
  end.

Definition after_value (s : est) : option est :=
  match after_stack (stack s) with
  | None => None
  | Some (st, sep) => Some (set_cho true (set_stack st (if sep then emit_nolf [32; 61; 32] s else s)))
  end.

Definition unstack (s : est) : option est :=
  match stack s with
  | _ :: ((_ :: _) as st) => Some (set_stack st s)
  | _ => None
  end.

Definition unindent (s : est) : option est :=
  if ind s <? 4 then None else Some (set_ind (ind s - 4) s).

Definition bind {A B} (o : option A) (f : A -> option B) : option B :=
  match o with Some a => f a | None => None end.

Definition close_container (closer : N) (s : est) : option est :=
  bind (unindent s) (fun s =>
  let s := if cho s then newline_indent s else s in
  bind (unstack (emit_nolf [closer] s)) after_value).

Definition end_container (s : est) : option est :=
  match stack s with
  | [] => None
  | DTop :: _ | DMapValue :: _ => Some s
  | DConcat :: _ | DNodeValue :: _ => None
  | DRecordType :: _ =>
      bind (unindent s) (fun s =>
      let s := if cho s then newline_indent s else s in
      bind (unstack (emit_nolf [62] s)) (fun s => Some (newline_indent s)))
  | DList :: _ | DNSArray :: _ => close_container 93 s
  | DMapKey :: _ | DRecord :: _ => close_container 125 s
  | DEdge :: _ | DNodeChildren :: _ => close_container 41 s
  end.

Definition open_container (reset_cho : bool) (opener : bytes) (d : deco) (s : est) : option est :=
  bind (before_value s) (fun s =>
  let s := if reset_cho then set_cho false s else s in
  Some (push d (set_ind (ind s + 4) (emit_nolf opener s)))).

(* a scalar: BeforeValue, write, AfterValue *)
Definition scalar (t : bytes) (d : Z) (s : est) : option est :=
  bind (before_value s) (fun s => after_value (emit_cd t d s)).

(* ------------------------------------------------------------------ *)
(** * Array engine *)

Definition set_ek k (e : eng) := {| ek := k; erem := erem e; ehw := ehw e; emore := emore e; eleft := eleft e; ebuf := ebuf e; ecomp := ecomp e; eouter := eouter e |}.
Definition set_erem r (e : eng) := {| ek := ek e; erem := r; ehw := ehw e; emore := emore e; eleft := eleft e; ebuf := ebuf e; ecomp := ecomp e; eouter := eouter e |}.
Definition set_ehw b (e : eng) := {| ek := ek e; erem := erem e; ehw := b; emore := emore e; eleft := eleft e; ebuf := ebuf e; ecomp := ecomp e; eouter := eouter e |}.
Definition set_emore b (e : eng) := {| ek := ek e; erem := erem e; ehw := ehw e; emore := b; eleft := eleft e; ebuf := ebuf e; ecomp := ecomp e; eouter := eouter e |}.
Definition set_eleft l (e : eng) := {| ek := ek e; erem := erem e; ehw := ehw e; emore := emore e; eleft := l; ebuf := ebuf e; ecomp := ecomp e; eouter := eouter e |}.
Definition set_ebuf l (e : eng) := {| ek := ek e; erem := erem e; ehw := ehw e; emore := emore e; eleft := eleft e; ebuf := l; ecomp := ecomp e; eouter := eouter e |}.

(* reset() followed by the assignments of a begin op *)
Definition eng_begin (k : akind) (cm : acomp) (o : aouter) (e : eng) : eng :=
  {| ek := k; erem := 0; ehw := false; emore := emore e; eleft := []; ebuf := []; ecomp := cm; eouter := o |}.

Definition upd_en (f : eng -> eng) (s : est) : est := set_en (f (en s)) s.

(* endArray: onComplete, then the context's completion *)
Definition end_array (s : est) : option est :=
  bind match ecomp (en s) with
       | CNil => None
       | CEnd => Some (emit_nolf [93] s)
       | CQuoted lf => Some (write_quoted lf (ebuf (en s)) s)
       end (fun s =>
  match eouter (en s) with
  | ONone => Some s
  | OAfter => after_value s
  | OUnstackAfter => bind (unstack s) after_value
  end).

(* BeginChunk *)
Definition begin_chunk (n : N) (more : bool) (s : est) : option est :=
  let s := upd_en (fun e => set_emore more (set_erem n e)) s in
  if (n =? 0) && negb more then end_array s else Some s.

(* writeSpaceIfNotFirstElement *)
Definition space_if_hw (s : est) : est :=
  upd_en (set_ehw true) (if ehw (en s) then emit_nolf [32] s else s).

Fixpoint split_elems (w : nat) (fuel : nat) (d : bytes) : list bytes :=
  match fuel with
  | O => []
  | S f => match d with
           | [] => []
           | _ => firstn w d :: split_elems w f (skipn w d)
           end
  end.

(* the addElementsFunc of a numeric / UID array applied to whole elements *)
Fixpoint emit_elems (c : ccfg) (k : nkind) (es : list bytes) (s : est) : option est :=
  match es with
  | [] => Some s
  | e :: r => match num_elem c k e with
              | Some (t, d) => emit_elems c k r (emit_cd t d (space_if_hw s))
              | None => None
              end
  end.

(* addElementsFunc(data) *)
Definition add_elems (c : ccfg) (d : bytes) (s : est) : option est :=
  match ek (en s) with
  | KNil | KBit => None
  | KStr => Some (upd_en (fun e => set_ebuf (ebuf e ++ d) e) s)
  | KHex => Some (emit_raw (hexbytes d) (space_if_hw s))
  | KNum k => emit_elems c k (split_elems (nk_width k) (length d) d) s
  end.

Definition ak_width (k : akind) : nat :=
  match k with KNil | KBit => 0 | KStr | KHex => 1 | KNum k => nk_width k end%nat.

Definition bit_char (b : N) (i : N) : N := if N.testbit b i then 49 else 48.
Definition bits_of (b : N) (n : nat) : bytes := map (fun i => bit_char b (N.of_nat i)) (seq 0 n).

(* addBooleanArrayData: text written and the new remaining count *)
Fixpoint bool_data (r : N) (d : bytes) : bytes * N :=
  match d with
  | [] => ([], r)
  | b :: rest =>
      if 8 <=? r then let (o, r') := bool_data (r - 8) rest in (bits_of b 8 ++ o, r')
      else if 0 <? r then (bits_of b (N.to_nat r), 0)
      else ([], r)
  end.

Definition finish_if_done (s : est) : option est :=
  if (erem (en s) =? 0) && negb (emore (en s)) then end_array s else Some s.

Definition wrap64 (z : Z) : N := Z.to_N (z mod 2 ^ 64).

(* AddArrayData *)
Definition add_data (c : ccfg) (d : bytes) (s : est) : option est :=
  match ek (en s) with
  | KNil => None
  | KBit =>
      let (o, r') := bool_data (erem (en s)) d in
      finish_if_done (upd_en (set_erem r') (emit_nolf o s))
  | k =>
      let w := ak_width k in
      let tail := fun (d : bytes) (s : est) =>
        bind (add_elems c d s) (fun s =>
        finish_if_done (upd_en (fun e => set_erem (wrap64 (Z.of_N (erem e) - Z.of_nat (length d / w))) e) s)) in
      if (1 <? w)%nat then
        let lo := eleft (en s) in
        let split_tail := fun (d : bytes) (s : est) =>
          let rc := N.to_nat (N.land (N.of_nat (length d)) (N.of_nat w - 1)) in
          if (rc =? 0)%nat then tail d s
          else tail (firstn (length d - rc) d)
                    (upd_en (fun e => set_eleft (eleft e ++ skipn (length d - rc) d) e) s) in
        match lo with
        | [] => split_tail d s
        | _ =>
            if (w <? length lo)%nat then None else
            let fill := (w - length lo)%nat in
            if (length d <? fill)%nat then Some (upd_en (set_eleft (lo ++ d)) s)
            else
              bind (add_elems c (lo ++ firstn fill d) s) (fun s =>
              split_tail (skipn fill d)
                (upd_en (fun e => set_eleft [] (set_erem (wrap64 (Z.of_N (erem e) - 1)) e)) s))
        end
      else tail d s
  end.

(* ---- context glue ---- *)

Definition is_string_type (t : N) : bool :=
  (t =? AT_String) || (t =? AT_ResourceID) || (t =? AT_ReferenceRemote) || (t =? AT_CustomText).

(* arrayEncodeBeginOps[t] applied after reset(); [None]: nil entry or index out of range *)
Definition engine_begin_array (c : ccfg) (t : N) (o : aouter) (s : est) : option est :=
  if t =? AT_Bit then Some (emit_nolf t_bithdr (upd_en (eng_begin KBit CEnd o) s))
  else if t =? AT_String then Some (upd_en (eng_begin KStr (CQuoted true) o) s)
  else if t =? AT_ResourceID then Some (emit_nolf [64] (upd_en (eng_begin KStr (CQuoted false) o) s))
  else if t =? AT_ReferenceRemote then Some (emit_nolf [36] (upd_en (eng_begin KStr (CQuoted false) o) s))
  else match nkind_of t with
       | Some k => match num_header c k with
                   | Some h => Some (emit_nolf h (upd_en (eng_begin (KNum k) CEnd o) s))
                   | None => None
                   end
       | None => None
       end.

(* EncoderContext.BeginArray *)
Definition ctx_begin_array (c : ccfg) (t : N) (s : est) : option est :=
  if is_string_type t then engine_begin_array c t OAfter s
  else engine_begin_array c t OUnstackAfter (push DNSArray s).

Definition at_prefix (body : bytes) : bytes := 64 :: body.

(* ------------------------------------------------------------------ *)
(** * Scalars that carry library text *)

(* Column advance of WriteTime on the text of the time *)
Definition is_digit (c : N) : bool := (48 <=? c) && (c <=? 57).
Fixpoint skip_digits (t : bytes) : bytes :=
  match t with
  | c :: r => if is_digit c then skip_digits r else t
  | [] => []
  end.
Fixpoint time_cd (colons : nat) (t : bytes) : Z :=
  match t with
  | [] => 0
  | c :: r =>
      if is_digit c then time_cd colons r
      else if (colons <? 2)%nat then Z.succ (time_cd (if c =? 58 then S colons else colons) r)
      else if c =? 46 then Z.succ (zlen (skip_digits r))
      else zlen t
  end.

(* Writer.WriteBigFloat on the text [u] of value.Append(buf, 'x', -1): a trailing
   exponent "p?00" is dropped (the sign character is not looked at). *)
Definition bigfloat_strip (u : bytes) : bytes :=
  if (3 <? length u)%nat then
    let e := (length u - 4)%nat in
    if (nth e u 0 =? 112) && (nth (e + 2) u 0 =? 48) && (nth (e + 3) u 0 =? 48) then firstn e u else u
  else u.

Definition dfloat_special (d : dfloat) : option bytes :=
  match d with
  | DInf true => Some t_ninf | DInf false => Some t_inf | DQNan => Some t_nan | DSNan => Some t_snan
  | DFin _ _ _ => None
  end.

(* ------------------------------------------------------------------ *)
(** * One event *)

Definition step (c : ccfg) (s : est) (e : event) : option est :=
  match e with
  | EBeginDoc => Some (emit_nolf [99] (set_stack [DTop] (set_ind 0 s)))
  | EEndDoc | EPadding => Some s
  | EVersion v => Some (newline_indent (emit_raw (dec v) s))
  | EComment multi text =>
      bind (before_comment s) (fun s =>
      let s := emit_nolf (if multi then [47; 42] else [47; 47]) s in
      let s := if multi then emit_nolf [42; 47] (emit_plf text s) else emit_nolf text s in
      after_comment s)
  | ENull => scalar t_null 4 s
  | EBool b => if b then scalar t_true 4 s else scalar t_false 5 s
  | ETrue => scalar t_true 4 s
  | EFalse => scalar t_false 5 s
  | EPosInt n => scalar (dec n) 0 s
  | ENegInt n => scalar (45 :: dec n) 1 s
  | EInt z => if (0 <=? z)%Z then scalar (dec (Z.to_N z)) 0 s
              else scalar (45 :: dec (Z.to_N (- z) mod 2 ^ 64)) 1 s
  | EBigInt None => scalar t_null 4 s
  | EBigInt (Some z) => let t := (if (z <? 0)%Z then [45] else []) ++ dec (Z.abs_N z) in scalar t (zlen t) s
  | EFloat b => let (t, d) := write_float b in scalar t d s
  | EBigFloat None => scalar t_null 4 s
  | EBigFloat (Some (BInf neg)) => if neg then scalar t_ninf 4 s else scalar t_inf 3 s
  | EBigFloat (Some (BFin neg m _ _)) =>
      if m =? 0 then scalar (if neg then [45; 48] else [48]) 0 s
      else match lookup_text (cf_text c) e with
           | Some t => let t := bigfloat_strip t in scalar t (zlen t) s
           | None => None
           end
  | EDecimal d =>
      match dfloat_special d with
      | Some t => scalar t (zlen t) s
      | None => match lookup_text (cf_text c) e with Some t => scalar t (zlen t) s | None => None end
      end
  | EBigDecimal None => scalar t_null 4 s
  | EBigDecimal (Some d) =>
      match dfloat_special d with
      | Some t => scalar t (zlen t) s
      | None => match lookup_text (cf_text c) e with Some t => scalar t (zlen t) s | None => None end
      end
  | ENan sig => if sig then scalar t_snan 4 s else scalar t_nan 3 s
  | EUid u => if (length u =? 16)%nat then scalar (uid_text u) 4 s else None
  | ETime t => scalar t (time_cd 0 t) s
  | EList => open_container true [91] DList s
  | EMap => open_container true [123] DMapKey s
  | ERecordType id => open_container true (64 :: id ++ [60]) DRecordType s
  | ERecord id => open_container true (64 :: id ++ [123]) DRecord s
  | EEdge => open_container true [64; 40] DEdge s
  | ENode => open_container false [40] DNodeValue s
  | EEnd => end_container s
  | EMarker id => bind (before_value s) (fun s => Some (push DConcat (emit_nolf (38 :: id ++ [58]) s)))
  | ERefLocal id => let t := 36 :: id in scalar t (zlen t) s
  | EArray t n data =>
      bind (before_value s) (fun s =>
      bind (if t =? AT_String then Some (write_quoted true data s)
            else if t =? AT_ResourceID then Some (write_quoted false data (emit_nolf [64] s))
            else if t =? AT_ReferenceRemote then Some (write_quoted false data (emit_nolf [36] s))
            else bind (engine_begin_array c t ONone s) (fun s =>
                 bind (begin_chunk n false s) (fun s =>
                 if 0 <? n then add_data c data s else Some s)))
           after_value)
  | EStringArray t data =>
      bind (before_value s) (fun s =>
      bind (if t =? AT_String then Some (write_quoted true data s)
            else if t =? AT_ResourceID then Some (write_quoted false data (emit_nolf [64] s))
            else if t =? AT_ReferenceRemote then Some (write_quoted false data (emit_nolf [36] s))
            else None)
           after_value)
  | EMedia mt data =>
      bind (before_value s) (fun s =>
      after_value (emit_nolf [93] (emit_raw (hexbytes data) (emit_nolf (64 :: mt ++ [91]) (set_dirty s)))))
  | ECustomBin ct data =>
      bind (before_value s) (fun s =>
      after_value (emit_nolf [93] (emit_raw (hexbytes data) (emit_nolf (64 :: dec ct ++ [91]) (set_dirty s)))))
  | ECustomText ct data =>
      bind (before_value s) (fun s =>
      after_value (write_quoted true data (emit_nolf (64 :: dec ct) s)))
  | EArrayBegin t => bind (before_value s) (ctx_begin_array c t)
  | EMediaBegin mt =>
      bind (before_value s) (fun s =>
      Some (emit_nolf (64 :: mt ++ [91]) (upd_en (eng_begin KHex CEnd OUnstackAfter) (set_dirty (push DNSArray s)))))
  | ECustomBegin t ct =>
      bind (before_value s) (fun s =>
      if t =? AT_CustomBinary
      then Some (emit_nolf (64 :: dec ct ++ [91]) (upd_en (eng_begin KHex CEnd OUnstackAfter) (set_dirty (push DNSArray s))))
      else if t =? AT_CustomText
      then Some (emit_nolf (64 :: dec ct) (upd_en (eng_begin KStr (CQuoted true) OAfter) s))
      else None)
  | EArrayChunk n more => begin_chunk n more s
  | EArrayData d => add_data c d s
  end.

Fixpoint run (c : ccfg) (s : est) (es : list event) : option est :=
  match es with
  | [] => Some s
  | e :: r => bind (step c s e) (fun s => run c s r)
  end.

Definition out_of (s : est) : bytes := rev (rout s).

(* The text of a fresh encoder fed [es]; [None] when a call panics. *)
Definition cte_encode (c : ccfg) (es : list event) : option bytes :=
  match run c est0 es with Some s => Some (out_of s) | None => None end.

(* No IsAtOrigin test was made while Column depended on how a media /
   custom-binary array had been split. *)
Definition col_clean (c : ccfg) (es : list event) : bool :=
  match run c est0 es with Some s => negb (bad s) | None => true end.

(* ------------------------------------------------------------------ *)
(** * Vocabulary of the property: the deliveries of one array

   An array reaches the encoder either as one whole-array event or as a begin
   event followed by chunks, each chunk header followed by data events whose
   bytes add up to the chunk.  [delivery h d g]: the events [g] deliver the
   array with header [h] and contents [d].  [chunk_equiv a b]: the streams [a]
   and [b] consist of the same plain events and, in the same places, of
   deliveries of the same arrays.  With [strict = true] the data events of a
   media / custom-binary array must be non-empty (finding
   C23/chunking/hex-array-empty-data-event); [strict = false] is the property as
   stated. *)

Inductive ahead := HArr (t : N) | HMedia (mt : bytes) | HCustom (t : N) (ct : N).
Inductive adata := ABytes (b : bytes) | ABits (l : list bool).

Definition is_text_type (t : N) : bool := (t =? AT_String) || (t =? AT_ResourceID) || (t =? AT_ReferenceRemote).

Definition hkind (h : ahead) : option akind :=
  match h with
  | HArr t => if t =? AT_Bit then Some KBit
              else if is_text_type t then Some KStr
              else match nkind_of t with Some k => Some (KNum k) | None => None end
  | HMedia _ => Some KHex
  | HCustom t _ => if t =? AT_CustomBinary then Some KHex else if t =? AT_CustomText then Some KStr else None
  end.

Definition begin_event (h : ahead) : event :=
  match h with HArr t => EArrayBegin t | HMedia mt => EMediaBegin mt | HCustom t ct => ECustomBegin t ct end.

(* element count, more-chunks-follow flag, data events *)
Definition chunk := (N * bool * list bytes)%type.
Definition chunk_events (c : chunk) : list event :=
  let '(n, more, ds) := c in EArrayChunk n more :: map EArrayData ds.
Definition chunks_events (cs : list chunk) : list event := flat_map chunk_events cs.

Definition byte_bits (b : N) : list bool := map (fun i => N.testbit b (N.of_nat i)) (seq 0 8).
Definition bytes_bits (d : bytes) : list bool := flat_map byte_bits d.

Definition chunk_bytes (k : akind) (n : N) : nat :=
  match k with KBit => N.to_nat ((n + 7) / 8) | _ => (N.to_nat n * ak_width k)%nat end.

Definition chunk_wf (strict : bool) (k : akind) (c : chunk) : Prop :=
  let '(n, _, ds) := c in
  n < 2 ^ 64 /\
  (n = 0 -> ds = []) /\
  (0 < n -> ds <> [] /\ last ds [] <> [] /\ length (concat ds) = chunk_bytes k n) /\
  (strict = true -> k = KHex -> Forall (fun d => d <> []) ds).

Fixpoint chunks_wf (strict : bool) (k : akind) (cs : list chunk) : Prop :=
  match cs with
  | [] => False
  | c :: r => chunk_wf strict k c /\
              match r with
              | [] => snd (fst c) = false
              | _ => snd (fst c) = true /\ chunks_wf strict k r
              end
  end.

Definition chunk_bits (c : chunk) : list bool :=
  let '(n, _, ds) := c in firstn (N.to_nat n) (bytes_bits (concat ds)).
Definition chunk_payload (c : chunk) : bytes := concat (snd c).

Definition chunks_data (k : akind) (cs : list chunk) : adata :=
  match k with
  | KBit => ABits (flat_map chunk_bits cs)
  | _ => ABytes (flat_map chunk_payload cs)
  end.

Inductive delivery (strict : bool) : ahead -> adata -> list event -> Prop :=
| dl_chunked h k cs :
    hkind h = Some k -> chunks_wf strict k cs ->
    delivery strict h (chunks_data k cs) (begin_event h :: chunks_events cs)
| dl_array_num t k n d :
    nkind_of t = Some k -> n < 2 ^ 64 -> length d = (N.to_nat n * nk_width k)%nat ->
    delivery strict (HArr t) (ABytes d) [EArray t n d]
| dl_array_bit n d :
    n < 2 ^ 64 -> length d = N.to_nat ((n + 7) / 8) ->
    delivery strict (HArr AT_Bit) (ABits (firstn (N.to_nat n) (bytes_bits d))) [EArray AT_Bit n d]
| dl_array_text t n d :
    is_text_type t = true -> delivery strict (HArr t) (ABytes d) [EArray t n d]
| dl_string_array t d :
    is_text_type t = true -> delivery strict (HArr t) (ABytes d) [EStringArray t d]
| dl_media mt d : delivery strict (HMedia mt) (ABytes d) [EMedia mt d]
| dl_custom_bin ct d : delivery strict (HCustom AT_CustomBinary ct) (ABytes d) [ECustomBin ct d]
| dl_custom_text ct d : delivery strict (HCustom AT_CustomText ct) (ABytes d) [ECustomText ct d].

(* every event that is not part of an array delivery *)
Definition plain_event (e : event) : bool :=
  match e with
  | EArray _ _ _ | EStringArray _ _ | EMedia _ _ | ECustomBin _ _ | ECustomText _ _
  | EArrayBegin _ | EMediaBegin _ | ECustomBegin _ _ | EArrayChunk _ _ | EArrayData _ => false
  | _ => true
  end.

Inductive chunk_equiv (strict : bool) : list event -> list event -> Prop :=
| ce_nil : chunk_equiv strict [] []
| ce_plain e a b : plain_event e = true -> chunk_equiv strict a b -> chunk_equiv strict (e :: a) (e :: b)
| ce_array h d g1 g2 a b :
    delivery strict h d g1 -> delivery strict h d g2 -> chunk_equiv strict a b ->
    chunk_equiv strict (g1 ++ a) (g2 ++ b).

(* ------------------------------------------------------------------ *)
(** * Correspondence cases *)

(* [impl]: what ce.NewCTEEncoder wrote for [es] ([None]: a call panicked).
   [valid]: the stream was accepted by the rules validator; for such streams the
   run must also be [col_clean]. *)
Inductive cteenc_case :=
| CteEncCase (c : ccfg) (es : list event) (impl : option bytes) (valid : bool).

Definition cteenc_case_ok (x : cteenc_case) : bool :=
  match x with
  | CteEncCase c es impl valid =>
      option_eqb bytes_eqb (cte_encode c es) impl && (negb valid || col_clean c es)
  end.
